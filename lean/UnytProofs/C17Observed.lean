/-
  C17 — kernel-checked agreement of the model with the outcome tables observed on the live
  library (regenerated on every run by tools/extract.d/c17_dtype.py), and the property stated
  directly on those observed outcomes.  Split from `UnytProofs/C17.lean` so that the two modules
  build in parallel.  Property statements only.
-/
import UnytModel.Dtype
import UnytModel.Convert
import UnytModel.Ref.C17
import UnytModel.Generated.DtypeTables
import UnytProofs.Lemmas.C17

set_option linter.unusedSectionVars false
set_option linter.unusedVariables false
set_option linter.unusedSimpArgs false

namespace Unyt.C17Obs
open Unyt Unyt.Generated Unyt.Ref.C17
open Unyt.C17L (decEqExcept)
attribute [local instance] Unyt.C17L.decEqExcept

/-- the model is run and proved about with the regenerated parameters -/
abbrev N : NumpyFacts := liveNumpy
abbrev P : DtypeRules := liveRules


def eqOutO : Except Err Dtype → Except Err Dtype → Bool
  | .ok a, .ok b => a == b
  | .error a, .error b => a == b
  | _, _ => false

/-! ## the model agrees with the live library on the whole finite domain -/

/-- every (route, dtype, scalar/array) outcome observed on the live library — result dtype or
    exception class — is the model's -/
theorem model_matches_observed_routes :
    observedRoutes.all (fun (r, d, q, o) => eqOutO (routeDtype N P r d q) o) = true := by
  decide +kernel

/-- every observed outcome of `np.add(x[d0] m, y[d1] km)` is the model's -/
theorem model_matches_observed_binary :
    observedBinary.all (fun (a, b, o) => eqOutO (binaryResultDtype N P a b true false) o) = true := by
  decide +kernel

/-- every observed outcome of `np.add(x m, y km, out=buf[o])` is the model's -/
theorem model_matches_observed_out :
    observedOut.all (fun (o, r) => eqOutO (binaryOutDtype N P float64 float64 o true) r) = true := by
  decide +kernel

/-- the observed tables cover the whole domain (nothing was dropped by the translator) -/
theorem observed_tables_cover_domain :
    (Route.all.all fun r => N.dtypes.all fun d => [false, true].all fun q =>
        observedRoutes.any fun (r', d', q', _) => r' == r && d' == d && q' == q) = true
    ∧ (N.dtypes.all fun a => N.dtypes.all fun b =>
        observedBinary.any fun (a', b', _) => a' == a && b' == b) = true
    ∧ (N.dtypes.all fun o => observedOut.any fun (o', _) => o' == o) = true := by
  decide +kernel

/-- stated directly on the outcomes observed on the live library (no model involved): outside the
    excluded cells every observed conversion outcome is acceptable to the reference, and every
    observed mixed-unit `np.add` whose second operand is not a 1-byte integer returned float or
    complex data — complex exactly when one of the operands is complex — with components at least as
    wide as the converted operand's; `to_value` on a quantity (a Python scalar) is included -/
theorem observed_outcomes_satisfy_property :
    observedRoutes.all (fun (r, d, q, o) =>
        d.kind == .b || knownExcluded r d q ||
          (if r == .toValue && q then
             -- a Python scalar: recorded as float64 / complex128; fine when the required type fits
             (mayRaise d && (match o with | .error _ => true | .ok _ => false)) ||
             (eqOutO o (.ok ⟨.f, 8⟩) && (expectedDtype d).kind == .f && decide ((expectedDtype d).size ≤ 8)) ||
             (eqOutO o (.ok ⟨.c, 16⟩) && (expectedDtype d).kind == .c && decide ((expectedDtype d).size ≤ 16))
           else acceptable d o)) = true
    ∧ observedBinary.all (fun (a, b, o) =>
        a.kind == .b || b.kind == .b || mayRaise b ||
          (match o with
           | .ok r => (r.kind == .f || r.kind == .c) && ((r.kind == .c) == (a.kind == .c || b.kind == .c))
                        && decide (max 2 b.compSize ≤ r.compSize)
           | .error _ => false)) = true := by
  decide +kernel

end Unyt.C17Obs
