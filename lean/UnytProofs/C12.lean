/-
  C12 — registry edits take effect everywhere, immediately, regardless of history.

  The machine `RegC12.step cfg` (UnytModel/RegistryC12.lean) models `UnitRegistry` and the
  string → `Unit` path with its three memo layers (string cache, derived entries written back
  into the table, id memo); `cfg` says which layers an edit invalidates and is regenerated from
  the live source as `Generated.registryCfg`.  `contents t0 h` is the symbol table computed from
  the history `h`; `fresh c` a new registry holding exactly `c`.

  * `C12_resolution_full` (a THEOREM since the `fix:` commits, about the live configuration): after
    ANY history every call except `unit_system_id` — every construction from a string, `in`, `[]`,
    and whether an edit is accepted — answers like the fresh registry with the current contents.
  * `C12_full` — the same including `unit_system_id` (still false: the id covers the written-back
    entries, a kept finding).
  * `C12_full_iff_repaired` — it holds exactly when the live configuration is the repaired one;
    `refines_fresh_repaired` is the full-strength theorem for the repaired machine,
    `C12_counterexample_*` the concrete failing histories of the present code.
  * `refines_fresh_partial` — for ANY configuration, on every history whose steps pass the
    decidable guard `opSafe` (an edit meets no residue of earlier look-ups that it fails to
    invalidate).
  All theorems are for every carrier `K` (so in particular for the `Float` instance the driver
  runs), every prefix table, every parser (an arbitrary function of the string) and every
  initial table.
-/
import UnytProofs.Lemmas.C12Sim
import UnytProofs.Lemmas.C12Setup
import UnytProofs.Lemmas.C12Conv
import UnytProofs.Lemmas.C12Core
import UnytProofs.Lemmas.C12Witness
import UnytModel.Generated.RegistryC12Cfg

set_option linter.unusedSectionVars false
set_option linter.unusedVariables false

namespace Unyt.C12
open Unyt Unyt.RegC12

/-- the property for the machine with configuration `cfg`: after every history `h` from a fresh
    registry with table `t0`, every call `op` answers like the fresh registry whose table is the
    contents implied by `h` -/
def FullAt (cfg : Cfg) : Prop :=
  ∀ (K : Type) [Mul K] [OfNat K 1] [OfNat K 0] [RPow K] (pre : Prefixes K)
    (parse : String → Except Err (PExpr K)) (t0 : Lut K) (h : List (Op K)) (op : Op K),
    Out.Sim (step cfg pre parse (run cfg pre parse (fresh t0) h) op).2
            (step cfg pre parse (fresh (contents t0 h)) op).2

/-- C12 at full strength for the code as it is now (`Generated.registryCfg` is regenerated from
    the live source on every run) -/
def C12_full : Prop := FullAt Generated.registryCfg

/-- the same for every call except `unit_system_id`: what units resolve to, what `in`/`[]` answer
    and which edits are accepted -/
def FullExceptId (cfg : Cfg) : Prop :=
  ∀ (K : Type) [Mul K] [OfNat K 1] [OfNat K 0] [RPow K] (pre : Prefixes K)
    (parse : String → Except Err (PExpr K)) (t0 : Lut K) (h : List (Op K)) (op : Op K),
    op.isSysId = false →
    Out.Sim (step cfg pre parse (run cfg pre parse (fresh t0) h) op).2
            (step cfg pre parse (fresh (contents t0 h)) op).2

section general
variable {K : Type} [Mul K] [OfNat K 1] [OfNat K 0] [RPow K]
variable (cfg : Cfg) (pre : Prefixes K) (parse : String → Except Err (PExpr K))

/-- the invariant, by induction over arbitrary operation lists: on every history whose steps pass
    the guard, the concrete state is coherent with the contents computed from the history — the
    table is the contents plus derived entries that resolve as the contents do, every cached
    object is what the contents denote for its string, a valid id memo is a snapshot of the
    contents -/
theorem invariant_on_safe_histories (t0 : Lut K) (h : List (Op K))
    (hs : safeRun cfg pre parse (fresh t0) h = true) :
    Coherent pre parse (contents t0 h) (run cfg pre parse (fresh t0) h) :=
  run_coherent cfg pre parse h t0 (fresh t0) (coherent_fresh pre parse t0) hs

/-- `refines_fresh`, guarded: for ANY configuration (the present code included), after a history
    whose steps all pass `opSafe`, a call that passes `opSafe` answers like the fresh registry -/
theorem refines_fresh_partial (t0 : Lut K) (h : List (Op K)) (op : Op K)
    (hs : safeRun cfg pre parse (fresh t0) h = true)
    (ho : opSafe cfg parse (run cfg pre parse (fresh t0) h) op = true) :
    Out.Sim (step cfg pre parse (run cfg pre parse (fresh t0) h) op).2
            (step cfg pre parse (fresh (contents t0 h)) op).2 :=
  step_sim cfg pre parse _ _ (invariant_on_safe_histories cfg pre parse t0 h hs) op ho

/-- the table/cache part of the invariant needs only the guard of the *edits*: `unit_system_id`
    calls interleaved anywhere do not disturb it -/
theorem invariant_core_on_safe_histories (t0 : Lut K) (h : List (Op K))
    (hs : safeRunCore cfg pre parse (fresh t0) h = true) :
    Coherent pre parse (contents t0 h) (strip (run cfg pre parse (fresh t0) h)) :=
  run_coherent_core cfg pre parse h t0 (fresh t0) (coherent_fresh pre parse t0) hs

/-- `refines_fresh` for everything but the id, under the guard of the edits only -/
theorem refines_fresh_partial_core (t0 : Lut K) (h : List (Op K)) (op : Op K)
    (hs : safeRunCore cfg pre parse (fresh t0) h = true) (hid : op.isSysId = false)
    (ho : opSafe cfg parse (run cfg pre parse (fresh t0) h) op = true) :
    Out.Sim (step cfg pre parse (run cfg pre parse (fresh t0) h) op).2
            (step cfg pre parse (fresh (contents t0 h)) op).2 :=
  step_sim_core cfg pre parse _ _ (invariant_core_on_safe_histories cfg pre parse t0 h hs) op hid ho

/-- look-ups never need the guard: constructing units, `in`, `[]` are always safe steps -/
theorem lookups_always_safe (s : RegState K) (q : String) :
    opSafe cfg parse s (.unit q) = true ∧ opSafe cfg parse s (.contains q) = true ∧
    opSafe cfg parse s (.getitem q) = true := ⟨rfl, rfl, rfl⟩

/-- a readable class of histories inside the guard, for ANY configuration (so for the present
    code): first edit (any `add`/`modify`/`remove`, in any number and order), then only look
    things up.  Then every construction, `in` and `[]` answers like the fresh registry. -/
theorem refines_fresh_setup_then_use (t0 : Lut K) (e l : List (Op K))
    (he : ∀ o ∈ e, Op.isEdit o = true) (hl : ∀ o ∈ l, Op.isLookup o = true)
    (op : Op K) (ho : Op.isLookup op = true) :
    Out.Sim (step cfg pre parse (run cfg pre parse (fresh t0) (e ++ l)) op).2
            (step cfg pre parse (fresh (contents t0 (e ++ l))) op).2 := by
  apply refines_fresh_partial cfg pre parse t0 (e ++ l) op
    (safeRun_edits_then_lookups cfg pre parse e l he hl (fresh t0) (clean_fresh t0))
  cases op <;> first | rfl | simp [Op.isLookup] at ho

/-- `old_units_keep_value`: a `Unit` object that exists after a history `h` (heap cell `i`) has
    the same data after any continuation `h'` — for every configuration and every history -/
theorem old_units_keep_value (s0 : RegState K) (h h' : List (Op K)) (i : Nat) (u : UnitD K)
    (hi : (run cfg pre parse s0 h).objs[i]? = some u) :
    (run cfg pre parse s0 (h ++ h')).objs[i]? = some u := by
  rw [run_append]
  obtain ⟨l, hl⟩ := run_objs cfg pre parse h' (run cfg pre parse s0 h)
  rw [hl]
  have hlt : i < (run cfg pre parse s0 h).objs.length := by
    rcases Nat.lt_or_ge i (run cfg pre parse s0 h).objs.length with h1 | h1
    · exact h1
    · rw [List.getElem?_eq_none h1] at hi; contradiction
  rw [List.getElem?_append_left hlt]; exact hi

/-- the object a construction returns is a cell of the heap (so `old_units_keep_value` is about
    exactly the objects the caller holds) -/
theorem unit_result_in_heap (s : RegState K) (q : String) (i : Nat) (u : UnitD K)
    (h : (step cfg pre parse s (.unit q)).2 = .unit i u) :
    (step cfg pre parse s (.unit q)).1.objs[i]? = some u := by
  cases hcf : cfind s.cache q with
  | some j =>
    simp only [step, hcf] at h ⊢
    cases hv : s.objs[j]? with
    | none => simp [hv] at h
    | some v =>
      simp only [hv, Out.unit.injEq] at h ⊢
      obtain ⟨rfl, rfl⟩ := h
      exact hv
  | none =>
    simp only [step, hcf] at h ⊢
    cases hp : parse q with
    | error e => simp [hp] at h
    | ok ex =>
      simp only [hp] at h ⊢
      generalize evalExpr pre s.lut s.derived ex = r at h ⊢
      obtain ⟨t', D', r⟩ := r
      cases r with
      | none => dsimp only at h; cases h
      | some v =>
        dsimp only at h ⊢
        simp only [Out.unit.injEq] at h
        obtain ⟨rfl, rfl⟩ := h
        simp

end general

/-! ### using objects that outlived an edit -/

section conversion
variable {K : Type} [Add K] [Sub K] [Mul K] [Div K] [OfNat K 0] [OfNat K 1] [BEq K] [RPow K]
variable (cfg : Cfg) (pre : Prefixes K) (parse : String → Except Err (PExpr K))

/-- what two `Unit` objects without offset do to each other — `get_conversion_factor`, hence `to`,
    `in_units`, `convert_to_units` and the rescale inside `+ - < ==` — is decided by the data the two
    objects carry: the ratio of their stored scales, or `UnitConversionError` when their stored
    dimensions differ.  It does not depend on the registry's state (table, caches, memo), on the
    registry's identity, or on how the two units are spelled (`ei`, `ej` arbitrary) -/
theorem heap_conversion_by_stored_data (s : RegState K) (i j : Nat) (ei ej : UExpr K)
    (a b : UnitD K) (hi : s.objs[i]? = some a) (hj : s.objs[j]? = some b)
    (ha : (a.offset == 0) = true) (hb : (b.offset == 0) = true) :
    heapConv pre s i j ei ej =
      if a.dim != b.dim then .error .UnitConversionError else .ok (a.scale / b.scale, none) := by
  simp only [heapConv, hi, hj]
  exact getConversionFactor_offset_free pre s.lut _ _ ha hb

/-- `old_units_keep_value`, used: two objects that exist after a history `h` convert into each other
    after ANY continuation `h'` (edits of their symbols included) exactly as they did before — a
    pre-edit object is never re-read at the post-edit scale of a unit with the same name -/
theorem old_units_convert_as_before (s0 : RegState K) (h h' : List (Op K)) (i j : Nat)
    (ei ej ei' ej' : UExpr K) (a b : UnitD K)
    (hi : (run cfg pre parse s0 h).objs[i]? = some a) (hj : (run cfg pre parse s0 h).objs[j]? = some b)
    (ha : (a.offset == 0) = true) (hb : (b.offset == 0) = true) :
    heapConv pre (run cfg pre parse s0 (h ++ h')) i j ei' ej' =
      heapConv pre (run cfg pre parse s0 h) i j ei ej := by
  rw [heap_conversion_by_stored_data pre _ i j ei' ej' a b
        (old_units_keep_value cfg pre parse s0 h h' i a hi)
        (old_units_keep_value cfg pre parse s0 h h' j b hj) ha hb,
      heap_conversion_by_stored_data pre _ i j ei ej a b hi hj ha hb]

/-- with offsets (temperature scales) `_get_conversion_factor` consults the table through
    `_split_prefix` only; in a state coherent with the contents `c` that is the same as consulting
    `c`: the string cache, the written-back entries and the id memo have no influence -/
theorem conversion_independent_of_memo_layers (c : Lut K) (s : RegState K)
    (h : Coherent pre parse c s) (u v : UnitV K) :
    getConversionFactor pre s.lut u v = getConversionFactor pre c u v :=
  getConversionFactor_refines pre c s.lut s.derived h.lut u v

end conversion

/-! ### the repaired machine: full strength -/

/-- `refines_fresh` at full strength for the repaired machine (every edit clears the string
    cache and purges the derived entries, the id skips derived entries, `modify` resets the memo
    last): after EVERY history every call answers like the fresh registry -/
theorem refines_fresh_repaired : FullAt Cfg.repaired := by
  intro K _ _ _ _ pre parse t0 h op
  have hs := safeRun_repaired pre parse h (fresh t0) rfl
  have hst : (run Cfg.repaired pre parse (fresh t0) h).memoStale = false := by
    have : ∀ (l : List (Op K)) (s : RegState K), s.memoStale = false →
        (run Cfg.repaired pre parse s l).memoStale = false := by
      intro l
      induction l with
      | nil => intro s hs; exact hs
      | cons o r ih => intro s hs; rw [run_cons]; exact ih _ (step_memoStale_repaired pre parse s o hs)
    exact this h _ rfl
  exact refines_fresh_partial Cfg.repaired pre parse t0 h op hs (opSafe_repaired parse _ op hst)

/-- `refines_fresh` at full strength, for every call but `unit_system_id`, for EVERY machine whose
    edits purge the derived entries and empty the string cache (whatever the id does): after every
    history, every construction from a string, `in`, `[]` and the acceptance of every edit are those
    of the fresh registry holding the current contents -/
theorem refines_fresh_invalidating (cfg : Cfg) (hc : cfg.clearCache = true)
    (hp : cfg.purgeDerived = true) : FullExceptId cfg := by
  intro K _ _ _ _ pre parse t0 h op hid
  exact refines_fresh_partial_core cfg pre parse t0 h op
    (safeRunCore_invalidating cfg pre parse hc hp h (fresh t0)) hid
    (opSafe_invalidating cfg parse hc hp _ op hid)

/-- the invariant holds in every reachable state of the repaired machine -/
theorem invariant_repaired {K : Type} [Mul K] [OfNat K 1] [OfNat K 0] [RPow K]
    (pre : Prefixes K) (parse : String → Except Err (PExpr K)) (t0 : Lut K) (h : List (Op K)) :
    Coherent pre parse (contents t0 h) (run Cfg.repaired pre parse (fresh t0) h) :=
  invariant_on_safe_histories Cfg.repaired pre parse t0 h (safeRun_repaired pre parse h (fresh t0) rfl)

/-! ### removed symbols -/

section removed
variable {K : Type} [Mul K] [OfNat K 1] [OfNat K 0] [RPow K]
variable (cfg : Cfg) (pre : Prefixes K) (parse : String → Except Err (PExpr K))

/-- after `remove sym` the contents have no entry for `sym` (whether or not the call succeeded) -/
theorem removed_symbol_not_in_contents (t0 : Lut K) (h : List (Op K)) (sym : String) :
    (contents t0 (h ++ [.remove sym])).find? sym = none := by
  rw [contents_append]
  simp only [contents, List.foldl_cons, List.foldl_nil, specStep]
  cases hf : Lut.find? (List.foldl specStep t0 h) sym with
  | none => simpa using hf
  | some e => simp [Lut.find?_erase]

/-- a spelling of `sym`: the symbol itself, or a string that splits as prefix + `sym` and is not
    a symbol of the contents in its own right -/
def Spells (c : Lut K) (sym x : String) : Prop :=
  x = sym ∨ (c.find? x = none ∧ ∃ p, splitCandidate x = some (p, sym))

/-- the expression mentions a spelling of `sym` -/
def Mentions (c : Lut K) (sym : String) : PExpr K → Prop
  | .atom x => Spells c sym x
  | .prod _ fs => ∃ p, p ∈ fs ∧ Spells c sym p.1

theorem spelling_unresolved (c : Lut K) (sym x : String) (hn : resolve pre c sym = none)
    (hx : Spells c sym x) : resolve pre c x = none := by
  rcases hx with rfl | ⟨hfx, p, hsp⟩
  · exact hn
  · have hcs : c.find? sym = none := by
      cases hf : c.find? sym with
      | none => rfl
      | some e => simp [resolve, lookupUnitSymbol, hf] at hn
    have : splitPrefix pre c x = ("", x) := by
      simp only [splitPrefix, hsp, hcs]
      cases pre.find? p <;> rfl
    simp [resolve, lookupUnitSymbol, hfx, this]

theorem mentions_unresolved (c : Lut K) (sym : String) (hn : resolve pre c sym = none)
    (ex : PExpr K) (hm : Mentions c sym ex) : pureEval pre c ex = none := by
  cases ex with
  | atom x => simp only [pureEval, spelling_unresolved pre c sym x hn hm]
  | prod co fs =>
    obtain ⟨p, hp, hsp⟩ := hm
    have : denoteF pre c fs = none := by
      induction fs with
      | nil => simp at hp
      | cons a rest ih =>
        obtain ⟨s, q⟩ := a
        simp only [denoteF]
        rcases List.mem_cons.mp hp with rfl | hin
        · simp only [spelling_unresolved pre c sym _ hn hsp]
        · cases resolve pre c s with
          | none => rfl
          | some ent => simp only [ih hin]
    simp only [pureEval, this]

/-- `removed_symbol_unknown_in_every_spelling`: after a history ending in `remove sym` whose
    EDITS pass the guard (`safeRunCore`: `unit_system_id` may be asked anywhere; for the live
    configuration every history qualifies, see `removed_symbol_unknown_live`), provided `sym` is not
    re-derivable as a prefixed form of another symbol (`hnd`: e.g. `km` stays derivable from `m` after
    `remove km`), every string that parses to an expression mentioning `sym` or prefix + `sym` is
    refused with `UnitParseError`, and `in` answers `False` for every spelling -/
theorem removed_symbol_unknown_in_every_spelling (t0 : Lut K) (h : List (Op K)) (sym : String)
    (hs : safeRunCore cfg pre parse (fresh t0) (h ++ [.remove sym]) = true)
    (hnd : resolve pre (contents t0 (h ++ [.remove sym])) sym = none) :
    (∀ q ex, parse q = .ok ex → Mentions (contents t0 (h ++ [.remove sym])) sym ex →
      (step cfg pre parse (run cfg pre parse (fresh t0) (h ++ [.remove sym])) (.unit q)).2
        = .err .UnitParseError) ∧
    (∀ x, Spells (contents t0 (h ++ [.remove sym])) sym x →
      (step cfg pre parse (run cfg pre parse (fresh t0) (h ++ [.remove sym])) (.contains x)).2
        = .bool false) := by
  have hinv := invariant_core_on_safe_histories cfg pre parse t0 _ hs
  constructor
  · intro q ex hp hm
    have hsim := step_sim_core cfg pre parse _ _ hinv (.unit q) rfl rfl
    rw [fresh_unit, hp] at hsim
    simp only [mentions_unresolved pre _ sym hnd ex hm] at hsim
    generalize (step cfg pre parse (run cfg pre parse (fresh t0) (h ++ [.remove sym])) (.unit q)).2 = o at hsim
    cases o <;> simp only [Out.Sim] at hsim
    rw [hsim]
  · intro x hx
    have hsim := step_sim_core cfg pre parse _ _ hinv (.contains x) rfl rfl
    have hfr : (step cfg pre parse (fresh (contents t0 (h ++ [.remove sym]))) (.contains x)).2
        = .bool false := by
      have g3 := fresh_lookupW pre (contents t0 (h ++ [.remove sym])) x
      rw [spelling_unresolved pre _ sym x hnd hx] at g3
      simp only [step, fresh]
      rcases he' : lookupW pre (contents t0 (h ++ [.remove sym])) [] x with ⟨t'', D'', r'⟩
      rw [he'] at g3
      simp only [] at g3
      subst g3
      rw [he']
    rw [hfr] at hsim
    generalize (step cfg pre parse (run cfg pre parse (fresh t0) (h ++ [.remove sym])) (.contains x)).2 = o at hsim
    cases o <;> simp only [Out.Sim] at hsim
    rw [hsim]

/-- for every machine whose edits invalidate both layers the guard is vacuous: after EVERY history
    ending in `remove sym` -/
theorem removed_symbol_unknown_invalidating (hc : cfg.clearCache = true) (hp' : cfg.purgeDerived = true)
    (t0 : Lut K) (h : List (Op K)) (sym : String)
    (hnd : resolve pre (contents t0 (h ++ [.remove sym])) sym = none) :
    (∀ q ex, parse q = .ok ex → Mentions (contents t0 (h ++ [.remove sym])) sym ex →
      (step cfg pre parse (run cfg pre parse (fresh t0) (h ++ [.remove sym])) (.unit q)).2
        = .err .UnitParseError) ∧
    (∀ x, Spells (contents t0 (h ++ [.remove sym])) sym x →
      (step cfg pre parse (run cfg pre parse (fresh t0) (h ++ [.remove sym])) (.contains x)).2
        = .bool false) :=
  removed_symbol_unknown_in_every_spelling cfg pre parse t0 h sym
    (safeRunCore_invalidating cfg pre parse hc hp' _ (fresh t0)) hnd

end removed

/-! ### the present code: counterexamples (witnesses in `Lemmas/C12Witness.lean`, replayed on the
    real library by the harness on every run) -/

open Witness in
/-- `r.add("foo", 2.0, length, prefixable=True); Unit("kfoo", registry=r); r.modify("foo", 3.0)`:
    `Unit("kfoo", registry=r)` is still 2000 m, the fresh registry says 3000 m -/
theorem C12_counterexample_modify_prefixed :
    got Cfg.asIs hModify (.unit "kfoo") = .unit 0 ⟨2000, 0, Dim.dLength⟩ ∧
    want Cfg.asIs hModify (.unit "kfoo") = .unit 0 ⟨3000, 0, Dim.dLength⟩ := by decide +kernel

open Witness in
/-- …`r.remove("foo")`: `Unit("kfoo", registry=r)` still resolves, the fresh registry refuses -/
theorem C12_counterexample_remove_prefixed :
    got Cfg.asIs hRemove (.unit "kfoo") = .unit 0 ⟨2000, 0, Dim.dLength⟩ ∧
    want Cfg.asIs hRemove (.unit "kfoo") = .err .UnitParseError := by decide +kernel

open Witness in
/-- `Unit("foo*s", registry=r); r.modify("foo", 3.0)`: the compound string keeps the old scale -/
theorem C12_counterexample_modify_compound :
    got Cfg.asIs hCompound (.unit "foo*s") = .unit 0 ⟨2, 0, Dim.dLength * Dim.dTime⟩ ∧
    want Cfg.asIs hCompound (.unit "foo*s") = .unit 0 ⟨3, 0, Dim.dLength * Dim.dTime⟩ := by
  decide +kernel

open Witness in
/-- `Unit("foo", registry=r); r.add("foo", 5.0, time)`: re-adding does not invalidate the cached
    atomic symbol -/
theorem C12_counterexample_readd_atomic :
    got Cfg.asIs hReAdd (.unit "foo") = .unit 0 ⟨2, 0, Dim.dLength⟩ ∧
    want Cfg.asIs hReAdd (.unit "foo") = .unit 0 ⟨5, 0, Dim.dTime⟩ := by decide +kernel

open Witness in
/-- after a look-up of a prefixed symbol `r.modify("kfoo", 7.0)` succeeds, although the contents
    have no symbol `kfoo` (the fresh registry raises `SymbolNotFoundError`) -/
theorem C12_counterexample_edit_of_derived_key :
    got Cfg.asIs hLookup (.modifyF "kfoo" 7) = .done ∧
    want Cfg.asIs hLookup (.modifyF "kfoo" 7) = .err .SymbolNotFoundError := by decide +kernel

open Witness in
/-- `unit_system_id` covers the written-back entry `kfoo`: it depends on which prefixed units
    were looked up before -/
theorem C12_counterexample_id_lookup_history :
    simB (got Cfg.asIs hLookup .sysId) (want Cfg.asIs hLookup .sysId) = false := by decide +kernel

open Witness in
/-- after `r.modify("foo", q)` with `q` a quantity of `r`, `unit_system_id` is the id of the
    table BEFORE the modification -/
theorem C12_counterexample_id_stale_after_modify_quantity :
    simB (got Cfg.asIs hModQ .sysId) (want Cfg.asIs hModQ .sysId) = false := by decide +kernel

/-- as long as an edit fails to clear the string cache or to purge the derived entries, the
    property fails (witness: add, construct `kfoo`, modify, construct `kfoo`) -/
theorem not_full_of_stale_layer (cfg : Cfg) (h : (cfg.clearCache && cfg.purgeDerived) = false) :
    ¬ FullAt cfg := by
  intro hf
  have key := Witness.sim_simB _ _
    (hf Rat Witness.pre Witness.parse Witness.t0 Witness.hModify (.unit "kfoo"))
  obtain ⟨c, p, i, m⟩ := cfg
  cases c <;> cases p <;> simp at h <;> cases i <;> cases m <;>
    exact absurd key (by decide +kernel)

/-- …or the id covers derived entries… -/
theorem not_full_of_id_over_derived (cfg : Cfg) (h : cfg.idSkipsDerived = false) : ¬ FullAt cfg := by
  intro hf
  have key := Witness.sim_simB _ _
    (hf Rat Witness.pre Witness.parse Witness.t0 Witness.hLookup .sysId)
  obtain ⟨c, p, i, m⟩ := cfg
  simp at h; subst h
  cases c <;> cases p <;> cases m <;> exact absurd key (by decide +kernel)

/-- …or `modify` lets `in_base` refill the memo from the old table -/
theorem not_full_of_memo_refill (cfg : Cfg) (h : cfg.memoResetLast = false) : ¬ FullAt cfg := by
  intro hf
  have key := Witness.sim_simB _ _
    (hf Rat Witness.pre Witness.parse Witness.t0 Witness.hModQ .sysId)
  obtain ⟨c, p, i, m⟩ := cfg
  simp at h; subst h
  cases c <;> cases p <;> cases i <;> exact absurd key (by decide +kernel)

/-- for every call but the id, the property holds exactly for the machines whose edits invalidate
    both layers -/
theorem fullExceptId_iff (cfg : Cfg) :
    FullExceptId cfg ↔ (cfg.clearCache && cfg.purgeDerived) = true := by
  constructor
  · intro hf
    cases hb : (cfg.clearCache && cfg.purgeDerived) with
    | true => rfl
    | false =>
      exfalso
      have key := Witness.sim_simB _ _
        (hf Rat Witness.pre Witness.parse Witness.t0 Witness.hModify (.unit "kfoo") rfl)
      obtain ⟨c, p, i, m⟩ := cfg
      cases c <;> cases p <;> simp at hb <;> cases i <;> cases m <;>
        exact absurd key (by decide +kernel)
  · intro hb
    simp only [Bool.and_eq_true] at hb
    exact refines_fresh_invalidating cfg hb.1 hb.2

/-- the property holds for exactly one configuration of the machine: the repaired one -/
theorem full_iff_repaired (cfg : Cfg) : FullAt cfg ↔ cfg = Cfg.repaired := by
  constructor
  · intro hf
    obtain ⟨c, p, i, m⟩ := cfg
    cases c <;> cases p <;> cases i <;> cases m <;>
      first
        | rfl
        | exact absurd hf (not_full_of_stale_layer _ rfl)
        | exact absurd hf (not_full_of_id_over_derived _ rfl)
        | exact absurd hf (not_full_of_memo_refill _ rfl)
  · rintro rfl; exact refines_fresh_repaired

/-- the present code does not satisfy C12 at full strength -/
theorem C12_counterexample : ¬ FullAt Cfg.asIs := not_full_of_stale_layer _ rfl

/-- C12 at full strength for the live source holds exactly when the regenerated configuration is
    the repaired one: when the maintainer applies the fix, the translator flips the flags and this
    theorem hands `C12_full` over to `refines_fresh_repaired` -/
theorem C12_full_iff_repaired : C12_full ↔ Generated.registryCfg = Cfg.repaired :=
  full_iff_repaired _

/-- since the `fix:` commits (string-cache invalidation, purge of derived entries, memo reset after
    `in_base`): the live source invalidates both layers on every edit and `modify` resets the memo
    last.  Re-introducing any of the three defects flips a regenerated flag and fails this obligation -/
theorem active_cfg_invalidates :
    (Generated.registryCfg.clearCache && Generated.registryCfg.purgeDerived &&
      Generated.registryCfg.memoResetLast) = true := by decide

/-- C12 for the LIVE source, every call but `unit_system_id`, at full strength: after any history of
    add / modify / remove / constructions / look-ups, what a unit string resolves to, what `in` and `[]`
    answer, and whether an edit is accepted, are exactly those of a fresh registry with the current
    contents -/
theorem C12_resolution_full : FullExceptId Generated.registryCfg :=
  refines_fresh_invalidating _ (by decide) (by decide)

/-- "removed symbols are unknown in every spelling" for the LIVE configuration, after EVERY history
    (no guard; `unit_system_id` may have been read at any point): once `remove sym` has run and `sym`
    is not re-derivable as prefix + another symbol, every string mentioning `sym` or prefix + `sym` is
    refused and `in` answers `False` -/
theorem removed_symbol_unknown_live {K : Type} [Mul K] [OfNat K 1] [OfNat K 0] [RPow K]
    (pre : Prefixes K) (parse : String → Except Err (PExpr K)) (t0 : Lut K) (h : List (Op K))
    (sym : String) (hnd : resolve pre (contents t0 (h ++ [.remove sym])) sym = none) :
    (∀ q ex, parse q = .ok ex → Mentions (contents t0 (h ++ [.remove sym])) sym ex →
      (step Generated.registryCfg pre parse
        (run Generated.registryCfg pre parse (fresh t0) (h ++ [.remove sym])) (.unit q)).2
        = .err .UnitParseError) ∧
    (∀ x, Spells (contents t0 (h ++ [.remove sym])) sym x →
      (step Generated.registryCfg pre parse
        (run Generated.registryCfg pre parse (fresh t0) (h ++ [.remove sym])) (.contains x)).2
        = .bool false) :=
  removed_symbol_unknown_invalidating Generated.registryCfg pre parse (by decide) (by decide) t0 h sym hnd

/-- the kept finding, as a theorem about the LIVE configuration: including `unit_system_id`, C12 does
    not hold — the id covers the entries look-ups wrote back (witness: add `foo`, construct `kfoo`,
    read the id; replayed on the real library every run) -/
theorem C12_counterexample_live : ¬ C12_full :=
  not_full_of_id_over_derived Generated.registryCfg (by decide)

/-- the structural facts the machine assumes of the live source, regenerated on every run: every edit
    form of the probe matrix leaves the id memo reset; `_lookup_unit_symbol` writes the derived entry
    back; and (`ast`) the invalidations are UNCONDITIONAL — in add / modify / remove the memo reset and
    the purge are top-level statements before any use of the table, every table write is a top-level
    statement followed by a top-level cache clear, there is no early exit, `in_base` is followed by a
    memo reset, the write-back is recorded and every caller passes the registry's set.  An invalidation
    moved under a condition fails this obligation even when no probe happens to hit the condition -/
theorem active_step_assumptions :
    Generated.registryEditsResetMemo = true ∧ Generated.lookupWritesBack = true ∧
    Generated.registryEditsUnconditional = true := by decide

/-! ### non-vacuity: concrete instances meeting the hypotheses -/

open Witness in
/-- a history the PRESENT code handles correctly (all look-ups precede… no: the edit touches a
    symbol no earlier look-up mentioned): add `foo`, construct `s`, modify `foo`, construct `kfoo` -/
example : safeRun Cfg.asIs pre parse (fresh t0)
    [.add "foo" foo2, .unit "s", .modifyF "foo" 3, .unit "kfoo", .contains "Mfoo"] = true := by
  decide +kernel

open Witness in
/-- `refines_fresh_setup_then_use` is not vacuous -/
example : (∀ o ∈ [Op.add "foo" foo2, .modifyF "foo" 3, .remove "s"], Op.isEdit o = true) ∧
    (∀ o ∈ [Op.unit "kfoo", .contains "Mfoo", .unit "foo*s"], Op.isLookup (K := Rat) o = true) := by
  decide

open Witness in
/-- …and the guard rejects the counterexample history -/
example : safeRun Cfg.asIs pre parse (fresh t0) hModify = false := by decide +kernel

open Witness in
/-- `removed_symbol_unknown_in_every_spelling` is not vacuous: `foo` is not re-derivable after its
    removal, `kfoo` spells it -/
example : resolve pre (contents t0 ([.add "foo" foo2] ++ [.remove "foo"])) "foo" = none ∧
    splitCandidate "kfoo" = some ("k", "foo") ∧
    safeRunCore Cfg.asIs pre parse (fresh t0) ([.add "foo" foo2] ++ [.remove "foo"]) = true ∧
    -- for the live configuration also after look-ups and id reads that the full guard rejects
    safeRun Generated.registryCfg pre parse (fresh t0)
      ([.add "foo" foo2, .unit "kfoo", .sysId] ++ [.remove "foo"]) = false := by
  decide +kernel

open Witness in
/-- `old_units_convert_as_before` is not vacuous: the pre-edit `foo` (2 m, cell 0) against the
    post-edit `foo` (3 m, cell 1): factor 2/3 although both are spelled `foo` in one registry -/
example : (match heapConv pre (run Cfg.asIs pre parse (fresh t0)
      [.add "foo" foo2, .unit "foo", .modifyF "foo" 3, .unit "foo"]) 0 1 ⟨1, [("foo", 1)]⟩ ⟨1, [("foo", 1)]⟩ with
    | .ok (f, none) => f == (2 : Rat) / 3
    | _ => false) = true := by decide +kernel

open Witness in
/-- `old_units_keep_value` is not vacuous: the object built before the modification is cell 0 -/
example : (run Cfg.asIs pre parse (fresh t0) [.add "foo" foo2, .unit "kfoo"]).objs[0]?
    = some ⟨2000, 0, Dim.dLength⟩ := by decide +kernel

end Unyt.C12
