/-
  C06 — NumPy functions compute the same numbers on quantities as on bare arrays.

  What is proved here is *which computation a call on quantities invokes*: for ANY numeric kernel
  (`numpy` is a parameter) and ANY arguments, a handler row that calls the function it implements
  and forwards every parameter in the same role returns exactly `numpy f (strip args)`; the
  regenerated table of all handler × template rows satisfies those hypotheses except for the
  literal exclusion list `Ref.exclC06` (each entry witnessed).  What NumPy's own implementation
  does when it runs on a subclass (default path, raw-forwarded parameters) enters only as the
  explicit hypothesis `UnitBlind` and is bounded by the differential correspondence, not proved.
-/
import UnytModel.NpHandlers
import UnytModel.Generated.Handlers
import UnytModel.Ref.C06Exclusions
import UnytProofs.Lemmas.C06

namespace Unyt.C06
open Unyt Unyt.Np

/-- assumption about NumPy used only where units reach the kernel: its result does not depend on
    the unit labels of its arguments -/
def UnitBlind {V R : Type} (numpy : Kernel V R) : Prop := ∀ g a, numpy g a = numpy g (stripArgs a)

/-- P-gen: for ANY kernel and ANY arguments, a row that calls the function it implements and
    forwards every parameter of the call stripped, in the same role, returns exactly the numbers
    NumPy computes on the stripped arguments -/
theorem run_values {V R : Type} (numpy : Kernel V R) (alt : String → PyVal V) (alter : R → R)
    (unitRule : Args V → String) (row : Row) (args : Args V) (via : Bool) (rest : List (Bool × String))
    (hcall : row.calls = (via, row.func) :: rest)
    (hfwd : AllSame row.params args) (hinj : NoInjected row.params)
    (hpost : row.post ≠ Post.changed) :
    (run numpy alt alter unitRule row args).values = some (numpy row.func (stripArgs args)) := by
  simp only [run, hcall, attach, Outcome.values, forward_allSame row.params alt args hfwd hinj]
  cases hp : row.post <;> simp_all [applyPost]

/-- the same when some parameters reach the kernel still carrying units, for a unit-blind kernel -/
theorem run_values_raw {V R : Type} (numpy : Kernel V R) (hblind : UnitBlind numpy)
    (alt : String → PyVal V) (alter : R → R)
    (unitRule : Args V → String) (row : Row) (args : Args V) (via : Bool) (rest : List (Bool × String))
    (hcall : row.calls = (via, row.func) :: rest)
    (hfwd : AllSameOrRaw row.params args) (hinj : NoInjected row.params)
    (hpost : row.post ≠ Post.changed) :
    (run numpy alt alter unitRule row args).values = some (numpy row.func (stripArgs args)) := by
  simp only [run, hcall, attach, Outcome.values]
  rw [hblind row.func (forward row.params alt args), strip_forward_raw row.params alt args hfwd hinj]
  cases hp : row.post <;> simp_all [applyPost]

/-- the default path hands the caller's arguments to `func._implementation` untouched -/
theorem default_path_is_identity {V R : Type} (unsupported handled : List String) (numpy : Kernel V R)
    (alt : String → PyVal V) (alter : R → R) (unitRule : Args V → String) (rowOf : String → Row)
    (foreign : Bool) (f : String) (args : Args V)
    (h : route unsupported handled f = Route.default) :
    dispatch unsupported handled numpy alt alter unitRule rowOf foreign f args = Outcome.value "" (numpy f args) := by
  simp only [dispatch, h]

/-- … hence, for a unit-blind kernel, the numbers of the bare call -/
theorem default_path_values {V R : Type} (unsupported handled : List String) (numpy : Kernel V R)
    (hblind : UnitBlind numpy)
    (alt : String → PyVal V) (alter : R → R) (unitRule : Args V → String) (rowOf : String → Row)
    (foreign : Bool) (f : String) (args : Args V)
    (h : route unsupported handled f = Route.default) :
    (dispatch unsupported handled numpy alt alter unitRule rowOf foreign f args).values
      = some (numpy f (stripArgs args)) := by
  simp only [dispatch, h, Outcome.values]
  rw [← hblind]

/-- unsupported functions raise and compute nothing -/
theorem unsupported_raises {V R : Type} (unsupported handled : List String) (numpy : Kernel V R)
    (alt : String → PyVal V) (alter : R → R) (unitRule : Args V → String) (rowOf : String → Row)
    (foreign : Bool) (f : String) (args : Args V)
    (h : route unsupported handled f = Route.unsupported) :
    (dispatch unsupported handled numpy alt alter unitRule rowOf foreign f args).values = none := by
  simp only [dispatch, h, Outcome.values]

/-- a row without defects meets the hypotheses of `run_values_raw` for every call it covers -/
theorem defect_free_row_is_faithful (row : Row) (hd : defects row = []) (hc : row.calls ≠ []) :
    (∃ via, row.calls = [(via, row.func)])
    ∧ (∀ pf ∈ row.params, pf.2 = Fwd.same ∨ pf.2 = Fwd.sameRaw)
    ∧ row.post ≠ Post.changed := by
  simp only [defects, List.append_eq_nil_iff] at hd
  obtain ⟨⟨h1, h2⟩, h3⟩ := hd
  refine ⟨?_, ?_, ?_⟩
  · unfold callDefects at h1
    match hcs : row.calls with
    | [] => exact absurd hcs hc
    | [(via, g)] =>
      rw [hcs] at h1
      by_cases hg : g = row.func
      · exact ⟨via, by rw [hg]⟩
      · simp [hg] at h1
    | (_, g) :: _ :: _ =>
      rw [hcs] at h1
      simp at h1
  · intro pf hpf
    unfold paramDefects at h2
    rw [List.filterMap_eq_nil_iff] at h2
    have := h2 pf hpf
    obtain ⟨p, f⟩ := pf
    cases f <;> simp_all
  · intro hp
    unfold postDefects at h3
    match hcs : row.calls with
    | [] => exact absurd hcs hc
    | _ :: _ => rw [hcs, hp] at h3; simp at h3

/-- the full statement at the level of the model: every regenerated row and handler is defect free -/
def C06_full : Prop :=
  (∀ r ∈ Generated.traceRows, defects r = []) ∧ (∀ h ∈ Generated.handlerStatics, staticDefects h = [])

/-- P-tab, dynamic: every defect of every handler × template row of the regenerated table is on
    the literal exclusion list -/
theorem handlers_forward_faithfully : tableOk Ref.exclC06 Generated.traceRows = true := by
  decide +kernel

/-- P-tab, static (ast pass): every `_implementation` a handler mentions is the one it implements
    and no numpy parameter is unforwardable, up to the exclusion list -/
theorem handlers_static_faithful : staticOk Ref.exclC06 Generated.handlerStatics = true := by
  decide +kernel

/-- every exclusion is witnessed by a regenerated row or handler (it cannot outlive its finding) -/
theorem exclusions_are_real :
    exclusionsWitnessed Ref.exclC06 Generated.traceRows Generated.handlerStatics = true := by
  decide +kernel

/-- the dispatcher tables are disjoint (a function is routed one way) and the ast pass covers
    exactly the handled functions (membership in the universe is checked by the harness) -/
theorem dispatcher_tables_consistent :
    (Generated.npUnsupported.all fun f => !Generated.npHandled.contains f) = true
    ∧ (Generated.handlerStatics.map (·.implements) == Generated.npHandled) = true := by
  decide +kernel

/-- partial statement with an explicit decidable guard: rows of functions that the exclusion list
    does not mention have no defect at all -/
theorem C06_partial :
    ∀ r ∈ Generated.traceRows, (Ref.exclC06.all fun e => e.1 != r.func) = true → defects r = [] := by
  intro r hr hguard
  have h := handlers_forward_faithfully
  simp only [tableOk, List.all_eq_true] at h
  have hr' := h r hr
  cases hd : defects r with
  | nil => rfl
  | cons d ds =>
    exfalso
    have hd' := hr' d (by rw [hd]; exact List.mem_cons_self ..)
    rw [List.all_eq_true] at hguard
    have hc : (r.func, d) ∈ Ref.exclC06 := by simpa using hd'
    have := hguard (r.func, d) hc
    simp at this

/-- … and such a row, on every call it covers, for every unit-blind kernel, returns NumPy's numbers -/
theorem C06_partial_values {V R : Type} (numpy : Kernel V R) (hblind : UnitBlind numpy)
    (alt : String → PyVal V) (alter : R → R) (unitRule : Args V → String)
    (r : Row) (hr : r ∈ Generated.traceRows)
    (hguard : (Ref.exclC06.all fun e => e.1 != r.func) = true) (hc : r.calls ≠ [])
    (args : Args V) (hcov : ∀ pv ∈ args, ∃ f, lookupFwd r.params pv.1 = some f ∧ (pv.1, f) ∈ r.params) :
    (run numpy alt alter unitRule r args).values = some (numpy r.func (stripArgs args)) := by
  obtain ⟨⟨via, hcall⟩, hps, hpost⟩ := defect_free_row_is_faithful r (C06_partial r hr hguard) hc
  refine run_values_raw numpy hblind alt alter unitRule r args via [] hcall ?_ ?_ hpost
  · intro pv hpv
    obtain ⟨f, hf, hmem⟩ := hcov pv hpv
    have := hps (pv.1, f) hmem
    rcases this with h | h <;> simp_all
  · intro pf hpf
    have := hps pf hpf
    rcases this with h | h <;> simp [h]

/-- unyt violates the full statement on the unchanged tree -/
theorem C06_counterexample : ¬ C06_full := by
  intro h
  have hb : (Generated.traceRows.all fun r => (defects r).isEmpty) = true := by
    rw [List.all_eq_true]
    intro r hr
    simp [h.1 r hr]
  have : (Generated.traceRows.all fun r => (defects r).isEmpty) = false := by decide +kernel
  rw [this] at hb
  exact Bool.noConfusion hb

/-- a remaining witness at the level of `run`: `np.apply_over_axes` on a quantity never reaches a
    NumPy kernel (the handler re-implements the loop), whatever the kernel is -/
theorem apply_over_axes_runs_no_kernel {V R : Type} (numpy : Kernel V R) (alt : String → PyVal V)
    (alter : R → R) (unitRule : Args V → String) (args : Args V) :
    (run numpy alt alter unitRule
        ⟨"numpy.apply_over_axes", "sum1", "a:q,axes:b,func:b", false, [], [], Post.none⟩ args).values = none := by
  rfl

theorem apply_over_axes_row_is_regenerated :
    (Generated.traceRows.any fun r => r.func == "numpy.apply_over_axes" && r.calls.isEmpty && !r.raised) = true := by
  decide +kernel

/-- regression guard for the repaired handlers: every regenerated row of hstack / put / stack /
    einsum calls the function it implements and drops nothing -/
theorem repaired_handlers_are_faithful :
    (Generated.traceRows.all fun r =>
      !(["numpy.hstack", "numpy.put", "numpy.stack", "numpy.einsum"].contains r.func) || (defects r).isEmpty) = true := by
  decide +kernel

/-! non-vacuity -/

/-- `run_values` has instances: a faithful row of the regenerated table (np.linalg.det) -/
example : (Generated.traceRows.any fun r => r.func == "numpy.linalg.det" && r.calls == [(true, "numpy.linalg.det")]
    && r.params == [("a", Fwd.same)] && r.post == Post.id) = true := by decide +kernel

example (numpy : Kernel Nat Nat) (a : Nat) :
    (run numpy (fun _ => PyVal.bare 0) id (fun _ => "m")
      ⟨"numpy.linalg.det", "pos", "a:q", false, [(true, "numpy.linalg.det")], [("a", Fwd.same)], Post.id⟩
      [("a", PyVal.qty a "m")]).values = some (numpy "numpy.linalg.det" [("a", PyVal.bare a)]) :=
  run_values numpy _ _ _ _ _ true [] rfl (by intro pv h; simp_all [lookupFwd]) (by intro pf h; simp_all) (by simp)

/-- the guard of `C06_partial` is met by most of the table -/
example : ((Generated.traceRows.filter fun r => Ref.exclC06.all fun e => e.1 != r.func).length ≥ 400) = true := by
  decide +kernel

/-- a default-path function of the regenerated tables -/
example : route Generated.npUnsupported Generated.npHandled "numpy.sum" = Route.default := by decide +kernel
example : route Generated.npUnsupported Generated.npHandled "numpy.polyfit" = Route.unsupported := by decide +kernel

end Unyt.C06
