/-
  C06 — NumPy functions compute the same numbers on quantities as on bare arrays.

  What the Lean part is and is not (see manifest.d/C06.json, design.d/C06.md):

  * `Np.run` / `Np.dispatch` are an INTERPRETER of trace records.  `run_values`, `run_values_raw`,
    `default_path_is_identity`, `default_path_values`, `unsupported_raises` state that the interpreter
    is consistent: a record whose labels say "the kernel of the requested function receives every
    argument of the caller, stripped" is interpreted as `numpy f (strip args)`.  They say nothing
    about unyt by themselves.
  * The facts about unyt are the regenerated table `Generated.handlerTable`: per handler an `ast`
    column (which handler parameter feeds which parameter of the kernel call, statically) and per
    handler × call form a dynamic column (which kernel ran, and for each parameter whether the kernel
    received THE OBJECT / BUFFER the caller passed — provenance by sentinel objects — or only an equal
    value).  "Handler h forwards p" is an observation of tools/extract.d/c06_handlers.py +
    harness/c06_trace.py, not a theorem.
  * The kernel-decided obligations (`handlers_forward_faithfully`, `handlers_static_faithful`,
    `exclusions_are_real`) state that the two independently regenerated columns agree and that every
    record is defect free up to the literal exclusion list; they break the build when a handler changes.
  * `C06_partial_values` generalises a record from the sampled values to all values of the same call
    form (same set of passed parameters).  That generalisation is justified by the provenance labels
    and the static column, not proved from the source; it is listed as an assumption.
  * Shape, dtype kind, out= effects are inside the opaque result type `R`; default-path functions and
    ndarray methods have no model.  The differential run against NumPy (harness/c06_diff.py) is the
    independent evidence for all of that, and the direct oracle.
-/
import UnytModel.NpHandlers
import UnytModel.Generated.Handlers
import UnytModel.Ref.C06Exclusions
import UnytProofs.Lemmas.C06

namespace Unyt.C06
open Unyt Unyt.Np

/-- assumption about NumPy used only where units reach the kernel: its result (the NUMBERS it
    returns / writes) does not depend on the unit labels of its arguments.  Real NumPy satisfies this
    only at the level of numbers (on a subclass it returns a subclass and goes through
    `__array_ufunc__`); it is an assumption, bounded by the differential run, never proved. -/
def UnitBlind {V R : Type} (numpy : Kernel V R) : Prop := ∀ g a, numpy g a = numpy g (stripArgs a)

/-- the assumption is satisfiable (a kernel that looks at stripped arguments only) -/
example : UnitBlind (fun g (a : Args Nat) => (g, stripArgs a)) := by
  intro g a; simp only [stripArgs_idem]

/-- P-gen: for ANY kernel and ANY arguments, a row that calls the function it implements and
    forwards every parameter of the call stripped, in the same role, returns exactly the numbers
    NumPy computes on the stripped arguments -/
theorem run_values {V R : Type} (numpy : Kernel V R) (alt : String → PyVal V) (alter : R → R)
    (unitRule : Args V → String) (row : Row) (args : Args V) (via : Bool) (rest : List (Bool × String))
    (hcall : row.calls = (via, row.func) :: rest) (hok : row.raised = false)
    (hfwd : AllSame row.params args) (hinj : NoInjected row.params)
    (hpost : row.post ≠ Post.changed) :
    (run numpy alt alter unitRule row args).values = some (numpy row.func (stripArgs args)) := by
  simp only [run, hcall, hok, attach, Outcome.values, forward_allSame row.params alt args hfwd hinj]
  cases hp : row.post <;> simp_all [applyPost]

/-- the same when some parameters reach the kernel still carrying units, for a unit-blind kernel -/
theorem run_values_raw {V R : Type} (numpy : Kernel V R) (hblind : UnitBlind numpy)
    (alt : String → PyVal V) (alter : R → R)
    (unitRule : Args V → String) (row : Row) (args : Args V) (via : Bool) (rest : List (Bool × String))
    (hcall : row.calls = (via, row.func) :: rest) (hok : row.raised = false)
    (hfwd : AllSameOrRaw row.params args) (hinj : NoInjected row.params)
    (hpost : row.post ≠ Post.changed) :
    (run numpy alt alter unitRule row args).values = some (numpy row.func (stripArgs args)) := by
  simp only [run, hcall, hok, attach, Outcome.values]
  rw [hblind row.func (forward row.params alt args), strip_forward_raw row.params alt args hfwd hinj]
  cases hp : row.post <;> simp_all [applyPost]

/-- the default path hands the caller's arguments to `func._implementation` untouched -/
theorem default_path_is_identity {V R : Type} (unsupported handled : List String) (numpy : Kernel V R)
    (alt : String → PyVal V) (alter : R → R) (unitRule : Args V → String) (rowOf : String → Row)
    (foreign : Bool) (f : String) (args : Args V)
    (h : route unsupported handled f = Route.default) :
    dispatch unsupported handled numpy alt alter unitRule rowOf foreign f args = Outcome.value "" (numpy f args) := by
  simp only [dispatch, h]

/-- … hence, for a unit-blind kernel, the numbers of the bare call -/
theorem default_path_values {V R : Type} (unsupported handled : List String) (numpy : Kernel V R)
    (hblind : UnitBlind numpy)
    (alt : String → PyVal V) (alter : R → R) (unitRule : Args V → String) (rowOf : String → Row)
    (foreign : Bool) (f : String) (args : Args V)
    (h : route unsupported handled f = Route.default) :
    (dispatch unsupported handled numpy alt alter unitRule rowOf foreign f args).values
      = some (numpy f (stripArgs args)) := by
  simp only [dispatch, h, Outcome.values]
  rw [← hblind]

/-- unsupported functions raise and compute nothing -/
theorem unsupported_raises {V R : Type} (unsupported handled : List String) (numpy : Kernel V R)
    (alt : String → PyVal V) (alter : R → R) (unitRule : Args V → String) (rowOf : String → Row)
    (foreign : Bool) (f : String) (args : Args V)
    (h : route unsupported handled f = Route.unsupported) :
    (dispatch unsupported handled numpy alt alter unitRule rowOf foreign f args).values = none := by
  simp only [dispatch, h, Outcome.values]

/-- a row without defects meets the hypotheses of `run_values_raw` for every call it covers -/
theorem defect_free_row_is_faithful (row : Row) (hd : defects row = []) (hc : row.calls ≠ []) :
    (∃ via, row.calls = [(via, row.func)])
    ∧ (∀ pf ∈ row.params, pf.2 = Fwd.same ∨ pf.2 = Fwd.sameRaw)
    ∧ row.post ≠ Post.changed := by
  simp only [defects, List.append_eq_nil_iff] at hd
  obtain ⟨⟨h1, h2⟩, h3⟩ := hd
  refine ⟨?_, ?_, ?_⟩
  · unfold callDefects at h1
    match hcs : row.calls with
    | [] => exact absurd hcs hc
    | [(via, g)] =>
      rw [hcs] at h1
      by_cases hg : g = row.func
      · exact ⟨via, by rw [hg]⟩
      · simp [hg] at h1
    | (_, g) :: _ :: _ =>
      rw [hcs] at h1
      simp at h1
  · intro pf hpf
    unfold paramDefects at h2
    rw [List.filterMap_eq_nil_iff] at h2
    have := h2 pf hpf
    obtain ⟨p, f⟩ := pf
    cases f <;> simp_all
  · intro hp
    unfold postDefects at h3
    match hcs : row.calls with
    | [] => exact absurd hcs hc
    | _ :: _ => rw [hcs, hp] at h3; simp at h3

/-- the full statement AT THE LEVEL OF THE TABLE (not the property of properties.jsonl, whose
    subject — shapes, dtype kinds, out= effects of ~350 functions and every method — lives in the
    opaque result type and in the differential oracle): every regenerated row and handler is defect
    free and the dynamic and static columns agree -/
def C06_full : Prop :=
  (∀ hr ∈ Generated.handlerTable, ∀ r ∈ hr.2, defects r = [] ∧ provenanceDefects hr.1 r = [])
  ∧ (∀ h ∈ Generated.handlerStatics, staticDefects h = [])

/-- P-tab: for every handler × call-form row of the regenerated table, every defect of the dynamic
    record AND every disagreement between its `same` labels and the handler's static provenance
    column is on the literal exclusion list -/
theorem handlers_forward_faithfully : groupedOk Ref.exclC06 Generated.handlerTable = true := by
  decide +kernel

/-- P-tab, static (ast pass): every `_implementation` a handler mentions is the one it implements
    and no numpy parameter is unforwardable, up to the exclusion list -/
theorem handlers_static_faithful : staticOk Ref.exclC06 Generated.handlerStatics = true := by
  decide +kernel

/-- every exclusion is witnessed by a regenerated row or handler (it cannot outlive its finding) -/
theorem exclusions_are_real :
    exclusionsWitnessed Ref.exclC06 Generated.traceRows Generated.handlerStatics = true := by
  decide +kernel

/-- the dispatcher tables are disjoint (a function is routed one way) and the ast pass covers
    exactly the handled functions (membership in the universe is checked by the harness) -/
theorem dispatcher_tables_consistent :
    (Generated.npUnsupported.all fun f => !Generated.npHandled.contains f) = true
    ∧ (Generated.handlerStatics.map (·.implements) == Generated.npHandled) = true := by
  decide +kernel

/-- partial statement with the precise decidable guard: a row none of whose defects is an excluded
    (function, defect) pair has no defect at all — in particular the rows of apply_over_axes /
    histogramdd that do not show the excluded defects are covered -/
theorem C06_partial :
    ∀ hr ∈ Generated.handlerTable, ∀ r ∈ hr.2,
      ((defects r ++ provenanceDefects hr.1 r).all fun d => !Ref.exclC06.contains (r.func, d)) = true →
      defects r = [] ∧ provenanceDefects hr.1 r = [] := by
  intro hr hhr r hr' hguard
  have h := handlers_forward_faithfully
  simp only [groupedOk, List.all_eq_true] at h
  have h1 := h hr hhr
  have h2 := (Bool.and_eq_true _ _).mp (h1 r hr')
  have hall := List.all_eq_true.mp h2.2
  rw [List.all_eq_true] at hguard
  have hnil : defects r ++ provenanceDefects hr.1 r = [] := by
    cases hd : defects r ++ provenanceDefects hr.1 r with
    | nil => rfl
    | cons d ds =>
      exfalso
      have hm : d ∈ defects r ++ provenanceDefects hr.1 r := by rw [hd]; exact List.mem_cons_self ..
      have a1 := hall d hm
      have a2 := hguard d hm
      simp_all
  exact List.append_eq_nil_iff.mp hnil

/-- … and the record of such a row, read by the interpreter on ANY values of the same call form
    (the parameters the row lists), for every unit-blind kernel, yields NumPy's numbers.  This
    generalises the sampled record to all values; see the header and the manifest's assumptions. -/
theorem C06_partial_values {V R : Type} (numpy : Kernel V R) (hblind : UnitBlind numpy)
    (alt : String → PyVal V) (alter : R → R) (unitRule : Args V → String)
    (hr : HandlerStatic × List Row) (hhr : hr ∈ Generated.handlerTable) (r : Row) (hr' : r ∈ hr.2)
    (hguard : ((defects r ++ provenanceDefects hr.1 r).all fun d => !Ref.exclC06.contains (r.func, d)) = true)
    (hc : r.calls ≠ []) (hok : r.raised = false)
    (args : Args V) (hcov : ∀ pv ∈ args, ∃ f, lookupFwd r.params pv.1 = some f ∧ (pv.1, f) ∈ r.params) :
    (run numpy alt alter unitRule r args).values = some (numpy r.func (stripArgs args)) := by
  obtain ⟨⟨via, hcall⟩, hps, hpost⟩ := defect_free_row_is_faithful r (C06_partial hr hhr r hr' hguard).1 hc
  refine run_values_raw numpy hblind alt alter unitRule r args via [] hcall hok ?_ ?_ hpost
  · intro pv hpv
    obtain ⟨f, hf, hmem⟩ := hcov pv hpv
    have := hps (pv.1, f) hmem
    rcases this with h | h <;> simp_all
  · intro pf hpf
    have := hps pf hpf
    rcases this with h | h <;> simp [h]

/-- unyt violates the full statement on the unchanged tree -/
theorem C06_counterexample : ¬ C06_full := by
  intro h
  have hb : (Generated.handlerTable.all fun hr => hr.2.all fun r => (defects r).isEmpty) = true := by
    rw [List.all_eq_true]
    intro hr hhr
    rw [List.all_eq_true]
    intro r hr'
    simp [(h.1 hr hhr r hr').1]
  have : (Generated.handlerTable.all fun hr => hr.2.all fun r => (defects r).isEmpty) = false := by decide +kernel
  rw [this] at hb
  exact Bool.noConfusion hb

/-- a remaining witness at the level of `run`: `np.apply_over_axes` on a quantity never reaches a
    NumPy kernel (the handler re-implements the loop), whatever the kernel is -/
theorem apply_over_axes_runs_no_kernel {V R : Type} (numpy : Kernel V R) (alt : String → PyVal V)
    (alter : R → R) (unitRule : Args V → String) (args : Args V) :
    (run numpy alt alter unitRule
        ⟨"numpy.apply_over_axes", "sum1", "a:q,axes:b,func:b", false, [], [], [], Post.none⟩ args).values = none := by
  rfl

theorem apply_over_axes_row_is_regenerated :
    (Generated.traceRows.any fun r => r.func == "numpy.apply_over_axes" && r.calls.isEmpty && !r.raised) = true := by
  decide +kernel

/-- regression guard for the repaired handlers: every regenerated row of hstack / put / stack /
    einsum calls the function it implements and drops nothing -/
theorem repaired_handlers_are_faithful :
    (Generated.traceRows.all fun r =>
      !(["numpy.hstack", "numpy.put", "numpy.stack", "numpy.einsum"].contains r.func) || (defects r).isEmpty) = true := by
  decide +kernel

/-! non-vacuity -/

/-- `run_values` has instances: a faithful row of the regenerated table (np.linalg.det) -/
example : (Generated.traceRows.any fun r => r.func == "numpy.linalg.det" && r.calls == [(true, "numpy.linalg.det")]
    && r.params == [("a", Fwd.same)] && r.post == Post.id) = true := by decide +kernel

example (numpy : Kernel Nat Nat) (a : Nat) :
    (run numpy (fun _ => PyVal.bare 0) id (fun _ => "m")
      ⟨"numpy.linalg.det", "pos", "a:q", false, [(true, "numpy.linalg.det")], [("a", Fwd.same)], [], Post.id⟩
      [("a", PyVal.qty a "m")]).values = some (numpy "numpy.linalg.det" [("a", PyVal.bare a)]) :=
  run_values numpy _ _ _ _ _ true [] rfl rfl (by intro pv h; simp_all [lookupFwd]) (by intro pf h; simp_all) (by simp)

/-- the guard of `C06_partial` is met by most of the table -/
example : ((Generated.handlerTable.flatMap fun hr => hr.2.filter fun r =>
    (defects r ++ provenanceDefects hr.1 r).all fun d => !Ref.exclC06.contains (r.func, d)).length ≥ 400) = true := by
  decide +kernel

/-- the provenance column is not vacuous: some labels rest on value only and are backed by a direct
    static feed, and the static column really lists direct feeds -/
example : (Generated.handlerTable.any fun hr => hr.2.any fun r => !r.byValue.isEmpty && !hr.1.fwdDirect.isEmpty) = true := by
  decide +kernel

/-- a default-path function of the regenerated tables -/
example : route Generated.npUnsupported Generated.npHandled "numpy.sum" = Route.default := by decide +kernel
example : route Generated.npUnsupported Generated.npHandled "numpy.polyfit" = Route.unsupported := by decide +kernel

end Unyt.C06
