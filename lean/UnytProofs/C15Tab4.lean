/-
  C15 — kernel-decided obligations, part 4: the unit table against the constants.
-/
import UnytModel.PhysicalConstantsCheck
import UnytProofs.Lemmas.C15List

namespace Unyt.C15
open Unyt PCheck Generated Ref.C15

/-- the full-strength statement: every unit symbol that is also a constant denotes the same
    quantity (declared homonyms `G`, `hbar` aside, which must differ in dimension) -/
def C15_unit_full : Prop := unitAndConstantAgree [] = true

/-- … holds outside the literal exclusion list: same dimension, zero offset, table scale within
    2⁻⁴⁵ of the constant's SI magnitude -/
theorem unit_and_constant_agree_partial : unitAndConstantAgree exclUnitVsConstant = true := by
  decide +kernel

/-- bare keys are all a unit symbol can coincide with: no symbol looks like `X_mks`, `X_cgs`,
    `hmks`, `hcgs` -/
theorem unit_symbols_are_unsuffixed : unitSymbolsUnsuffixed = true := by decide +kernel

/-- the excluded symbol really disagrees (unit `mp` is fed from `mass_hydrogen_kg`, constant `mp`
    from `mass_proton_kg`): the exclusion cannot outlive its finding -/
theorem unit_exclusions_fail : exclUnitVsConstant.all (fun k => !unitVsConstOkByName k) = true := by
  decide +kernel

theorem C15_unit_counterexample : ¬ C15_unit_full := by
  intro h
  have hrow := unitAgree_row h "mp"
  have hfail : unitVsConstOkByName "mp" = false := by decide +kernel
  have hfound : ((defaultLut Rat).find? "mp").isSome = true := by decide +kernel
  rcases hrow with h1 | h1
  · rw [hfail] at h1; cases h1
  · rw [h1] at hfound; cases hfound

/-- the same at the source level: the unit cell and the constant cell have the same normal form
    over the base constants (so the two can not drift apart by editing a literal) -/
theorem unit_and_constant_agree_symbolic_partial :
    unitAndConstantAgreeSymbolic exclUnitVsConstant = true := by decide +kernel

theorem unit_symbolic_exclusions_fail :
    exclUnitVsConstant.all (fun k => !unitVsConstSymbolicOk k) = true := by decide +kernel

example : ((defaultLut Rat).filter fun p => (constOfKey p.1).isSome).length ≥ 10 := by decide +kernel

end Unyt.C15
