import UnytModel.ResultClass
namespace Unyt.C16
open Unyt Shape

theorem unitMul_strict (sh : Shape) (r : Res) (h : unitMulData true sh = .ok r) : r.Strict := by
  unfold unitMulData at h
  by_cases hs : sh = []
  · simp [hs] at h; subst h; simp [Res.Strict, PyCls.isQuantity, PyCls.isSub]
  · simp [hs] at h; subst h; simp [Res.Strict, PyCls.isQuantity, PyCls.isSub, PyCls.base, hs]

end Unyt.C16
