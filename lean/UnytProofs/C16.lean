/-
  C16 — scalars are quantities, arrays are arrays, views stay attached to their data.

  Property theorems about `UnytModel/ResultClass.lean` and `UnytModel/Shape.lean` (the definitions
  the driver `drv_c16` executes).  `Res.Good` is the property's requirement on one result
  (shape `()` ⇒ quantity; more than one element ⇒ not a quantity); `Res.Strict` the sharper rule
  the dedicated code paths implement (quantity ⇔ shape `()`).  All statements quantify over every
  shape (lists of naturals of any length) and every operand class.
-/
import UnytModel.ResultClass
import UnytModel.Generated.C16Tables
import UnytModel.Ref.C16
import UnytProofs.Lemmas.C16Shape

set_option linter.unusedSectionVars false
set_option linter.unusedVariables false
set_option linter.unusedSimpArgs false

namespace Unyt.C16
open Unyt Shape

/-! ## 0. `Strict` implies `Good` -/

/-- the sharper rule implies the property's requirement: a shape with more than one element is
    not `()` -/
theorem strict_good (r : Res) (h : r.Strict) : r.Good := by
  refine ⟨fun hs => h.2 hs, fun hsz => ?_⟩
  cases hq : r.cls.isQuantity with
  | false => rfl
  | true => have := h.1 hq; rw [this] at hsz; simp [size] at hsz

/-! ## 1. the ufunc wrap-up -/

/-- `_get_binary_op_return_class` never invents a class: it returns one of its arguments -/
theorem binaryReturnClass_is_operand (c1 c2 c : PyCls) (h : binaryReturnClass c1 c2 = .ok c) :
    c = c1 ∨ c = c2 := by
  unfold binaryReturnClass at h
  repeat' split at h
  all_goals first | (cases h; simp) | cases h

theorem uarray_not_quantity : PyCls.uarray.isQuantity = false := by decide
theorem uarray_is_unyt : PyCls.uarray.isUnyt = true := by decide
theorem uquantity_is_quantity : PyCls.uquantity.isQuantity = true := by decide
theorem uquantity_is_unyt : PyCls.uquantity.isUnyt = true := by decide
theorem ndarray_not_unyt : PyCls.ndarray.isUnyt = false := by decide

theorem construct_uarray (sh : Shape) : construct .uarray sh = .ok ⟨.uarray, sh⟩ := by
  simp [construct, uarray_not_quantity, uarray_is_unyt]

theorem construct_uquantity_nil : construct .uquantity [] = .ok ⟨.uquantity, []⟩ := by
  simp [construct, uquantity_is_quantity, size]

/-- what a successful `cls(value, unit)` is: that class, that shape, a unyt class, and at most
    one element for the quantity classes -/
theorem construct_ok (cls : PyCls) (sh : Shape) (r : Res) (h : construct cls sh = .ok r) :
    r = ⟨cls, sh⟩ ∧ cls.isUnyt = true ∧ (cls.isQuantity = true → size sh ≤ 1) := by
  unfold construct at h
  by_cases hq : cls.isQuantity = true
  · simp only [hq, if_true] at h
    by_cases hsz : size sh > 1
    · simp [hsz] at h
    · simp only [hsz, if_false] at h
      cases h
      refine ⟨rfl, ?_, fun _ => by omega⟩
      revert hq; cases cls <;> decide
  · simp only [hq, if_false] at h
    by_cases hu : cls.isUnyt = true
    · simp only [hu, if_true] at h; cases h; exact ⟨rfl, hu, fun h' => absurd h' hq⟩
    · simp [hu] at h

/-- wrap-up of every ufunc except `modf`/`divmod` whose unit rule gives a unit: the result is a
    `unyt_quantity` exactly when the raw result has shape `()`, for every class handed in and
    every shape; the shape is NumPy's -/
theorem wrapUp_strict (rc : PyCls) (sh : Shape) (r : Res)
    (h : wrapUp false false rc sh = .ok r) : r.Strict ∧ r.shape = sh ∧ r.cls.isUnyt = true := by
  unfold wrapUp at h
  simp only [Bool.false_eq_true, if_false] at h
  by_cases hs : sh = []
  · subst hs
    simp only [if_true, construct_uquantity_nil] at h
    cases h
    exact ⟨⟨fun _ => rfl, fun _ => uquantity_is_quantity⟩, rfl, uquantity_is_unyt⟩
  · simp only [hs, if_false] at h
    by_cases h1 : size sh = 1
    · simp only [h1, if_true, construct_uarray] at h
      cases h
      exact ⟨⟨fun hq => by simp [uarray_not_quantity] at hq, fun h' => absurd h' hs⟩, rfl, uarray_is_unyt⟩
    · simp only [h1, if_false] at h
      by_cases hq : rc.isQuantity = true
      · simp only [hq, if_true, construct_uarray] at h
        cases h
        exact ⟨⟨fun hq => by simp [uarray_not_quantity] at hq, fun h' => absurd h' hs⟩, rfl, uarray_is_unyt⟩
      · simp only [hq] at h
        by_cases hu : rc.isUnyt = true
        · simp only [hu, if_true] at h
          cases h
          exact ⟨⟨fun hq' => absurd hq' hq, fun hs' => absurd hs' hs⟩, rfl, hu⟩
        · simp [hu] at h

/-- no wrap-up branch — `modf`/`divmod` and unit-less results included — ever returns a
    quantity with more than one element -/
theorem wrapUp_no_multielement_quantity (un mo : Bool) (rc : PyCls) (sh : Shape) (r : Res)
    (h : wrapUp un mo rc sh = .ok r) (hq : r.cls.isQuantity = true) : size r.shape ≤ 1 := by
  cases un with
  | true => simp [wrapUp] at h; subst h; simp [PyCls.isQuantity, PyCls.isSub, PyCls.base] at hq
  | false =>
    cases mo with
    | false =>
      have := wrapUp_strict rc sh r h
      have hs := this.1.1 hq
      rw [hs]; simp [size]
    | true =>
      simp only [wrapUp, Bool.false_eq_true, if_false, if_true, construct] at h
      split at h
      · split at h
        · cases h
        · cases h; simp only; omega
      · split at h
        · cases h; rename_i hnq _; exact absurd hq hnq
        · cases h

/-- the post-multiplication `mul * out_arr` (a second trip through `__array_ufunc__` with a
    Python float) returns the same class and shape -/
theorem wrapUp_postmul_idem (rc : PyCls) (sh : Shape) (r : Res)
    (h : wrapUp false false rc sh = .ok r) :
    ∃ rc', binaryReturnClass .pyfloat r.cls = .ok rc' ∧ wrapUp false false rc' r.shape = .ok r := by
  obtain ⟨hst, hsh, hu⟩ := wrapUp_strict rc sh r h
  refine ⟨r.cls, ?_, ?_⟩
  · unfold binaryReturnClass
    have : PyCls.pyfloat ≠ r.cls := by intro e; rw [← e] at hu; simp [PyCls.isUnyt, PyCls.isSub, PyCls.base] at hu
    simp [this, PyCls.isBare]
  · obtain ⟨c, s⟩ := r
    simp only at hst hsh hu ⊢
    unfold wrapUp
    simp only [Bool.false_eq_true, if_false]
    by_cases hs : s = []
    · subst hs
      have hq : c.isQuantity = true := hst.2 rfl
      -- the only quantity class the wrap-up produces is unyt_quantity itself
      have : c = .uquantity := by
        unfold wrapUp at h; subst hsh
        simp [construct, PyCls.isQuantity, PyCls.isSub, size] at h
        exact h.symm
      subst this
      simp [construct, PyCls.isQuantity, PyCls.isSub, size]
    · have hnq : c.isQuantity = false := by
        cases hq : c.isQuantity with
        | false => rfl
        | true => exact absurd (hst.1 hq) hs
      simp only [hs, if_false]
      by_cases h1 : size s = 1
      · have : c = .uarray := by
          unfold wrapUp at h; subst hsh
          simp [hs, h1, construct, PyCls.isQuantity, PyCls.isUnyt, PyCls.isSub, PyCls.base] at h
          exact h.symm
        subst this
        simp [h1, construct, PyCls.isQuantity, PyCls.isUnyt, PyCls.isSub, PyCls.base]
      · simp [h1, hnq, hu]

/-- **wrap_class_iff_shape (ufuncs)** — for every invocation (`__call__`, `reduce`, `accumulate`,
    `outer`, `matmul`, `vecdot`), every operand class tuple and every operand shapes: when the
    unit rule yields a unit and the ufunc is not `modf`/`divmod`, the value returned by
    `__array_ufunc__` is a `unyt_quantity` iff its shape is `()` — with or without the
    post-multiplication by a simplification coefficient -/
theorem ufunc_wrap_class_iff_shape (c : UfuncCall) (r : Res)
    (hu : c.unitNone = false) (hm : c.multiOut = false) (h : ufuncResult c = .ok r) :
    r.Strict ∧ r.cls.isUnyt = true := by
  unfold ufuncResult at h
  split at h
  · cases h
  · rename_i rc _
    split at h
    · cases h
    · rename_i sh _
      rw [hu, hm] at h
      split at h
      · cases h
      · rename_i r0 hr0
        have h0 := wrapUp_strict rc sh r0 hr0
        by_cases h1 : c.mulIsOne = true
        · simp [h1] at h; subst h; exact ⟨h0.1, h0.2.2⟩
        · simp only [h1, Bool.false_or, Bool.false_eq_true, if_false] at h
          obtain ⟨rc', hb, hw⟩ := wrapUp_postmul_idem rc sh r0 hr0
          rw [hb] at h
          simp only at h
          rw [hw] at h
          cases h
          exact ⟨h0.1, h0.2.2⟩

/-- **no_multielement_quantity (ufuncs)** — whatever the flags (`modf`/`divmod`, unit-less
    results, post-multiplication), a ufunc never returns a quantity with more than one element -/
theorem ufunc_no_multielement_quantity (c : UfuncCall) (r : Res) (h : ufuncResult c = .ok r)
    (hq : r.cls.isQuantity = true) : size r.shape ≤ 1 := by
  unfold ufuncResult at h
  split at h
  · cases h
  · rename_i rc _
    split at h
    · cases h
    · rename_i sh _
      split at h
      · cases h
      · rename_i r0 hr0
        split at h
        · cases h; exact wrapUp_no_multielement_quantity _ _ rc sh r hr0 hq
        · split at h
          · cases h
          · exact wrapUp_no_multielement_quantity _ _ _ _ r h hq

/-- `modf`/`divmod` skip the shape test: a 0-d `unyt_array` operand comes back as 0-d
    `unyt_array`s, and a size-1 non-scalar result of `divmod(quantity, ndarray)` is a quantity —
    `Strict` fails for them (the harness replays both on the real code) -/
theorem multiOut_counterexample :
    (∃ r, ufuncResult ⟨.call, false, true, true, [(.uarray, [])]⟩ = .ok r ∧ ¬ r.Good) ∧
    (∃ r, ufuncResult ⟨.call, false, true, true, [(.uquantity, []), (.ndarray, [1])]⟩ = .ok r ∧ ¬ r.Strict) ∧
    ufuncResult ⟨.call, false, true, true, [(.uquantity, []), (.ndarray, [2])]⟩ = .error .RuntimeError := by
  refine ⟨⟨⟨.uarray, []⟩, rfl, by decide⟩, ⟨⟨.uquantity, [1]⟩, rfl, by decide⟩, rfl⟩

/-- the full statement for the ufunc layer: every returned unyt object meets the property, for
    operands that meet it themselves -/
def OperandsGood (ops : List (PyCls × Shape)) : Prop :=
  ∀ o ∈ ops, o.1.isUnyt = true → Res.Good ⟨o.1, o.2⟩

/-- for a plain call with at most two operands that satisfy the property, a raw result of
    shape `()` means the class handed to the wrap-up is a quantity class -/
theorem call_scalar_class (ops : List (PyCls × Shape)) (rc : PyCls)
    (hops : OperandsGood ops) (hlen : ops.length ≤ 2)
    (hrc : ufuncRetClass (ops.map (·.1)) = .ok rc)
    (hsh : ufuncOutShape .call (ops.map (·.2)) = .ok []) (hu : rc.isUnyt = true) :
    rc.isQuantity = true := by
  match ops, hlen with
  | [], _ => simp [ufuncRetClass] at hrc
  | [(c1, s1)], _ =>
    simp only [List.map, ufuncRetClass, ufuncOutShape] at hrc hsh
    cases hrc; cases hsh
    exact (hops (rc, []) (by simp) hu).1 rfl
  | [(c1, s1), (c2, s2)], _ =>
    simp only [List.map, ufuncRetClass, ufuncOutShape] at hrc hsh
    cases hb : broadcast s1 s2 with
    | none => simp [hb] at hsh
    | some r' =>
      simp only [hb] at hsh
      cases hsh
      obtain ⟨e1, e2⟩ := (broadcast_eq_nil_iff s1 s2).1 hb
      subst e1; subst e2
      rcases binaryReturnClass_is_operand c1 c2 rc hrc with e | e
      · subst e; exact (hops (rc, []) (by simp) hu).1 rfl
      · subst e; exact (hops (rc, []) (by simp) hu).1 rfl
  | _ :: _ :: _ :: _, hl => simp at hl

/-- **C16 for ufuncs, full strength** — for every ufunc invocation (including `modf`/`divmod`,
    which NumPy only offers as plain calls on one or two operands) on operands that satisfy the
    property, every unyt object returned satisfies the property -/
theorem ufunc_result_good (c : UfuncCall) (r : Res)
    (hops : OperandsGood c.ops) (hcall : c.multiOut = true → c.method = .call ∧ c.ops.length ≤ 2)
    (h : ufuncResult c = .ok r) (hun : r.cls.isUnyt = true) : r.Good := by
  refine ⟨fun hs => ?_, fun hsz => ?_⟩
  · cases hm : c.multiOut with
    | false =>
      cases hu : c.unitNone with
      | false => exact (ufunc_wrap_class_iff_shape c r hu hm h).1.2 hs
      | true =>
        unfold ufuncResult at h
        cases hrc : ufuncRetClass (c.ops.map (·.1)) with
        | error e => simp [hrc] at h
        | ok rc =>
          cases hsh : ufuncOutShape c.method (c.ops.map (·.2)) with
          | error e => simp [hrc, hsh] at h
          | ok sh =>
            simp [hrc, hsh, hu, wrapUp] at h
            subst h; simp [ndarray_not_unyt] at hun
    | true =>
      obtain ⟨hmeth, hlen⟩ := hcall hm
      unfold ufuncResult at h
      cases hrc : ufuncRetClass (c.ops.map (·.1)) with
      | error e => simp [hrc] at h
      | ok rc =>
        cases hsh : ufuncOutShape c.method (c.ops.map (·.2)) with
        | error e => simp [hrc, hsh] at h
        | ok sh =>
          simp only [hrc, hsh, hm] at h
          cases hu : c.unitNone with
          | true =>
            simp [hu, wrapUp] at h
            subst h; simp [ndarray_not_unyt] at hun
          | false =>
            simp only [hu, wrapUp, Bool.false_eq_true, if_false, if_true] at h
            cases hc : construct rc sh with
            | error e => simp [hc] at h
            | ok r0 =>
              obtain ⟨hr0, hu0, _⟩ := construct_ok rc sh r0 hc
              simp only [hc, Bool.or_false] at h
              by_cases h1 : c.mulIsOne = true
              · simp only [h1, if_true] at h
                cases h
                subst hr0
                simp only at hs hun
                subst hs
                rw [hmeth] at hsh
                exact call_scalar_class c.ops rc hops hlen hrc hsh hun
              · simp only [h1, Bool.false_eq_true, if_false] at h
                cases hb : binaryReturnClass .pyfloat r0.cls with
                | error e => simp [hb] at h
                | ok rc' =>
                  simp only [hb] at h
                  exact (wrapUp_strict rc' r0.shape r h).1.2 hs
  · cases hq : r.cls.isQuantity with
    | false => rfl
    | true => have := ufunc_no_multielement_quantity c r h hq; omega

/-- non-vacuity: `np.add(unyt_quantity, ndarray of shape (2,3))` is a `unyt_array` of shape (2,3),
    `np.add.reduce` of it a `unyt_quantity`, `divmod(q, q)` two quantities -/
example : ufuncResult ⟨.call, false, false, true, [(.uquantity, []), (.ndarray, [2, 3])]⟩ = .ok ⟨.uarray, [2, 3]⟩ := rfl
example : ufuncResult ⟨.reduce none false, false, false, true, [(.uarray, [2, 3])]⟩ = .ok ⟨.uquantity, []⟩ := rfl
example : ufuncResult ⟨.call, false, true, true, [(.uquantity, []), (.uquantity, [])]⟩ = .ok ⟨.uquantity, []⟩ := rfl
example : ufuncResult ⟨.call, false, false, false, [(.subA, [3]), (.uquantity, [])]⟩ = .ok ⟨.subA, [3]⟩ := rfl

/-! ## 2. `Unit.__mul__` with data, and the handlers of `_array_functions.py` -/

/-- **wrap_class_iff_shape (data * unit)** — `data * unit`, `unit * data`, `data / unit` build a
    `unyt_quantity` iff `np.array(data).shape == ()`, for every shape -/
theorem unitMul_strict (sh : Shape) (r : Res) (h : unitMulData true sh = .ok r) :
    r.Strict ∧ r.shape = sh ∧ r.cls.isUnyt = true := by
  unfold unitMulData at h
  by_cases hs : sh = []
  · subst hs; simp at h; subst h
    exact ⟨⟨fun _ => rfl, fun _ => uquantity_is_quantity⟩, rfl, uquantity_is_unyt⟩
  · simp [hs] at h; subst h
    exact ⟨⟨fun hq => by simp [uarray_not_quantity] at hq, fun h' => absurd h' hs⟩, rfl, uarray_is_unyt⟩

/-- data of an admissible dtype kind is never refused -/
theorem unitMul_total (sh : Shape) : ∃ r, unitMulData true sh = .ok r := by
  unfold unitMulData; by_cases hs : sh = [] <;> simp [hs]

/-- **wrap_class_iff_shape (handlers)** — a handler that returns `res * units` or chooses the
    class by `res.ndim == 0` returns a `unyt_quantity` iff the raw result has shape `()` -/
theorem handler_rule_strict (rule : HRule) (sh : Shape) (r : Res)
    (hr : rule = .timesUnit ∨ rule = .byNdim) (h : handlerClass rule sh = some r) :
    r.Strict ∧ r.shape = sh := by
  rcases hr with rfl | rfl
  · simp only [handlerClass] at h
    cases hu : unitMulData true sh with
    | error e => simp [hu, Except.toOption] at h
    | ok r' =>
      simp [hu, Except.toOption] at h; subst h
      exact ⟨(unitMul_strict sh r' hu).1, (unitMul_strict sh r' hu).2.1⟩
  · simp only [handlerClass, Option.some.injEq] at h
    by_cases hs : sh = []
    · subst hs; simp at h; subst h
      exact ⟨⟨fun _ => rfl, fun _ => uquantity_is_quantity⟩, rfl⟩
    · have : sh.length ≠ 0 := by simpa [List.length_eq_zero_iff] using hs
      simp [this] at h; subst h
      exact ⟨⟨fun hq => by simp [uarray_not_quantity] at hq, fun h' => absurd h' hs⟩, rfl⟩

/-- a handler that always wraps as `unyt_array(res, units, bypass_validation=True)` meets the
    property exactly when the raw result is not 0-d -/
theorem handler_alwaysArray_good_iff (sh : Shape) :
    ∃ r, handlerClass .alwaysArray sh = some r ∧ (r.Good ↔ sh ≠ []) := by
  refine ⟨⟨.uarray, sh⟩, rfl, ?_⟩
  simp only [Res.Good, uarray_not_quantity]
  constructor
  · intro h hs; have := h.1 hs; simp at this
  · intro hs; exact ⟨fun h' => absurd h' hs, fun _ => trivial⟩

/-- every rule of the regenerated handler table is acceptable: built by shape, or an
    unconditional `unyt_array` for a function that cannot return a 0-d result -/
def handlerRowOk (excl : List String) (row : String × List HRule) : Bool :=
  row.2.all fun r =>
    match r with
    | .timesUnit | .byNdim | .other => true
    | .alwaysArray => Ref.c16NeverZeroD.contains row.1 || excl.contains row.1
    | .alwaysQuantity | .unknown => false

/-- the full table obligation: no exclusions -/
def C16_handlers_full : Prop := Generated.c16HandlerRules.all (handlerRowOk []) = true

/-- **handler table (P-tab), partial** — every return statement of every handler in
    `_HANDLED_FUNCTIONS` (regenerated from the source on every run) decides the class by shape,
    except the `out=` branches of the handlers listed in `Ref.exclC16Handlers` -/
theorem C16_handlers_partial :
    Generated.c16HandlerRules.all (handlerRowOk Ref.exclC16Handlers) = true := by decide +kernel

/-- … and each exclusion is still needed: the excluded handlers do have an unconditional
    `unyt_array(…)` return for a possibly 0-d result, so the full obligation fails -/
theorem C16_handlers_counterexample :
    ¬ C16_handlers_full ∧
    Ref.exclC16Handlers.all (fun n =>
      (Generated.c16HandlerRules.find? (·.1 == n)).any (fun row => row.2.contains .alwaysArray)) = true := by
  unfold C16_handlers_full
  exact ⟨by decide +kernel, by decide +kernel⟩

/-! ## 3. accessors: views and copies -/

/-- regenerated probe and hand-written reference agree row by row, in both directions -/
def accessorsAgree (gen : List (String × MemRel × String)) (ref : List (String × MemRel)) : Bool :=
  gen.all (fun g => (ref.find? (·.1 == g.1)).any (fun r => r.2 == g.2.1)) &&
  ref.all (fun r => (gen.find? (·.1 == r.1)).isSome)

/-- **accessor_table (P-tab)** — `.d/.ndview/ndarray_view()`, slices, reshapes, transposes and
    the constructor from an ndarray are views; `.v/.value/to_ndarray()/to_value()/copy()`, every
    converting call and `data * unit` are copies: the probe of the live library equals the
    reference on every row -/
theorem accessor_table :
    accessorsAgree Generated.c16Accessors Ref.c16Accessors = true := by decide +kernel

end Unyt.C16
