/-
  C16 — scalars are quantities, arrays are arrays, views stay attached to their data.

  Property theorems about `UnytModel/ResultClass.lean` and `UnytModel/Shape.lean` (the definitions
  the driver `drv_c16` executes).  `Res.Good` is the property's requirement on one result
  (shape `()` ⇒ quantity; more than one element ⇒ not a quantity); `Res.Strict` the sharper rule
  the dedicated code paths implement (quantity ⇔ shape `()`).  All statements quantify over every
  shape (lists of naturals of any length) and every operand class.
  What kind of evidence each statement is:
  * `wrapUp_strict`, `unitMul_strict`, `handler_rule_strict`, `quantityNew_size_le_one`,
    `arrayNew_of_array_is_view`, `arrayNew_class`, `getitem_keeps_units_name`, `getitem_ok` are case
    analyses / unfoldings of the hand transcription in `ResultClass.lean` (e.g. `sharesInput := true`
    and `units := p.md.units` are written into the model): they say what the *model* does for all
    inputs and make the transcription's consequences explicit.  That unyt behaves like the model is
    NOT shown by them; it rests on the probe table (`accessor_table`) and the correspondence
    sections S2–S7 of `harness/c16_ops.py`.
  * Independent content sits in the shape algebra and in the statements that combine it with the
    class decisions (`index_scalar_needs_integers`, `reduction_scalar_iff`, `squeeze_strict`,
    `C16_view_partial`, `getitem_ints_class`, `ufunc_wrap_class_iff_shape` over all methods,
    `list_coercion_values_converted`).
  * §7b: `_coerce_iterable_units` is ALSO executed as a program regenerated from the live source
    (`UnytModel/C16CoerceProg.lean`, `Generated/C16Coerce.lean`); `coerceProg_refines` relates every
    program meeting the decidable obligation `progOk` to the hand model `coerceList`, and
    `C16_coerce_prog` decides the obligation for the regenerated program.
  * `ufuncResult` models calls without `out=`; with `out=` the same wrap-up runs on a view of the
    output buffer (exercised by a few `out=` templates of the S7 catalogue, not by a theorem).
-/
import UnytModel.ResultClass
import UnytModel.Generated.C16Tables
import UnytModel.Ref.C16
import UnytProofs.Lemmas.C16Shape
import UnytProofs.Lemmas.C16Class
import UnytModel.C16CoerceProg
import UnytModel.Generated.C16Coerce
import UnytProofs.Lemmas.C16Coerce

set_option linter.unusedSectionVars false
set_option linter.unusedVariables false
set_option linter.unusedSimpArgs false

namespace Unyt.C16
open Unyt Shape

/-! ## 0. `Strict` implies `Good` -/

/-- the sharper rule implies the property's requirement: a shape with more than one element is
    not `()` -/
theorem strict_good (r : Res) (h : r.Strict) : r.Good := by
  refine ⟨fun hs => h.2 hs, fun hsz => ?_⟩
  cases hq : r.cls.isQuantity with
  | false => rfl
  | true => have := h.1 hq; rw [this] at hsz; simp [size] at hsz

/-! ## 1. the ufunc wrap-up -/

/-- `_get_binary_op_return_class` never invents a class: it returns one of its arguments -/
theorem binaryReturnClass_is_operand (c1 c2 c : PyCls) (h : binaryReturnClass c1 c2 = .ok c) :
    c = c1 ∨ c = c2 := by
  unfold binaryReturnClass at h
  repeat' split at h
  all_goals first | (cases h; simp) | cases h

/-- wrap-up of every ufunc output whose unit rule gives a unit (`modf`/`divmod` included): the
    result is a `unyt_quantity` exactly when the raw result has shape `()`, for every class handed
    in and every shape; the shape is NumPy's -/
theorem wrapUp_strict (rc : PyCls) (sh : Shape) (r : Res)
    (h : wrapUp false rc sh = .ok r) : r.Strict ∧ r.shape = sh ∧ r.cls.isUnyt = true := by
  unfold wrapUp at h
  simp only [Bool.false_eq_true, if_false] at h
  by_cases hs : sh = []
  · subst hs
    simp only [if_true, construct_uquantity_nil] at h
    cases h
    exact ⟨⟨fun _ => rfl, fun _ => uquantity_is_quantity⟩, rfl, uquantity_is_unyt⟩
  · simp only [hs, if_false] at h
    by_cases h1 : size sh = 1
    · simp only [h1, if_true, construct_uarray] at h
      cases h
      exact ⟨⟨fun hq => by simp [uarray_not_quantity] at hq, fun h' => absurd h' hs⟩, rfl, uarray_is_unyt⟩
    · simp only [h1, if_false] at h
      by_cases hq : rc.isQuantity = true
      · simp only [hq, if_true, construct_uarray] at h
        cases h
        exact ⟨⟨fun hq => by simp [uarray_not_quantity] at hq, fun h' => absurd h' hs⟩, rfl, uarray_is_unyt⟩
      · simp only [hq] at h
        by_cases hu : rc.isUnyt = true
        · simp only [hu, if_true] at h
          cases h
          exact ⟨⟨fun hq' => absurd hq' hq, fun hs' => absurd hs' hs⟩, rfl, hu⟩
        · simp [hu] at h

/-- no wrap-up branch — unit-less results included — ever returns a quantity with more than one
    element -/
theorem wrapUp_no_multielement_quantity (un : Bool) (rc : PyCls) (sh : Shape) (r : Res)
    (h : wrapUp un rc sh = .ok r) (hq : r.cls.isQuantity = true) : size r.shape ≤ 1 := by
  cases un with
  | true => simp [wrapUp] at h; subst h; simp [PyCls.isQuantity, PyCls.isSub, PyCls.base] at hq
  | false =>
    have := wrapUp_strict rc sh r h
    have hs := this.1.1 hq
    rw [hs]; simp [size]

/-- the post-multiplication `mul * out_arr` (a second trip through `__array_ufunc__` with a
    Python float) returns the same class and shape -/
theorem wrapUp_postmul_idem (rc : PyCls) (sh : Shape) (r : Res)
    (h : wrapUp false rc sh = .ok r) :
    ∃ rc', binaryReturnClass .pyfloat r.cls = .ok rc' ∧ wrapUp false rc' r.shape = .ok r := by
  obtain ⟨hst, hsh, hu⟩ := wrapUp_strict rc sh r h
  refine ⟨r.cls, ?_, ?_⟩
  · unfold binaryReturnClass
    have : PyCls.pyfloat ≠ r.cls := by intro e; rw [← e] at hu; simp [PyCls.isUnyt, PyCls.isSub, PyCls.base] at hu
    simp [this, PyCls.isBare]
  · obtain ⟨c, s⟩ := r
    simp only at hst hsh hu ⊢
    unfold wrapUp
    simp only [Bool.false_eq_true, if_false]
    by_cases hs : s = []
    · subst hs
      have hq : c.isQuantity = true := hst.2 rfl
      -- the only quantity class the wrap-up produces is unyt_quantity itself
      have : c = .uquantity := by
        unfold wrapUp at h; subst hsh
        simp [construct, PyCls.isQuantity, PyCls.isSub, size] at h
        exact h.symm
      subst this
      simp [construct, PyCls.isQuantity, PyCls.isSub, size]
    · have hnq : c.isQuantity = false := by
        cases hq : c.isQuantity with
        | false => rfl
        | true => exact absurd (hst.1 hq) hs
      simp only [hs, if_false]
      by_cases h1 : size s = 1
      · have : c = .uarray := by
          unfold wrapUp at h; subst hsh
          simp [hs, h1, construct, PyCls.isQuantity, PyCls.isUnyt, PyCls.isSub, PyCls.base] at h
          exact h.symm
        subst this
        simp [h1, construct, PyCls.isQuantity, PyCls.isUnyt, PyCls.isSub, PyCls.base]
      · simp [h1, hnq, hu]

/-- **wrap_class_iff_shape (ufuncs)** — for every ufunc (`modf`/`divmod` included), every
    invocation (`__call__`, `reduce`, `accumulate`, `outer`, `matmul`, `vecdot`), every operand
    class tuple and every operand shapes: when the unit rule yields a unit, each value returned by
    `__array_ufunc__` is a `unyt_quantity` iff its shape is `()` — with or without the
    post-multiplication by a simplification coefficient -/
theorem ufunc_wrap_class_iff_shape (c : UfuncCall) (r : Res)
    (hu : c.unitNone = false) (h : ufuncResult c = .ok r) :
    r.Strict ∧ r.cls.isUnyt = true := by
  unfold ufuncResult at h
  split at h
  · cases h
  · rename_i rc _
    split at h
    · cases h
    · rename_i sh _
      rw [hu] at h
      split at h
      · cases h
      · rename_i r0 hr0
        have h0 := wrapUp_strict rc sh r0 hr0
        by_cases h1 : c.mulIsOne = true
        · simp [h1] at h; subst h; exact ⟨h0.1, h0.2.2⟩
        · simp only [h1, Bool.false_or, Bool.false_eq_true, if_false] at h
          obtain ⟨rc', hb, hw⟩ := wrapUp_postmul_idem rc sh r0 hr0
          rw [hb] at h
          simp only at h
          rw [hw] at h
          cases h
          exact ⟨h0.1, h0.2.2⟩

/-- **no_multielement_quantity (ufuncs)** — whatever the flags (unit-less results,
    post-multiplication, `modf`/`divmod`), a ufunc never returns a quantity with more than one
    element -/
theorem ufunc_no_multielement_quantity (c : UfuncCall) (r : Res) (h : ufuncResult c = .ok r)
    (hq : r.cls.isQuantity = true) : size r.shape ≤ 1 := by
  unfold ufuncResult at h
  split at h
  · cases h
  · rename_i rc _
    split at h
    · cases h
    · rename_i sh _
      split at h
      · cases h
      · rename_i r0 hr0
        split at h
        · cases h; exact wrapUp_no_multielement_quantity _ rc sh r hr0 hq
        · split at h
          · cases h
          · exact wrapUp_no_multielement_quantity _ _ _ r h hq

/-- **C16 for ufuncs, full strength** — for every ufunc invocation without `out=`, on operands of
    any class and shape, every unyt object returned satisfies the property -/
theorem ufunc_result_good (c : UfuncCall) (r : Res)
    (h : ufuncResult c = .ok r) (hun : r.cls.isUnyt = true) : r.Good := by
  cases hu : c.unitNone with
  | false => exact strict_good r (ufunc_wrap_class_iff_shape c r hu h).1
  | true =>
    -- unit-less results are plain ndarrays
    unfold ufuncResult at h
    cases hrc : ufuncRetClass (c.ops.map (·.1)) with
    | error e => simp [hrc] at h
    | ok rc =>
      cases hsh : ufuncOutShape c.method (c.ops.map (·.2)) with
      | error e => simp [hrc, hsh] at h
      | ok sh =>
        simp [hrc, hsh, hu, wrapUp] at h
        subst h; simp [ndarray_not_unyt] at hun

/-- non-vacuity: `np.add(unyt_quantity, ndarray of shape (2,3))` is a `unyt_array` of shape (2,3),
    `np.add.reduce` of it a `unyt_quantity`, `divmod(q, q)` two quantities, `divmod(q, ndarray)`
    two arrays -/
example : ufuncResult ⟨.call, false, false, true, [(.uquantity, []), (.ndarray, [2, 3])]⟩ = .ok ⟨.uarray, [2, 3]⟩ := rfl
example : ufuncResult ⟨.reduce none false, false, false, true, [(.uarray, [2, 3])]⟩ = .ok ⟨.uquantity, []⟩ := rfl
example : ufuncResult ⟨.call, false, true, true, [(.uquantity, []), (.uquantity, [])]⟩ = .ok ⟨.uquantity, []⟩ := rfl
example : ufuncResult ⟨.call, false, true, true, [(.uquantity, []), (.ndarray, [2])]⟩ = .ok ⟨.uarray, [2]⟩ := rfl
example : ufuncResult ⟨.call, false, false, false, [(.subA, [3]), (.uquantity, [])]⟩ = .ok ⟨.subA, [3]⟩ := rfl

/-! ## 2. `Unit.__mul__` with data, and the handlers of `_array_functions.py` -/

/-- **wrap_class_iff_shape (data * unit)** — `data * unit`, `unit * data`, `data / unit` build a
    `unyt_quantity` iff `np.array(data).shape == ()`, for every shape -/
theorem unitMul_strict (sh : Shape) (r : Res) (h : unitMulData true sh = .ok r) :
    r.Strict ∧ r.shape = sh ∧ r.cls.isUnyt = true := by
  unfold unitMulData at h
  by_cases hs : sh = []
  · subst hs; simp at h; subst h
    exact ⟨⟨fun _ => rfl, fun _ => uquantity_is_quantity⟩, rfl, uquantity_is_unyt⟩
  · simp [hs] at h; subst h
    exact ⟨⟨fun hq => by simp [uarray_not_quantity] at hq, fun h' => absurd h' hs⟩, rfl, uarray_is_unyt⟩

/-- data of an admissible dtype kind is never refused -/
theorem unitMul_total (sh : Shape) : ∃ r, unitMulData true sh = .ok r := by
  unfold unitMulData; by_cases hs : sh = [] <;> simp [hs]

/-- **wrap_class_iff_shape (handlers)** — a handler that returns `res * units` or chooses the
    class by `res.ndim == 0` returns a `unyt_quantity` iff the raw result has shape `()` -/
theorem handler_rule_strict (rule : HRule) (sh : Shape) (r : Res)
    (hr : rule = .timesUnit ∨ rule = .byNdim) (h : handlerClass rule sh = some r) :
    r.Strict ∧ r.shape = sh := by
  rcases hr with rfl | rfl
  · simp only [handlerClass] at h
    cases hu : unitMulData true sh with
    | error e => simp [hu, Except.toOption] at h
    | ok r' =>
      simp [hu, Except.toOption] at h; subst h
      exact ⟨(unitMul_strict sh r' hu).1, (unitMul_strict sh r' hu).2.1⟩
  · simp only [handlerClass, Option.some.injEq] at h
    by_cases hs : sh = []
    · subst hs; simp at h; subst h
      exact ⟨⟨fun _ => rfl, fun _ => uquantity_is_quantity⟩, rfl⟩
    · have : sh.length ≠ 0 := by simpa [List.length_eq_zero_iff] using hs
      simp [this] at h; subst h
      exact ⟨⟨fun hq => by simp [uarray_not_quantity] at hq, fun h' => absurd h' hs⟩, rfl⟩

/-- a handler that always wraps as `unyt_array(res, units, bypass_validation=True)` meets the
    property exactly when the raw result is not 0-d -/
theorem handler_alwaysArray_good_iff (sh : Shape) :
    ∃ r, handlerClass .alwaysArray sh = some r ∧ (r.Good ↔ sh ≠ []) := by
  refine ⟨⟨.uarray, sh⟩, rfl, ?_⟩
  simp only [Res.Good, uarray_not_quantity]
  constructor
  · intro h hs; have := h.1 hs; simp at this
  · intro hs; exact ⟨fun h' => absurd h' hs, fun _ => trivial⟩

/-- every rule of the regenerated handler table is acceptable: the class is decided by shape
    (`timesUnit`, `byNdim`), nothing is returned (`noValue`), an unconditional `unyt_array` only
    for a function that cannot return a 0-d result, and the three kinds in which the handler does
    not decide a class itself only for the handlers listed by name in `Ref` -/
def handlerRowOk (row : String × List HRule) : Bool :=
  row.2.all fun r =>
    match r with
    | .timesUnit | .byNdim | .noValue => true
    | .alwaysArray => Ref.c16NeverZeroD.contains row.1
    | .npImpl => Ref.c16BareResultHandlers.contains row.1
    | .redispatch => Ref.c16DelegatedHandlers.contains row.1
    | .unknown => Ref.c16UnclassifiedHandlers.contains row.1
    | .alwaysQuantity => false

/-- **handler table (P-tab)** — every `return` of every handler in `_HANDLED_FUNCTIONS`
    (regenerated from the source via `ast` on every run) is one of: class decided by shape; no
    value; unconditional `unyt_array` for a never-0-d function; or a bare NumPy result /
    delegation / unclassified string-builder of a handler *listed by name* in `Ref/C16.lean`.
    What it does NOT show: that the translator's syntactic classes mean what their names say —
    that is the S7 correspondence (class predicted from the rule vs the real call) -/
theorem C16_handlers : Generated.c16HandlerRules.all handlerRowOk = true := by decide +kernel

/-- the name lists cannot outlive their reason: every listed handler still has a return of the
    kind it is listed for -/
theorem C16_handler_lists_live :
    (Ref.c16BareResultHandlers.all fun n =>
      (Generated.c16HandlerRules.find? (·.1 == n)).any (·.2.contains .npImpl)) = true ∧
    (Ref.c16DelegatedHandlers.all fun n =>
      (Generated.c16HandlerRules.find? (·.1 == n)).any (·.2.contains .redispatch)) = true ∧
    (Ref.c16UnclassifiedHandlers.all fun n =>
      (Generated.c16HandlerRules.find? (·.1 == n)).any (·.2.contains .unknown)) = true := by
  refine ⟨by decide +kernel, by decide +kernel, by decide +kernel⟩

/-! ## 3. accessors: views and copies -/

/-- regenerated probe and hand-written reference agree row by row, in both directions -/
def accessorsAgree (gen : List (String × MemRel × String)) (ref : List (String × MemRel)) : Bool :=
  gen.all (fun g => (ref.find? (·.1 == g.1)).any (fun r => r.2 == g.2.1)) &&
  ref.all (fun r => (gen.find? (·.1 == r.1)).isSome)

/-- **accessor_table (P-tab)** — `.d/.ndview/ndarray_view()`, slices, reshapes, transposes and
    the constructor from an ndarray are views; `.v/.value/to_ndarray()/to_value()/copy()`, every
    converting call and `data * unit` are copies: the probe of the live library equals the
    reference on every row -/
theorem accessor_table :
    accessorsAgree Generated.c16Accessors Ref.c16Accessors = true := by decide +kernel

/-! ## 4. `__getitem__` and iteration -/

section getitem
variable {U : Type}

/-- anatomy of a successful `x[ixs]`: NumPy's shape, the parent's units and name, and the class:
    `unyt_quantity` for shape `()`; otherwise the parent's class, or `unyt_array` when the parent
    is itself a quantity -/
theorem getitem_ok (nu : U) (p : Obj U) (ixs : List Ix) (r : Obj U) (h : getitem nu p ixs = .ok r) :
    index p.shape ixs = .ok r.shape ∧ r.md = p.md ∧
    ((r.cls = .uquantity ∧ r.shape = []) ∨
     (r.cls = (if p.cls.isQuantity then .uarray else p.cls) ∧ r.shape ≠ [])) := by
  unfold getitem at h
  cases hi : index p.shape ixs with
  | error e => simp [hi] at h
  | ok s' =>
    simp only [hi, npGetitem] at h
    by_cases hc : s' = [] ∧ (!(ixs.any Ix.isEllipsis)) = true
    · simp only [hc, and_self, if_true] at h
      cases h
      exact ⟨by rw [hc.1], rfl, Or.inl ⟨rfl, rfl⟩⟩
    · simp only [hc, if_false, arrayFinalize] at h
      by_cases hs : s' = []
      · simp only [hs, if_true] at h
        cases h
        exact ⟨by rw [hs], rfl, Or.inl ⟨rfl, rfl⟩⟩
      · simp only [hs, if_false] at h
        by_cases hq : p.cls.isQuantity = true
        · simp only [hq, if_true] at h
          cases h
          exact ⟨rfl, rfl, Or.inr ⟨by simp [hq], hs⟩⟩
        · simp only [hq, if_false] at h
          cases h
          refine ⟨rfl, rfl, Or.inr ⟨?_, hs⟩⟩
          simp [hq]

/-- indexing succeeds whenever NumPy's indexing does -/
theorem getitem_total (nu : U) (p : Obj U) (ixs : List Ix) (s' : Shape)
    (hi : index p.shape ixs = .ok s') : ∃ r, getitem nu p ixs = .ok r := by
  unfold getitem
  simp only [hi, npGetitem]
  split
  · exact ⟨_, rfl⟩
  · split
    · exact ⟨_, rfl⟩
    · split <;> exact ⟨_, rfl⟩

/-- **getitem_keeps_units_name** — in the model, for every parent (class, shape, metadata) and every
    index, the item carries the parent's units and name through every branch (`__array_finalize__`,
    the quantity re-wrap with `name=self.name`, the `view(unyt_array)`); that unyt does so is S2/S3 -/
theorem getitem_keeps_units_name (nu : U) (p : Obj U) (ixs : List Ix) (r : Obj U)
    (h : getitem nu p ixs = .ok r) : r.md.units = p.md.units ∧ r.md.name = p.md.name := by
  have := (getitem_ok nu p ixs r h).2.1
  rw [this]; exact ⟨rfl, rfl⟩

/-- **wrap_class_iff_shape (`__getitem__`)** — indexing any parent (unyt_array, unyt_quantity,
    user subclasses; any shape, size-1 non-scalar quantities included) with any index form yields
    a quantity class iff the result has shape `()` -/
theorem getitem_strict (nu : U) (p : Obj U) (ixs : List Ix) (r : Obj U)
    (h : getitem nu p ixs = .ok r) : r.res.Strict := by
  rcases (getitem_ok nu p ixs r h).2.2 with ⟨hc, hs⟩ | ⟨hc, hs⟩
  · refine ⟨fun _ => hs, fun _ => ?_⟩
    show r.cls.isQuantity = true
    rw [hc]; exact uquantity_is_quantity
  · refine ⟨fun h' => ?_, fun h' => absurd h' hs⟩
    have h'' : r.cls.isQuantity = true := h'
    rw [hc] at h''
    cases hq : p.cls.isQuantity with
    | true => simp [hq, uarray_not_quantity] at h''
    | false => simp [hq] at h''

/-- **C16 for indexing, full strength** — every item of every parent, for every index form,
    meets the property; in particular no index of a quantity is a multi-element quantity -/
theorem C16_getitem (nu : U) (p : Obj U) (ixs : List Ix) (r : Obj U)
    (h : getitem nu p ixs = .ok r) : r.res.Good :=
  strict_good _ (getitem_strict nu p ixs r h)

/-- `q[None]` is a `unyt_array` of shape `(1,)`, and its fancy index `[0, 0]` a 2-element
    `unyt_array` -/
example : getitem 0 (⟨.uquantity, [], ⟨1, some "p"⟩⟩ : Obj Nat) [.newaxis] = .ok ⟨.uarray, [1], ⟨1, some "p"⟩⟩ := rfl
example : getitem 0 (⟨.uquantity, [1], ⟨1, some "p"⟩⟩ : Obj Nat) [.fancy [2] 0 0] = .ok ⟨.uarray, [2], ⟨1, some "p"⟩⟩ := rfl
/-- `x[0, :, [0, 1]]` on a (2,3,4) array has shape (2,3) -/
example : getitem 0 (⟨.uarray, [2, 3, 4], ⟨1, none⟩⟩ : Obj Nat) [.int 0, .slice none none 1, .fancy [2] 0 1]
    = .ok ⟨.uarray, [2, 3], ⟨1, none⟩⟩ := rfl
example : getitem 0 (⟨.uarray, [2, 3], ⟨1, none⟩⟩ : Obj Nat) [.int 1, .int (-1)] = .ok ⟨.uquantity, [], ⟨1, none⟩⟩ := rfl

/-- **iteration** — iterating a parent of shape `d :: s` yields exactly `d` items, each the
    sub-array of shape `s` with the parent's units and name; each item is a quantity iff `s = []` -/
theorem iterate_items (nu : U) (p : Obj U) (d : Nat) (s : Shape) (hp : p.shape = d :: s)
    (items : List (Except SErr (Obj U))) (h : iterate nu p = .ok items) :
    items.length = d ∧
    ∀ it ∈ items, ∃ o, it = .ok o ∧ o.shape = s ∧ o.md = p.md ∧ o.res.Strict := by
  unfold iterate at h
  rw [hp] at h
  simp only [Except.ok.injEq] at h
  subst h
  refine ⟨by simp, ?_⟩
  intro it hit
  simp only [List.mem_map, List.mem_range] at hit
  obtain ⟨i, hi, rfl⟩ := hit
  have hidx : index p.shape [.int (Int.ofNat i)] = .ok s := by
    rw [hp]; exact index_single_int d s _ (intInRange_ofNat d i hi)
  cases hg : getitem nu p [.int (Int.ofNat i)] with
  | error e =>
    obtain ⟨r, hr⟩ := getitem_total nu p _ s hidx
    rw [hr] at hg; cases hg
  | ok o =>
    have ho := getitem_ok nu p _ o hg
    refine ⟨o, rfl, ?_, ho.2.1, getitem_strict nu p _ o hg⟩
    have := ho.1; rw [hidx] at this; cases this; rfl

/-- a 0-d object is not iterable -/
theorem iterate_scalar (nu : U) (p : Obj U) (hp : p.shape = []) : iterate nu p = .error .TypeError := by
  unfold iterate; rw [hp]

end getitem

/-! ## 5. constructors -/

/-- **unyt_quantity.__new__ size check** — whatever is passed in (scalars, arrays of any shape,
    existing unyt objects, with or without `bypass_validation`), a successfully constructed
    quantity has at most one element -/
theorem quantityNew_size_le_one (cls : PyCls) (inp : NewInput) (bp : Bool) (r : NewRes)
    (h : quantityNew cls inp bp = .ok r) : size r.res.shape ≤ 1 ∧ r.res.cls = cls := by
  unfold quantityNew at h
  split at h
  · cases h
  · split at h
    · cases h
    · rename_i hsz; cases h; exact ⟨by show size inp.asarray.1 ≤ 1; omega, rfl⟩

/-- a Python or NumPy scalar becomes a 0-d quantity; an ndarray with more than one element is
    refused -/
theorem quantityNew_scalar (cls : PyCls) (bp : Bool) :
    quantityNew cls .pyscalar bp = .ok ⟨⟨cls, []⟩, false⟩ ∧
    quantityNew cls .npnumber bp = .ok ⟨⟨cls, []⟩, false⟩ := by
  cases bp <;> exact ⟨rfl, rfl⟩

theorem quantityNew_refuses_arrays (cls : PyCls) (s : Shape) (bp : Bool) (h : size s > 1) :
    quantityNew cls (.ndarray s) bp = .error .RuntimeError := by
  cases bp <;> simp [quantityNew, NewInput.isNumeric, NewInput.asarray, h]

/-- the model's constructor from an ndarray / unyt object is a view with the requested class and the
    array's shape, with or without `bypass_validation` (an unfolding of `arrayNew`; that unyt does so
    is the `accessor_table` row `unyt_array(ndarray…)` and the S4/S5 `np.shares_memory` checks) -/
theorem arrayNew_of_array_is_view (cls : PyCls) (s : Shape) (bp : Bool) (c0 : PyCls) :
    arrayNew cls (.ndarray s) bp = .ok ⟨⟨cls, s⟩, true⟩ ∧
    arrayNew cls (.unyt c0 s) bp = .ok ⟨⟨cls, s⟩, true⟩ := by
  cases bp <;> exact ⟨rfl, rfl⟩

/-- the constructor returns the class it was called on, except for a list of unyt objects, which
    `_coerce_iterable_units` always turns into a plain `unyt_array` with fresh data -/
theorem arrayNew_class (cls : PyCls) (inp : NewInput) (r : NewRes) (h : arrayNew cls inp false = .ok r) :
    r.res.cls = cls ∨ (∃ n e, inp = .listOfUnyt n e ∧ r = ⟨⟨.uarray, n :: e⟩, false⟩) := by
  cases inp <;> simp [arrayNew] at h <;> first | (subst h; exact Or.inl rfl) | (subst h; exact Or.inr ⟨_, _, rfl, rfl⟩)

/-! ## 6. reshape, squeeze, transpose and the other class-preserving methods -/

/-- operations for which the remaining class-preserving default path is harmless -/
def viewGuard (cls : PyCls) (op : ViewOp) : Bool :=
  if cls.isQuantity then
    match op with
    | .repeat_ _ => false
    | .reshape t isList => !(t == [] && isList)   -- `q.reshape([])`: `[] == ()` is False
    | _ => true
  else
    match op with
    | .reshape t _ => t != []
    | _ => true

/-- the full statement: every view-making method of a well-formed object (quantity ⇔ 0-d)
    returns an object that meets the property -/
def C16_view_full : Prop :=
  ∀ (cls : PyCls) (s : Shape) (op : ViewOp) (r : Res),
    cls.isUnyt = true → Res.Strict ⟨cls, s⟩ → viewOp cls s op = .ok r → r.Good

/-- **squeeze** — for every unyt class and every shape, `x.squeeze()` / `x.squeeze(axis)` /
    `np.squeeze(x)` of a well-formed object is a quantity iff the result is 0-d -/
theorem squeeze_strict (cls : PyCls) (s : Shape) (op : ViewOp) (r : Res)
    (hu : cls.isUnyt = true) (hwf : Res.Strict ⟨cls, s⟩)
    (hop : op = .squeeze ∨ ∃ ax, op = .squeezeAxis ax) (h : viewOp cls s op = .ok r) : r.Strict := by
  obtain ⟨s', hv, hrs, hrc⟩ := viewOp_squeezes cls s op r hop h
  cases hq : cls.isQuantity with
  | true =>
    have hs : s = [] := hwf.1 hq
    subst hs
    have hnr : ∀ t l, op ≠ .reshape t l := by rcases hop with rfl | ⟨ax, rfl⟩ <;> intro t l e <;> cases e
    have hrep : ∀ n, op ≠ .repeat_ n := by rcases hop with rfl | ⟨ax, rfl⟩ <;> intro t e <;> cases e
    have hs' : s' = [] := by
      rcases hop with rfl | ⟨ax, rfl⟩
      · simp [viewShape, squeeze] at hv; exact hv
      · simp only [viewShape, squeezeAxis] at hv
        split at hv
        · cases hv; rfl
        · simp [normAxis] at hv
          split at hv <;> first | cases hv | (split at hv <;> cases hv) | skip
          all_goals omega
    simp only [hq, Bool.true_eq_false, and_false, if_false] at hrc
    exact ⟨fun _ => hrs.trans hs', fun _ => by show r.cls.isQuantity = true; rw [hrc]; exact hq⟩
  | false =>
    simp only [hu, hq, true_and, and_true] at hrc
    by_cases hs' : s' = []
    · simp only [hs', if_true] at hrc
      exact ⟨fun _ => hrs.trans hs', fun _ => by show r.cls.isQuantity = true; rw [hrc]; exact uquantity_is_quantity⟩
    · simp only [hs', if_false] at hrc
      refine ⟨fun h' => ?_, fun h' => absurd (hrs ▸ h') hs'⟩
      have h'' : r.cls.isQuantity = true := h'
      rw [hrc, hq] at h''; cases h''

/-- **C16 for the view-making methods, partial** — for every unyt class, every shape and every
    method outside the guard's excluded region (`reshape(())`/`reshape([])` of arrays,
    `reshape([])` of quantities, `repeat` of quantities),
    the result meets the property -/
theorem C16_view_partial (cls : PyCls) (s : Shape) (op : ViewOp) (r : Res)
    (hu : cls.isUnyt = true) (hwf : Res.Strict ⟨cls, s⟩) (hg : viewGuard cls op = true)
    (h : viewOp cls s op = .ok r) : r.Good := by
  by_cases hop : op = .squeeze ∨ ∃ ax, op = .squeezeAxis ax
  · exact strict_good r (squeeze_strict cls s op r hu hwf hop h)
  have hsq : op ≠ .squeeze := fun e => hop (Or.inl e)
  have hsa : ∀ ax, op ≠ .squeezeAxis ax := fun ax e => hop (Or.inr ⟨ax, e⟩)
  cases hq : cls.isQuantity with
  | true =>
    have hs : s = [] := hwf.1 hq
    subst hs
    simp only [viewGuard, hq, if_true] at hg
    by_cases hre : ∃ t l, op = .reshape t l
    · obtain ⟨t, l, rfl⟩ := hre
      simp only [viewOp, hq, if_true] at h
      by_cases ht : t = []
      · -- the guard leaves only the tuple form `q.reshape(())`
        have hl : l = false := by
          cases l with
          | false => rfl
          | true => simp [ht] at hg
        simp [ht, hl, quantityReshape, size] at h; subst h
        exact ⟨fun _ => hq, fun hsz => by simp [size] at hsz⟩
      · simp only [ht, false_and, if_false, quantityReshape] at h
        cases hr : reshape [] t with
        | error e => simp [hr] at h
        | ok s' =>
          simp [hr] at h; subst h
          have hl := length_reshape [] t s' hr
          refine ⟨fun hnil => ?_, fun _ => uarray_not_quantity⟩
          simp only at hnil; rw [hnil] at hl; simp at hl
          exact absurd (List.length_eq_zero_iff.1 hl.symm) ht
    · have hnr : ∀ t l, op ≠ .reshape t l := fun t l e => hre ⟨t, l, e⟩
      by_cases hex : ∃ k, op = .expandDims k
      · obtain ⟨k, rfl⟩ := hex
        obtain ⟨hne, hc⟩ := viewOp_expandDims cls [] k r h
        simp only [hq, if_true] at hc
        exact ⟨fun hnil => absurd hnil hne, fun _ => by rw [hc]; exact uarray_not_quantity⟩
      have hne : ∀ k, op ≠ .expandDims k := fun k e => hex ⟨k, e⟩
      rw [viewOp_nonreshape cls [] op hnr hne hsq hsa] at h
      cases hv : viewShape [] op with
      | error e => simp [hv] at h
      | ok s' =>
        simp [hv] at h; subst h
        have hrep : ∀ n, op ≠ .repeat_ n := fun n e => by subst e; simp at hg
        have := viewShape_scalar op s' hnr hrep hv
        exact ⟨fun _ => hq, fun hsz => by simp only at hsz; omega⟩
  | false =>
    have hs : s ≠ [] := fun hnil => by
      have := hwf.2 hnil; simp only at this; rw [hq] at this; cases this
    simp only [viewGuard, hq, Bool.false_eq_true, if_false] at hg
    -- the class is preserved and is not a quantity class; only the shape matters
    have key : r.cls = cls ∧ ∃ s', viewShape s op = .ok s' ∧ r.shape = s' := by
      by_cases hre : ∃ t l, op = .reshape t l
      · obtain ⟨t, l, rfl⟩ := hre
        simp only [viewOp, hq, Bool.false_eq_true, if_false] at h
        cases hr : reshape s t with
        | error e => simp [hr] at h
        | ok s' => simp [hr] at h; subst h; exact ⟨rfl, s', by simp [viewShape, hr], rfl⟩
      · have hnr : ∀ t l, op ≠ .reshape t l := fun t l e => hre ⟨t, l, e⟩
        by_cases hex : ∃ k, op = .expandDims k
        · obtain ⟨k, rfl⟩ := hex
          simp only [viewOp, hq, Bool.false_eq_true, if_false] at h
          cases hv : expandDims s k with
          | error e => simp [hv] at h
          | ok s' => simp [hv] at h; subst h; exact ⟨rfl, s', by simp [viewShape, hv], rfl⟩
        · have hne : ∀ k, op ≠ .expandDims k := fun k e => hex ⟨k, e⟩
          rw [viewOp_nonreshape cls s op hnr hne hsq hsa] at h
          cases hv : viewShape s op with
          | error e => simp [hv] at h
          | ok s' => simp [hv] at h; subst h; exact ⟨rfl, s', rfl, rfl⟩
    obtain ⟨hc, s', hv, hrs⟩ := key
    have hne : s' ≠ [] := by
      apply viewShape_ne_nil s op s' hs _ hv
      cases op <;> simp_all
    refine ⟨fun hnil => absurd (hrs ▸ hnil) hne, fun _ => by rw [hc]; exact hq⟩

/-- the excluded region is real: `x[:1].reshape(())` and `q.reshape([])` (`[] == ()` is False in
    the override) are 0-d `unyt_array`s, `q.repeat(2)` a 2-element `unyt_quantity` -/
theorem C16_view_counterexample :
    ¬ C16_view_full ∧
    viewOp .uarray [1] (.reshape [] false) = .ok ⟨.uarray, []⟩ ∧
    viewOp .uquantity [] (.reshape [] true) = .ok ⟨.uarray, []⟩ ∧
    viewOp .uquantity [] (.repeat_ 2) = .ok ⟨.uquantity, [2]⟩ := by
  refine ⟨fun h => ?_, rfl, rfl, rfl⟩
  have := h .uquantity [] (.reshape [] true) ⟨.uarray, []⟩ (by decide) (by decide) rfl
  revert this; decide

/-- the guard excludes exactly these: each excluded (class kind, method) pair has a witness above -/
example : viewGuard .uquantity (.reshape [] true) = false ∧ viewGuard .uquantity (.reshape [] false) = true ∧
    viewGuard .uarray (.reshape [] false) = false ∧ viewGuard .uarray (.reshape [] true) = false ∧
    viewGuard .uquantity (.repeat_ 2) = false ∧ viewGuard .uarray .squeeze = true := by decide

/-- `unyt_quantity.reshape` to any non-empty target shape is a `unyt_array` (the override of
    array.py:2296), to `()` it stays a quantity -/
theorem quantityReshape_class (cls : PyCls) (s : Shape) (t : List Int) (r : Res) (ht : t ≠ [])
    (h : quantityReshape cls s (.dims t) = .ok r) : r.cls = .uarray ∧ r.shape ≠ [] ∧ size r.shape = size s := by
  simp only [quantityReshape] at h
  cases hr : reshape s t with
  | error e => simp [hr] at h
  | ok s' =>
    simp [hr] at h; subst h
    refine ⟨rfl, ?_, size_reshape s t s' hr⟩
    intro hnil
    have := length_reshape s t s' hr
    simp only at hnil; rw [hnil] at this; simp at this
    exact ht (List.length_eq_zero_iff.1 this.symm)

example : viewOp .uquantity [] (.reshape [1, 1] false) = .ok ⟨.uarray, [1, 1]⟩ := rfl
example : viewOp .uquantity [] (.reshape [] false) = .ok ⟨.uquantity, []⟩ := rfl
example : viewOp .uarray [2, 3] .transpose = .ok ⟨.uarray, [3, 2]⟩ := rfl
example : viewOp .uarray [1, 1] .squeeze = .ok ⟨.uquantity, []⟩ := rfl
example : viewOp .uarray [1, 3] .squeeze = .ok ⟨.uarray, [3]⟩ := rfl

/-! ## 7. lists of quantities in mixed units (`_coerce_iterable_units`) -/

section coerce
variable {K : Type} [Lean.Grind.Field K]

/-- **list_coercion_first_unit** — a non-empty list of unyt objects is coerced to the *first*
    element's unit, element for element -/
theorem list_coercion_first_unit (ne : CoItem K → CoItem K → Bool) (items : List (CoItem K))
    (vals : List K) (ff : Option (CoItem K)) (h : coerceList ne items = .ok (vals, ff)) :
    vals.length = items.length ∧
    ∀ a rest, items = a :: rest → ff.map (fun u => (u.scale, u.offset, u.dim)) = some (a.scale, a.offset, a.dim) := by
  cases items with
  | nil => simp [coerceList] at h; obtain ⟨rfl, rfl⟩ := h; simp
  | cons a rest =>
    simp only [coerceList] at h
    split at h
    · split at h
      · cases h; simp
      · cases h
    · cases h; simp

/-- the only refusal is `IterableUnitCoercionError`, raised exactly when the units differ and
    some element's dimensions differ from the first element's -/
theorem list_coercion_refusal (ne : CoItem K → CoItem K → Bool) (a : CoItem K) (rest : List (CoItem K)) (e : SErr) :
    coerceList ne (a :: rest) = .error e ↔
      (e = .IterableUnitCoercionError ∧ (a :: rest).any (fun it => ne a it) = true ∧
        (a :: rest).all (fun it => it.dim == a.dim) = false) := by
  simp only [coerceList]
  by_cases h1 : (a :: rest).any (fun it => ne a it) = true
  · by_cases h2 : (a :: rest).all (fun it => it.dim == a.dim) = true
    · simp [h1, h2]
    · simp only [h1, h2, if_true, if_false, Bool.false_eq_true]
      constructor
      · intro h; cases h; exact ⟨rfl, trivial, by simpa using h2⟩
      · rintro ⟨rfl, _, _⟩; rfl
  · simp [h1]

/-- **values converted** — over any field, with a unit comparison that only calls units equal
    when scale and offset agree: every coerced value denotes, in the first element's unit, the
    same base-unit magnitude `s·(x − o)` as the element it came from -/
theorem list_coercion_values_converted (ne : CoItem K → CoItem K → Bool)
    (hne : ∀ a b, ne a b = false → a.scale = b.scale ∧ a.offset = b.offset)
    (a : CoItem K) (rest : List (CoItem K)) (vals : List K) (ff : Option (CoItem K))
    (ha : a.scale ≠ 0) (h : coerceList ne (a :: rest) = .ok (vals, ff)) :
    ∀ p ∈ List.zip vals (a :: rest), toBase a.scale a.offset p.1 = toBase p.2.scale p.2.offset p.2.value := by
  simp only [coerceList] at h
  split at h
  · split at h
    · cases h
      rw [zip_map_self]
      intro p hp
      simp only [List.mem_map] at hp
      obtain ⟨it, _, rfl⟩ := hp
      simp only [toBase, applyConv, convFactor]
      grind
    · cases h
  · rename_i hall
    cases h
    rw [zip_map_self]
    intro p hp
    simp only [List.mem_map] at hp
    obtain ⟨it, hit, rfl⟩ := hp
    have : ne a it = false := by
      cases hn : ne a it with
      | false => rfl
      | true => exact absurd (List.any_eq_true.2 ⟨it, hit, hn⟩) hall
    obtain ⟨e1, e2⟩ := hne a it this
    simp only [toBase]; rw [e1, e2]

end coerce

/-- non-vacuity over ℚ: `[1 m, 50 cm]` → `[1, 1/2] m` -/
example : (coerceList (fun a b : CoItem Rat => a.scale != b.scale) [⟨1, 1, 0, Dim.dLength⟩, ⟨50, 1/100, 0, Dim.dLength⟩]).toOption.map (·.1)
    = some [1, 1/2] := by decide +kernel

/-! ## 7b. `_coerce_iterable_units` as a program regenerated from the live source

`UnytModel/C16CoerceProg.lean` interprets the loop body the translator `tools/extract.d/c16_coerce.py`
extracts (`Generated.c16CoerceProg`); `drv_c16` runs `coerceProg Generated.c16CoerceProg`
(opcode `c16.coerceprog`). -/

section coerceprog
open CoProg

/-- **coerceProg_refines** — for EVERY program that meets the decidable obligation `progOk`
    (first element gives `ff`, the mixed-units test looks at every element, `ff` labels the result, uniform branch keeps the readings, the loop
    body appends exactly `datum.in_units(ff)` under the error guard in every abstract element
    state: any dtype kind × commensurable or not × unit equal or not), interpreting the program on
    any list (any length, any readings, scales, offsets, dimensions, dtype kinds, over any carrier
    with `+ − × ÷`) gives exactly what the hand-written model `coerceList` gives -/
theorem coerceProg_refines {K : Type} [Add K] [Sub K] [Mul K] [Div K]
    (P : Prog) (hP : progOk P = true) (ne : CoItem K → CoItem K → Bool) (items : List (CoElem K)) :
    coerceProg P ne items = coerceList ne (items.map (·.item)) := by
  simp only [progOk, Bool.and_eq_true, beq_iff_eq, List.all_eq_true] at hP
  obtain ⟨⟨⟨⟨h1, h0⟩, h2⟩, h3⟩, h4⟩ := hP
  cases items with
  | nil => simp [coerceProg, coerceList, h1]
  | cons a rest =>
    have hbody : ∀ it : CoElem K, bodyAction P.body (absOf ne a.item it) = .emit .inUnits true :=
      fun it => h4 _ (allAbs_complete _)
    have hany : ((a :: rest).map (·.item)).any (fun it => ne a.item it) = (a :: rest).any (fun it => ne a.item it.item) := by
      rw [List.any_map]; rfl
    have hall : ((a :: rest).map (·.item)).all (fun it => it.dim == a.item.dim) = (a :: rest).all (fun it => it.item.dim == a.item.dim) := by
      rw [List.all_map]; rfl
    simp only [coerceProg, h1, h0, h2, h3, if_true, List.head?_cons, hbody, Val.apply, Bool.not_true, Bool.false_eq_true, if_false]
    rw [show coerceList ne ((a :: rest).map (·.item)) =
        (if ((a :: rest).map (·.item)).any (fun it => ne a.item it) then
          if ((a :: rest).map (·.item)).all (fun it => it.dim == a.item.dim) then
            .ok (((a :: rest).map (·.item)).map (fun it => applyConv (convFactor it.scale it.offset a.item.scale a.item.offset) it.value), some a.item)
          else .error .IterableUnitCoercionError
        else .ok (((a :: rest).map (·.item)).map (·.value), some a.item)) from rfl]
    rw [hany, hall, mapE_ok, mapE_guard]
    by_cases c1 : (a :: rest).any (fun it => ne a.item it.item) = true
    · by_cases c2 : (a :: rest).all (fun it => it.item.dim == a.item.dim) = true
      · simp only [c1, c2, if_true, List.map_map]; rfl
      · simp only [c1, c2, if_true, if_false, Bool.false_eq_true]
    · simp only [c1, if_false, Bool.false_eq_true, List.map_map]; rfl

/-- **P-tab `C16_coerce_prog`** — the program regenerated from the live `_coerce_iterable_units`
    meets the obligation (kernel-decided over all 24 abstract element states) -/
theorem C16_coerce_prog : progOk Generated.c16CoerceProg = true := by decide +kernel

/-- the regenerated program computes `coerceList` on every input -/
theorem C16_coerce_prog_refines {K : Type} [Add K] [Sub K] [Mul K] [Div K]
    (ne : CoItem K → CoItem K → Bool) (items : List (CoElem K)) :
    coerceProg Generated.c16CoerceProg ne items = coerceList ne (items.map (·.item)) :=
  coerceProg_refines _ C16_coerce_prog ne items

/-- **C16_coerce_values_converted** — last clause of C16 for the code as extracted: over any field,
    for any list of unyt elements of any dtype kinds, whenever the regenerated program returns,
    the result has one value per element, is labelled with the first element's unit, and every
    value denotes in that unit the same base magnitude `s·(x − o)` (scale AND offset) as its element -/
theorem C16_coerce_values_converted {K : Type} [Lean.Grind.Field K]
    (ne : CoItem K → CoItem K → Bool)
    (hne : ∀ a b, ne a b = false → a.scale = b.scale ∧ a.offset = b.offset)
    (a : CoElem K) (rest : List (CoElem K)) (vals : List K) (ff : Option (CoItem K))
    (ha : a.item.scale ≠ 0)
    (h : coerceProg Generated.c16CoerceProg ne (a :: rest) = .ok (vals, ff)) :
    vals.length = (a :: rest).length ∧
    ff.map (fun u => (u.scale, u.offset, u.dim)) = some (a.item.scale, a.item.offset, a.item.dim) ∧
    ∀ p ∈ List.zip vals (a :: rest),
      toBase a.item.scale a.item.offset p.1 = toBase p.2.item.scale p.2.item.offset p.2.item.value := by
  rw [C16_coerce_prog_refines] at h
  have h1 := list_coercion_first_unit ne _ vals ff h
  have h2 := list_coercion_values_converted ne hne a.item (rest.map (·.item)) vals ff ha (by simpa using h)
  refine ⟨by simpa using h1.1, h1.2 a.item (rest.map (·.item)) (by simp), ?_⟩
  intro p hp
  have : (p.1, p.2.item) ∈ List.zip vals (a.item :: rest.map (·.item)) := by
    have := List.mem_map_of_mem (f := fun q : K × CoElem K => (q.1, q.2.item)) hp
    rw [show a.item :: rest.map (·.item) = (a :: rest).map (·.item) from rfl, List.zip_map_right]
    exact this
  exact h2 _ this

/-- a program whose body stores anything but the guarded `in_units(ff)` for SOME abstract element
    state (a fast path, a raw append, a missing append, an unrecognised statement) is rejected -/
theorem progOk_rejects (P : Prog) (a : ElemAbs) (h : bodyAction P.body a ≠ .emit .inUnits true) :
    progOk P = false := by
  cases hp : progOk P with
  | false => rfl
  | true =>
    simp only [progOk, Bool.and_eq_true, beq_iff_eq, List.all_eq_true] at hp
    exact absurd (hp.2 a (allAbs_complete a)) h

/-- why the rejection matters: storing the scale ratio only (`rescale`) for an element whose unit
    has another offset than `ff` does NOT denote the element's magnitude — over any field of
    characteristic 0 the two differ exactly by `s·o − s₀·o₀` -/
theorem rescale_not_converted {K : Type} [Lean.Grind.Field K] (ff it : CoItem K) (v : K)
    (hs : ff.scale ≠ 0) (h : Val.rescale.apply ff it false = .ok v) :
    toBase ff.scale ff.offset v = toBase it.scale it.offset it.value ↔ it.scale * it.offset = ff.scale * ff.offset := by
  simp only [Val.apply] at h
  cases h
  simp only [toBase]
  constructor <;> intro h <;> grind

end coerceprog

example : CoProg.progOk CoProg.refProg = true := by decide
example : CoProg.progOk CoProg.fastPathProg = false := by decide
example : CoProg.bodyAction CoProg.fastPathProg.body ⟨.f, true, false⟩ = .emit .rescale false := by decide
/-- non-vacuity of `C16_coerce_values_converted` over ℚ with an offset unit: `[1 K, 1 degC]` → `[1, 27415/100] K` -/
example : (CoProg.coerceProg (K := Rat) CoProg.refProg (fun a b => a.scale != b.scale || a.offset != b.offset)
      [⟨⟨1, 1, 0, Dim.dTemperature⟩, .f⟩, ⟨⟨1, 1, -27315/100, Dim.dTemperature⟩, .i⟩]).toOption.map (·.1)
    = some [1, 27415/100] := by decide +kernel
/-- … and what the fast-path program computes on the same list -/
example : (CoProg.coerceProg (K := Rat) CoProg.fastPathProg (fun a b => a.scale != b.scale || a.offset != b.offset)
      [⟨⟨1, 1, 0, Dim.dTemperature⟩, .f⟩, ⟨⟨1, 1, -27315/100, Dim.dTemperature⟩, .f⟩]).toOption.map (·.1)
    = some [1, 1] := by decide +kernel

/-! ## 8. the shape algebra: when is a result a scalar? -/

/-- broadcasting gives a 0-d result only from two 0-d operands -/
theorem broadcast_scalar_iff (a b : Shape) : broadcast a b = some [] ↔ a = [] ∧ b = [] :=
  broadcast_eq_nil_iff a b

/-- a full reduction is 0-d; with `keepdims` a reduction keeps the number of dimensions, so it
    is 0-d only for a 0-d operand; over a set of axes it is 0-d iff every axis is reduced -/
theorem reduction_scalar_iff (s : Shape) :
    reduceAxes s none false = .ok [] ∧
    (∀ r, reduceAxes s none true = .ok r → (r = [] ↔ s = []) ∧ size r = 1) ∧
    (∀ axs, reduceFrom 0 axs false s = [] ↔ ∀ j, j < s.length → j ∈ axs) ∧
    (∀ axs, (reduceFrom 0 axs true s).length = s.length) := by
  refine ⟨rfl, ?_, ?_, fun axs => reduceFrom_length_keep 0 axs s⟩
  · intro r h
    simp [reduceAxes] at h; subst h
    exact ⟨by simp, size_map_one s⟩
  · intro axs
    have := reduceFrom_eq_nil_iff 0 axs s
    simp at this; exact this

/-- `squeeze` keeps the number of elements and yields a 0-d result exactly for size-1 shapes —
    which is why the class-preserving `squeeze` of a size-1 `unyt_array` is a 0-d `unyt_array` -/
theorem squeeze_scalar_iff (s : Shape) : (squeeze s = [] ↔ size s = 1) ∧ size (squeeze s) = size s :=
  ⟨by rw [squeeze_eq_nil_iff, size_eq_one_iff], size_squeeze s⟩

/-- reshape keeps the number of elements; transposition too, and it never changes 0-d-ness -/
theorem reshape_transpose_size (s : Shape) :
    (∀ t r, reshape s t = .ok r → size r = size s ∧ r.length = t.length) ∧
    size (transpose s) = size s ∧ (transpose s = [] ↔ s = []) :=
  ⟨fun t r h => ⟨size_reshape s t r h, length_reshape s t r h⟩, size_reverse s, by simp [transpose]⟩

/-- **index shape (integers)** — `a[i₁, …, i_k]` with in-range integers has the shape of `a`
    without its first `k` dimensions; it is 0-d iff every dimension is indexed -/
theorem index_ints_scalar_iff (is : List Int) (s : Shape) (h : intsInRange is s = true) :
    index s (is.map Ix.int) = .ok (s.drop is.length) ∧ (s.drop is.length = [] ↔ is.length = s.length) := by
  refine ⟨index_ints is s h, ?_⟩
  have := intsInRange_length is s h
  simp only [List.drop_eq_nil_iff]
  omega

/-- **index shape (any form)** — whatever the mix of integers, slices, Ellipsis, newaxis,
    boolean masks and integer arrays: a 0-d result is only possible when every item is an
    integer, an Ellipsis or a 0-d integer array -/
theorem index_scalar_needs_integers (s : Shape) (ixs : List Ix) (h : index s ixs = .ok []) :
    ∀ ix ∈ ixs, (∃ i, ix = .int i) ∨ ix = .ellipsis ∨ (∃ lo hi, ix = .fancy [] lo hi) := by
  intro ix hix
  have := index_scalar_items s ixs h ix hix
  cases ix with
  | int i => exact Or.inl ⟨i, rfl⟩
  | ellipsis => exact Or.inr (Or.inl rfl)
  | fancy sh lo hi =>
    simp [Ix.minRank] at this
    subst this; exact Or.inr (Or.inr ⟨lo, hi, rfl⟩)
  | slice a b st => simp [Ix.minRank] at this
  | newaxis => simp [Ix.minRank] at this
  | mask ms nt => simp [Ix.minRank] at this

/-- … hence on an array-class parent: full integer indexing is exactly what yields a
    `unyt_quantity`, partial integer indexing a sub-array of the parent's class -/
theorem getitem_ints_class {U : Type} (nu : U) (p : Obj U) (is : List Int)
    (hp : p.cls.isQuantity = false) (h : intsInRange is p.shape = true) :
    ∃ r, getitem nu p (is.map Ix.int) = .ok r ∧ r.shape = p.shape.drop is.length ∧ r.md = p.md ∧
      (r.cls = .uquantity ↔ is.length = p.shape.length) ∧ (is.length < p.shape.length → r.cls = p.cls) := by
  have hidx := (index_ints_scalar_iff is p.shape h)
  cases hg : getitem nu p (is.map Ix.int) with
  | error e =>
    obtain ⟨r, hr⟩ := getitem_total nu p _ _ hidx.1
    rw [hr] at hg; cases hg
  | ok r =>
    have ho := getitem_ok nu p _ r hg
    have hsh : r.shape = p.shape.drop is.length := by
      have := ho.1; rw [hidx.1] at this; injection this with e; exact e.symm
    refine ⟨r, rfl, hsh, ho.2.1, ?_, ?_⟩
    · rcases ho.2.2 with ⟨hc, hs⟩ | ⟨hc, hs⟩
      · exact ⟨fun _ => hidx.2.1 (hsh ▸ hs), fun _ => hc⟩
      · simp only [hp, Bool.false_eq_true, if_false] at hc
        constructor
        · intro hq; rw [hc] at hq; rw [hq] at hp; simp [uquantity_is_quantity] at hp
        · intro hl; exact absurd (hsh ▸ hidx.2.2 hl) hs
    · intro hl
      rcases ho.2.2 with ⟨hc, hs⟩ | ⟨hc, hs⟩
      · have := hidx.2.1 (hsh ▸ hs); omega
      · simpa [hp] using hc

example : index [2, 3, 4] [.int 1, .int (-1), .int 0] = .ok [] := rfl
example : index [2, 3, 4] [.ellipsis, .int 0] = .ok [2, 3] := rfl
example : index [3] [.mask [3] 2] = .ok [2] := rfl

end Unyt.C16
