/-
  C12, the edits that READ the registry before they write it: `define_unit(sym, (v, q), registry=r)` and
  `r.modify(sym, unyt_quantity(v, q, registry=r))` (`UnytModel/RegistryC12Macro.lean`; the driver executes these
  very definitions for the `c12.defunit` / `c12.modqu` opcodes).

  * `reading_edit_history_independent` — for the LIVE flags, after ANY history (reading edits included) the
    primitive calls a reading edit performs — in particular the value and dimensions it stores — are those it
    performs on a fresh registry holding the current contents.
  * `C12_reading_edits_full` — …and after any such history every call (primitive or reading edit) answers like
    the fresh registry holding the contents, where the contents of a reading edit are DEFINED by the fresh registry.
  * `C12_counterexample_define_unit_consumes_stale_unit` — the machine configured as the code was before the
    fix commits stores 3 × (stale `kfoo`).
-/
import UnytProofs.C12
import UnytProofs.Lemmas.C12Macro

set_option linter.unusedSectionVars false
set_option linter.unusedVariables false

namespace Unyt.C12
open Unyt Unyt.RegC12

/-- C12 (every call but `unit_system_id`) over histories that contain the reading edits: after every history
    every call answers like the fresh registry whose table is the contents, a reading edit changing the contents
    as it would change a fresh registry's -/
def MacroFullExceptId (cfg : Cfg) : Prop :=
  ∀ (K : Type) [Mul K] [OfNat K 1] [OfNat K 0] [RPow K] (pre : Prefixes K)
    (parse : String → Except Err (PExpr K)) (t0 : Lut K) (ms : List (MOp K)) (m : MOp K),
    m.isSysId = false →
    Out.Sim (mstep cfg pre parse (mrun cfg pre parse (fresh t0) ms) m).2
            (mstep cfg pre parse (fresh (mcontents cfg pre parse t0 ms)) m).2

/-- invalidating edits ⇒ what a reading edit reads, and therefore writes, does not depend on the history -/
theorem reading_edit_expansion_of_full (cfg : Cfg) (hf : FullExceptId cfg)
    {K : Type} [Mul K] [OfNat K 1] [OfNat K 0] [RPow K] (pre : Prefixes K)
    (parse : String → Except Err (PExpr K)) (t0 : Lut K) (ms : List (MOp K)) (m : MOp K) :
    mexpand cfg pre parse (mrun cfg pre parse (fresh t0) ms) m
      = mexpand cfg pre parse (fresh (mcontents cfg pre parse t0 ms)) m := by
  have hp : PrimFull cfg pre parse := fun t0 h op hop => hf K pre parse t0 h op hop
  obtain ⟨H, h1, h2⟩ := mrun_flat cfg pre parse hp t0 ms
  rw [h1, h2]
  exact mexpand_indep cfg pre parse hp t0 H m

theorem macro_refines_fresh (cfg : Cfg) (hf : FullExceptId cfg) : MacroFullExceptId cfg := by
  intro K _ _ _ _ pre parse t0 ms m hm
  have hp : PrimFull cfg pre parse := fun t0 h op hop => hf K pre parse t0 h op hop
  obtain ⟨H, h1, h2⟩ := mrun_flat cfg pre parse hp t0 ms
  simp only [mstep]
  rw [h1, h2]
  exact mout_sim cfg pre parse hp t0 H m hm

/-- for the LIVE source: `define_unit` / `modify(sym, quantity)` read, and hence store, what a fresh registry
    with the current contents would — after any history of edits, reading edits, constructions and look-ups -/
theorem reading_edit_history_independent
    {K : Type} [Mul K] [OfNat K 1] [OfNat K 0] [RPow K] (pre : Prefixes K)
    (parse : String → Except Err (PExpr K)) (t0 : Lut K) (ms : List (MOp K)) (m : MOp K) :
    mexpand Generated.registryCfg pre parse (mrun Generated.registryCfg pre parse (fresh t0) ms) m
      = mexpand Generated.registryCfg pre parse (fresh (mcontents Generated.registryCfg pre parse t0 ms)) m :=
  reading_edit_expansion_of_full _ C12_resolution_full pre parse t0 ms m

/-- C12 for the LIVE source over histories with reading edits, every call but `unit_system_id` -/
theorem C12_reading_edits_full : MacroFullExceptId Generated.registryCfg :=
  macro_refines_fresh _ C12_resolution_full

/-- the converse: primitive calls are calls -/
theorem full_of_macro_full (cfg : Cfg) (hm : MacroFullExceptId cfg) : FullExceptId cfg := by
  intro K _ _ _ _ pre parse t0 h op hop
  have e1 : ∀ s : RegState K, mrun cfg pre parse s (h.map MOp.prim) = run cfg pre parse s h := by
    induction h with
    | nil => intro s; rfl
    | cons o h ih => intro s; simp only [List.map_cons, mrun, List.foldl_cons, run] at ih ⊢; exact ih _
  have e2 : ∀ c : Lut K, mcontents cfg pre parse c (h.map MOp.prim) = contents c h := by
    clear e1
    induction h with
    | nil => intro c; rfl
    | cons o h ih =>
      intro c
      simp only [List.map_cons, mcontents, List.foldl_cons, contents] at ih ⊢
      have e : mspec cfg pre parse c (MOp.prim o) = specStep c o := rfl
      rw [e]; exact ih _
  have := hm K pre parse t0 (h.map MOp.prim) (.prim op) (by cases op <;> first | rfl | simp [Op.isSysId] at hop)
  rw [e1, e2] at this
  exact this

theorem macro_full_iff (cfg : Cfg) : MacroFullExceptId cfg ↔ (cfg.clearCache && cfg.purgeDerived) = true :=
  ⟨fun h => (fullExceptId_iff cfg).1 (full_of_macro_full cfg h),
   fun h => macro_refines_fresh cfg ((fullExceptId_iff cfg).2 h)⟩

open Witness in
/-- `r.add("foo", 2 m, prefixable); Unit("kfoo", registry=r); r.modify("foo", 3.0);
    define_unit("zot", (3.0, "kfoo"), registry=r)`: the machine configured as the code was before the fix stores
    3 × 2000 m, a fresh registry with the same contents 3 × 3000 m; the live configuration stores 9000 m -/
theorem C12_counterexample_define_unit_consumes_stale_unit :
    (mstep Cfg.asIs pre parse (mrun Cfg.asIs pre parse (fresh t0)
        [.prim (.add "foo" foo2), .prim (.unit "kfoo"), .prim (.modifyF "foo" 3), .defineUnit "zot" 3 "kfoo" true])
        (.prim (.unit "zot"))).2 = .unit 1 ⟨6000, 0, Dim.dLength⟩ ∧
    (mstep Cfg.asIs pre parse (fresh (mcontents Cfg.asIs pre parse t0
        [.prim (.add "foo" foo2), .prim (.unit "kfoo"), .prim (.modifyF "foo" 3), .defineUnit "zot" 3 "kfoo" true]))
        (.prim (.unit "zot"))).2 = .unit 0 ⟨9000, 0, Dim.dLength⟩ ∧
    (mstep Generated.registryCfg pre parse (mrun Generated.registryCfg pre parse (fresh t0)
        [.prim (.add "foo" foo2), .prim (.unit "kfoo"), .prim (.modifyF "foo" 3), .defineUnit "zot" 3 "kfoo" true])
        (.prim (.unit "zot"))).2 = .unit 2 ⟨9000, 0, Dim.dLength⟩ := by decide +kernel

open Witness in
/-- the reading edits do something in the witness world: `modify("foo", 7 kfoo)` on the live machine makes
    `foo` 14000 m; `define_unit` of an existing symbol is refused -/
example :
    (mstep Generated.registryCfg pre parse (mrun Generated.registryCfg pre parse (fresh t0)
        [.prim (.add "foo" foo2), .modifyQu "foo" 7 "kfoo"]) (.prim (.unit "foo"))).2
      = .unit 1 ⟨14000, 0, Dim.dLength⟩ ∧
    (mstep Generated.registryCfg pre parse (mrun Generated.registryCfg pre parse (fresh t0)
        [.prim (.add "foo" foo2)]) (.defineUnit "foo" 3 "s" true)).2 = .err .RuntimeError := by decide +kernel

end Unyt.C12
