/-
  C08 — offset temperature scales follow point/difference semantics or refuse.

  The theorems are about `UnytModel.Temp` (the model the driver `drv_c08` executes) over the exact
  table `Ref.exactTab` and the kelvin denotations `Ref.absK` / `Ref.difK`, for every field of
  characteristic zero, every ordered pair of units of the family (the prefix symbol ranging over
  the regenerated `unit_prefixes`, its value over all non-zero numbers) and all readings.
  Property statements only; helper lemmas are in `UnytProofs/Lemmas/C08*.lean`.
-/
import UnytProofs.Lemmas.C08

set_option linter.unusedSectionVars false

namespace Unyt.C08
open Unyt Unyt.Temp Unyt.Temp.Ref

section general
variable {K : Type} [Lean.Grind.Field K] [Lean.Grind.IsCharP K 0] [BEq K] [LawfulBEq K]
  [IsClose K] [LawfulIsClose K]

/-- every returned sum is the one affine arithmetic gives: point + difference, difference +
    point (the difference expressed in the unit the result is labelled with), difference +
    difference -/
theorem temp_add_correct (u0 u1 : TU K) (x0 x1 : K) (h0 : u0.WF) (h1 : u1.WF) (r : TU K × K)
    (h : tempAdd exactTab u0 x0 u1 x1 = .ok r) : addSpec u0 x0 u1 x1 r := by
  have hs0 := scale_ne u0 h0
  have hs1 := scale_ne u1 h1
  obtain ⟨c, hc, rfl⟩ := tempAdd_ok h
  have hy := convSecond_spec h0 hc x1
  have hy0 : applyC (c.map fun _ => u0.scale exactTab / u1.scale exactTab) x0 * u1.scale exactTab
      = x0 * u0.scale exactTab := by
    cases c with
    | some v => simp only [Option.map, applyC]; grind
    | none =>
      simp only [Option.map, applyC]
      unfold convSecond at hc
      split at hc
      · rename_i he; rw [((unitEq_iff _ _ _).1 he).1]
      · simp only at hc; split at hc <;> cases hc
  simp only [addSpec, preserveUnits, hasOffset_exact]
  cases hk0 : kind u0.base <;> cases hk1 : kind u1.base <;> simp <;>
    simp only [absK_eq, difK_eq] <;> grind

theorem temp_sub_correct (u0 u1 : TU K) (x0 x1 : K) (h0 : u0.WF) (h1 : u1.WF) (r : TU K × K)
    (h : tempSub exactTab u0 x0 u1 x1 = .ok r) : subSpec u0 x0 u1 x1 r := by
  obtain ⟨c, l, hc, hl, rfl⟩ := tempSub_ok h
  have hy := convSecond_spec h0 hc x1
  have hs0 := scale_ne u0 h0
  have hs1 := scale_ne u1 h1
  unfold differenceUnits at hl
  simp only [degF_repr _ h0, degC_repr _ h0, infix_and_delta _ _ h0 h1, infix_and_delta _ _ h1 h0,
    hasOffset_exact, infixTab_eq] at hl
  split at hl
  · -- `unit2 != unit1`: the string branch
    split at hl
    · -- result labelled with the first unit; the second is a bare delta unit
      rename_i hne hA
      cases hl
      simp only [Bool.and_eq_true, Bool.or_eq_true, isBare_iff] at hA
      have hk1 : kind u1.base = .diff := by
        rcases hA.2 with h | h <;> rw [h] <;> rfl
      simp only [subSpec, hk1]
      cases hk0 : kind u0.base <;> simp only [absK_eq, difK_eq, true_and] <;> grind
    · split at hl
      · -- result labelled with the second unit; the first is a bare delta unit
        rename_i hne hA hB
        cases hl
        simp only [Bool.and_eq_true, Bool.or_eq_true, isBare_iff] at hB
        have hk0 : kind u0.base = .diff := by
          rcases hB.2 with h | h <;> rw [h] <;> rfl
        simp only [subSpec, hk0]
        cases hk1 : kind u1.base
        · trivial
        · -- both differences: the names force the same unit
          have : u1 = u0 := by
            rcases u0 with ⟨p0, b0⟩
            rcases u1 with ⟨p1, b1⟩
            rcases hB.2 with h | h <;> cases h <;> cases p1 <;> cases b1 <;>
              simp_all [kind]
          subst this
          simp only [difK_eq, true_and]
          grind
      · cases hl
  · -- `unit2 == unit1`: same scale and same offset
    rename_i he
    have he' : unitEq exactTab u1 u0 = true := by simpa using he
    obtain ⟨hsc, hof⟩ := (unitEq_iff _ _ _).1 he'
    obtain ⟨hk, hz⟩ := offset_eq_facts u0 u1 hof
    have hyx : applyC c x1 = x1 := by rw [hsc] at hy; grind
    split at hl
    · rename_i hd
      cases hl
      have hk0 : kind u0.base = .diff := by
        cases hq : kind u0.base <;> simp_all
      simp only [subSpec, hk, hk0, difK_eq, true_and]
      grind
    · rename_i hp
      have hk0 : kind u0.base = .point := by
        cases hq : kind u0.base <;> simp_all
      split at hl
      · rename_i hb
        cases hl
        have := (isBare_iff _ _).1 hb
        subst this
        rw [hk0] at hk
        simp only [subSpec, hk, hk0]
        exact ⟨rfl, point_point_sub _ _ _ _ _ _ rfl hsc hz hyx⟩
      · split at hl
        · rename_i hb
          cases hl
          have := (isBare_iff _ _).1 hb
          subst this
          rw [hk0] at hk
          simp only [subSpec, hk, hk0]
          exact ⟨rfl, point_point_sub _ _ _ _ _ _ rfl hsc hz hyx⟩
        · cases hl

/-- the numbers a comparison kernel receives are the two readings in one common unit (the first
    operand's), whenever both are differences or both are points.
    NO CLAIM (`True`) for a point compared with a difference: the property is silent there, and the
    code hands the raw readings to the kernel (`30 degC < 300 K` compares 30 with 300) unless the
    second operand is an offset unit and the first is not a bare delta unit, which is refused. -/
def cmpSpec (u0 : TU K) (x0 : K) (u1 : TU K) (x1 : K) (r : K × K) : Prop :=
  match kind u0.base, kind u1.base with
  | .diff, .diff => difK u0 r.1 = difK u0 x0 ∧ difK u0 r.2 = difK u1 x1
  | .point, .point => absK u0 r.1 = absK u0 x0 ∧ absK u0 r.2 = absK u1 x1
  | _, _ => True

theorem temp_cmp_correct (u0 u1 : TU K) (x0 x1 : K) (h0 : u0.WF) (r : K × K)
    (h : tempCmpArgs exactTab u0 x0 u1 x1 = .ok r) : cmpSpec u0 x0 u1 x1 r := by
  unfold tempCmpArgs binaryPrep at h
  simp only [show (Rule.comparison == Rule.preserve) = false from rfl, Bool.false_and,
    Bool.false_eq_true, if_false] at h
  split at h
  · rename_i l c hb
    split at hb
    · cases hb
    · rename_i c' hc
      cases hb; cases h
      have hy := convSecond_spec h0 hc x1
      have hs0 := scale_ne u0 h0
      simp only [cmpSpec]
      cases hk0 : kind u0.base <;> cases hk1 : kind u1.base <;> simp only [difK_eq, true_and]
      · -- point, point: only equal units get here
        unfold convSecond at hc
        split at hc
        · rename_i he
          obtain ⟨hsc, hof⟩ := (unitEq_iff _ _ _).1 he
          obtain ⟨_, hz⟩ := offset_eq_facts u0 u1 hof.symm
          simp only [absK_eq, hz]
          grind
        · simp only [hasOffset_exact, offset_exact_zero, hk0, hk1, delta_repr _ h0] at hc
          have hb0 : (u0.isBare .dC || u0.isBare .dF) = false := by
            rcases u0 with ⟨p0, b0⟩
            cases b0 <;> simp_all [TU.isBare, kind]
          simp [hb0] at hc
      · grind
  · cases h

/-- combining two different offset scales is refused by every additive and comparison form -/
theorem temp_refuses_mixed_offset_scales (rule : Rule) (u0 u1 : TU K) (h0 : u0.WF)
    (hd : differentOffsetScales u0 u1 = true) :
    binaryPrep rule exactTab u0 u1 = .error .InvalidUnitOperation := by
  simp only [differentOffsetScales, Bool.and_eq_true, beq_iff_eq, Bool.not_eq_true',
    Bool.and_eq_false_iff] at hd
  obtain ⟨⟨hk0, hk1⟩, hne⟩ := hd
  have hne' : unitEq exactTab u0 u1 = false := by
    cases he : unitEq exactTab u0 u1
    · rfl
    · obtain ⟨hsc, hof⟩ := (unitEq_iff _ _ _).1 he
      obtain ⟨_, hz⟩ := offset_eq_facts u0 u1 hof.symm
      simp only [absK_eq, hsc, hz, beq_self_eq_true] at hne
      simp at hne
  have hb0 : (u0.isBare .dC || u0.isBare .dF) = false := by
    rcases u0 with ⟨p0, b0⟩
    cases b0 <;> simp_all [TU.isBare, kind]
  simp [binaryPrep, krGuard, convSecond, hasOffset_exact, offset_exact_zero, hk0, hk1, hne',
    delta_repr _ h0, hb0]

theorem temp_add_sub_cmp_refuse_mixed (u0 u1 : TU K) (x0 x1 : K) (h0 : u0.WF)
    (hd : differentOffsetScales u0 u1 = true) :
    tempAdd exactTab u0 x0 u1 x1 = .error .InvalidUnitOperation
    ∧ tempSub exactTab u0 x0 u1 x1 = .error .InvalidUnitOperation
    ∧ tempCmpArgs exactTab u0 x0 u1 x1 = .error .InvalidUnitOperation := by
  simp [tempAdd, tempSub, tempCmpArgs, temp_refuses_mixed_offset_scales _ u0 u1 h0 hd]

/-- `np.subtract.reduce` over two readings of one unit (`_difference_units(u)`): difference −
    difference keeps the unit, point − point of °C / °F is labelled with the matching delta unit -/
theorem temp_sub_reduce_correct (u : TU K) (x0 x1 : K) (h0 : u.WF) (l : TU K)
    (h : reduceUnit .difference exactTab u = .ok (some l)) : subSpec u x0 u x1 (l, x0 - x1) := by
  simp only [reduceUnit, differenceUnits, degF_repr _ h0, degC_repr _ h0, hasOffset_exact] at h
  split at h
  · rename_i hd
    simp only [Except.map, Except.ok.injEq, Option.some.injEq] at h
    subst h
    have hk : kind u.base = .diff := by cases hq : kind u.base <;> simp_all
    simp only [subSpec, hk, difK_eq, true_and]; grind
  · rename_i hp
    have hk : kind u.base = .point := by cases hq : kind u.base <;> simp_all
    split at h
    · rename_i hb
      simp only [Except.map, Except.ok.injEq, Option.some.injEq] at h
      subst h
      have := (isBare_iff _ _).1 hb
      subst this
      simp only [subSpec, hk]
      exact ⟨rfl, point_point_sub _ _ _ _ _ _ rfl rfl rfl rfl⟩
    · split at h
      · rename_i hb
        simp only [Except.map, Except.ok.injEq, Option.some.injEq] at h
        subst h
        have := (isBare_iff _ _).1 hb
        subst this
        simp only [subSpec, hk]
        exact ⟨rfl, point_point_sub _ _ _ _ _ _ rfl rfl rfl rfl⟩
      · simp [Except.map] at h

/-! ### multiplicative forms -/

/-- `*` with an offset-scale quantity on either side (the other operand being any temperature
    quantity, a number, a dimensionless quantity or a quantity of another dimension) is refused -/
theorem temp_mul_refuses [RPow K] (a b : Opnd K)
    (h : opndOnOffsetScale a = true ∨ opndOnOffsetScale b = true) :
    tempMul exactTab a b = .error .InvalidUnitOperation := by
  have key : (offsetTemp (a.unit exactTab) || offsetTemp (b.unit exactTab)) = true := by
    rcases h with h | h
    · cases a <;> simp_all [opndOnOffsetScale, Opnd.unit, offsetTemp_toUnitV]
    · cases b <;> simp_all [opndOnOffsetScale, Opnd.unit, offsetTemp_toUnitV]
  unfold tempMul
  split
  · rename_i e he; rw [mul_error he]
  · simp [key]

/-- `/` and `//` with an offset-scale quantity on either side are refused -/
theorem temp_div_refuses [RPow K] (a b : Opnd K)
    (h : opndOnOffsetScale a = true ∨ opndOnOffsetScale b = true) :
    tempDivide exactTab a b = .error .InvalidUnitOperation := by
  have key : (offsetTemp (a.unit exactTab) || offsetTemp (b.unit exactTab)) = true := by
    rcases h with h | h
    · cases a <;> simp_all [opndOnOffsetScale, Opnd.unit, offsetTemp_toUnitV]
    · cases b <;> simp_all [opndOnOffsetScale, Opnd.unit, offsetTemp_toUnitV]
  unfold tempDivide
  split
  · rename_i e he; rw [div_error he]
  · simp [key]

/-- `//` (`floor_divide`, registered with `_floor_divide_units`) with an offset-scale quantity on
    either side never returns a number: two temperature operands are refused by the rescaling
    block or by the division of the units, any other operand by the `_divide_units` fall-back -/
theorem temp_floordiv_refuses [RPow K] (a b : Opnd K)
    (h : opndOnOffsetScale a = true ∨ opndOnOffsetScale b = true) :
    tempFloorDivide exactTab a b = .error .InvalidUnitOperation := by
  have hd := temp_div_refuses a b h
  cases a with
  | temp u0 =>
    cases b with
    | temp u1 =>
      simp only [tempFloorDivide]
      cases hc : convSecond exactTab u0 u1 with
      | error e => rw [convSecond_error hc]
      | ok c =>
        simp only
        cases hq : UnitV.div (toUnitV exactTab u0) (toUnitV exactTab u1) with
        | error e => rw [div_error hq]
        | ok r =>
          exfalso
          have key : (offsetTemp (toUnitV exactTab u0) || offsetTemp (toUnitV exactTab u1)) = true := by
            rcases h with h | h <;> simp_all [opndOnOffsetScale, offsetTemp_toUnitV]
          have d1 : ¬ Dim.dTemperature = Dim.dLogarithmic := by decide
          have d2 : ¬ Dim.dTemperature = Dim.one := by decide
          simp only [offsetTemp, toUnitV, Bool.or_eq_true, Bool.and_eq_true, bne_iff_ne, ne_eq] at key
          simp only [UnitV.div, UnitV.isLogarithmic, UnitV.isDimensionless, UnitV.isTempOrAngle, toUnitV] at hq
          rcases key with k | k <;> simp [k.1.1, d1, d2] at hq
    | dimless => simp [tempFloorDivide, hd, Except.map]
    | other => simp [tempFloorDivide, hd, Except.map]
  | dimless => simp [tempFloorDivide, hd, Except.map]
  | other => simp [tempFloorDivide, hd, Except.map]

/-- when `//` of two temperature quantities returns, the divisor the kernel receives is the second
    reading expressed in the first operand's unit, and the result is a pure number -/
theorem temp_floordiv_common_unit [RPow K] (u0 u1 : TU K) (h0 : u0.WF) (x1 : K) (r : UnitV K) (c : Option K)
    (h : tempFloorDivide exactTab (.temp u0) (.temp u1) = .ok (r, c)) :
    applyC c x1 * u0.scale exactTab = x1 * u1.scale exactTab ∧ r = UnitV.dimensionless := by
  simp only [tempFloorDivide] at h
  split at h
  · cases h
  · rename_i c' hc
    split at h
    · cases h
    · simp only [Except.ok.injEq, Prod.mk.injEq] at h
      obtain ⟨h1, h2⟩ := h
      subst h1; subst h2
      exact ⟨convSecond_spec h0 hc x1, rfl⟩

/-! ### power forms, roots, reductions -/

/-- the forms the property requires to refuse an offset-scale quantity.
    EXEMPT (no claim, and the code does return): the exponents 0 and 1 (`x ** 0`, `x ** 1`,
    `np.power(x, 0|1)`) and product reductions over fewer than two elements — `Unit.__pow__` lets
    those through for every unit. -/
def powerLike : UnOp → Bool
  | .sqrt | .cbrt | .square | .reciprocal => true
  | .power p => p != 0 && p != 1
  | .mulReduce n => decide (2 ≤ n)

/-- squaring an offset-scale quantity is refused (`np.square`, `x ** 2`, `x * x`) -/
theorem temp_square_refuses [RPow K] (u : TU K) (h : onOffsetScale u = true) :
    tempUnary exactTab .square u = .error .InvalidUnitOperation := by
  have ho := offsetTemp_toUnitV (K := K) u
  rw [h] at ho
  simp only [offsetTemp, Bool.and_eq_true, bne_iff_ne, ne_eq] at ho
  simp only [tempUnary]
  cases hm : UnitV.mul (toUnitV exactTab u) (toUnitV exactTab u) with
  | error e => rw [mul_error hm]
  | ok r =>
    exfalso
    have d1 : ¬ Dim.dTemperature = Dim.dLogarithmic := by decide
    have d2 : ¬ Dim.dTemperature = Dim.one := by decide
    simp only [UnitV.mul, UnitV.mulOffset, UnitV.isLogarithmic, UnitV.isDimensionless,
      UnitV.isTempOrAngle, toUnitV] at hm ho
    simp [ho.1.1, d1, d2] at hm

/-- every power form — roots, reciprocal, `np.power` / `x ** p` / `**=` with an exponent other
    than 0 and 1, product reductions over two or more elements, squaring — refuses an offset-scale
    quantity -/
theorem temp_power_refuses [RPow K] (u : TU K) (op : UnOp) (ho : onOffsetScale u = true)
    (hop : powerLike op = true) : tempUnary exactTab op u = .error .InvalidUnitOperation := by
  have hoff : (u.offset exactTab != 0) = true := by
    have := hasOffset_exact u; simp only [hasOffset] at this; rw [this]; exact ho
  cases op <;> simp only [tempUnary, unitPow, hoff, Bool.true_and]
  · simp; intro h; exact absurd h (by decide +kernel)
  · simp; intro h; exact absurd h (by decide +kernel)
  · exact temp_square_refuses u ho
  · simp; intro h; exact absurd h (by decide +kernel)
  · simp only [powerLike, Bool.and_eq_true] at hop; simp [hop.1, hop.2]
  · rename_i n
    simp only [powerLike, decide_eq_true_eq] at hop
    have h0 : ((n : Rat) != 0) = true := by
      simp only [bne_iff_ne, ne_eq]
      intro h1
      have : n = 0 := by exact_mod_cast h1
      omega
    have h1 : ((n : Rat) != 1) = true := by
      simp only [bne_iff_ne, ne_eq]
      intro h1
      have : n = 1 := by exact_mod_cast h1
      omega
    simp [h0, h1]

/-! ### diff / ediff1d / ptp -/

/-- what `x[i+1] − x[i]` must be: a difference unit whose labelled reading denotes the difference
    of the two readings (difference − difference, or point − point) -/
def diffSpec (u : TU K) (xa xb : K) (r : TU K × K) : Prop :=
  kind r.1.base = .diff ∧ difK r.1 r.2 = den (kind u.base) u xb - den (kind u.base) u xa

/-- every value `np.diff` / `np.ediff1d` / `np.ptp` return is the difference of the readings, in a
    difference unit of the right size -/
theorem temp_diff_correct (u : TU K) (xa xb : K) (r : TU K × K)
    (h : tempDiff exactTab u xa xb = .ok r) : diffSpec u xa xb r := by
  unfold tempDiff diffHelper at h
  split at h
  · rename_i l hl
    split at hl
    · cases hl
    · rename_i hno
      have hk : kind u.base = .diff := by
        rw [hasOffset_exact] at hno
        cases hq : kind u.base <;> simp_all
      split at hl
      · rename_i he
        cases hl; cases h
        have hsc := ((unitEq_iff _ _ _).1 he).1
        simp only [diffSpec, hk, den]
        refine ⟨rfl, ?_⟩
        simp only [difK_eq, ← hsc]; grind
      · cases hl; cases h
        simp only [diffSpec, hk, den, difK_eq, true_and]; grind
  · cases h

/-- `np.diff`, `np.ediff1d`, `np.ptp` refuse arrays on an offset scale -/
theorem temp_diff_refuses (u : TU K) (xa xb : K) (h : onOffsetScale u = true) :
    tempDiff exactTab u xa xb = .error .InvalidUnitOperation := by
  simp [tempDiff, diffHelper, hasOffset_exact, onOffsetScale] at h ⊢
  simp [h]

/-! ### conversions -/

/-- conversion between any two units of the family is the exact affine map between the scales:
    the converted reading marks the same absolute temperature -/
theorem temp_conversions_affine (u v : TU K) (hu : u.WFP) (hv : v.WFP) (x : K) :
    absK v (tempConv genSyms genNames exactTab u v x) = absK u x := by
  have eu := eff_spec u hu
  have ev := eff_spec v hv
  have hsv := scale_ne v hv.1
  simp only [tempConv, tempConvFactor, absK_eq]
  generalize effOffset (splitsPrefix genSyms genNames u.str) (u.scale exactTab) (u.offset exactTab) = a at eu
  generalize effOffset (splitsPrefix genSyms genNames v.str) (v.scale exactTab) (v.offset exactTab) = b at ev
  split
  · rename_i h0
    simp only [Bool.and_eq_true, beq_iff_eq] at h0
    have zu := zero_of_offset_zero u h0.1
    have zv := zero_of_offset_zero v h0.2
    simp only [applyTempFactor, zu, zv]
    grind
  · simp only [applyTempFactor]
    split
    · grind
    · rename_i hz
      have hz' : u.scale exactTab / v.scale exactTab * a - b = 0 := by
        simpa using hz
      grind

end general

/-! ### the property at full strength -/

/-- C08 at full strength, about the faithful model over the exact table `Ref.exactTab` (the driver
    runs the same functions on the regenerated table at `Float`; the bridge is the kernel-decided
    `temp_rows_exact`, `temp_rows_structure`, `temp_generated_decisions_*`,
    `temp_generated_numbers_close`, `temp_generated_conversions_close`): for every field of
    characteristic zero with lawful `==` (`math.isclose` of `Unit.__eq__` is equality here), every
    unit of the family (any SI prefix of the regenerated prefix table on either side) and all readings.
    Where the specs make no claim: `addSpec` on point + point, `subSpec` on difference − point,
    `cmpSpec` on point-vs-difference (all `True`, see their definitions); `powerLike` exempts the
    exponents 0 and 1 and products over fewer than two elements.  In the conversion clause K, R and
    the delta units are absolute scales with zero at 0 K (`20 degC → 293.15 delta_degC`), which is
    what the library does and what `Ref.absK` says. -/
def C08_full : Prop :=
  ∀ (K : Type) [Lean.Grind.Field K] [Lean.Grind.IsCharP K 0] [BEq K] [LawfulBEq K]
    [IsClose K] [LawfulIsClose K] [RPow K],
    -- conversions are the exact affine maps
    (∀ (u v : TU K), u.WFP → v.WFP → ∀ x : K,
        absK v (tempConv genSyms genNames exactTab u v x) = absK u x)
    -- a returned sum / difference / comparison is the one affine arithmetic gives
    ∧ (∀ (u0 u1 : TU K), u0.WF → u1.WF → ∀ (x0 x1 : K) (r : TU K × K),
        tempAdd exactTab u0 x0 u1 x1 = .ok r → addSpec u0 x0 u1 x1 r)
    ∧ (∀ (u0 u1 : TU K), u0.WF → u1.WF → ∀ (x0 x1 : K) (r : TU K × K),
        tempSub exactTab u0 x0 u1 x1 = .ok r → subSpec u0 x0 u1 x1 r)
    ∧ (∀ (u0 u1 : TU K), u0.WF → u1.WF → ∀ (x0 x1 : K) (r : K × K),
        tempCmpArgs exactTab u0 x0 u1 x1 = .ok r → cmpSpec u0 x0 u1 x1 r)
    ∧ (∀ (u : TU K), u.WF → ∀ (xa xb : K) (r : TU K × K),
        tempDiff exactTab u xa xb = .ok r → diffSpec u xa xb r)
    -- refusals
    ∧ (∀ (u0 u1 : TU K), u0.WF → u1.WF → differentOffsetScales u0 u1 = true → ∀ x0 x1 : K,
        (∃ e, tempAdd exactTab u0 x0 u1 x1 = .error e) ∧ (∃ e, tempSub exactTab u0 x0 u1 x1 = .error e)
        ∧ (∃ e, tempCmpArgs exactTab u0 x0 u1 x1 = .error e))
    ∧ (∀ (a b : Opnd K), opndOnOffsetScale a = true ∨ opndOnOffsetScale b = true →
        (∃ e, tempMul exactTab a b = .error e) ∧ (∃ e, tempDivide exactTab a b = .error e)
        ∧ (∃ e, tempFloorDivide exactTab a b = .error e))
    ∧ (∀ (u : TU K) (op : UnOp), u.WF → onOffsetScale u = true → powerLike op = true →
        ∃ e, tempUnary exactTab op u = .error e)
    ∧ (∀ (u : TU K), u.WF → onOffsetScale u = true → ∀ xa xb : K,
        ∃ e, tempDiff exactTab u xa xb = .error e)

/-- the full statement holds of the model of the current code (with the three `fix:` repairs of
    fixes/C08-0{1,2,3}-*.patch in the tree; before them it was false: `1 Δ°C + 50 °F` was `28.78 °F`,
    `sqrt` of a °C quantity returned, `diff` of rankine readings was labelled `delta_degC`) -/
theorem C08_holds : C08_full := by
  intro K _ _ _ _ _ _ _
  refine ⟨temp_conversions_affine, ?_, ?_, ?_, ?_, ?_, ?_, ?_, ?_⟩
  · intro u0 u1 h0 h1 x0 x1 r h; exact temp_add_correct u0 u1 x0 x1 h0 h1 r h
  · intro u0 u1 h0 h1 x0 x1 r h; exact temp_sub_correct u0 u1 x0 x1 h0 h1 r h
  · intro u0 u1 h0 _ x0 x1 r h; exact temp_cmp_correct u0 u1 x0 x1 h0 r h
  · intro u _ xa xb r h; exact temp_diff_correct u xa xb r h
  · intro u0 u1 h0 _ hd x0 x1
    obtain ⟨a, b, c⟩ := temp_add_sub_cmp_refuse_mixed u0 u1 x0 x1 h0 hd
    exact ⟨⟨_, a⟩, ⟨_, b⟩, ⟨_, c⟩⟩
  · intro a b h; exact ⟨⟨_, temp_mul_refuses a b h⟩, ⟨_, temp_div_refuses a b h⟩, ⟨_, temp_floordiv_refuses a b h⟩⟩
  · intro u op _ ho hop; exact ⟨_, temp_power_refuses u op ho hop⟩
  · intro u _ ho xa xb; exact ⟨_, temp_diff_refuses u xa xb ho⟩


/-! ### non-vacuity: concrete instances meeting the hypotheses -/

/-- 20 °C + 9 Δ°F = 25 °C; and the former counterexample: 1 Δ°C + 50 °F = 51.8 °F -/
example : tempAdd (K := Rat) exactTab ⟨none, .degC⟩ 20 ⟨none, .dF⟩ 9 = .ok (⟨none, .degC⟩, 25)
    ∧ tempAdd (K := Rat) exactTab ⟨none, .dC⟩ 1 ⟨none, .degF⟩ 50 = .ok (⟨none, .degF⟩, 259 / 5) := by
  decide +kernel
/-- a prefixed instance: 1 K + 500 mK = 1.5 K, with `m` a symbol of the regenerated table -/
example : tempAdd (K := Rat) exactTab ⟨none, .K⟩ 1 ⟨some ⟨[109], 1 / 1000⟩, .K⟩ 500 = .ok (⟨none, .K⟩, 3 / 2)
    ∧ ([109] ∈ genSyms) := by decide +kernel
/-- point − point: 30 °C − 10 °C = 20 Δ°C -/
example : tempSub (K := Rat) exactTab ⟨none, .degC⟩ 30 ⟨none, .degC⟩ 10 = .ok (⟨none, .dC⟩, 20) := by
  decide +kernel
/-- two different offset scales: °C and °F, and °C and m°C -/
example : differentOffsetScales (K := Rat) ⟨none, .degC⟩ ⟨none, .degF⟩ = true
    ∧ differentOffsetScales (K := Rat) ⟨none, .degC⟩ ⟨some ⟨[109], 1 / 1000⟩, .degC⟩ = true := by
  decide +kernel
/-- a comparison that returns: 1 K against 1 R is 1 against 5/9 -/
example : tempCmpArgs (K := Rat) exactTab ⟨none, .K⟩ 1 ⟨none, .R⟩ 1 = .ok (1, 5 / 9) := by decide +kernel
/-- a conversion instance: 100 °C is 212 °F, 1000 m°C is 274.15 K -/
example : tempConv (K := Rat) genSyms genNames exactTab ⟨none, .degC⟩ ⟨none, .degF⟩ 100 = 212
    ∧ tempConv (K := Rat) genSyms genNames exactTab ⟨some ⟨[109], 1 / 1000⟩, .degC⟩ ⟨none, .K⟩ 1000 = 27415 / 100 := by
  decide +kernel
/-- `diff`: kelvin readings are labelled Δ°C, rankine readings stay rankine -/
example : tempDiff (K := Rat) exactTab ⟨none, .K⟩ 1 10 = .ok (⟨none, .dC⟩, 9)
    ∧ tempDiff (K := Rat) exactTab ⟨none, .R⟩ 1 10 = .ok (⟨none, .R⟩, 9) := by decide +kernel

/-- operands on an offset scale (hypotheses of the ×, ÷, power and diff refusals) -/
example : opndOnOffsetScale (K := Rat) (.temp ⟨none, .degC⟩) = true
    ∧ onOffsetScale (K := Rat) ⟨some ⟨[109], 1 / 1000⟩, .degC⟩ = true
    ∧ powerLike (.power 3) = true ∧ powerLike .sqrt = true := by decide +kernel
/-- `10 K // 3 R`: the divisor reaches the kernel as 5/3 K, the result is a pure number (the
    stand-in power on `Rat` is local to this example; no scale is computed) -/
example : letI : RPow Rat := refusalOnlyRPow
    (tempFloorDivide (K := Rat) exactTab (.temp ⟨none, .K⟩) (.temp ⟨none, .R⟩)).map (·.2)
    = .ok (some (5 / 9)) := by decide +kernel
/-- `np.subtract.reduce` on °C readings is labelled Δ°C -/
example : reduceUnit (K := Rat) .difference exactTab ⟨none, .degC⟩ = .ok (some ⟨none, .dC⟩) := by
  decide +kernel
/-- a prefixed unit of the universe with a prefixable symbol (hypothesis `WFP` of the conversion theorem) -/
example : (⟨some ⟨[109], 1 / 1000⟩, .degC⟩ : TU Rat).WFP :=
  ⟨⟨by decide +kernel, by decide +kernel⟩, fun _ => rfl⟩

end Unyt.C08
