/-
  C10, thorough tier — the closure obligation over SI-prefixed spellings of the prefixable units of
  electromagnetic dimension (the rows on which a prefix changes the route `in_base` takes).
-/
import UnytModel.SystemTables
import UnytProofs.C10Tab.PreCgs1
import UnytProofs.C10Tab.PreCgs2
import UnytProofs.C10Tab.PreMks1
import UnytProofs.C10Tab.PreMks2
import UnytProofs.C10Tab.PreImperial1
import UnytProofs.C10Tab.PreImperial2
import UnytProofs.C10Tab.PreGalactic1
import UnytProofs.C10Tab.PreGalactic2
import UnytProofs.C10Tab.PreSolar1
import UnytProofs.C10Tab.PreSolar2
import UnytProofs.C10Tab.PreGeometrized1
import UnytProofs.C10Tab.PreGeometrized2
import UnytProofs.C10Tab.PrePlanck1
import UnytProofs.C10Tab.PrePlanck2

namespace Unyt.C10
open Unyt

/-- prefixed rows: closed outside the excluded `(system, unprefixed symbol)` classes -/
theorem builtin_systems_closed_prefixed_partial :
    (["cgs", "mks", "imperial", "galactic", "solar", "geometrized", "planck"].all fun s =>
      systemClosedPrefixedEm s (prefixHalf 0) Ref.exclC10Prefixed Ref.okC10Prefixed
      && systemClosedPrefixedEm s (prefixHalf 1) Ref.exclC10Prefixed Ref.okC10Prefixed) = true := by
  simp only [List.all_cons, List.all_nil, Bool.and_true, Bool.and_eq_true]
  exact ⟨⟨tab_pre_cgs_1, tab_pre_cgs_2⟩, ⟨tab_pre_mks_1, tab_pre_mks_2⟩, ⟨tab_pre_imperial_1, tab_pre_imperial_2⟩,
    ⟨tab_pre_galactic_1, tab_pre_galactic_2⟩, ⟨tab_pre_solar_1, tab_pre_solar_2⟩,
    ⟨tab_pre_geometrized_1, tab_pre_geometrized_2⟩, ⟨tab_pre_planck_1, tab_pre_planck_2⟩⟩

end Unyt.C10
