/-
  C10, thorough tier — the closure obligation over SI-prefixed spellings of the prefixable units of
  electromagnetic dimension (the rows on which a prefix changes the route `in_base` takes).
-/
import UnytModel.SystemTables
import UnytProofs.C10
import UnytProofs.C10Tab.Inv1
import UnytProofs.C10Tab.Inv2
import UnytProofs.C10Tab.Inv3
import UnytProofs.C10Tab.Inv4
import UnytProofs.C10Tab.PreEmNumCgs
import UnytProofs.C10Tab.PreEmNumMks
import UnytProofs.C10Tab.PreEmNumImperial
import UnytProofs.C10Tab.PreEmNumGalactic
import UnytProofs.C10Tab.PreEmNumSolar
import UnytProofs.C10Tab.PreEmNumGeometrized
import UnytProofs.C10Tab.PreEmNumPlanck
import UnytProofs.C10Tab.PreEmCross1
import UnytProofs.C10Tab.PreEmCross2
import UnytProofs.C10Tab.PreEmCross3
import UnytProofs.C10Tab.PreEmCross4
import UnytProofs.C10Tab.PreCgs1
import UnytProofs.C10Tab.PreCgs2
import UnytProofs.C10Tab.PreMks1
import UnytProofs.C10Tab.PreMks2
import UnytProofs.C10Tab.PreImperial1
import UnytProofs.C10Tab.PreImperial2
import UnytProofs.C10Tab.PreGalactic1
import UnytProofs.C10Tab.PreGalactic2
import UnytProofs.C10Tab.PreSolar1
import UnytProofs.C10Tab.PreSolar2
import UnytProofs.C10Tab.PreGeometrized1
import UnytProofs.C10Tab.PreGeometrized2
import UnytProofs.C10Tab.PrePlanck1
import UnytProofs.C10Tab.PrePlanck2

namespace Unyt.C10
open Unyt

/-- prefixed rows: closed outside the excluded `(system, unprefixed symbol)` classes -/
theorem builtin_systems_closed_prefixed_partial :
    (["cgs", "mks", "imperial", "galactic", "solar", "geometrized", "planck"].all fun s =>
      systemClosedPrefixedEm s (prefixHalf 0) Ref.exclC10Prefixed Ref.okC10Prefixed
      && systemClosedPrefixedEm s (prefixHalf 1) Ref.exclC10Prefixed Ref.okC10Prefixed) = true := by
  simp only [List.all_cons, List.all_nil, Bool.and_true, Bool.and_eq_true]
  exact ⟨⟨tab_pre_cgs_1, tab_pre_cgs_2⟩, ⟨tab_pre_mks_1, tab_pre_mks_2⟩, ⟨tab_pre_imperial_1, tab_pre_imperial_2⟩,
    ⟨tab_pre_galactic_1, tab_pre_galactic_2⟩, ⟨tab_pre_solar_1, tab_pre_solar_2⟩,
    ⟨tab_pre_geometrized_1, tab_pre_geometrized_2⟩, ⟨tab_pre_planck_1, tab_pre_planck_2⟩⟩

/-- the crossing branch is numerically right for every canonical SI prefix -/
theorem em_cross_route_numbers_all_prefixes :
    ([0, 1, 2, 3].all fun i => emCrossOk (canonicalPrefixChunk i)) = true := by
  simp only [List.all_cons, List.all_nil, Bool.and_true, Bool.and_eq_true]
  exact ⟨tab_pre_em_cross_1, tab_pre_em_cross_2, tab_pre_em_cross_3, tab_pre_em_cross_4⟩

/-- the whole EM route with the prefixes `m` and `da`, every built-in system -/
theorem em_route_numbers_prefixed :
    (["cgs", "mks", "imperial", "galactic", "solar", "geometrized", "planck"].all fun s =>
      emRouteNumbersSys s ["m", "da"]) = true := by
  simp only [List.all_cons, List.all_nil, Bool.and_true, Bool.and_eq_true]
  exact ⟨tab_pre_emnum_cgs, tab_pre_emnum_mks, tab_pre_emnum_imperial, tab_pre_emnum_galactic, tab_pre_emnum_solar,
    tab_pre_emnum_geometrized, tab_pre_emnum_planck⟩

/-- the regenerated tables satisfy the hypothesis of `user_system_usable`: what `__init__` infers
    about a base-unit symbol is what `Unit(symbol)` resolves to -/
theorem builtin_names_agree : NamesAgree c10Pre c10Lut Generated.invNames := by
  have hinv : c10Lut.all (fun p => invLookup Generated.invNames p.1 == some p.1) = true := by
    apply all_of_chunks4
    · have := tab_inv_1; simpa [invIdOnKeysChunk] using this
    · have := tab_inv_2; simpa [invIdOnKeysChunk] using this
    · have := tab_inv_3; simpa [invIdOnKeysChunk] using this
    · have := tab_inv_4; simpa [invIdOnKeysChunk] using this
  have hun := builtin_table_keys_unsplit
  refine ⟨fun s e1 h => ?_, fun s e1 h => ?_⟩
  · obtain ⟨e', hm⟩ := Lut.find?_mem c10Lut s e1 h
    have := List.all_eq_true.mp hun (s, e') hm
    exact eq_of_beq this
  · obtain ⟨e', hm⟩ := Lut.find?_mem c10Lut s e1 h
    have := List.all_eq_true.mp hinv (s, e') hm
    exact eq_of_beq this

end Unyt.C10
