/-
  C13 — "operations mixing two registries … never write to either": the `registry` attribute of shared
  `Unit` objects (`UnytModel/UnitHome.lean`).

  Property statements:
    * `step_keeps_homes`, `step_homed`     a step that is not a foreign in-place assignment (`writes = false`)
                                           moves no existing unit object and keeps every string cache handing out
                                           units of its own registry
    * `step_moves_iff`                     exactly the steps with `writes = true` move an existing object
    * `run_safe`                           induction over ANY history of look-ups, edits, arithmetic, validated
                                           constructions and conversions through entry points that pass no
                                           `registry=` to the fast path: no object that existed changes registry,
                                           `Homed` is kept — whatever the fast path does
    * `lookup_after_safe_history`          … hence `Unit(s, registry=r)` afterwards belongs to `r`
    * `convert_labels_with_target`         a conversion to a unit OBJECT labels the result with that very object
    * `passing_convert_rehomes`, `passing_convert_breaks_homed`
                                           an entry point that does pass `registry=` to the assigning fast path
                                           moves the caller's target object into the data's registry, after which
                                           the target's registry hands out a unit that is not its own
    * `live_conversions_pass_no_registry`, `live_conversions_rehome_nothing`, `live_probe_complete`,
      `live_histories_isolated`            kernel-decided over the regenerated table: every probed entry point of
                                           the live `unyt_array` is safe, so `run_safe` applies to every history
                                           over them
-/
import UnytModel.UnitHome
import UnytModel.Ops.C13Home

namespace Unyt.C13Home
open Unyt.UnitHome

theorem upd_same {β : Type} (f : Nat → β) (i : Nat) (v : β) : upd f i v i = v := by simp [upd]

theorem upd_other {β : Type} (f : Nat → β) (i j : Nat) (v : β) (h : j ≠ i) : upd f i v j = f j := by
  simp [upd, h]

theorem find_cons (c : List (String × Nat)) (k s : String) (a : Nat) :
    find ((k, a) :: c) s = if k = s then some a else find c s := rfl

/-- the state-independent sufficient condition: not the user-level re-labelling constructor, and a conversion
    only through an entry point that passes no `registry=` -/
def safe (cfg : Cfg) : HOp → Bool
  | .construct _ (some _) true => false
  | .convert ep _ _ => !cfg.passes ep
  | _ => true

theorem writes_false_of_safe (cfg : Cfg) (h : Heap) (op : HOp) (hs : safe cfg op = true) :
    writes cfg h op = false := by
  cases op with
  | lookup r s => rfl
  | clear r => rfl
  | arith x y k => rfl
  | construct u reg b =>
    cases reg with
    | none => rfl
    | some g => cases b with
      | true => simp [safe] at hs
      | false => rfl
  | convert ep x t =>
    cases t with
    | str s => rfl
    | obj a =>
      simp only [safe, Bool.not_eq_true'] at hs
      simp [writes, hs]

/-! ### look-ups -/

theorem lookup_n (h : Heap) (r : Nat) (s : String) : h.n ≤ (lookup h r s).1.n := by
  unfold lookup
  cases find (h.cache r) s with
  | some a => exact Nat.le_refl _
  | none => exact Nat.le_succ _

theorem lookup_home_old (h : Heap) (r : Nat) (s : String) (a : Nat) (ha : a < h.n) :
    (lookup h r s).1.home a = h.home a := by
  unfold lookup
  cases find (h.cache r) s with
  | some b => rfl
  | none => exact upd_other _ _ _ _ (Nat.ne_of_lt ha)

theorem lookup_homed (h : Heap) (r : Nat) (s : String) (hh : Homed h) :
    Homed (lookup h r s).1 ∧ (lookup h r s).2 < (lookup h r s).1.n ∧
      (lookup h r s).1.home (lookup h r s).2 = r := by
  unfold lookup
  cases hf : find (h.cache r) s with
  | some b => exact ⟨hh, (hh r s b hf).1, (hh r s b hf).2⟩
  | none =>
    refine ⟨?_, Nat.lt_succ_self _, upd_same _ _ _⟩
    intro r' s' a' hfa
    show a' < h.n + 1 ∧ upd h.home h.n r a' = r'
    by_cases e : r' = r
    · subst e
      have hfa' : find ((s, h.n) :: h.cache r') s' = some a' := by
        simpa [upd] using hfa
      rw [find_cons] at hfa'
      by_cases e2 : s = s'
      · rw [if_pos e2] at hfa'
        cases hfa'
        exact ⟨Nat.lt_succ_self _, upd_same _ _ _⟩
      · rw [if_neg e2] at hfa'
        have := hh r' s' a' hfa'
        exact ⟨Nat.lt_succ_of_lt this.1, by rw [upd_other _ _ _ _ (Nat.ne_of_lt this.1)]; exact this.2⟩
    · have hfa' : find (h.cache r') s' = some a' := by
        simpa [upd, e] using hfa
      have := hh r' s' a' hfa'
      exact ⟨Nat.lt_succ_of_lt this.1, by rw [upd_other _ _ _ _ (Nat.ne_of_lt this.1)]; exact this.2⟩

/-- a unit looked up through the registry of the object at `x` has the home of `x`, and `x` keeps its home -/
theorem lookup_home_self (h : Heap) (x : Nat) (s : String) :
    (lookup h (h.home x) s).1.home x = h.home x := by
  unfold lookup
  cases find (h.cache (h.home x)) s with
  | some b => rfl
  | none =>
    show upd h.home h.n (h.home x) x = h.home x
    by_cases e : x = h.n
    · rw [e, upd_same]
    · exact upd_other _ _ _ _ e

/-! ### one step -/

theorem alloc_no_write (h : Heap) (k : String) (r : Nat) (hh : Homed h) :
    Homed (alloc h k r).1 ∧ h.n ≤ (alloc h k r).1.n ∧ (∀ a, a < h.n → (alloc h k r).1.home a = h.home a) ∧
      (alloc h k r).1.home (alloc h k r).2 = r := by
  refine ⟨?_, Nat.le_succ _, fun a ha => upd_other _ _ _ _ (Nat.ne_of_lt ha), upd_same _ _ _⟩
  intro r' s' a' hfa
  have := hh r' s' a' hfa
  exact ⟨Nat.lt_succ_of_lt this.1, by
    show upd h.home h.n r a' = r'
    rw [upd_other _ _ _ _ (Nat.ne_of_lt this.1)]; exact this.2⟩

theorem alloc_home_self (h : Heap) (k : String) (x : Nat) : (alloc h k (h.home x)).1.home x = h.home x := by
  show upd h.home h.n (h.home x) x = h.home x
  by_cases e : x = h.n
  · rw [e, upd_same]
  · exact upd_other _ _ _ _ e

/-- assigning an object the home it already has changes nothing -/
theorem upd_home_noop (h : Heap) (u : Nat) : upd h.home u (h.home u) = h.home := by
  funext j
  by_cases e : j = u
  · rw [e, upd_same]
  · exact upd_other _ _ _ _ e

theorem construct_fast_noop (cfg : Cfg) (h : Heap) (u g : Nat) (e : g = h.home u) :
    construct cfg h u (some g) true = (h, u) := by
  subst e
  unfold construct
  by_cases f : cfg.fastAssigns = true
  · simp [f, upd_home_noop]
  · simp [f]

/-- a step that writes no foreign `registry` attribute: the heap only grows, no existing object moves, and every
    string cache still hands out units of its own registry -/
theorem step_no_write (cfg : Cfg) (h : Heap) (op : HOp) (hh : Homed h) (hw : writes cfg h op = false) :
    Homed (step cfg h op).1 ∧ h.n ≤ (step cfg h op).1.n ∧
      ∀ a, a < h.n → (step cfg h op).1.home a = h.home a := by
  cases op with
  | lookup r s =>
    exact ⟨(lookup_homed h r s hh).1, lookup_n h r s, fun a ha => lookup_home_old h r s a ha⟩
  | clear r =>
    refine ⟨?_, Nat.le_refl _, fun a _ => rfl⟩
    intro r' s' a' hfa
    show a' < h.n ∧ h.home a' = r'
    by_cases e : r' = r
    · subst e
      have : find ([] : List (String × Nat)) s' = some a' := by simpa [step, upd] using hfa
      simp [find] at this
    · have : find (h.cache r') s' = some a' := by simpa [step, upd, e] using hfa
      exact hh r' s' a' this
  | arith x y k =>
    refine ⟨?_, Nat.le_succ _, fun a ha => upd_other _ _ _ _ (Nat.ne_of_lt ha)⟩
    intro r' s' a' hfa
    have := hh r' s' a' hfa
    exact ⟨Nat.lt_succ_of_lt this.1, by
      show upd h.home h.n (h.home x) a' = r'
      rw [upd_other _ _ _ _ (Nat.ne_of_lt this.1)]; exact this.2⟩
  | construct u reg b =>
    cases reg with
    | none => exact ⟨hh, Nat.le_refl _, fun a _ => rfl⟩
    | some g =>
      cases b with
      | false =>
        rw [show step cfg h (.construct u (some g) false) = construct cfg h u (some g) false from rfl]
        unfold construct
        by_cases e : g = h.home u
        · simp only [Bool.false_eq_true, if_false, if_pos e]
          exact ⟨hh, Nat.le_refl _, fun _ _ => trivial⟩
        · simp only [Bool.false_eq_true, if_false, if_neg e]
          exact ⟨(lookup_homed h g _ hh).1, lookup_n h g _, fun a ha => lookup_home_old h g _ a ha⟩
      | true =>
        simp only [writes, Bool.and_eq_false_iff, bne_eq_false_iff_eq] at hw
        rw [show step cfg h (.construct u (some g) true) = construct cfg h u (some g) true from rfl]
        cases hw with
        | inl f =>
          unfold construct
          simp only [if_true, f, Bool.false_eq_true, if_false]
          exact ⟨hh, Nat.le_refl _, fun _ _ => trivial⟩
        | inr e =>
          rw [construct_fast_noop cfg h u g e]
          exact ⟨hh, Nat.le_refl _, fun a _ => rfl⟩
  | convert ep x t =>
    rw [show step cfg h (.convert ep x t) = construct cfg (sanitize cfg ep h x t).1 (sanitize cfg ep h x t).2
        (if cfg.passes ep then some ((sanitize cfg ep h x t).1.home x) else none) true from rfl]
    cases t with
    | str s =>
      have hl := lookup_homed h (h.home x) s hh
      have hx := lookup_home_self h x s
      simp only [sanitize]
      by_cases p : cfg.passes ep = true
      · rw [if_pos p, construct_fast_noop cfg _ _ _ (by rw [hx, hl.2.2])]
        exact ⟨hl.1, lookup_n h _ s, fun a ha => lookup_home_old h _ s a ha⟩
      · rw [if_neg p]
        exact ⟨hl.1, lookup_n h _ s, fun a ha => lookup_home_old h _ s a ha⟩
    | obj a =>
      by_cases rl : (cfg.relabels ep && h.home a != h.home x) = true
      · have hal := alloc_no_write h (h.key a) (h.home x) hh
        have hx := alloc_home_self h (h.key a) x
        simp only [sanitize, rl, if_true]
        by_cases p : cfg.passes ep = true
        · rw [if_pos p, construct_fast_noop cfg _ _ _ (by rw [hx, hal.2.2.2])]
          exact ⟨hal.1, hal.2.1, hal.2.2.1⟩
        · rw [if_neg p]
          exact ⟨hal.1, hal.2.1, hal.2.2.1⟩
      · simp only [sanitize, rl, Bool.false_eq_true, if_false]
        by_cases p : cfg.passes ep = true
        · rw [if_pos p]
          by_cases f : cfg.fastAssigns = true
          · have e : h.home x = h.home a := by
              by_cases e : h.home x = h.home a
              · exact e
              · exfalso
                have e' : h.home a ≠ h.home x := fun q => e q.symm
                cases hr : cfg.relabels ep with
                | true => simp [hr, e'] at rl
                | false => simp [writes, p, f, hr, e] at hw
            rw [construct_fast_noop cfg h a _ e]
            exact ⟨hh, Nat.le_refl _, fun a _ => rfl⟩
          · unfold construct
            simp only [if_true, f, Bool.false_eq_true, if_false]
            exact ⟨hh, Nat.le_refl _, fun _ _ => trivial⟩
        · rw [if_neg p]
          exact ⟨hh, Nat.le_refl _, fun a _ => rfl⟩

theorem step_keeps_homes (cfg : Cfg) (h : Heap) (op : HOp) (hh : Homed h) (hw : writes cfg h op = false)
    (a : Nat) (ha : a < h.n) : (step cfg h op).1.home a = h.home a :=
  (step_no_write cfg h op hh hw).2.2 a ha

theorem step_homed (cfg : Cfg) (h : Heap) (op : HOp) (hh : Homed h) (hw : writes cfg h op = false) :
    Homed (step cfg h op).1 :=
  (step_no_write cfg h op hh hw).1

/-- a step with `writes = true` moves the object it names -/
theorem step_write_moves (cfg : Cfg) (h : Heap) (op : HOp) (hw : writes cfg h op = true) :
    ∃ a, (step cfg h op).1.home a ≠ h.home a ∧
      (op.InRange h → a < h.n) := by
  cases op with
  | lookup r s => simp [writes] at hw
  | clear r => simp [writes] at hw
  | arith x y k => simp [writes] at hw
  | construct u reg b =>
    cases reg with
    | none => simp [writes] at hw
    | some g =>
      cases b with
      | false => simp [writes] at hw
      | true =>
        simp only [writes, Bool.and_eq_true, bne_iff_ne, ne_eq] at hw
        refine ⟨u, ?_, fun hr => hr⟩
        show (construct cfg h u (some g) true).1.home u ≠ h.home u
        unfold construct
        simp only [if_true, hw.1]
        show upd h.home u g u ≠ h.home u
        rw [upd_same]; exact hw.2
  | convert ep x t =>
    cases t with
    | str s => simp [writes] at hw
    | obj a =>
      simp only [writes, Bool.and_eq_true, bne_iff_ne, ne_eq] at hw
      refine ⟨a, ?_, fun hr => hr.2⟩
      have hrl : cfg.relabels ep = false := by simpa using hw.1.2
      show (construct cfg (sanitize cfg ep h x (.obj a)).1 (sanitize cfg ep h x (.obj a)).2
        (if cfg.passes ep then some ((sanitize cfg ep h x (.obj a)).1.home x) else none) true).1.home a ≠ h.home a
      simp only [sanitize, hrl, Bool.false_and, Bool.false_eq_true, if_false]
      rw [if_pos hw.1.1.1]
      unfold construct
      simp only [if_true, hw.1.1.2]
      show upd h.home a (h.home x) a ≠ h.home a
      rw [upd_same]; exact hw.2

/-- exactly the steps with `writes = true` change the registry of an object that existed -/
theorem step_moves_iff (cfg : Cfg) (h : Heap) (op : HOp) (hh : Homed h) (hr : op.InRange h) :
    (∃ a, a < h.n ∧ (step cfg h op).1.home a ≠ h.home a) ↔ writes cfg h op = true := by
  constructor
  · intro ⟨a, ha, hne⟩
    cases hw : writes cfg h op with
    | true => rfl
    | false => exact absurd (step_keeps_homes cfg h op hh hw a ha) hne
  · intro hw
    obtain ⟨a, hne, hlt⟩ := step_write_moves cfg h op hw
    exact ⟨a, hlt hr, hne⟩

/-! ### histories -/

/-- ANY history of safe steps: no object that existed changes its registry and every registry's string cache
    keeps handing out its own units — for every configuration of the fast path -/
theorem run_safe (cfg : Cfg) (ops : List HOp) (hs : ∀ o ∈ ops, safe cfg o = true) (h : Heap) (hh : Homed h) :
    Homed (run cfg h ops) ∧ h.n ≤ (run cfg h ops).n ∧ ∀ a, a < h.n → (run cfg h ops).home a = h.home a := by
  induction ops generalizing h with
  | nil => exact ⟨hh, Nat.le_refl _, fun _ _ => rfl⟩
  | cons o rest ih =>
    have hw := writes_false_of_safe cfg h o (hs o (List.mem_cons_self ..))
    have h1 := step_no_write cfg h o hh hw
    have h2 := ih (fun o' ho' => hs o' (List.mem_cons_of_mem _ ho')) (step cfg h o).1 h1.1
    refine ⟨h2.1, Nat.le_trans h1.2.1 h2.2.1, fun a ha => ?_⟩
    show (run cfg (step cfg h o).1 rest).home a = h.home a
    rw [h2.2.2 a (Nat.lt_of_lt_of_le ha h1.2.1), h1.2.2 a ha]

/-- after any safe history `Unit(s, registry=r)` belongs to `r` -/
theorem lookup_after_safe_history (cfg : Cfg) (ops : List HOp) (hs : ∀ o ∈ ops, safe cfg o = true) (h : Heap)
    (hh : Homed h) (r : Nat) (s : String) :
    let res := lookup (run cfg h ops) r s
    res.1.home res.2 = r :=
  (lookup_homed _ r s (run_safe cfg ops hs h hh).1).2.2

/-- the empty heap meets the hypothesis -/
theorem homed_empty : Homed {} := by
  intro r s a hf
  simp [find] at hf

/-! ### conversions to a unit OBJECT -/

/-- the converted data are labelled with the very object the caller passed -/
theorem convert_labels_with_target (cfg : Cfg) (h : Heap) (ep : String) (x a : Nat)
    (hr : cfg.relabels ep = false) :
    (step cfg h (.convert ep x (.obj a))).2 = a := by
  show (construct cfg (sanitize cfg ep h x (.obj a)).1 (sanitize cfg ep h x (.obj a)).2
        (if cfg.passes ep then some ((sanitize cfg ep h x (.obj a)).1.home x) else none) true).2 = a
  simp only [sanitize, hr, Bool.false_and, Bool.false_eq_true, if_false]
  unfold construct
  cases cfg.passes ep <;> simp

/-- an entry point that passes `registry=` to the assigning fast path re-homes the CALLER's target object -/
theorem passing_convert_rehomes (cfg : Cfg) (h : Heap) (ep : String) (x a : Nat)
    (hp : cfg.passes ep = true) (hf : cfg.fastAssigns = true) (hr : cfg.relabels ep = false) :
    (step cfg h (.convert ep x (.obj a))).1.home a = h.home x := by
  show (construct cfg (sanitize cfg ep h x (.obj a)).1 (sanitize cfg ep h x (.obj a)).2
        (if cfg.passes ep then some ((sanitize cfg ep h x (.obj a)).1.home x) else none) true).1.home a = h.home x
  simp only [sanitize, hr, Bool.false_and, Bool.false_eq_true, if_false]
  rw [if_pos hp]
  unfold construct
  simp only [if_true, hf]
  exact upd_same _ _ _

/-- … after which the target's registry hands out, for the string it cached the object under, a unit that
    belongs to the data's registry -/
theorem passing_convert_breaks_homed (cfg : Cfg) (h : Heap) (ep : String) (x a : Nat) (s : String)
    (hp : cfg.passes ep = true) (hf : cfg.fastAssigns = true) (hr : cfg.relabels ep = false)
    (hc : find (h.cache (h.home a)) s = some a) (hne : h.home x ≠ h.home a) :
    ¬ Homed (step cfg h (.convert ep x (.obj a))).1 := by
  intro hh
  have hm := passing_convert_rehomes cfg h ep x a hp hf hr
  have hcache : (step cfg h (.convert ep x (.obj a))).1.cache = h.cache := by
    show (construct cfg (sanitize cfg ep h x (.obj a)).1 (sanitize cfg ep h x (.obj a)).2
        (if cfg.passes ep then some ((sanitize cfg ep h x (.obj a)).1.home x) else none) true).1.cache = h.cache
    simp only [sanitize, hr, Bool.false_and, Bool.false_eq_true, if_false]
    rw [if_pos hp]
    unfold construct
    simp only [if_true, hf]
  have := (hh (h.home a) s a (by rw [hcache]; exact hc)).2
  rw [hm] at this
  exact hne this

/-- non-vacuity of `passing_convert_breaks_homed` and of `step_moves_iff`: a concrete heap (registry 0 cached
    its metre at address 0, data of registry 1 at address 1) -/
def witnessHeap : Heap :=
  { n := 2, home := fun a => if a = 0 then 0 else 1, key := fun _ => "m",
    cache := fun r => if r = 0 then [("m", 0)] else [] }

theorem witness_homed : Homed witnessHeap := by
  intro r s a hf
  by_cases e : r = 0
  · subst e
    simp only [witnessHeap, if_true] at hf
    rw [find_cons] at hf
    by_cases e2 : "m" = s
    · rw [if_pos e2] at hf; cases hf; exact ⟨by decide, rfl⟩
    · rw [if_neg e2] at hf; simp [find] at hf
  · simp [witnessHeap, e, find] at hf

example : ¬ Homed (step ⟨fun _ => true, true, fun _ => false⟩ witnessHeap (.convert "to" 1 (.obj 0))).1 :=
  passing_convert_breaks_homed _ witnessHeap "to" 1 0 "m" rfl rfl rfl rfl (by decide)

example : Homed (run ⟨fun _ => false, true, fun _ => false⟩ witnessHeap [.convert "to" 1 (.obj 0), .lookup 0 "m", .arith 1 0 "m**2"]) :=
  (run_safe _ _ (by decide) witnessHeap witness_homed).1

/-! ### "use the left operand's registry": whose registry the converted data belong to -/

/-- the FULL statement: converted data belong to the registry of the data (the left operand) -/
def convert_uses_left_full (cfg : Cfg) : Prop :=
  ∀ (h : Heap) (ep : String) (x : Nat) (t : Target), Homed h →
    (step cfg h (.convert ep x t)).1.home (step cfg h (.convert ep x t)).2 = h.home x

/-- the target is a string, or a unit object of the data's own registry -/
def sameRegistryTarget (h : Heap) (x : Nat) : Target → Bool
  | .str _ => true
  | .obj a => h.home a == h.home x

/-- it holds when the target is a string / a unit of the same registry, and for every target through an entry
    point that relabels foreign objects — for every configuration of the fast path -/
theorem convert_uses_left_partial (cfg : Cfg) (h : Heap) (ep : String) (x : Nat) (t : Target) (hh : Homed h)
    (hg : sameRegistryTarget h x t = true ∨ cfg.relabels ep = true) :
    (step cfg h (.convert ep x t)).1.home (step cfg h (.convert ep x t)).2 = h.home x := by
  rw [show step cfg h (.convert ep x t) = construct cfg (sanitize cfg ep h x t).1 (sanitize cfg ep h x t).2
        (if cfg.passes ep then some ((sanitize cfg ep h x t).1.home x) else none) true from rfl]
  have key : ∀ (h' : Heap) (u : Nat), h'.home x = h.home x → h'.home u = h.home x →
      (construct cfg h' u (if cfg.passes ep then some (h'.home x) else none) true).1.home
        (construct cfg h' u (if cfg.passes ep then some (h'.home x) else none) true).2 = h.home x := by
    intro h' u hx hu
    by_cases p : cfg.passes ep = true
    · rw [if_pos p, construct_fast_noop cfg h' u _ (by rw [hx, hu])]; exact hu
    · rw [if_neg p]; exact hu
  cases t with
  | str s =>
    simp only [sanitize]
    exact key _ _ (lookup_home_self h x s) (lookup_homed h (h.home x) s hh).2.2
  | obj a =>
    by_cases rl : (cfg.relabels ep && h.home a != h.home x) = true
    · simp only [sanitize, rl, if_true]
      exact key _ _ (alloc_home_self h (h.key a) x) (alloc_no_write h (h.key a) (h.home x) hh).2.2.2
    · simp only [sanitize, rl, Bool.false_eq_true, if_false]
      refine key h a rfl ?_
      cases hg with
      | inl g => simpa [sameRegistryTarget] using g
      | inr g =>
        by_cases e : h.home a = h.home x
        · exact e
        · simp [g, e] at rl

/-- an entry point that labels the data with the caller's object cannot meet BOTH clauses of the property for a
    target of another registry, whatever it passes to whatever fast path: either the converted data belong to the
    target's registry ("use the left operand's registry" fails — the unrepaired library) or the target object was
    moved ("never write to either" fails — the seeded change) -/
theorem labelling_with_target_cannot_satisfy_both (cfg : Cfg) (h : Heap) (ep : String) (x a : Nat)
    (hr : cfg.relabels ep = false) (hne : h.home a ≠ h.home x) :
    (step cfg h (.convert ep x (.obj a))).1.home (step cfg h (.convert ep x (.obj a))).2 ≠ h.home x ∨
      (step cfg h (.convert ep x (.obj a))).1.home a ≠ h.home a := by
  rw [convert_labels_with_target cfg h ep x a hr]
  by_cases e : (step cfg h (.convert ep x (.obj a))).1.home a = h.home a
  · left; rw [e]; exact hne
  · right; exact e

/-- … so the full statement FAILS for the unrepaired configuration (no `registry=` passed, nothing relabelled):
    data of registry 1 converted to the cached metre of registry 0 belong to registry 0 -/
theorem convert_uses_left_counterexample (cfg : Cfg) (hp : cfg.passes "to" = false) (hr : cfg.relabels "to" = false) :
    ¬ convert_uses_left_full cfg := by
  intro hfull
  have h1 := hfull witnessHeap "to" 1 (.obj 0) witness_homed
  rw [convert_labels_with_target cfg witnessHeap "to" 1 0 hr] at h1
  have h2 : (step cfg witnessHeap (.convert "to" 1 (.obj 0))).1.home 0 = witnessHeap.home 0 :=
    step_keeps_homes cfg witnessHeap _ witness_homed (by simp [writes, hp]) 0 (by decide)
  rw [h2] at h1
  exact absurd h1 (by decide)

/-- the candidate repair (every entry point relabels foreign targets) meets both clauses, for every history -/
theorem relabelling_satisfies_both (cfg : Cfg) (hr : ∀ ep, cfg.relabels ep = true) :
    convert_uses_left_full cfg ∧
      ∀ (h : Heap) (ep : String) (x : Nat) (t : Target), Homed h →
        Homed (step cfg h (.convert ep x t)).1 ∧ ∀ a, a < h.n → (step cfg h (.convert ep x t)).1.home a = h.home a := by
  have hw : ∀ (h : Heap) (ep : String) (x : Nat) (t : Target), writes cfg h (.convert ep x t) = false := by
    intro h ep x t
    cases t with
    | str s => rfl
    | obj a => simp [writes, hr ep]
  refine ⟨fun h ep x t hh => convert_uses_left_partial cfg h ep x t hh (Or.inr (hr ep)), fun h ep x t hh => ?_⟩
  have := step_no_write cfg h (.convert ep x t) hh (hw h ep x t)
  exact ⟨this.1, this.2.2⟩

/-! ### the live entry points (regenerated table) -/

theorem live_probe_complete : Generated.convProbed = 6 := by decide

theorem live_conversions_pass_no_registry : Generated.convPasses.all (fun p => !p.2) = true := by decide

theorem live_conversions_rehome_nothing : Generated.convRehomed.all (fun p => !p.2) = true := by decide

/-- every probed entry point is safe under the configuration the driver runs -/
theorem live_entry_points_safe :
    (Generated.convPasses.map (·.1)).all (fun ep => !liveHomeCfg.passes ep) = true := by decide

/-- the operation converts through a probed entry point (or is no conversion), and is not the user-level
    re-labelling constructor -/
def liveOk : HOp → Bool
  | .construct _ (some _) true => false
  | .convert ep _ _ => (Generated.convPasses.map (·.1)).contains ep
  | _ => true

theorem live_safe (o : HOp) (ho : liveOk o = true) : safe liveHomeCfg o = true := by
  cases o with
  | lookup r s => rfl
  | clear r => rfl
  | arith x y k => rfl
  | construct u reg b =>
    cases reg with
    | none => rfl
    | some g => cases b with
      | true => simp [liveOk] at ho
      | false => rfl
  | convert ep x t =>
    simp only [liveOk, List.contains_iff_mem] at ho
    have := List.all_eq_true.mp live_entry_points_safe ep ho
    simpa [safe] using this

/-- every history over the live entry points: nothing that existed moves, every cache stays its registry's -/
theorem live_histories_isolated (ops : List HOp) (hs : ∀ o ∈ ops, liveOk o = true) (h : Heap) (hh : Homed h) :
    Homed (run liveHomeCfg h ops) ∧ ∀ a, a < h.n → (run liveHomeCfg h ops).home a = h.home a :=
  let r := run_safe liveHomeCfg ops (fun o ho => live_safe o (hs o ho)) h hh
  ⟨r.1, r.2.2⟩

end Unyt.C13Home
