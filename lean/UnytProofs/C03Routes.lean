/-
  C03 — the copying route (`in_units`/`to`/`to_value`) and the in-place route
  (`convert_to_units`) agree on EVERY branch, including the CGS<->SI electromagnetic one where
  `in_units` discards the offset of the factor and `convert_to_units` applies it.

  `routes_agree_em` is over an arbitrary field and arbitrary tables; its table-shaped hypotheses
  are discharged for the regenerated tables by the kernel-decided obligations of `C03Tab.lean`.
-/
import UnytProofs.C03
import UnytModel.ConvRoutes

set_option linter.unusedSectionVars false
set_option maxRecDepth 1000000

namespace Unyt.C03
open Unyt

section
variable {K : Type} [Lean.Grind.Field K] [BEq K] [LawfulBEq K] [RPow K]

/-- on every branch `in_units` and `convert_to_units` return the same numbers and the same unit
    (or raise the same error), provided units are well formed (only temperature/angle units carry
    an offset) and the partner of an EM hit is not a temperature/angle unit -/
theorem routes_agree_em (pre : Prefixes K) (t : Lut K) (T : EmTable K) (u target : UnitV K) (x : K)
    (hmk : ∀ e v, mkUnit pre t e = .ok v → v.WF) (ht : target.WF)
    (hem : EmPartnersPlain pre t T u) :
    inUnitsEm pre t T u x target = convertToUnitsEm pre t T (x, u) target
    ∧ toValueEm pre t T u x target = (convertToUnitsEm pre t T (x, u) target).map (·.1) := by
  have key : inUnitsEm pre t T u x target = convertToUnitsEm pre t T (x, u) target := by
    simp only [inUnitsEm, convertToUnitsEm]
    cases hc : checkEmTo pre t T u target with
    | error e => rfl
    | ok om =>
      cases om with
      | none => exact ((routes_agree pre t u target x).1).symm
      | some m =>
        simp only
        cases hn : mkUnit pre t ⟨m.scale * m.canon.expr.coeff, m.canon.expr.factors⟩ with
        | error e => rfl
        | ok nu =>
          simp only
          cases hf : getConversionFactor pre t nu target with
          | error e => rfl
          | ok f =>
            simp only
            -- the target has the dimension of the partner unit, which is not temperature/angle
            have htd : target.isTempOrAngle = false := by
              simp only [checkEmTo] at hc
              split at hc
              · simp at hc
              · split at hc
                · rename_i p r hhit
                  split at hc
                  · simp at hc
                  · rename_i emUnit hmu
                    split at hc
                    · rename_i hdim
                      have := hem p r emUnit hhit hmu
                      simp only [UnitV.isTempOrAngle] at this ⊢
                      have hd : target.dim = emUnit.dim := by simpa using hdim
                      rw [hd]; exact this
                    · simp at hc
                · simp at hc
            have hdim : nu.dim = target.dim := by
              simp only [getConversionFactor] at hf
              split at hf
              · simp at hf
              · rename_i h; simpa using h
            have hto : target.offset = 0 := by
              by_cases h : target.offset = 0
              · exact h
              · have := ht h; rw [htd] at this; simp at this
            have hno : nu.offset = 0 := by
              by_cases h : nu.offset = 0
              · exact h
              · have := hmk _ _ hn h
                simp only [UnitV.isTempOrAngle, hdim] at this htd
                rw [htd] at this; simp at this
            have : f.2 = none := by
              simp only [getConversionFactor, hdim, hno, hto] at hf
              simp at hf
              rw [← hf]
            simp only [applyFactor, this]
  exact ⟨key, by simp only [toValueEm, key]⟩

/-- the base-system routes (`in_base(S)`, hence `in_cgs`/`in_mks`; `convert_to_base(S)`, hence
    `convert_to_cgs`/`convert_to_mks`) agree with each other and with the explicit request
    `to(get_base_equivalent(S))` / `convert_to_units(get_base_equivalent(S))` — same numbers, same
    unit, same refusal — for every unit system `S`, outside the EM short-cut -/
theorem base_routes_agree (pre : Prefixes K) (t : Lut K) (T : EmTable K) (S : USys K) (u : UnitV K) (x : K)
    (hc : checkEm pre t T S u = .ok none)
    (hH : T.hasDim u.dim = false ∨ emHit pre t T u = none) :
    convertToBase pre t T S (x, u) = inBase pre t T S u x
    ∧ (∀ v, getBaseEquivalent pre t T S u = .ok v →
        inBase pre t T S u x = inUnitsEm pre t T u x v
        ∧ convertToBase pre t T S (x, u) = convertToUnitsEm pre t T (x, u) v) := by
  have hto : ∀ target, checkEmTo pre t T u target = .ok none := by
    intro target
    rcases hH with hD | hH
    · simp [checkEmTo, hD]
    · simp only [checkEmTo, hH]; split <;> rfl
  refine ⟨?_, ?_⟩
  · simp only [convertToBase, inBase, hc]
    cases hg : getBaseEquivalent pre t T S u with
    | error e => rfl
    | ok target =>
      simp only [convertToUnitsEm, hto, convertToUnits]
      cases hf : getConversionFactor pre t u target with
      | error e => rfl
      | ok f =>
        obtain ⟨r, o⟩ := f
        cases o with
        | none => rfl
        | some v => simp only [applyFactor]
  · intro v hv
    refine ⟨?_, by simp only [convertToBase, hv]⟩
    simp only [inBase, hc, hv, inUnitsEm, hto, inUnits]
    cases getConversionFactor pre t u v <;> rfl

end

end Unyt.C03
