/-
  C03 — the copying route (`in_units`/`to`/`to_value`) and the in-place route
  (`convert_to_units`) agree on EVERY branch, including the CGS<->SI electromagnetic one where
  `in_units` discards the offset of the factor and `convert_to_units` applies it.

  `routes_agree_em` is over an arbitrary field and arbitrary tables; its table-shaped hypotheses
  are discharged for the regenerated tables by the kernel-decided obligations below.
-/
import UnytProofs.C03
import UnytModel.ConvRoutes

set_option linter.unusedSectionVars false
set_option maxRecDepth 1000000

namespace Unyt.C03
open Unyt

section
variable {K : Type} [Lean.Grind.Field K] [BEq K] [LawfulBEq K] [RPow K]

/-- on every branch `in_units` and `convert_to_units` return the same numbers and the same unit
    (or raise the same error), provided units are well formed (only temperature/angle units carry
    an offset) and the partner of an EM hit is not a temperature/angle unit -/
theorem routes_agree_em (pre : Prefixes K) (t : Lut K) (T : EmTable K) (u target : UnitV K) (x : K)
    (hmk : ∀ e v, mkUnit pre t e = .ok v → v.WF) (ht : target.WF)
    (hem : EmPartnersPlain pre t T u) :
    inUnitsEm pre t T u x target = convertToUnitsEm pre t T (x, u) target
    ∧ toValueEm pre t T u x target = (convertToUnitsEm pre t T (x, u) target).map (·.1) := by
  have key : inUnitsEm pre t T u x target = convertToUnitsEm pre t T (x, u) target := by
    simp only [inUnitsEm, convertToUnitsEm]
    cases hc : checkEmTo pre t T u target with
    | error e => rfl
    | ok om =>
      cases om with
      | none => exact ((routes_agree pre t u target x).1).symm
      | some m =>
        simp only
        cases hn : mkUnit pre t ⟨m.scale * m.canon.expr.coeff, m.canon.expr.factors⟩ with
        | error e => rfl
        | ok nu =>
          simp only
          cases hf : getConversionFactor pre t nu target with
          | error e => rfl
          | ok f =>
            simp only
            -- the target has the dimension of the partner unit, which is not temperature/angle
            have htd : target.isTempOrAngle = false := by
              simp only [checkEmTo] at hc
              split at hc
              · simp at hc
              · split at hc
                · rename_i p r hhit
                  split at hc
                  · simp at hc
                  · rename_i emUnit hmu
                    split at hc
                    · rename_i hdim
                      have := hem p r emUnit hhit hmu
                      simp only [UnitV.isTempOrAngle] at this ⊢
                      have hd : target.dim = emUnit.dim := by simpa using hdim
                      rw [hd]; exact this
                    · simp at hc
                · simp at hc
            have hdim : nu.dim = target.dim := by
              simp only [getConversionFactor] at hf
              split at hf
              · simp at hf
              · rename_i h; simpa using h
            have hto : target.offset = 0 := by
              by_cases h : target.offset = 0
              · exact h
              · have := ht h; rw [htd] at this; simp at this
            have hno : nu.offset = 0 := by
              by_cases h : nu.offset = 0
              · exact h
              · have := hmk _ _ hn h
                simp only [UnitV.isTempOrAngle, hdim] at this htd
                rw [htd] at this; simp at this
            have : f.2 = none := by
              simp only [getConversionFactor, hdim, hno, hto] at hf
              simp at hf
              rw [← hf]
            simp only [applyFactor, this]
  exact ⟨key, by simp only [toValueEm, key]⟩

end

/-! ### the table obligations, over the regenerated unit table and `em_conversions` -/

/-- only temperature and angle rows of the regenerated unit table carry an offset -/
theorem table_offsets_wf : lutOffsetsWF = true := by decide +kernel

/-- every partner spelling (all rows × `""` and all SI prefixes) is a zero-offset unit of the
    partner dimension, which is neither temperature nor angle -/
theorem em_partners_offset_free : emPartnersOffsetFree = true := by decide +kernel

/-- both members of every EM pair have a zero offset in the unit table -/
theorem em_rows_zero_offset : emRowsZeroOffset = true := by decide +kernel

section
attribute [local instance] ratPowStub

/-- non-vacuity: 3 mC → statC takes the EM branch in the model over ℚ and both routes return the
    same number -/
example :
    (match mkUnit c10Pre c10Lut (UExpr.sym "mC"), mkUnit c10Pre c10Lut (UExpr.sym "statC") with
     | .ok u, .ok v =>
       (checkEmTo c10Pre c10Lut c10Em u v).toOption.join.isSome
       && (inUnitsEm c10Pre c10Lut c10Em u 3 v).toOption.isSome
       && (inUnitsEm c10Pre c10Lut c10Em u 3 v).toOption.map (·.1)
            == (convertToUnitsEm c10Pre c10Lut c10Em (3, u) v).toOption.map (·.1)
     | _, _ => false) = true := by decide +kernel

end

end Unyt.C03
