/-
  C01 — history independence of the ufunc dispatcher.

  The property quantifies over programs: "never returns a value when its operands have different
  dimensions" must hold for a call made after any other calls.  `Ufunc.History.dispatchM` is the
  dispatcher in an interpreter with process-wide state (the memo tables regenerated from the live
  source); these theorems show that with a sound configuration the state is unobservable, so every
  theorem about `Ufunc.dispatch` holds after any history, and that the regenerated configuration is
  sound.  An unsound key (the two units only) is refuted by a concrete history.
-/
import UnytProofs.C01
import UnytModel.UfuncHistory

set_option linter.unusedSectionVars false
set_option linter.unusedVariables false

namespace Unyt.C01
open Unyt Unyt.Ufunc Unyt.Ufunc.History

/-! ## a generic memo is transparent when its key determines the block's result -/

section
variable {I KeyT V : Type}

/-- every entry answers correctly for every input filed under a key equal to its own -/
def MemoInv (M : MemoSem I KeyT V) (blk : I → V) (st : Store KeyT V) : Prop :=
  ∀ e ∈ st, ∀ x k, M.key x = some k → M.keq e.1 k = true → blk x = e.2

/-- inputs whose keys compare equal have the same result -/
def MemoTransparent (M : MemoSem I KeyT V) (blk : I → V) : Prop :=
  ∀ x y kx ky, M.key x = some kx → M.key y = some ky → M.keq ky kx = true → blk x = blk y

/-- one pass through a transparent memo returns what the block computes and keeps the invariant —
    whatever the table holds (any history), also across a flush -/
theorem memo_step_sound (M : MemoSem I KeyT V) (blk : I → V) (ht : MemoTransparent M blk)
    (hev : ∀ st e, e ∈ M.evict st → e ∈ st)
    (st : Store KeyT V) (hi : MemoInv M blk st) (x : I) :
    (M.step blk st x).2 = blk x ∧ MemoInv M blk (M.step blk st x).1 := by
  unfold MemoSem.step
  cases hk : M.key x with
  | none => exact ⟨rfl, hi⟩
  | some k =>
    simp only []
    cases hl : M.lookup st k with
    | some v =>
      refine ⟨?_, hi⟩
      simp only [MemoSem.lookup, Option.map_eq_some_iff] at hl
      obtain ⟨e, he, hv⟩ := hl
      have hmem := List.mem_of_find?_eq_some he
      have hp := List.find?_some he
      rw [← hv]
      exact (hi e hmem x k hk hp).symm
    | none =>
      simp only []
      by_cases hs : M.storable (blk x) = true
      · simp only [hs, if_true]
        refine ⟨by first | rfl | trivial, ?_⟩
        intro e he y ky hky hkeq
        rcases List.mem_cons.mp he with h | h
        · subst h
          exact ht y x ky k hky hk hkeq
        · exact hi e (hev st e h) y ky hky hkeq
      · simp only [hs]
        exact ⟨by first | rfl | trivial, hi⟩

end

/-! ## a sound memo of the check block is transparent -/

section
variable {K : Type} [Add K] [Sub K] [Mul K] [Div K] [OfNat K 0] [OfNat K 1] [BEq K] [RPow K]

/-- key-field equality identifies only equal values (`Unit.__eq__`/`__hash__` as dictionary key:
    one registry, exact numbers) -/
def KeyEqExact (feq : FVal K → FVal K → Bool) : Prop := ∀ a b, feq a b = true → a = b

theorem checkIn_ext (x y : CheckIn K)
    (h1 : Field.rule.proj x = Field.rule.proj y) (h2 : Field.ufunc.proj x = Field.ufunc.proj y)
    (h3 : Field.operand0.proj x = Field.operand0.proj y) (h4 : Field.operand1.proj x = Field.operand1.proj y)
    (h5 : Field.unit0.proj x = Field.unit0.proj y) (h6 : Field.unit1.proj x = Field.unit1.proj y) : x = y := by
  cases x; cases y
  simp only [Field.proj, FVal.rule.injEq, FVal.str.injEq, FVal.opnd.injEq, FVal.unit.injEq] at h1 h2 h3 h4 h5 h6
  simp [h1, h2, h3, h4, h5, h6]

/-- a memo whose key mentions everything the dimension check reads cannot change its verdict -/
theorem sound_check_memo_transparent (C : Ctx K) (m : Memo) (hb : m.block = .check) (hm : m.sound = true)
    (feq : FVal K → FVal K → Bool) (hx : KeyEqExact feq) :
    MemoTransparent (m.sem feq) (checkBlk C) := by
  intro x y kx ky hkx hky hkeq
  simp only [Memo.sem, Option.some.injEq] at hkx hky
  subst hkx; subst hky
  simp only [Memo.sem, List.all_eq_true] at hkeq
  simp only [Memo.sound, hb, Bool.and_eq_true, checkReads, List.all_cons, List.all_nil, Bool.and_true,
    List.contains_iff_mem] at hm
  obtain ⟨h1, h2, h3, h4, h5, h6⟩ := hm
  have e := fun f hf => hx _ _ (hkeq f hf)
  have : y = x := checkIn_ext y x (e _ h1) (e _ h2) (e _ h3) (e _ h4) (e _ h5) (e _ h6)
  rw [this]

theorem ruleIn_ext (x y : RuleIn K)
    (h1 : Field.rule.projR x = Field.rule.projR y) (h5 : Field.unit0.projR x = Field.unit0.projR y)
    (h6 : Field.unit1.projR x = Field.unit1.projR y) : x = y := by
  cases x; cases y
  simp only [Field.projR, FVal.rule.injEq, FVal.unit.injEq] at h1 h5 h6
  simp [h1, h5, h6]

/-- a memo of the unit rules whose key mentions the rule and both units cannot change a rule's answer -/
theorem sound_rule_memo_transparent (C : Ctx K) (m : Memo) (hb : m.block = .rule) (hm : m.sound = true)
    (feq : FVal K → FVal K → Bool) (hx : KeyEqExact feq) :
    MemoTransparent (m.semR feq) (ruleBlk C) := by
  intro x y kx ky hkx hky hkeq
  simp only [Memo.semR, Option.some.injEq] at hkx hky
  subst hkx; subst hky
  simp only [Memo.semR, List.all_eq_true] at hkeq
  simp only [Memo.sound, hb, ruleReads, List.all_cons, List.all_nil, Bool.and_true, Bool.and_eq_true,
    List.contains_iff_mem] at hm
  obtain ⟨h1, h5, h6⟩ := hm
  have e := fun f hf => hx _ _ (hkeq f hf)
  have : y = x := ruleIn_ext y x (e _ h1) (e _ h5) (e _ h6)
  rw [this]

/-- invariant of the process-wide state -/
def StateInv (cfg : Cfg) (feq : FVal K → FVal K → Bool) (C : Ctx K) (st : St K) : Prop :=
  (match cfg.check with
   | none => True
   | some m => MemoInv (m.sem feq) (checkBlk C) st.check)
  ∧ (match cfg.rule with
   | none => True
   | some m => MemoInv (m.semR feq) (ruleBlk C) st.rule)

/-- invariants of the two tables separately -/
def CheckInv (cfg : Cfg) (feq : FVal K → FVal K → Bool) (C : Ctx K) (st : CheckStore K) : Prop :=
  match cfg.check with
  | none => True
  | some m => MemoInv (m.sem feq) (checkBlk C) st

def RuleInv (cfg : Cfg) (feq : FVal K → FVal K → Bool) (C : Ctx K) (st : RuleStore K) : Prop :=
  match cfg.rule with
  | none => True
  | some m => MemoInv (m.semR feq) (ruleBlk C) st

theorem ruleM_sound (cfg : Cfg) (hc : cfg.sound = true) (feq : FVal K → FVal K → Bool) (hx : KeyEqExact feq)
    (C : Ctx K) (st : RuleStore K) (hi : RuleInv cfg feq C st) (x : RuleIn K) :
    (ruleM cfg feq C st x).2 = ruleBlk C x ∧ RuleInv cfg feq C (ruleM cfg feq C st x).1 := by
  unfold ruleM RuleInv
  cases hm : cfg.rule with
  | none => simp
  | some m =>
    simp only [Cfg.sound, hm, Bool.and_eq_true, beq_iff_eq] at hc
    simp only [RuleInv, hm] at hi
    refine memo_step_sound _ _ (sound_rule_memo_transparent C m hc.2.1 hc.2.2 feq hx) ?_ st hi x
    intro st e he
    simp only [Memo.semR] at he
    split at he
    · exact List.dropLast_subset _ he
    · exact he

theorem checkM_sound (cfg : Cfg) (hc : cfg.sound = true) (feq : FVal K → FVal K → Bool) (hx : KeyEqExact feq)
    (C : Ctx K) (st : CheckStore K) (hi : CheckInv cfg feq C st) (x : CheckIn K) :
    (checkM cfg feq C st x).2 = checkBlk C x ∧ CheckInv cfg feq C (checkM cfg feq C st x).1 := by
  unfold checkM CheckInv
  cases hm : cfg.check with
  | none => simp
  | some m =>
    simp only [Cfg.sound, hm, Bool.and_eq_true, beq_iff_eq] at hc
    simp only [CheckInv, hm] at hi
    refine memo_step_sound _ _ (sound_check_memo_transparent C m hc.1.1 hc.1.2 feq hx) ?_ st hi x
    intro st e he
    simp only [Memo.sem] at he
    split at he
    · cases he
    · exact he

/-- `stdBinaryV` fed with the verdict the check block computes IS `Ufunc.stdBinary` -/
theorem stdBinaryV_plain (C : Ctx K) (c : Call K) (rule : Rule) (i0 i1 : Operand K)
    (u0r u1r : Option (UnitR K)) (eff0 : List (Effect K)) :
    stdBinaryV C c rule i0 i1 u0r u1r eff0 (checkBlk C (checkInOf c rule i0 i1 u0r u1r))
        (fun a b => ruleBlk C ⟨(checkInOf c rule i0 i1 u0r u1r).rule, a, b⟩)
      = stdBinary C c rule i0 i1 u0r u1r eff0 := rfl

theorem ruleStoreAfter_inv (cfg : Cfg) (hc : cfg.sound = true) (feq : FVal K → FVal K → Bool) (hx : KeyEqExact feq)
    (C : Ctx K) (st : RuleStore K) (hi : RuleInv cfg feq C st) (rule : Rule) (d1 : Data) (chk : Check K) :
    RuleInv cfg feq C (ruleStoreAfter cfg feq C st rule d1 chk) := by
  unfold ruleStoreAfter
  cases chk with
  | pass a b conv =>
    simp only []
    split
    · exact hi
    · exact (ruleM_sound cfg hc feq hx C st hi _).2
  | early b => exact hi
  | refuse => exact hi

theorem stdBinaryM_is_stdBinary (cfg : Cfg) (hc : cfg.sound = true) (feq : FVal K → FVal K → Bool)
    (hx : KeyEqExact feq) (C : Ctx K) (st : St K) (hi : StateInv cfg feq C st) (c : Call K) (rule : Rule)
    (i0 i1 : Operand K) (u0r u1r : Option (UnitR K)) (eff0 : List (Effect K)) :
    (stdBinaryM cfg feq C st c rule i0 i1 u0r u1r eff0).2 = stdBinary C c rule i0 i1 u0r u1r eff0
      ∧ StateInv cfg feq C (stdBinaryM cfg feq C st c rule i0 i1 u0r u1r eff0).1 := by
  have hrule : ∀ r : Rule, (fun a b => (ruleM cfg feq C st.rule ⟨r, a, b⟩).2) = (fun a b => ruleBlk C ⟨r, a, b⟩) := by
    intro r; funext a b; exact (ruleM_sound cfg hc feq hx C st.rule hi.2 ⟨r, a, b⟩).1
  unfold stdBinaryM
  simp only [hrule]
  split
  · exact ⟨stdBinaryV_plain .., hi⟩
  · have hck : ∀ x : CheckIn K,
        ((if (!(x.rule.rescales) || C.ueq x.u0.v x.u1.v) = true then (st.check, checkBlk C x) else checkM cfg feq C st.check x).2
            = checkBlk C x)
        ∧ CheckInv cfg feq C (if (!(x.rule.rescales) || C.ueq x.u0.v x.u1.v) = true then (st.check, checkBlk C x) else checkM cfg feq C st.check x).1 := by
      intro x
      split
      · exact ⟨rfl, hi.1⟩
      · exact checkM_sound cfg hc feq hx C st.check hi.1 x
    have h := hck (checkInOf c rule i0 i1 u0r u1r)
    refine ⟨?_, h.2, ?_⟩
    · simp only [h.1]
      exact stdBinaryV_plain ..
    · exact ruleStoreAfter_inv cfg hc feq hx C st.rule hi.2 _ _ _

theorem binaryPathM_is_binaryPath (cfg : Cfg) (hc : cfg.sound = true) (feq : FVal K → FVal K → Bool)
    (hx : KeyEqExact feq) (C : Ctx K) (st : St K) (hi : StateInv cfg feq C st) (c : Call K)
    (i0 i1 : Operand K) (eff0 : List (Effect K)) :
    (binaryPathM cfg feq C st c i0 i1 eff0).2 = binaryPath C c i0 i1 eff0
      ∧ StateInv cfg feq C (binaryPathM cfg feq C st c i0 i1 eff0).1 := by
  unfold binaryPathM binaryPath
  cases h0 : coerce C.ueq i0 with
  | error e => exact ⟨rfl, hi⟩
  | ok c0 =>
    cases h1 : coerce C.ueq i1 with
    | error e => exact ⟨rfl, hi⟩
    | ok c1 =>
      by_cases hp : (c.ufunc == C.T.powerName) = true
      · simp only [hp, if_true]
        exact ⟨by first | rfl | trivial, hi⟩
      · simp only [if_neg hp]
        cases hr : C.T.ruleOf c.ufunc with
        | none => exact ⟨rfl, hi⟩
        | some rule => exact stdBinaryM_is_stdBinary cfg hc feq hx C st hi c rule i0 i1 _ _ eff0

/-- C01, histories: in an interpreter whose memo configuration is sound, whatever state earlier
    calls left behind, a call's outcome is the stateless dispatcher's — and the state stays sound -/
theorem dispatchM_is_dispatch (cfg : Cfg) (hc : cfg.sound = true) (feq : FVal K → FVal K → Bool)
    (hx : KeyEqExact feq) (C : Ctx K) (st : St K) (hi : StateInv cfg feq C st) (c : Call K) :
    (dispatchM cfg feq C st c).2 = dispatch C c ∧ StateInv cfg feq C (dispatchM cfg feq C st c).1 := by
  unfold dispatchM
  rcases hin : c.inputs with _ | ⟨i0, _ | ⟨i1, _ | ⟨i2, t⟩⟩⟩
  · exact ⟨rfl, hi⟩
  · exact ⟨rfl, hi⟩
  · have h := binaryPathM_is_binaryPath cfg hc feq hx C st hi c i0 i1 []
    refine ⟨?_, h.2⟩
    rw [h.1]
    simp only [dispatch, hin]
  · exact ⟨rfl, hi⟩

theorem stateAfter_inv (cfg : Cfg) (hc : cfg.sound = true) (feq : FVal K → FVal K → Bool)
    (hx : KeyEqExact feq) (C : Ctx K) (history : List (Call K)) (st : St K) (hi : StateInv cfg feq C st) :
    StateInv cfg feq C (stateAfter cfg feq C st history) := by
  induction history generalizing st with
  | nil => exact hi
  | cons c rest ih => exact ih _ (dispatchM_is_dispatch cfg hc feq hx C st hi c).2

theorem stateInv_empty (cfg : Cfg) (feq : FVal K → FVal K → Bool) (C : Ctx K) : StateInv cfg feq C {} := by
  unfold StateInv
  constructor <;> split <;> first | trivial | (intro e he; cases he)

/-- C01 over programs: after ANY history of calls in one interpreter the outcome of a call is that
    of the call alone -/
theorem history_independent (cfg : Cfg) (hc : cfg.sound = true) (feq : FVal K → FVal K → Bool)
    (hx : KeyEqExact feq) (C : Ctx K) (history : List (Call K)) (c : Call K) :
    runHistory cfg feq C history c = dispatch C c :=
  (dispatchM_is_dispatch cfg hc feq hx C _
    (stateAfter_inv cfg hc feq hx C history {} (stateInv_empty cfg feq C)) c).1

/-- … hence a dimension mismatch outside the documented exceptions is refused after any history
    (in particular after the ordering comparisons, `==`/`!=` and zero additions that are allowed to
    go through on the same units) -/
theorem mismatch_refused_after_any_history
    (cfg : Cfg) (hcfg : cfg.sound = true) (feq : FVal K → FVal K → Bool) (hx : KeyEqExact feq)
    (C : Ctx K) (hs : UeqSound C.ueq) (history : List (Call K)) (c : Call K) (i0 i1 : Operand K) (rule : Rule)
    (c0 c1 : Option (UnitR K))
    (hin : c.inputs = [i0, i1]) (hp : (c.ufunc == C.T.powerName) = false)
    (hr : C.T.ruleOf c.ufunc = some rule) (hc : rule.checked = true)
    (h0 : coerce C.ueq i0 = .ok c0) (h1 : coerce C.ueq i1 = .ok c1)
    (hd : (resolved i0 c0).v.dim ≠ (resolved i1 c1).v.dim)
    (hxc : documentedException C rule c.ufunc i0 i1 (resolved i0 c0) (resolved i1 c1) = false) :
    (runHistory cfg feq C history c).result = .error .UnitOperationError
      ∧ (runHistory cfg feq C history c).effects = [] := by
  rw [history_independent cfg hcfg feq hx C history c]
  exact dispatch_raises_on_mismatch C hs c i0 i1 rule c0 c1 hin hp hr hc h0 h1 hd hxc

end

/-! ## an unsound key is refuted by a history -/

section
open Witness
/-- a memo keyed by the registries and the two units, not by the operation -/
def unitsOnlyMemo : Memo := ⟨"memo", .check, [.reg0, .reg1, .unit0, .unit1], 256⟩

theorem unitsOnlyMemo_unsound : unitsOnlyMemo.sound = false := by decide

/-- the key of unyt's `_unit_rule_cache` (a cache per rule function, keyed by the registries and the units) is sound -/
theorem rule_cache_key_sound : (⟨"_unit_rule_cache", .rule, [.rule, .reg0, .reg1, .unit0, .unit1], 128⟩ : Memo).sound = true := by decide

/-- exact key equality at `Rat` on the fields the witness uses -/
def feqRat : FVal Rat → FVal Rat → Bool := fvalKeyEq

/-- the verdict of an ordering comparison `length < number` (go on, numbers as they are) is handed
    to a later `length + number` filed under the same two units: the addition goes through.
    Statement at the check block, for every context whose unit equality is sound. -/
theorem units_only_memo_counterexample (C : Ctx Rat) (hs : UeqSound C.ueq) :
    let m : UnitR Rat := ⟨⟨UExpr.sym "m", 1, 0, Dim.dLength, true⟩, "m"⟩
    let one : UnitR Rat := UnitR.null
    let d : Data := { shape := [3] }
    let a : Operand Rat := .unyt .array m d
    let b : Operand Rat := .unyt .quantity one { shape := [] }
    let cfg : Cfg := { check := some unitsOnlyMemo }
    let less : CheckIn Rat := ⟨.comparison, "less", a, b, m, one⟩
    let add : CheckIn Rat := ⟨.preserve, "add", a, b, m, one⟩
    checkBlk C add = .refuse
      ∧ (checkM cfg feqRat C (checkM cfg feqRat C [] less).1 add).2 = .pass m m true := by
  intro m one d a b cfg less add
  have hd : m.v.dim ≠ one.v.dim := by decide
  have hne : C.ueq m.v one.v = false := by
    cases h : C.ueq m.v one.v with
    | false => rfl
    | true => exact absurd (hs _ _ h) hd
  have hl : checkBlk C less = .pass m m true := by
    simp only [checkBlk, less]
    rw [commensurate_spec C hs _ _ _ _ _ _ hd]
    simp [zeroBare, a, b, one, UnitR.null, UnitV.isDimensionless, m]
    decide
  constructor
  · simp only [checkBlk, add]
    rw [commensurate_spec C hs _ _ _ _ _ _ hd]
    simp [zeroBare, a, b]
  · simp only [checkM, cfg, MemoSem.step, Memo.sem, MemoSem.lookup, List.find?_nil, Option.map_none, hl]
    simp [unitsOnlyMemo, Field.proj, feqRat, fvalKeyEq, unitKeyEq, less, add]

end

end Unyt.C01
