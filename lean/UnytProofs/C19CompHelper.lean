/-
  C19 — the decision logic of `unyt/_array_functions.py: _array_comp_helper` (shared by the
  `numpy.isclose` / `numpy.allclose` handlers), regenerated from the live source as a program and
  interpreted by the model.  Core Lean only.

  * `comp_helper_source`, `handler_source_shape`: kernel-decided obligations over regenerated data.
  * `runCompProg_expected`: interpreting the expected program *is* the hand-written
    `arrayCompHelper`, for every pair of operands over every carrier; hence (`…_live`) the functions
    the driver executes for `c19.isclose` / `c19.allclose` are the ones every handler theorem of
    `UnytProofs/C19.lean`, `Real/C19Allclose.lean`, `Real/C19Affine.lean` is about.
-/
import UnytModel.CompHelperLive
import UnytModel.Ref.C19CompHelper

namespace Unyt.C19
open Unyt Unyt.Testing

set_option linter.unusedSectionVars false

/-- **`comp_helper_source`** (kernel-decided; the left side is regenerated from `/repo` on every
    run): the live `_array_comp_helper`, translated statement by statement, is the program
    `Ref.compHelperExpected` — three branches, these guards in this order, `b.in_units(au)` as the
    only conversion, adoption of the other operand's unit by a `NULL_UNIT` side, `(a, b)` returned.
    A branch converted by other means (a helper call, arithmetic by hand), a guard added, dropped or
    re-ordered, an operand swapped: the translation differs and this stops building. -/
theorem comp_helper_source : Generated.compHelperProg = Ref.compHelperExpected := by
  decide +kernel

/-- **`handler_source_shape`** (kernel-decided, regenerated rows): the four handlers call the helper
    (`isclose`, `allclose`) or refuse on `u2 != u1` (`array_equal`, `array_equiv`) and then hand the
    stripped numbers, first operand first, with all remaining arguments, to NumPy's implementation -/
theorem handler_source_shape : Generated.handlerSource = Ref.handlerSourceExpected := by
  decide +kernel

section
variable {K : Type} [Add K] [Sub K] [Mul K] [Div K] [Neg K] [OfNat K 0] [OfNat K 1] [BEq K]
  [LE K] [DecidableLE K] [UnitClose K]

/-- **the interpreter on the expected program is the hand-written model**, for all operands (bare,
    quantity, list) and any carrier -/
theorem runCompProg_expected (a b : ArgIn K) :
    runCompProg Ref.compHelperExpected a b = arrayCompHelper a b := by
  unfold runCompProg arrayCompHelper
  simp only [Ref.compHelperExpected, runBranches, List.all_cons, List.all_nil, UTest.holds,
    URef.resolve, runActs, CompAct.run, Bool.and_true]
  cases h1 : TUnit.eq (unitsAttr b) (unitsAttr a) <;>
  cases h2 : TUnit.eq (unitsAttr a) (nullUnit : TUnit K) <;>
  cases h3 : TUnit.eq (unitsAttr b) (nullUnit : TUnit K) <;>
  simp <;>
  cases inUnits (unitsAttr b) (unitsAttr a) (rawVals b) <;> simp

/-- what the driver executes for the helper is `arrayCompHelper` -/
theorem comp_helper_live (a b : ArgIn K) : arrayCompHelperLive a b = arrayCompHelper a b := by
  unfold arrayCompHelperLive
  rw [comp_helper_source, runCompProg_expected]

/-- what the driver executes for `c19.isclose` is `iscloseHandler` -/
theorem isclose_handler_live (a b : ArgIn K) (rt atl : K) :
    iscloseHandlerLive a b rt atl = iscloseHandler a b rt atl := by
  unfold iscloseHandlerLive iscloseHandlerOf iscloseHandler
  rw [comp_helper_source, runCompProg_expected]
  rfl

/-- what the driver executes for `c19.allclose` is `allcloseHandler` -/
theorem allclose_handler_live (a b : ArgIn K) (rt atl : K) :
    allcloseHandlerLive a b rt atl = allcloseHandler a b rt atl := by
  unfold allcloseHandlerLive allcloseHandlerOf allcloseHandler
  rw [comp_helper_source, runCompProg_expected]
  rfl

/-! ### properties of the little language itself (any program) -/

/-- a branch that contains a statement outside the language is never silently skipped: reaching it
    makes the helper answer `Other` (so a correspondence run cannot agree by accident) -/
theorem runActs_unknown (au bu : TUnit K) (s : CompState K) (pre post : List CompAct) (text : String)
    (hpre : ∀ c ∈ pre, ∃ u, c = .bAdopts u ∨ c = .aAdopts u) :
    runActs au bu (pre ++ .unknown text :: post) s = .error .Other := by
  induction pre generalizing s with
  | nil => simp [runActs, CompAct.run]
  | cons c cs ih =>
    obtain ⟨u, hu | hu⟩ := hpre c (by simp)
    · subst hu
      simp only [List.cons_append, runActs, CompAct.run]
      exact ih _ (fun c hc => hpre c (by simp [hc]))
    · subst hu
      simp only [List.cons_append, runActs, CompAct.run]
      exact ih _ (fun c hc => hpre c (by simp [hc]))

/-- no program of the language changes the numbers of an operand except by `in_units`: with
    adoption-only branches both value lists come back untouched -/
theorem runActs_adopt_only (au bu : TUnit K) (s : CompState K) (acts : List CompAct)
    (h : ∀ c ∈ acts, ∃ u, c = .bAdopts u ∨ c = .aAdopts u) :
    ∃ s', runActs au bu acts s = .ok s' ∧ s'.x = s.x ∧ s'.y = s.y := by
  induction acts generalizing s with
  | nil => exact ⟨s, rfl, rfl, rfl⟩
  | cons c cs ih =>
    obtain ⟨u, hu | hu⟩ := h c (by simp)
    · subst hu
      simp only [runActs, CompAct.run]
      exact ih _ (fun c hc => h c (by simp [hc]))
    · subst hu
      simp only [runActs, CompAct.run]
      exact ih _ (fun c hc => h c (by simp [hc]))

end

/-- non-vacuity: the expected program on `1 m` vs `150 cm` converts the second operand (→ 1.5 m) -/
example :
    (runCompProg Ref.compHelperExpected
      (.qty (⟨[1], true, ⟨1, 0, Dim.dLength⟩⟩ : Qty Rat)) (.qty ⟨[150], true, ⟨1 / 100, 0, Dim.dLength⟩⟩)).map
        (fun r => (r.1, r.2.1))
      = .ok ([1], [3 / 2]) := by
  decide +kernel

end Unyt.C19
