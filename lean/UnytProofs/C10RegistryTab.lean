/-
  C10 — the registry invariant of `UnytProofs/C10Registry.lean` on the REGENERATED registry: the
  seven systems `import unyt` registers passed the validation loop of `__init__` (kernel-decided at
  ℚ over the regenerated unit table, prefixes and `inv_name_alternatives`), so
  `registered_systems_validated` applies to every history that starts from a fresh import.
-/
import UnytModel.SystemTables
import UnytProofs.C10Registry

namespace Unyt
namespace C10

open SysWorld

/-! ### the registry `import unyt` leaves (regenerated), at ℚ -/
section builtin
attribute [local instance] ratPowStub

/-- `unit_system_registry` right after `import unyt`, regenerated from the live objects -/
def builtinWorldQ : SysWorld Rat := SysWorld.ofSystems (builtinSystems Rat)

set_option maxRecDepth 1000000 in
/-- every built-in system passed the validation and is registered under its own name -/
theorem builtin_registry_check : builtinWorldQ.checkB c10Pre c10Lut Generated.invNames = true := by
  decide +kernel

theorem builtin_registry_inv : RegInv c10Pre c10Lut Generated.invNames builtinWorldQ :=
  checkB_inv _ _ _ _ builtin_registry_check

/-- non-vacuity and the shape of the seeded defect, on the regenerated tables: a good system `lab`
    (`mm, mg, ms`) is registered; its re-definition with mass and time swapped is rejected and
    `lab` still resolves to the good object; a third, consistent `lab` then replaces it -/
example :
    (let good := SysOp.construct "lab" none ([UExpr.sym "mm", UExpr.sym "mg", UExpr.sym "ms", UExpr.sym "K", UExpr.sym "rad", UExpr.sym "A", UExpr.sym "cd", UExpr.sym "Np"].map some)
     let bad := SysOp.construct "lab" none ([UExpr.sym "mm", UExpr.sym "ms", UExpr.sym "mg", UExpr.sym "K", UExpr.sym "rad", UExpr.sym "A", UExpr.sym "cd", UExpr.sym "Np"].map some)
     let n := builtinWorldQ.heap.length
     let r := trace c10Pre c10Lut Generated.invNames builtinWorldQ [good, bad, .byName "lab", good, .byName "lab", .byObject n]
     (match r.2 with
      | [.built a, .raised .IllDefinedUnitSystem, .system b, .built c, .system d, .system e] =>
        a == n && b == n && c == n + 1 && d == n + 1 && e == n + 1
      | _ => false) && r.1.checkB c10Pre c10Lut Generated.invNames) = true := by
  decide +kernel

end builtin

end C10
end Unyt
