/-
  C20 — `Unit(text)` does not depend on the history of the registry's unit-object cache.

  The string branch of `Unit.__new__` returns a cached object when the text has been turned
  into a unit before on the same registry.  Statements are about `UnitCache.history` /
  `Unyt.unitNewHistory` (the instance with the model's parser and UTF-8 decoder that the driver
  runs for the opcode `c20.history`), for ALL histories of calls: strings, bytes, calls that hand
  unit data in (`Unit.copy`), and registry modifications (which clear the cache).
-/
import UnytModel.UnitCache
import UnytModel.Ops.C20
import UnytProofs.Lemmas.C20Cache

namespace Unyt.C20
open Unyt Parse UnitCache

section general
variable {ε α : Type} (parse parseRaw : Text → Except ε α) (decode : List Nat → Option Text) (decodeErr : ε)

/-- **history independence**: whatever was asked of a registry before (starting from a new
    registry), every call hands back the value the same call hands back on a registry that has
    never been used — the same unit or the same error; only *whether* it came from the cache differs.
    Hypothesis: the construction without the table look-up (`parseRaw`, used when unit data are handed
    in) yields the same expression as the whole construction wherever the latter succeeds — proved for
    the model's parsers in `raw_agrees`. -/
theorem unit_new_history_independent (hraw : ∀ t u, parse t = .ok u → parseRaw t = .ok u) (ks : List Call) :
    (history parse parseRaw decode decodeErr [] ks).1.map Outcome.value
      = ks.map fun k => (fresh parse parseRaw decode decodeErr k).value :=
  (history_sound parse parseRaw decode decodeErr hraw (sound_nil parse) ks).2

/-- the invariant behind it: after every history each cached object is what the parser makes
    of its key (so a hit can never hand out a unit that belongs to another text) -/
theorem cache_entries_are_parses (hraw : ∀ t u, parse t = .ok u → parseRaw t = .ok u) (ks : List Call) (t : Text) (u : α)
    (h : lookup t (history parse parseRaw decode decodeErr [] ks).2 = some u) : parse t = .ok u :=
  (history_sound parse parseRaw decode decodeErr hraw (sound_nil parse) ks).1 t u h

/-- a text that has been turned into a unit is served from the cache afterwards — by `Unit(t)`
    and by `Unit(t, base_value=…)` alike — until the registry is modified -/
theorem second_call_hits (c : Cache α) (t : Text) (u : α) (h : (call parse parseRaw decode decodeErr c (.str t)).1 = .built u) :
    let c' := (call parse parseRaw decode decodeErr c (.str t)).2
    (call parse parseRaw decode decodeErr c' (.str t)).1 = .hit u ∧ (call parse parseRaw decode decodeErr c' (.withData t)).1 = .hit u := by
  simp only [call, callText] at h ⊢
  cases hl : lookup t c with
  | some v => simp only [hl] at h; cases h
  | none =>
    simp only [hl] at h ⊢
    cases hp : parse t with
    | error e => simp only [hp] at h; cases h
    | ok v =>
      simp only [hp] at h ⊢
      cases h
      simp only [lookup, if_true, and_self]

/-- nothing is stored by a call that fails, by a call that hands unit data in, or for bytes
    that do not decode; a modification of the registry empties the cache -/
theorem what_is_not_cached (c : Cache α) :
    (∀ t e, parse t = .error e → lookup t c = none → (call parse parseRaw decode decodeErr c (.str t)).2 = c) ∧
    (∀ t, (call parse parseRaw decode decodeErr c (.withData t)).2 = c) ∧
    (∀ b, decode b = none → (call parse parseRaw decode decodeErr c (.bytes b)).2 = c) ∧
    (call parse parseRaw decode decodeErr c .clear).2 = [] := by
  refine ⟨fun t e hp hl => ?_, fun t => ?_, fun b hb => ?_, rfl⟩
  · simp only [call, callText, hl, hp]
  · simp only [call, callText]
    cases lookup t c with
    | some v => rfl
    | none => cases parseRaw t <;> rfl
  · simp only [call, hb]

/-- a cached object survives every call other than a registry modification -/
theorem cached_until_cleared (c : Cache α) (k : Call) (hk : k ≠ .clear) (s : Text) (u : α)
    (h : lookup s c = some u) : lookup s (call parse parseRaw decode decodeErr c k).2 = some u := by
  cases k with
  | str t => exact callText_keeps parse true c t s u h
  | bytes b =>
    simp only [call]
    cases decode b with
    | none => exact h
    | some t => exact callText_keeps parse true c t s u h
  | withData t => exact callText_keeps parseRaw false c t s u h
  | clear => exact absurd rfl hk

end general

/-- the two constructions of the model agree wherever the whole one succeeds (the look-up only
    refuses, it never changes the expression) -/
theorem raw_agrees (t : Text) (u : UExpr Rat) (h : parseChars t = .ok u) : parseCharsRaw t = .ok u := by
  unfold parseChars at h
  unfold parseCharsRaw
  simp only at h ⊢
  split at h
  · cases h
  · next ts hts =>
    simp only [hts]
    split at h
    · cases h
    · next hb =>
      simp only [hb]
      split at h
      · cases h
      · next p hp =>
        simp only [hp]
        split at h
        · cases h
        · next v hv =>
          simp only [hv]
          cases v with
          | fn => cases h
          | ty => cases h
          | bad a b c => cases h
          | mono e =>
            simp only [finish, unitData] at h
            simp only [finishRaw]
            split at h
            · exact h
            · cases h

/-- the instance the driver runs: the model's parsers and Python's strict UTF-8 decoder -/
theorem unit_new_history_independent_model (ks : List Call) :
    (unitNewHistory ks).1.map Outcome.value = ks.map fun k => (unitNewFresh k).value :=
  unit_new_history_independent _ _ _ _ raw_agrees ks

/-- the look-up is what the raw construction skips: an unknown symbol is refused by `Unit("zz")` and
    accepted when unit data are handed in -/
example : (match parseChars "zz".toList, parseCharsRaw "zz".toList with
           | .error .unitParseError, .ok _ => true | _, _ => false) = true := by decide +kernel

/-- non-vacuity / a concrete history, kernel-evaluated on the driver's instance: `m` is built, then
    hit (also as bytes and with data handed in), a failing text is never cached, a clear forgets -/
example :
    ((unitNewHistory [.str "m".toList, .str "m".toList, .bytes [109], .withData "m".toList, .str "m**".toList,
                      .str "m**".toList, .clear, .withData "m".toList, .str "m".toList]).1.map fun o =>
      match o with | .hit _ => 'H' | .built _ => 'B' | .error _ => 'E' | .done => 'C')
      = ['B', 'H', 'H', 'H', 'E', 'E', 'C', 'B', 'B'] := by decide +kernel

end Unyt.C20
