/-
  C07 — "re-expressing the inputs changes the result only by re-expression", for every HISTORY of the process.

  Property statements about `UnytModel/LabelMemo.lean` (the memo a handler may put between the units of its
  operands and the label of its result) and the regenerated `Generated/C07Memo.lean`:

    * `adequate_key_history_free`     a memo whose key contains expression and scale of every operand (or no memo):
                                      in EVERY history of registry edits (`modify`, `remove`+`add`) and calls, from
                                      every sound memo, EVERY call answers with the label of its own operands in
                                      the registries as they are at that moment
    * `key_without_scale_goes_stale`  a memo whose key lacks the scale — whatever else it contains: registry object,
                                      expression, both — answers the second of two calls around ANY re-scaling of
                                      the symbol with the label of the first: same name, old scale
    * `stale_label_breaks_covariance` such an answer has a different `base_value` whenever the exponent is non-zero
    * `live_label_memos_adequate`     kernel-decided over the regenerated table: the history probes of every live
                                      handler reveal no memo with an inadequate key
    * `live_handlers_history_free`    the two composed: every handler of the table, every history
    * `live_rule_memos_adequate`      the same over the KEYS of the memoised unit rules of unyt/array.py
                                      (`_unit_rule_cache`: the ufunc / operator / default path), read off cache hits and misses
    * `live_unit_rules_history_free`  every memoised unit rule, every history
    * `misses_le_calls`               the memo stores at most one entry per call (no eviction is modelled)
-/
import UnytModel.LabelMemo
import UnytModel.Generated.C07Memo
import UnytModel.Generated.C07RuleMemo

namespace Unyt.C07Memo
open Unyt.LabelMemo

/-- every remembered label was computed for operands with that key -/
def Sound (k : KeyCfg) (c : Cache) : Prop :=
  ∀ key r, find c key = some r → ∃ a, key = keyOf k a ∧ r = label a

theorem sound_nil (k : KeyCfg) : Sound k [] := by
  intro key r h; simp [find] at h

theorem find_cons (c : Cache) (k k' : Key) (r : Label) :
    find ((k', r) :: c) k = if k' = k then some r else find c k := rfl

theorem call_sound (k : KeyCfg) (c : Cache) (a : Call) (h : Sound k c) : Sound k (call k c a).1 := by
  unfold call
  cases hm : k.memo with
  | false => simpa using h
  | true =>
    simp only [if_true]
    cases hf : find c (keyOf k a) with
    | some r => exact h
    | none =>
      intro key r hk
      rw [find_cons] at hk
      by_cases e : keyOf k a = key
      · rw [if_pos e] at hk
        cases hk
        exact ⟨a, e.symm, rfl⟩
      · rw [if_neg e] at hk
        exact h key r hk

/-- operands that agree in expression and scale (whatever their registries) -/
theorem ops_of_key (k : KeyCfg) (he : k.byExpr = true) (hs : k.byScale = true) :
    ∀ (xs ys : List UObs),
      (xs.map fun u => ((if k.byReg then some u.reg else none : Option Nat), (if k.byExpr then some u.expr else none : Option Nat),
                        (if k.byScale then some u.scale else none : Option Int)))
      = (ys.map fun u => ((if k.byReg then some u.reg else none : Option Nat), (if k.byExpr then some u.expr else none : Option Nat),
                        (if k.byScale then some u.scale else none : Option Int))) →
      xs.map (·.expr) = ys.map (·.expr) ∧ ∀ es, dot xs es = dot ys es := by
  intro xs
  induction xs with
  | nil =>
    intro ys h
    cases ys with
    | nil => exact ⟨rfl, fun _ => rfl⟩
    | cons y ys => simp at h
  | cons x xs ih =>
    intro ys h
    cases ys with
    | nil => simp at h
    | cons y ys =>
      simp only [List.map_cons, List.cons.injEq, Prod.mk.injEq, he, hs, if_true, Option.some.injEq] at h
      obtain ⟨⟨_, hexpr, hscale⟩, hrest⟩ := h
      have := ih ys (by simpa [he, hs] using hrest)
      refine ⟨by simp [hexpr, this.1], ?_⟩
      intro es
      cases es with
      | nil => rfl
      | cons e es => simp [dot, hscale, this.2 es]

/-- an adequate key determines the label -/
theorem label_of_key (k : KeyCfg) (he : k.byExpr = true) (hs : k.byScale = true) (a b : Call)
    (h : keyOf k a = keyOf k b) : label a = label b := by
  unfold keyOf at h
  simp only [Prod.mk.injEq] at h
  obtain ⟨hops, hex⟩ := h
  obtain ⟨h1, h2⟩ := ops_of_key k he hs a.ops b.ops hops
  simp [label, h1, hex, h2 b.expos]

/-- one call against a sound memo with an adequate key answers with the label of ITS operands -/
theorem call_answers_label (k : KeyCfg) (hk : k.adequate = true) (c : Cache) (a : Call) (h : Sound k c) :
    (call k c a).2 = label a := by
  unfold call
  cases hm : k.memo with
  | false => simp
  | true =>
    simp only [if_true]
    cases hf : find c (keyOf k a) with
    | none => rfl
    | some r =>
      obtain ⟨b, hkey, hr⟩ := h _ r hf
      simp only [KeyCfg.adequate, hm, Bool.not_true, Bool.false_or, Bool.and_eq_true] at hk
      rw [hr]
      exact (label_of_key k hk.1 hk.2 a b hkey).symm

theorem answers_are_labels (k : KeyCfg) (hk : k.adequate = true) (hist : List Call) (c : Cache) (h : Sound k c) :
    answers k c hist = hist.map label := by
  induction hist generalizing c with
  | nil => rfl
  | cons a rest ih =>
    simp only [answers, List.map_cons]
    rw [call_answers_label k hk c a h, ih _ (call_sound k c a h)]

/-- **every call of every history of registry edits and calls**, from any sound memo (in particular process
    start): the handler answers with the label of the operands it is handed, at their current scale -/
theorem adequate_key_history_free (k : KeyCfg) (hk : k.adequate = true) (w : World) (h : List Ev) (c : Cache)
    (hc : Sound k c) : run k w c h = spec w h :=
  answers_are_labels k hk (observed w h) c hc

/-- the hypotheses are met: the unmemoised handler and the memo keyed by (expression, scale), from process start -/
example : run ⟨false, false, false, false⟩ (fun _ _ => 1) [] [.call [(0, 0)] [2], .modify 0 0 3, .call [(0, 0)] [2]]
    = spec (fun _ _ => 1) [.call [(0, 0)] [2], .modify 0 0 3, .call [(0, 0)] [2]] :=
  adequate_key_history_free _ rfl _ _ _ (sound_nil _)
example : run ⟨true, false, true, true⟩ (fun _ _ => 1) [] [.call [(0, 0)] [2], .modify 0 0 3, .call [(0, 0)] [2]]
    = spec (fun _ _ => 1) [.call [(0, 0)] [2], .modify 0 0 3, .call [(0, 0)] [2]] :=
  adequate_key_history_free _ rfl _ _ _ (sound_nil _)

/-- the history of `UnitRegistry.modify` between two calls on the same symbol -/
def editHistory (reg sym : Nat) (s : Int) (e : Rat) : List Ev :=
  [.call [(reg, sym)] [e], .modify reg sym s, .call [(reg, sym)] [e]]

theorem modify_same (w : World) (reg sym : Nat) (s : Int) : (w.modify reg sym s) reg sym = s := by
  simp [World.modify]

/-- **a key without the scale goes stale**, whatever else it contains: around any edit of the symbol the second
    call is answered with the label computed before the edit -/
theorem key_without_scale_goes_stale (k : KeyCfg) (hm : k.memo = true) (hs : k.byScale = false)
    (w : World) (reg sym : Nat) (s : Int) (e : Rat) :
    run k w [] (editHistory reg sym s e)
      = [label ⟨[w.unit reg sym], [e]⟩, label ⟨[w.unit reg sym], [e]⟩] := by
  simp [run, editHistory, observed, answers, call, hm, find, keyOf, hs, Ev.callOf, World.unit, modify_same]

/-- … and that label is not the label of the operand: its `base_value` differs as soon as the symbol was really
    re-scaled and the exponent is not zero (16× for `np.var` after 2 m → 8 m) -/
theorem stale_label_breaks_covariance (w : World) (reg sym : Nat) (s : Int) (e : Rat) (hs : s ≠ w reg sym) (he : e ≠ 0) :
    (label ⟨[w.unit reg sym], [e]⟩).scale ≠ (label ⟨[(w.modify reg sym s).unit reg sym], [e]⟩).scale := by
  simp only [label, dot, World.unit, modify_same, Rat.add_zero]
  intro h
  have h' : ((w reg sym : Int) : Rat) = (s : Rat) := by
    have := congrArg (· / e) h
    simpa [Rat.mul_div_cancel he] using this
  exact hs (by exact_mod_cast h'.symm)

/-- the hypotheses are met by the key of the seeded change C07-d, (registry object, expression), and by a genuine
    re-scaling 2 m → 8 m under `np.var`'s exponent -/
example : run ⟨true, true, true, false⟩ (fun _ _ => 1) [] (editHistory 0 0 3 2)
    = [label ⟨[⟨0, 0, 1⟩], [2]⟩, label ⟨[⟨0, 0, 1⟩], [2]⟩] :=
  key_without_scale_goes_stale _ rfl rfl _ 0 0 3 2
example : (label ⟨[World.unit (fun _ _ => 1) 0 0], [2]⟩).scale
    ≠ (label ⟨[World.unit (World.modify (fun _ _ => 1) 0 0 3) 0 0], [2]⟩).scale :=
  stale_label_breaks_covariance (fun _ _ => 1) 0 0 3 2 (by decide) (by decide)

/-- so no memo without the scale in its key satisfies what `adequate_key_history_free` states -/
theorem key_without_scale_not_history_free (k : KeyCfg) (hm : k.memo = true) (hs : k.byScale = false) :
    ∃ (w : World) (h : List Ev), run k w [] h ≠ spec w h := by
  refine ⟨fun _ _ => 1, editHistory 0 0 3 2, ?_⟩
  rw [key_without_scale_goes_stale k hm hs]
  decide +kernel

/-- **table obligation**: the history probes of the live handlers reveal no memo with an inadequate key -/
theorem live_label_memos_adequate : Generated.memoRows.all (fun r => r.cfg.adequate) = true := by
  decide +kernel

/-- every live handler of the table, every history, from process start -/
theorem live_handlers_history_free (r : MemoRow) (hr : r ∈ Generated.memoRows) (w : World) (h : List Ev) :
    run r.cfg w [] h = spec w h :=
  adequate_key_history_free r.cfg (List.all_eq_true.mp live_label_memos_adequate r hr) w h [] (sound_nil _)

/-- **table obligation**: the key of every memoised unit rule of the live `unyt/array.py` (read off cache hits and
    misses) contains expression and scale -/
theorem live_rule_memos_adequate : Generated.ruleMemoRows.all (fun r => r.cfg.adequate) = true := by
  decide +kernel

/-- every memoised unit rule of the ufunc path, every history of registry edits and calls, from process start -/
theorem live_unit_rules_history_free (r : MemoRow) (hr : r ∈ Generated.ruleMemoRows) (w : World) (h : List Ev) :
    run r.cfg w [] h = spec w h :=
  adequate_key_history_free r.cfg (List.all_eq_true.mp live_rule_memos_adequate r hr) w h [] (sound_nil _)

theorem call_cache_length (k : KeyCfg) (c : Cache) (a : Call) : (call k c a).1.length ≤ c.length + 1 := by
  unfold call
  cases k.memo <;> simp
  cases find c (keyOf k a) <;> simp

theorem finalCache_length (k : KeyCfg) (hist : List Call) (c : Cache) :
    (finalCache k c hist).length ≤ c.length + hist.length := by
  induction hist generalizing c with
  | nil => simp [finalCache]
  | cons a rest ih =>
    simp only [finalCache, List.length_cons]
    have h1 := ih (call k c a).1
    have h2 := call_cache_length k c a
    omega

/-- the number of misses `c07.history` reports is at most the number of calls of the history -/
theorem misses_le_calls (k : KeyCfg) (w : World) (h : List Ev) : missesOf k w h ≤ (observed w h).length := by
  simpa [missesOf] using finalCache_length k (observed w h) []

end Unyt.C07Memo
