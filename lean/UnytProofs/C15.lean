/-
  C15 — physical constants are coherent across unit systems and with the unit table.

  Symbolic layer (P-refl): the defining relations hold over ℝ identically in the measured base
  constants, proved from the regenerated *source-level* definitions of `_physical_ratios.py` and
  of the table cells by a normaliser that is sound over ℝ (`UnytProofs/Real/C15Mono.lean`).
  Relations between independent literals are kernel-decided numeric checks at exact rationals
  with a rational enclosure of π.
  Table layer (P-tab, `decide +kernel` over the whole regenerated table; parts in
  `C15Tab1..3.lean`): names/aliases/suffixes/registries/unit systems, unit table vs constants,
  values vs the published ones.
-/
import UnytModel.PhysicalConstantsCheck
import UnytProofs.Real.C15Mono
import UnytProofs.C15Tab1
import UnytProofs.C15Tab2
import UnytProofs.C15Tab3

namespace Unyt.C15
open Unyt PCheck Generated Ref.C15 C15Real

/-! ### defining relations -/

/-- every defining relation of the reference (ħ = h/2π, ε₀μ₀c² = 1, μ₀ = 4π·10⁻⁷, σ, a, R_∞,
    the six Planck units, qe = −qp, Ry = h c R_∞) has equal normal forms over the base
    constants of the regenerated source -/
theorem defining_relations_normal_forms : relationsOk = true := by decide +kernel

/-- … hence holds over ℝ for *every* positive assignment of the base constants: the source
    defines these constants by the relation, not by a number -/
theorem defining_relations (ρ : String → ℝ) (hρ : ∀ s, 0 < ρ s) :
    ∀ r ∈ relations, (closeRel r.lhs).eval ρ = (closeRel r.rhs).eval ρ := by
  intro r hr
  have h := defining_relations_normal_forms
  unfold relationsOk at h
  rw [List.all_eq_true] at h
  have h2 := h r hr
  unfold relationOk at h2
  simp only [Bool.and_eq_true] at h2
  exact sameNormalForm_sound ρ hρ _ _ h2.2

/-- the hypothesis is met by the literals of the source: all base constants are positive -/
theorem base_constants_positive : basePositive = true := by decide +kernel

example : ∃ ρ : String → ℝ, ∀ s, 0 < ρ s := ⟨fun _ => 1, fun _ => one_pos⟩
example : relations.length ≥ 14 ∧ (baseConstants ratioDefs).length > 50 := by decide +kernel

/-- relations between quantities the source fixes by independent literals (σ_T against
    (8π/3)·r_e², the eV against e): `lhs/rhs = k·πⁿ` is within the class tolerance of 1 at both
    ends of a 20-digit rational enclosure of π, at the exact decimals of the source -/
theorem independent_literals_agree : numRelationsOk = true := by decide +kernel

/-! ### the unit table against the constants -/

/-- the full-strength statement: every unit symbol that is also a constant denotes the same
    quantity (declared homonyms `G`, `hbar` aside, which must differ in dimension) -/
def C15_unit_full : Prop := unitAndConstantAgree [] = true

theorem unit_and_constant_agree_partial : unitAndConstantAgree exclUnitVsConstant = true := by
  decide +kernel

/-- the excluded symbol really disagrees (unit `mp` is fed from `mass_hydrogen_kg`, constant `mp`
    from `mass_proton_kg`): the exclusion cannot outlive its finding -/
theorem unit_exclusions_fail : exclUnitVsConstant.all (fun k => !unitVsConstOkByName k) = true := by
  decide +kernel

theorem C15_unit_counterexample : ¬ C15_unit_full := by
  unfold C15_unit_full; decide +kernel

/-- the same at the source level: the unit cell and the constant cell have the same normal form
    over the base constants (so the two can not drift apart by editing a literal) -/
theorem unit_and_constant_agree_symbolic_partial :
    unitAndConstantAgreeSymbolic exclUnitVsConstant = true := by decide +kernel

theorem unit_symbolic_exclusions_fail :
    exclUnitVsConstant.all (fun k => !unitVsConstSymbolicOk k) = true := by decide +kernel

/-! ### values against the published ones -/

def C15_values_full : Prop := valuesInClass [] = true

/-- every row of `physical_constants` (outside the exclusion list) has a reference value, the
    reference dimension, and lies within the tolerance class of the reference value -/
theorem values_in_class_partial : valuesInClass exclValue = true := by decide +kernel

theorem value_exclusions_fail : exclValue.all (fun k => !valueOkByName k) = true := by decide +kernel

theorem C15_values_counterexample : ¬ C15_values_full := by
  unfold C15_values_full; decide +kernel

/-! ### the property -/

/-- C15 at full strength over the regenerated tables -/
def C15_full : Prop :=
  relationsOk = true ∧ numRelationsOk = true
  ∧ allSpaces namesOk = true ∧ allSpaces matchesTable = true
  ∧ allSpaces aliasesEqual = true ∧ allSpaces suffixesEqual = true
  ∧ allSpaces (registryEqual pcRows) = true ∧ bitwiseEqual pcRows topRows = true
  ∧ unitAndConstantAgree [] = true ∧ valuesInClass [] = true

/-- … holds outside the two literal exclusion lists -/
theorem C15_partial :
    relationsOk = true ∧ numRelationsOk = true
    ∧ allSpaces namesOk = true ∧ allSpaces matchesTable = true
    ∧ allSpaces aliasesEqual = true ∧ allSpaces suffixesEqual = true
    ∧ allSpaces (registryEqual pcRows) = true ∧ bitwiseEqual pcRows topRows = true
    ∧ unitAndConstantAgree exclUnitVsConstant = true ∧ valuesInClass exclValue = true :=
  ⟨defining_relations_normal_forms, independent_literals_agree, names_are_add_constants,
   materialised_match_table, aliases_equal, suffixes_equal, registries_equal,
   top_level_is_physical_constants, unit_and_constant_agree_partial, values_in_class_partial⟩

theorem C15_counterexample : ¬ C15_full := fun h => C15_unit_counterexample h.2.2.2.2.2.2.2.2.1

end Unyt.C15
