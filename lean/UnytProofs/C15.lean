/-
  C15 — physical constants are coherent across unit systems and with the unit table.

  Symbolic layer (P-refl): the defining relations hold over ℝ identically in the measured base
  constants, proved from the regenerated *source-level* definitions of `_physical_ratios.py` and
  of the table cells by a normaliser that is sound over ℝ (`UnytProofs/Real/C15Mono.lean`).
  Relations between independent literals are kernel-decided numeric checks at exact rationals
  with a rational enclosure of π.
  Table layer (P-tab, `decide +kernel` over the whole regenerated table; parts in
  `C15Tab1..4.lean`): names/aliases/suffixes/registries/unit systems, unit table vs constants,
  values vs the published ones.
-/
import UnytModel.PhysicalConstantsCheck
import UnytProofs.Real.C15Source
import UnytProofs.Lemmas.C15Subst
import UnytProofs.C15Tab1
import UnytProofs.C15Tab2
import UnytProofs.C15Tab3
import UnytProofs.C15Tab4

namespace Unyt.C15
open Unyt PCheck Generated Ref.C15 C15Real

/-! ### defining relations -/

/-- … hence holds over ℝ for *every* positive assignment of the base constants: the source
    defines these constants by the relation, not by a number -/
theorem defining_relations (ρ : String → ℝ) (hρ : ∀ s, 0 < ρ s) :
    ∀ r ∈ relations, (closeRel r.lhs).eval ρ = (closeRel r.rhs).eval ρ := by
  intro r hr
  have h := defining_relations_normal_forms
  unfold relationsOk at h
  rw [List.all_eq_true] at h
  have h2 := h r hr
  unfold relationOk at h2
  simp only [Bool.and_eq_true] at h2
  exact sameNormalForm_sound ρ hρ _ _ h2.2

example : ∃ ρ : String → ℝ, ∀ s, 0 < ρ s := ⟨fun _ => 1, fun _ => one_pos⟩
example : relations.length ≥ 14 ∧ (baseConstants ratioDefs).length > 50 := by decide +kernel

/-- … and over ℝ, at the source's literals and the true π: `|lhs/rhs − 1|` is within the stated tolerance
    (σ_T: 5·10⁻⁷, eV: 10⁻⁷) -/
theorem independent_literals_agree_real :
    ∀ r ∈ numRelations,
      |(closeRel r.lhs).eval sourceEnv / (closeRel r.rhs).eval sourceEnv - 1| ≤ ((r.tol : ℚ) : ℝ) := by
  intro r hr
  have h := independent_literals_agree
  unfold numRelationsOk at h
  rw [List.all_eq_true] at h
  exact numRelationOk_sound base_constants_positive r (h r hr)

/-- closed forms mean what Python computed: evaluating after substituting definitions for names
    is evaluating in the environment that binds the names to the values of their definitions -/
theorem closed_form_semantics (σ : Defs) (ρ : String → ℝ) (e : CExpr) :
    (e.subst σ).eval ρ = e.eval (CExpr.substEnv σ ρ) := CExpr.eval_subst σ ρ e

/-- the double stored for every constant is (within 2·2⁻⁴⁵ on the squares) the real value of its
    source-level definition at the source's literals — so the relations above are statements
    about the numbers the library holds, up to that rounding -/
theorem const_doubles_are_symbolic_values :
    ∀ c ∈ constTable, ∀ e, constCells.lookup c.spec.name = some e →
      |((e.subst closedRatios).eval sourceEnv) ^ 2 - ((ratOfBits c.value * ratOfBits c.value : ℚ) : ℝ)|
        ≤ ((2 * guiseTol : ℚ) : ℝ) * |((ratOfBits c.value * ratOfBits c.value : ℚ) : ℝ)| := by
  intro c hc e he
  have h := const_cells_match_doubles
  unfold constCellsMatchDoubles at h
  rw [List.all_eq_true] at h
  have h2 := h c hc
  simp only [he] at h2
  exact cellMatchesDouble_sound base_constants_positive _ _ h2

example : (constTable.any fun c => (constCells.lookup c.spec.name).isSome) = true := by decide +kernel

/-! ### the property -/

/-- C15 at full strength over the regenerated tables -/
def C15_full : Prop :=
  relationsOk = true ∧ numRelationsOk = true
  ∧ allSpaces namesOk = true ∧ allSpaces matchesTable = true
  ∧ allSpaces aliasesEqual = true ∧ allSpaces suffixesEqual = true
  ∧ allSpaces (registryEqual pcRows) = true ∧ bitwiseEqual pcRows topRows = true
  ∧ unitAndConstantAgree [] = true ∧ valuesInClass [] = true

example : (C15_full → C15_unit_full) ∧ (C15_full → C15_values_full) :=
  ⟨fun h => h.2.2.2.2.2.2.2.2.1, fun h => h.2.2.2.2.2.2.2.2.2⟩

/-- … holds outside the two literal exclusion lists -/
theorem C15_partial :
    relationsOk = true ∧ numRelationsOk = true
    ∧ allSpaces namesOk = true ∧ allSpaces matchesTable = true
    ∧ allSpaces aliasesEqual = true ∧ allSpaces suffixesEqual = true
    ∧ allSpaces (registryEqual pcRows) = true ∧ bitwiseEqual pcRows topRows = true
    ∧ unitAndConstantAgree exclUnitVsConstant = true ∧ valuesInClass exclValue = true :=
  ⟨defining_relations_normal_forms, independent_literals_agree, names_are_add_constants,
   materialised_match_table, aliases_equal, suffixes_equal, registries_equal,
   top_level_is_physical_constants, unit_and_constant_agree_partial, values_in_class_partial⟩

theorem C15_counterexample : ¬ C15_full := fun h => C15_unit_counterexample h.2.2.2.2.2.2.2.2.1

end Unyt.C15
