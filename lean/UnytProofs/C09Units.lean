/-
  C09 — "… whatever units the input and target are expressed in": the unit-carrying reading of the
  regenerated `_convert` chains.

  `UnytModel/EquivUnitsC09.lean` models what `unyt_array.__array_ufunc__` does to data *and* unit in
  every call of a chain (`Trace.runU`: product/quotient of units, the fold of a scaled dimensionless
  quotient into the data, conversion of the second operand of `subtract`/`add` to the unit of the
  first, `sqrt`/`power` of the unit), with the same aliasing discipline as `Trace.run`.  The theorems
  below say that, for **every** zero-offset unit the input may be expressed in (any positive scale),
  the SI magnitude of what the chain returns / leaves in the caller's array is the chain's formula
  (`Branch.formula` / `Branch.inplaceFormula`, the very formula `convertState` evaluates on
  `xv * u.scale`) applied to the SI magnitude of the input — for any chain without `power`
  (inputs of any sign: Lorentz, spectral, …), and for any monomial chain on positive data
  (the Stefan-Boltzmann chains); `table_unit_safe` (kernel-decided over the whole regenerated
  table) says every chain of the live source is in one of the two classes.
  A chain step that works on the bare buffer (`x.ndview`, `.d`, `np.asarray`) is outside the traced
  vocabulary: the branch is then untraceable and `table_covered` fails.
  Property statements only; the simulation lemmas are in `Real/C09Units.lean`.
-/
import UnytProofs.Real.C09Units
import UnytModel.Generated.EquivFormulas

namespace Unyt.C09
open Unyt Unyt.Equiv Unyt.Generated

/-- every chain of the regenerated table (copy and in-place) either has no `power` call or is a
    monomial chain (no `subtract`/`add`, monomial constant operands) -/
theorem table_unit_safe : equivalences.all (fun e => e.branches.all Branch.unitSafe) = true := by
  decide +kernel

/-- the input: `data` in a unit of scale `scale`, bound to `"x"` by its SI magnitude -/
def InputOf (ρ : String → ℝ) (x : UVal ℝ) : Prop := 0 < x.scale ∧ ρ "x" = x.si

/-- **chains without `power`, inputs of any sign, any unit scale**: the buffer and the returned
    array of the unit-carrying run have the SI magnitudes the formula run says -/
theorem chain_units_si_noPow [BEq ℝ] (t : Trace) (hnp : t.noPow = true) (cd : String → Option Dim)
    (ρ : String → ℝ) (al : Bool) (x : UVal ℝ) (hx : InputOf ρ x)
    {fb : Formula} {fr : Option Formula} {ub : UVal ℝ} {ur : Option (UVal ℝ)}
    (h1 : t.run al = some (fb, fr)) (h2 : t.runU cd ρ al x = some (ub, ur)) :
    ub.si = fb.eval ρ ∧ (∀ f v, fr = some f → ur = some v → v.si = f.eval ρ) := by
  have h := Trace.runU_rel (P := False) t (noPow_spec hnp ρ) (fun hp => hp.elim) x
    ⟨hx.2.symm, hx.1, fun hp => hp.elim⟩ h1 h2
  refine ⟨h.1.1, fun f v hf hv => ?_⟩
  subst hf; subst hv
  exact h.2.1

/-- **monomial chains (`power` allowed), positive constants and data, any unit scale** -/
theorem chain_units_si_monomial [BEq ℝ] (t : Trace) (hm : t.monomial = true) (cd : String → Option Dim)
    (ρ : String → ℝ) (hρ : PosEnv ρ) (al : Bool) (x : UVal ℝ) (hx : InputOf ρ x) (hd : 0 < x.data)
    {fb : Formula} {fr : Option Formula} {ub : UVal ℝ} {ur : Option (UVal ℝ)}
    (h1 : t.run al = some (fb, fr)) (h2 : t.runU cd ρ al x = some (ub, ur)) :
    ub.si = fb.eval ρ ∧ (∀ f v, fr = some f → ur = some v → v.si = f.eval ρ) := by
  obtain ⟨hok, hret⟩ := monomial_spec hm hρ
  have h := Trace.runU_rel (P := True) t hok hret x ⟨hx.2.symm, hx.1, fun _ => hd⟩ h1 h2
  refine ⟨h.1.1, fun f v hf hv => ?_⟩
  subst hf; subst hv
  exact h.2.1

/-- both classes at once, for positive constants and data -/
theorem chain_units_si [BEq ℝ] (t : Trace) (hs : t.unitSafe = true) (cd : String → Option Dim)
    (ρ : String → ℝ) (hρ : PosEnv ρ) (al : Bool) (x : UVal ℝ) (hx : InputOf ρ x) (hd : 0 < x.data)
    {fb : Formula} {fr : Option Formula} {ub : UVal ℝ} {ur : Option (UVal ℝ)}
    (h1 : t.run al = some (fb, fr)) (h2 : t.runU cd ρ al x = some (ub, ur)) :
    ub.si = fb.eval ρ ∧ (∀ f v, fr = some f → ur = some v → v.si = f.eval ρ) := by
  simp only [Trace.unitSafe, Bool.or_eq_true] at hs
  cases hs with
  | inl h => exact chain_units_si_noPow t h cd ρ al x hx h1 h2
  | inr h => exact chain_units_si_monomial t h cd ρ hρ al x hx hd h1 h2

/-- what a mode's formula is (as in `EquivRec.modeFormula`) -/
def modeFormulaOf (m : Mode) (br : Branch) : Option Formula :=
  match m with
  | .copy => br.formula
  | .inplace => br.inplaceFormula true

/-- **C09, unit clause, chain level**: for every registered equivalence, every branch of the
    regenerated table, both modes, all positive constants / keyword parameters, and an input of
    positive data expressed in a unit of *any* positive scale: the SI magnitude of what `_convert`
    returns (copy) / leaves in the caller's array (in place), computed call by call with the unit
    rules of `__array_ufunc__`, is the branch's formula applied to the SI magnitude of the input -/
theorem C09_units_holds [BEq ℝ] (e : EquivRec) (he : e ∈ equivalences) (br : Branch) (hb : br ∈ e.branches)
    (m : Mode) (cd : String → Option Dim) (ρ : String → ℝ) (hρ : PosEnv ρ)
    (x : UVal ℝ) (hx : InputOf ρ x) (hd : 0 < x.data)
    (f : Formula) (hf : modeFormulaOf m br = some f)
    (r : UVal ℝ) (hr : br.unitResult cd ρ m x = some r) : r.si = f.eval ρ := by
  have hsafe : br.unitSafe = true := by
    have h := table_unit_safe
    simp only [List.all_eq_true] at h
    exact h e he br hb
  simp only [Branch.unitSafe, Bool.and_eq_true] at hsafe
  cases m with
  | copy =>
    simp only [modeFormulaOf, Branch.formula] at hf
    simp only [Branch.unitResult] at hr
    cases hc : br.copy with
    | none => simp [hc] at hr
    | some t =>
      simp only [hc] at hf hr hsafe
      cases h1 : t.run false with
      | none => simp [h1] at hf
      | some p1 =>
        obtain ⟨fb, fr⟩ := p1
        cases h2 : t.runU cd ρ false x with
        | none => simp [h2] at hr
        | some p2 =>
          obtain ⟨ub, ur⟩ := p2
          simp [h1] at hf
          cases ur with
          | none => simp [h2] at hr
          | some v =>
            simp [h2] at hr
            subst hr
            exact (chain_units_si t hsafe.1 cd ρ hρ false x hx hd h1 h2).2 f v hf rfl
  | inplace =>
    simp only [modeFormulaOf, Branch.inplaceFormula] at hf
    simp only [Branch.unitResult] at hr
    cases hc : br.inplace with
    | none => simp [hc] at hr
    | some t =>
      simp only [hc] at hf hr hsafe
      cases h1 : t.run true with
      | none => simp [h1] at hf
      | some p1 =>
        obtain ⟨fb, fr⟩ := p1
        cases h2 : t.runU cd ρ true x with
        | none => simp [h2] at hr
        | some p2 =>
          obtain ⟨ub, ur⟩ := p2
          simp [h1] at hf
          simp [h2] at hr
          subst hr; subst hf
          exact (chain_units_si t hsafe.2 cd ρ hρ true x hx hd h1 h2).1

/-- the same through the registry look-up the wrappers use (`EquivRec.modeFormula`): the formula
    `convertState` evaluates on `xv * u.scale` is what the unit-carrying chain computes from `xv`
    in a unit of scale `u.scale` -/
theorem C09_units_modeFormula [BEq ℝ] (e : EquivRec) (he : e ∈ equivalences) (a b : Dim) (m : Mode)
    (cd : String → Option Dim) (ρ : String → ℝ) (hρ : PosEnv ρ) (xv scale : ℝ) (hxv : 0 < xv)
    (hs : 0 < scale) (hx : ρ "x" = xv * scale)
    (f : Formula) (hf : e.modeFormula m a b = some f)
    (br : Branch) (hbr : e.branch a b = some br)
    (r : UVal ℝ) (hr : br.unitResult cd ρ m ⟨xv, scale, a⟩ = some r) : r.si = f.eval ρ := by
  have hb : br ∈ e.branches := List.mem_of_find?_eq_some hbr
  have hf' : modeFormulaOf m br = some f := by
    simp only [EquivRec.modeFormula, hbr] at hf
    cases m <;> simpa [modeFormulaOf] using hf
  exact C09_units_holds e he br hb m cd ρ hρ ⟨xv, scale, a⟩ ⟨hs, hx⟩ hxv f hf' r hr

/-- why the unit rules matter (exact arithmetic): the same first step `1/γ` followed by a squaring
    done on the *bare buffer* — data squared, unit left alone — gives, for γ = 2 written as 200 %,
    an SI magnitude of 1/400, not the 1/4 the formula `(1/γ)²` asks for; the unit-aware
    `multiply` gives 1/4 -/
theorem bare_buffer_step_breaks_scale_invariance :
    let g : UVal Rat := ⟨200, 1 / 100, Dim.one⟩
    let inv : UVal Rat := ⟨1 / g.data, 1 / g.scale, Dim.one⟩
    let bare : UVal Rat := ⟨inv.data * inv.data, inv.scale, inv.dim⟩
    let aware : UVal Rat := ⟨inv.data * inv.data, inv.scale * inv.scale, inv.dim * inv.dim⟩
    bare.si = 1 / 400 ∧ aware.si = 1 / 4 ∧ (1 / g.si) * (1 / g.si) = 1 / 4 := by
  decide +kernel

/-- integer inputs: in every chain of the regenerated table (copy; in place under both readings of a
    returned object) no call applies a negative whole power (`np.reciprocal`, `np.power(·, -n)`) to
    an operand that is still an integer array when the caller's array has an integer dtype — the
    calls where NumPy's integer arithmetic leaves the real-number formula (`1/3 → 0`, `ValueError`) -/
theorem table_integer_safe : equivalences.all (fun e => e.branches.all Branch.intSafe) = true := by
  decide +kernel

/-- the reading of `np.reciprocal(x)` on an integer array is flagged, `np.true_divide(1, x)` is not -/
theorem reciprocal_on_integers_flagged :
    (⟨[⟨.pow (-1), [.buf], false⟩], some (.tmp 0)⟩ : Trace).intSafe false = false ∧
    (⟨[⟨.div, [.c (.lit 1), .buf], false⟩], some (.tmp 0)⟩ : Trace).intSafe false = true := by
  decide

/-! ### non-vacuity -/

/-- a concrete instance of the hypotheses of `chain_units_si_noPow`: the chain `x / c`
    run on 3 km/s with c = 300 000 000 m/s -/
example [BEq ℝ] : InputOf (fun a => if a = "x" then (3 * 1000 : ℝ) else 300000000) ⟨3, 1000, Dim.one⟩ := by
  refine ⟨by norm_num, ?_⟩
  simp [UVal.si]

example : (⟨[⟨.div, [.buf, .c (.atom "c.clight")], false⟩], some (.tmp 0)⟩ : Trace).noPow = true := by
  decide

end Unyt.C09
