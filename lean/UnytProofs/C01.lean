/-
  C01 — incommensurable quantities are never silently combined.

  Property theorems only (helper lemmas: `UnytProofs/Lemmas/C01.lean`).  The theorems are about
  the definitions the driver executes: `Ufunc.dispatch` (model of `unyt_array.__array_ufunc__`),
  `ArrayChecks.validateConsistency` / `validateV2` / `arrayCompHelper` / `setitem` / `toCheck`,
  and the tables regenerated from the live objects (`Generated.Ufuncs`, `Generated.C01Handlers`).
  They hold for every carrier `K` with the arithmetic notation (so for `Float`, `Rat`, ℝ), every
  context (`Unit.__eq__` only has to imply equal dimensions), every operand descriptor.
-/
import UnytProofs.Lemmas.C01
import UnytModel.Ref.C01
import UnytModel.Generated.C01Writes

set_option linter.unusedSectionVars false
set_option linter.unusedVariables false

namespace Unyt.C01
open Unyt Unyt.Ufunc Unyt.ArrayChecks

/-! ## the documented exceptions (written from the property text, not from the code) -/

section
variable {K : Type} [Add K] [Sub K] [Mul K] [Div K] [OfNat K 0] [OfNat K 1] [BEq K] [RPow K]

/-- "an all-zero bare number or bare sequence" -/
def zeroBare (i : Operand K) : Bool :=
  match i with
  | .bare d => d.allZero
  | _ => false

/-- the three documented exceptions: a bare all-zero operand; an ordering comparison with a
    dimensionless operand; `==` / `!=` -/
def documentedException (C : Ctx K) (rule : Rule) (f : String) (i0 i1 : Operand K) (u0 u1 : UnitR K) : Bool :=
  zeroBare i0 || zeroBare i1
  || (rule == .comparison && (u0.v.isDimensionless || u1.v.isDimensionless))
  || (f == C.T.equalName || f == C.T.notEqualName)

def Run.returned (r : Run K) : Bool :=
  match r.result with
  | .ok _ => true
  | .error _ => false

/-! ## the dispatcher raises on a dimension mismatch -/

/-- the zero exception of the code is exactly the documented one: the adopting operand is bare -/
theorem zero_adoption_is_documented (i0 i1 : Operand K) :
    zeroAdoptionApplies i0 i1 = (zeroBare i0 || zeroBare i1) := by
  cases i0 <;> cases i1 <;> simp [zeroAdoptionApplies, zeroBare, Operand.hasNoUnits, Operand.data]

/-- C01 for the ufunc dispatcher, at full strength: for every context, every binary call of a
    ufunc mapped to a checked rule, every pair of operand descriptors whose dimensions differ and
    that falls under none of the three documented exceptions, the call raises
    `UnitOperationError` and has no effect on any operand (an integer `out=` is left as it is). -/
theorem dispatch_raises_on_mismatch
    (C : Ctx K) (hs : UeqSound C.ueq) (c : Call K) (i0 i1 : Operand K) (rule : Rule)
    (c0 c1 : Option (UnitR K))
    (hin : c.inputs = [i0, i1]) (hp : (c.ufunc == C.T.powerName) = false)
    (hr : C.T.ruleOf c.ufunc = some rule) (hc : rule.checked = true)
    (h0 : coerce C.ueq i0 = .ok c0) (h1 : coerce C.ueq i1 = .ok c1)
    (hd : (resolved i0 c0).v.dim ≠ (resolved i1 c1).v.dim)
    (hx : documentedException C rule c.ufunc i0 i1 (resolved i0 c0) (resolved i1 c1) = false) :
    (dispatch C c).result = .error .UnitOperationError ∧ (dispatch C c).effects = [] := by
  simp only [documentedException, Bool.or_eq_false_iff, Bool.and_eq_false_iff] at hx
  obtain ⟨⟨⟨hz0, hz1⟩, hdl⟩, heq, hne⟩ := hx
  have hza : zeroAdoptionApplies i0 i1 = false := by
    rw [zero_adoption_is_documented, hz0, hz1]; rfl
  have href : commensurate C rule c.ufunc i0 i1 (resolved i0 c0) (resolved i1 c1) = .refuse := by
    apply commensurate_refuse C hs rule c.ufunc i0 i1 _ _ hd hza
    intro hrc
    subst hrc
    simp only [BEq.rfl, reduceCtorEq, false_or] at hdl
    exact ⟨hdl.1, hdl.2, heq, hne⟩
  have hfd : (rule == Rule.floorDivide) = false := by
    cases rule <;> first | rfl | (simp [Rule.checked] at hc)
  have hres : rule.rescales = true := by simp [Rule.rescales, hc]
  have key : dispatch C c = ⟨[], .error .UnitOperationError⟩ := by
    simp only [dispatch, hin, binaryPath, h0, h1, hp, hr, Bool.false_eq_true, if_false, stdBinary, hfd,
      Bool.false_and, hres, if_true]
    simp only [resolved] at href
    split
    · rfl
    · simp only [href]
  rw [key]
  exact ⟨rfl, rfl⟩

/-! ## exact characterisation of the exceptions -/

/-- When the dimensions differ, the verdict of the check is decided by exactly these cases, in
    this order: a bare all-zero first operand adopts, a bare all-zero second operand adopts; for
    comparison rules a dimensionless first operand, a dimensionless second operand, `==`
    (all-False), `!=` (all-True); refusal in every other case. -/
theorem commensurate_spec (C : Ctx K) (hs : UeqSound C.ueq) (rule : Rule) (f : String)
    (i0 i1 : Operand K) (u0 u1 : UnitR K) (hd : u0.v.dim ≠ u1.v.dim) :
    commensurate C rule f i0 i1 u0 u1 =
      if zeroBare i0 then .pass u1 u1 true
      else if zeroBare i1 then .pass u0 u0 true
      else if rule == .comparison && u0.v.isDimensionless then .pass u1 u1 true
      else if rule == .comparison && u1.v.isDimensionless then .pass u0 u0 true
      else if rule == .comparison && f == C.T.equalName then .early false
      else if rule == .comparison && f == C.T.notEqualName then .early true
      else .refuse := by
  have hne : C.ueq u0.v u1.v = false := by
    cases h : C.ueq u0.v u1.v with
    | false => rfl
    | true => exact absurd (hs _ _ h) hd
  have hb0 : (i0.hasNoUnits && i0.data.allZero) = zeroBare i0 := by
    cases i0 <;> simp [zeroBare, Operand.hasNoUnits, Operand.data]
  have hb1 : (i1.hasNoUnits && i1.data.allZero) = zeroBare i1 := by
    cases i1 <;> simp [zeroBare, Operand.hasNoUnits, Operand.data]
  simp only [commensurate, hne, adoptZero, hb0, hb1, Bool.false_eq_true, if_false]
  cases h0 : zeroBare i0
  · cases h1 : zeroBare i1
    · simp only [Bool.false_eq_true, if_false, dim_bne_of_ne hd, if_true]
      cases hr : (rule == Rule.comparison) <;> simp
    · simp
  · simp

/-- `==` between incommensurable operands answers all-False, `!=` all-True; the only effects are
    on `out=` (written, and labelled dimensionless; a 0-d second operand with `out=` hits an
    `IndexError` in `ret[:]` instead) -/
theorem eq_ne_mismatch_answers (C : Ctx K) (hs : UeqSound C.ueq) (c : Call K) (i0 i1 : Operand K)
    (c0 c1 : Option (UnitR K)) (isNe : Bool)
    (hin : c.inputs = [i0, i1]) (hp : (c.ufunc == C.T.powerName) = false)
    (hr : C.T.ruleOf c.ufunc = some .comparison)
    (hf : c.ufunc = if isNe then C.T.notEqualName else C.T.equalName)
    (hnames : (C.T.notEqualName == C.T.equalName) = false)
    (h0 : coerce C.ueq i0 = .ok c0) (h1 : coerce C.ueq i1 = .ok c1)
    (hd : (resolved i0 c0).v.dim ≠ (resolved i1 c1).v.dim)
    (hz : zeroAdoptionApplies i0 i1 = false)
    (hd0 : (resolved i0 c0).v.isDimensionless = false) (hd1 : (resolved i1 c1).v.isDimensionless = false)
    (hout : ∀ os, c.out ≠ .many os) (hsh : c.out = .none ∨ (i1.data.shape == []) = false) :
    ∃ o, (dispatch C c).result = .ok o ∧ o.early = some isNe ∧ o.unit = none := by
  have hspec := commensurate_spec C hs .comparison c.ufunc i0 i1 _ _ hd
  have hzb : zeroBare i0 = false ∧ zeroBare i1 = false := by
    rw [zero_adoption_is_documented, Bool.or_eq_false_iff] at hz; exact hz
  simp only [hzb.1, hzb.2, Bool.false_eq_true, if_false, BEq.rfl, Bool.true_and, hd0, hd1] at hspec
  have hchk : commensurate C .comparison c.ufunc i0 i1 (resolved i0 c0) (resolved i1 c1) = .early isNe := by
    rw [hspec, hf]
    cases isNe
    · simp
    · simp [hnames]
  simp only [dispatch, hin, binaryPath, h0, h1, hp, hr, Bool.false_eq_true, if_false, stdBinary]
  simp only [resolved] at hchk
  have hkr : ((Rule.comparison == Rule.preserve) = false) := by decide
  have hfd : ((Rule.comparison == Rule.floorDivide) = false) := by decide
  have hres : Rule.comparison.rescales = true := by decide
  simp only [hkr, hfd, Bool.false_and, Bool.false_eq_true, if_false, hres, if_true, hchk]
  cases hco : c.out with
  | none => exact ⟨_, rfl, rfl, rfl⟩
  | one o =>
    rcases hsh with h | h
    · rw [hco] at h; cases h
    · simp only [h, Bool.false_eq_true, if_false]
      exact ⟨_, rfl, rfl, rfl⟩
  | many os => exact absurd hco (hout os)

/-- a bare all-zero second operand adopts the first operand's unit (and vice versa): the check
    passes with both units equal to the partner's -/
theorem zero_bare_adopts_partner (C : Ctx K) (hs : UeqSound C.ueq) (rule : Rule) (f : String)
    (cls : Cls) (u0 : UnitR K) (d0 d1 : Data) (hz1 : d1.allZero = true) (hz0 : d0.allZero = false)
    (hd : u0.v.dim ≠ (UnitR.null : UnitR K).v.dim) :
    commensurate C rule f (.unyt cls u0 d0) (.bare d1) u0 UnitR.null = .pass u0 u0 true
    ∧ commensurate C rule f (.bare d1) (.unyt cls u0 d0) UnitR.null u0 = .pass u0 u0 true := by
  constructor
  · rw [commensurate_spec C hs rule f _ _ _ _ hd]
    simp [zeroBare, hz1]
  · rw [commensurate_spec C hs rule f _ _ _ _ (Ne.symm hd)]
    simp [zeroBare, hz1]

/-- an ordering comparison accepts a dimensionless operand: the numbers are compared as they are -/
theorem comparison_accepts_dimensionless (C : Ctx K) (hs : UeqSound C.ueq) (f : String)
    (i0 i1 : Operand K) (u0 u1 : UnitR K) (hd : u0.v.dim ≠ u1.v.dim)
    (hz : zeroAdoptionApplies i0 i1 = false) (h1 : u1.v.isDimensionless = true) :
    commensurate C .comparison f i0 i1 u0 u1 = .pass u0 u0 true := by
  rw [commensurate_spec C hs .comparison f i0 i1 u0 u1 hd]
  have h0 : u0.v.isDimensionless = false := by
    cases h : u0.v.isDimensionless with
    | false => rfl
    | true =>
      simp only [UnitV.isDimensionless, beq_iff_eq] at h h1
      exact absurd (h.trans h1.symm) hd
  have hzb : zeroBare i0 = false ∧ zeroBare i1 = false := by
    rw [zero_adoption_is_documented, Bool.or_eq_false_iff] at hz; exact hz
  simp [hzb.1, hzb.2, h0, h1]

/-- a list of quantities whose items do not all have the first item's dimension is refused by the
    coercion (`IterableUnitCoercionError`), so the call raises before anything else happens -/
theorem coerce_refuses_mixed_list (ueq : UnitV K → UnitV K → Bool) (hs : UeqSound ueq)
    (u : UnitR K) (rest : List (Option (UnitR K))) (d : Data)
    (hall : ∀ o ∈ rest, o ≠ none) (v : UnitR K) (hv : some v ∈ rest) (hd : v.v.dim ≠ u.v.dim) :
    coerce ueq (.seq (some u :: rest) d) = .error .IterableUnitCoercionError := by
  have hloop := coerceItems_refuses u (some u :: rest)
    (by intro o ho; cases ho with
        | head => simp
        | tail _ h => exact hall o h)
    ⟨v, List.mem_cons_of_mem _ hv, hd⟩
  simp only [coerce, List.head?_cons, hloop]
  split
  · rename_i e heq
    split at heq
    · cases heq; rfl
    · cases heq
  · rename_i heq
    split at heq
    · cases heq
    rename_i hn
    exfalso
    apply hn
    rw [List.any_eq_true]
    refine ⟨some v, List.mem_cons_of_mem _ hv, ?_⟩
    cases h : ueq u.v v.v with
    | false => simp [h]
    | true => exact absurd (hs _ _ h).symm hd

/-- `reduce` / `accumulate` of a ufunc whose rule preserves or passes the unit through keep the
    operand's unit (the code routes them through the one-input branch) -/
theorem reduce_accumulate_keep_unit (C : Ctx K) (c : Call K) (cls : Cls) (u : UnitR K) (d : Data)
    (rule : Rule) (hin : c.inputs = [.unyt cls u d]) (hk : c.kernelErr = none) (ho : c.out = .none)
    (hi : c.initial = none)
    (hr : C.T.ruleOf c.ufunc = some rule) (hrule : rule = .preserve ∨ rule = .passthrough)
    (hnt : C.T.trig.contains c.ufunc = false)
    (hmd : (c.ufunc == C.T.multiplyName || c.ufunc == C.T.divideName) = false) :
    ∃ o, (dispatch C c).result = .ok o ∧ o.unit = some u.v ∧ (dispatch C c).effects = [] := by
  have hnt' : ¬ c.ufunc ∈ C.T.trig := by simpa using hnt
  have hmd' : ¬ (c.ufunc = C.T.multiplyName ∨ c.ufunc = C.T.divideName) := by simpa using hmd
  rcases hrule with h | h <;> subst h <;>
    simp [dispatch, hin, unaryPath, hk, ho, hi, hr, hnt', hmd', applyRule1, wrapUp, wrapClassFails,
      finishOut, kernelWrites, prepOut, Except.map]

/-- the operator forms `a == b` / `a != b` (`unyt_array.__eq__`, `__ne__`) never let the two
    unit refusals escape: they answer all-False / all-True instead, with the effects already done -/
theorem eq_ne_operator_answers (isNe : Bool) (r : Run K)
    (h : r.result = .error .UnitOperationError ∨ r.result = .error .IterableUnitCoercionError) :
    ∃ o, (eqNeOperator isNe r).result = .ok o ∧ o.early = some isNe ∧ o.unit = none
      ∧ (eqNeOperator isNe r).effects = r.effects := by
  rcases h with h | h <;> simp [eqNeOperator, h]

/-- `reduce(x, initial=q)` at full strength: a start value whose dimension differs from the
    operand's is refused -/
def C01_reduce_initial_full (K : Type) [Add K] [Sub K] [Mul K] [Div K] [OfNat K 0] [OfNat K 1] [BEq K] [RPow K] : Prop :=
  ∀ (C : Ctx K) (c : Call K) (cls : Cls) (u : UnitR K) (d : Data) (ini : Operand K) (ci : Option (UnitR K))
    (rule : Rule),
    c.inputs = [.unyt cls u d] → c.initial = some ini → C.T.ruleOf c.ufunc = some rule → rule.checked = true →
    coerce C.ueq ini = .ok ci → (resolved ini ci).v.dim ≠ u.v.dim → ini.data.allZero = false →
    ∃ e, (dispatch C c).result = .error e ∧ (dispatch C c).effects = []

/-- it holds for every start value that carries units: `initial.to_value(u)` raises
    `UnitConversionError` before anything is touched -/
theorem reduce_initial_refuses_mismatch_partial (C : Ctx K) (c : Call K) (cls cls' : Cls)
    (u ui : UnitR K) (d d' : Data) (rule : Rule)
    (hin : c.inputs = [.unyt cls u d]) (hi : c.initial = some (.unyt cls' ui d'))
    (hr : C.T.ruleOf c.ufunc = some rule) (hc : rule.checked = true)
    (hd : ui.v.dim ≠ u.v.dim) :
    (dispatch C c).result = .error .UnitConversionError ∧ (dispatch C c).effects = [] := by
  simp [dispatch, hin, unaryPath, hi, hr, hc, getConversionFactor, dim_bne_of_ne hd]

/-- a start value without units (a bare number) is not looked at: the outcome is that of the call
    without `initial=` (kept finding `reduce|initial|bare`) -/
theorem reduce_initial_bare_unchecked (C : Ctx K) (c : Call K) (d : Data) :
    dispatch C { c with initial := some (.bare d) } = dispatch C { c with initial := none } := by
  simp only [dispatch]
  cases c.inputs with
  | nil => rfl
  | cons i rest =>
    cases rest with
    | nil => cases i <;> rfl
    | cons j rest2 => cases rest2 <;> rfl

/-- the other keyword operands that the dispatcher forwards to NumPy (`where=`, …) cannot
    influence the outcome -/
theorem dispatch_ignores_keyword_operands (C : Ctx K) (c : Call K) (extra : List (String × Operand K)) :
    dispatch C { c with extra := extra } = dispatch C c := rfl

end

/-! ## concrete witnesses (replayed on the real code by the harness) -/

namespace Witness

scoped instance : RPow Rat := ⟨fun x _ => x⟩

def metre : UnitR Rat := ⟨⟨⟨1, [("m", 1)]⟩, 1, 0, Dim.dLength, true⟩, "m"⟩
def second : UnitR Rat := ⟨⟨⟨1, [("s", 1)]⟩, 1, 0, Dim.dTime, true⟩, "s"⟩

def ctx : Ctx Rat :=
  { T := Tables.generated, pre := [], lut := [], ueq := UnitV.eqv, simp := fun u => (1, u) }

theorem ctx_sound : UeqSound ctx.ueq := eqv_sound

def arr3 : Data := { shape := [3] }
def zeros3 : Data := { shape := [3], allZero := true }
def intArr3 : Data := { shape := [3], kind := .i }

/-- `unyt_array([0.,0.,0.], 'm') + np.array([1.,2.,3.])` -/
def zeroUnytPlusBare : Call Rat :=
  { ufunc := "add", inputs := [.unyt .array metre zeros3, .bare arr3] }

/-- `unyt_array([1.,2.,3.], 'm') + [0*s, 0*s, 0*s]` -/
def unytPlusZeroQuantityList : Call Rat :=
  { ufunc := "add", inputs := [.unyt .array metre arr3, .seq [some second, some second, some second] zeros3] }

/-- `x = unyt_array([1,2,3], 'm'); x += unyt_array([1,2,3], 's')` -/
def intInplaceMismatch : Call Rat :=
  { ufunc := "add", inputs := [.unyt .array metre intArr3, .unyt .array second intArr3],
    out := .one { isUnyt := true, intDtype := true } }

/-- `np.add.reduce(unyt_array([1.,2.,3.], 'm'), initial=unyt_quantity(1., 's'))` -/
def reduceWithInitial : Call Rat :=
  { ufunc := "add", method := .reduce, inputs := [.unyt .array metre arr3],
    initial := some (.unyt .quantity second {}) }

/-- `np.add.reduce(unyt_array([1.,2.,3.], 'm'), initial=1.0)` -/
def reduceWithBareInitial : Call Rat :=
  { ufunc := "add", method := .reduce, inputs := [.unyt .array metre arr3],
    initial := some (.bare {}) }

/-- `np.add.reduce(unyt_array([1.,2.,3.], 'm'))` -/
def plainReduce : Call Rat :=
  { ufunc := "add", method := .reduce, inputs := [.unyt .array metre arr3] }

/-- `unyt_array([1.,2.,3.], 'm') + unyt_array([1.,2.,3.], 's')` — the plain refusal -/
def plainMismatch : Call Rat :=
  { ufunc := "add", inputs := [.unyt .array metre arr3, .unyt .array second arr3] }

end Witness

open Witness in
/-- non-vacuity of `dispatch_raises_on_mismatch`: metres + seconds meets every hypothesis -/
example : (dispatch ctx plainMismatch).result = .error .UnitOperationError ∧ (dispatch ctx plainMismatch).effects = [] :=
  dispatch_raises_on_mismatch ctx ctx_sound plainMismatch
    (.unyt .array metre arr3) (.unyt .array second arr3) .preserve (some metre) (some second)
    rfl (by decide +kernel) (by decide +kernel) rfl rfl rfl (by decide) (by decide +kernel)

open Witness in
/-- instances that used to be counterexamples: an all-zero `unyt_array` next to a non-zero bare
    array, an all-zero list of quantities in seconds, an integer in-place target — all refused with
    no effect -/
example : (dispatch ctx zeroUnytPlusBare).result = .error .UnitOperationError ∧ (dispatch ctx zeroUnytPlusBare).effects = [] :=
  dispatch_raises_on_mismatch ctx ctx_sound zeroUnytPlusBare (.unyt .array metre zeros3) (.bare arr3) .preserve
    (some metre) none rfl (by decide +kernel) (by decide +kernel) rfl rfl rfl (by decide) (by decide +kernel)

open Witness in
example : (dispatch ctx unytPlusZeroQuantityList).result = .error .UnitOperationError
    ∧ (dispatch ctx unytPlusZeroQuantityList).effects = [] :=
  dispatch_raises_on_mismatch ctx ctx_sound unytPlusZeroQuantityList (.unyt .array metre arr3)
    (.seq [some second, some second, some second] zeros3) .preserve
    (some metre) (some second) rfl (by decide +kernel) (by decide +kernel) rfl rfl (by rfl) (by decide)
    (by decide +kernel)

open Witness in
example : (dispatch ctx intInplaceMismatch).result = .error .UnitOperationError
    ∧ (dispatch ctx intInplaceMismatch).effects = [] :=
  dispatch_raises_on_mismatch ctx ctx_sound intInplaceMismatch (.unyt .array metre intArr3)
    (.unyt .array second intArr3) .preserve (some metre) (some second) rfl (by decide +kernel) (by decide +kernel)
    rfl rfl rfl (by decide) (by decide +kernel)

open Witness in
/-- non-vacuity of `reduce_initial_refuses_mismatch_partial`: `np.add.reduce(x_m, initial=1*s)` -/
example : (dispatch ctx reduceWithInitial).result = .error .UnitConversionError ∧ (dispatch ctx reduceWithInitial).effects = [] :=
  reduce_initial_refuses_mismatch_partial ctx reduceWithInitial .array .quantity metre second arr3 {} .preserve
    rfl rfl (by decide +kernel) rfl (by decide)

open Witness in
/-- a bare non-zero `initial=` is folded into a sum of metres: a value in metres comes back -/
theorem reduce_initial_bare_counterexample :
    Run.returned (dispatch ctx reduceWithBareInitial) = true := by decide +kernel

open Witness in
theorem C01_reduce_initial_counterexample : ¬ C01_reduce_initial_full Rat := by
  intro h
  obtain ⟨e, he, _⟩ := h ctx reduceWithBareInitial .array metre arr3 (.bare {}) none .preserve
    rfl rfl (by decide +kernel) rfl rfl (by decide) rfl
  have hr := reduce_initial_bare_counterexample
  simp only [Run.returned, he] at hr
  exact absurd hr (by decide)

open Witness in
/-- non-vacuity of `commensurate_spec` / `eq_ne_mismatch_answers`: metres == seconds is all-False -/
example : commensurate ctx .comparison "equal" (.unyt .array metre arr3) (.unyt .array second arr3) metre second
    = .early false := by
  rw [commensurate_spec ctx ctx_sound .comparison "equal" _ _ metre second (by decide)]
  rw [if_neg (by decide +kernel), if_neg (by decide +kernel), if_neg (by decide +kernel),
    if_neg (by decide +kernel), if_pos (by decide +kernel)]

open Witness in
example : ∃ o, (dispatch ctx { ufunc := "not_equal", inputs := [.unyt .array metre arr3, .unyt .array second arr3] }).result = .ok o
    ∧ o.early = some true ∧ o.unit = none :=
  eq_ne_mismatch_answers ctx ctx_sound _ (.unyt .array metre arr3) (.unyt .array second arr3) (some metre) (some second) true
    rfl (by decide +kernel) (by decide +kernel) (by decide +kernel) (by decide +kernel) rfl rfl (by decide) (by decide)
    (by decide) (by decide) (by intro os h; cases h) (Or.inl rfl)

open Witness in
/-- non-vacuity of `coerce_refuses_mixed_list`: `[1 m, 1 s]` -/
example : coerce ctx.ueq (.seq [some metre, some second] arr3) = .error .IterableUnitCoercionError :=
  coerce_refuses_mixed_list ctx.ueq ctx_sound metre [some second] arr3
    (by intro o ho; simp at ho; simp [ho]) second (by simp) (by decide)

open Witness in
/-- non-vacuity of `reduce_accumulate_keep_unit`: `np.add.reduce(x_m)` -/
example : ∃ o, (dispatch ctx plainReduce).result = .ok o
    ∧ o.unit = some metre.v ∧ (dispatch ctx plainReduce).effects = [] :=
  reduce_accumulate_keep_unit ctx plainReduce .array metre arr3 .preserve rfl rfl rfl rfl (by decide +kernel) (Or.inl rfl)
    (by decide +kernel) (by decide +kernel)

/-! ## table obligations (kernel-decided over the regenerated tables) -/

/-- a NumPy public ufunc name resolves to a registry entry with a checked rule -/
def ufuncChecked (n : String) : Bool :=
  match Generated.npUfuncAliases.find? (·.1 == n) with
  | none => false
  | some (_, canon) =>
    match Tables.generated.ruleOf canon with
    | some r => r.checked
    | none => false

/-- every commensurability-requiring ufunc is mapped to a checked rule -/
def C01_table_full : Prop := Ref.C01.commensurabilityRequiring.all ufuncChecked = true

theorem commensurable_ufuncs_are_checked_partial :
    (Ref.C01.commensurabilityRequiring.filter (fun n => !Ref.C01.uncheckedUfuncs.contains n)).all ufuncChecked = true := by
  decide +kernel

/-- the exclusion list is exact: every excluded ufunc really is unchecked (so an exclusion cannot
    outlive its finding), and `divmod` is mapped to the pass-through rule -/
theorem unchecked_ufuncs_counterexample :
    Ref.C01.uncheckedUfuncs.all (fun n => !ufuncChecked n) = true
    ∧ Tables.generated.ruleOf "divmod" = some .passthrough := by decide +kernel

theorem C01_table_counterexample : ¬ C01_table_full := by
  unfold C01_table_full; decide +kernel

/-- the rule functions under which the model enters the check are exactly the four named in the
    reference, for every rule name occurring in the regenerated registry -/
theorem checked_rules_match_reference :
    Generated.ufuncRegistryRows.all (fun r =>
      (Rule.ofName r.2.1).checked == Ref.C01.checkedRuleNames.contains r.2.1) = true := by
  decide +kernel

/-- no registry entry is mapped to a rule function the model does not know -/
theorem registry_rules_are_modelled :
    Generated.ufuncRegistryRows.all (fun r =>
      match Rule.ofName r.2.1 with | .other _ => false | _ => true) = true := by
  decide +kernel

/-- every rule constructor of the model -/
def allRules : List Rule :=
  [.preserve, .difference, .multiply, .divide, .returnWithoutUnit, .passthrough, .power, .sqrt, .cbrt,
   .square, .reciprocal, .arctan2, .comparison, .invert, .bitop, .floorDivide]

/-- the model enters the dimension-check / rescale block for exactly the rule functions named in the
    `unit_operator in (…)` tuple of the *live source* of `__array_ufunc__` (regenerated by `ast`), the
    only rule replaced on a mismatch beforehand is `_floor_divide_units` (by `_divide_units`), and the
    model's refusing rules (`Rule.checked`) are that tuple minus the replaced rule — so removing a
    rule from the dispatcher's tuple breaks this obligation, not only the correspondence -/
theorem checked_rules_match_dispatcher :
    allRules.all (fun r => r.rescales == (Generated.dispatcherRescaleTuple.map Rule.ofName).contains r) = true
    ∧ Generated.dispatcherRescaleTuple.all (fun n => match Rule.ofName n with | .other _ => false | _ => true) = true
    ∧ Generated.dispatcherMismatchFallback = [("_floor_divide_units", "_divide_units")]
    ∧ allRules.all (fun r => r.checked ==
        ((Generated.dispatcherRescaleTuple.map Rule.ofName).contains r
          && !((Generated.dispatcherMismatchFallback.map fun p => Rule.ofName p.1).contains r))) = true := by
  decide +kernel

/-- `__array_ufunc__` and `_coerce_iterable_units` never write through an input operand: every
    write site of the live source (subscript / attribute stores, augmented assignments, `out=`
    keywords and positional outputs of NumPy calls, `np.copyto`, in-place methods — regenerated by
    `ast`, with the alias closure of the input names) has a base object among the `out=` arrays, their
    views and the keyword dictionary, none among the input aliases; and the alias closure found the
    names the dispatcher is known to use for its inputs.  This is what carries the "operands are
    what they were" clause for *input* operands at the level of obligations (the model's `Effect`
    type can only speak about `out=`); the before/after snapshots of the harness check it per call. -/
theorem dispatcher_never_writes_through_inputs :
    Generated.dispatcherWriteSites.all (fun w =>
      Ref.C01.dispatcherWritable.contains w.2.1 && !Generated.dispatcherInputAliases.contains w.2.1) = true
    ∧ Ref.C01.dispatcherInputNames.all (fun n => Generated.dispatcherInputAliases.contains n) = true
    ∧ Generated.coerceWriteSites.all (fun w => !Generated.coerceInputAliases.contains w.2.1) = true := by
  decide +kernel

/-- table obligation and dispatcher theorem combined: for every commensurability-requiring ufunc
    of the reference (outside the exclusion list), under the regenerated tables, a dimension
    mismatch outside the exceptions raises -/
theorem commensurable_ufunc_refuses_mismatch
    {K : Type} [Add K] [Sub K] [Mul K] [Div K] [OfNat K 0] [OfNat K 1] [BEq K] [RPow K]
    (n canon : String) (hn : n ∈ Ref.C01.commensurabilityRequiring)
    (hex : Ref.C01.uncheckedUfuncs.contains n = false)
    (ha : Generated.npUfuncAliases.find? (·.1 == n) = some (n, canon))
    (C : Ctx K) (hT : C.T = Tables.generated) (hs : UeqSound C.ueq)
    (c : Call K) (hcu : c.ufunc = canon) (i0 i1 : Operand K) (c0 c1 : Option (UnitR K))
    (hin : c.inputs = [i0, i1])
    (h0 : coerce C.ueq i0 = .ok c0) (h1 : coerce C.ueq i1 = .ok c1)
    (hd : (resolved i0 c0).v.dim ≠ (resolved i1 c1).v.dim)
    (hz : zeroAdoptionApplies i0 i1 = false)
    (hdl : (resolved i0 c0).v.isDimensionless = false ∧ (resolved i1 c1).v.isDimensionless = false)
    (heq : (canon == Generated.ident_equal) = false ∧ (canon == Generated.ident_not_equal) = false)
    (hpw : (canon == Generated.ident_power) = false) :
    (dispatch C c).result = .error .UnitOperationError ∧ (dispatch C c).effects = [] := by
  have hall := commensurable_ufuncs_are_checked_partial
  rw [List.all_eq_true] at hall
  have hmem : n ∈ Ref.C01.commensurabilityRequiring.filter (fun n => !Ref.C01.uncheckedUfuncs.contains n) := by
    simp only [List.mem_filter, hn, hex, Bool.not_false, and_self]
  have hck := hall n hmem
  simp only [ufuncChecked, ha] at hck
  cases hr : Tables.generated.ruleOf canon with
  | none => simp [hr] at hck
  | some rule =>
    simp only [hr] at hck
    have hx : documentedException C rule c.ufunc i0 i1 (resolved i0 c0) (resolved i1 c1) = false := by
      have hzb : zeroBare i0 = false ∧ zeroBare i1 = false := by
        rw [zero_adoption_is_documented, Bool.or_eq_false_iff] at hz; exact hz
      simp [documentedException, hzb.1, hzb.2, hdl.1, hdl.2, hcu, hT, Tables.generated, heq.1, heq.2]
    exact dispatch_raises_on_mismatch C hs c i0 i1 rule c0 c1 hin
      (by rw [hcu, hT]; exact hpw) (by rw [hcu, hT]; exact hr) hck h0 h1 hd hx

/-- the alias hypothesis of the combined theorem is met by every name of the reference list: each
    resolves (under its own name) to a ufunc that the regenerated registry knows -/
theorem reference_ufuncs_resolve :
    Ref.C01.commensurabilityRequiring.all (fun n =>
      match Generated.npUfuncAliases.find? (·.1 == n) with
      | some (m, canon) => m == n && (Tables.generated.ruleOf canon).isSome
      | none => false) = true := by decide +kernel

/-- non-vacuity: `hypot` meets the hypotheses of the combined theorem -/
example : "hypot" ∈ Ref.C01.commensurabilityRequiring
    ∧ Generated.npUfuncAliases.find? (·.1 == "hypot") = some ("hypot", "hypot") := by decide +kernel

/-! ## array-function handlers -/

/-- every value-merging array function × merging argument group is checked by its handler -/
def C01_merging_full : Prop :=
  Ref.C01.mergingFunctions.all (fun p => covered Generated.handlerChecks (Ref.C01.kindsFor p) p.1 p.2) = true

theorem merging_functions_are_checked_partial :
    (Ref.C01.mergingFunctions.filter (fun p => !Ref.C01.uncheckedRows.contains p)).all
      (fun p => covered Generated.handlerChecks (Ref.C01.kindsFor p) p.1 p.2) = true := by decide +kernel

/-- the exclusion list is exact: each excluded row is in the reference and really is unchecked -/
theorem unchecked_rows_counterexample :
    Ref.C01.uncheckedRows.all (fun p =>
      Ref.C01.mergingFunctions.contains p && !covered Generated.handlerChecks (Ref.C01.kindsFor p) p.1 p.2) = true := by
  decide +kernel

theorem C01_merging_counterexample : ¬ C01_merging_full := by
  unfold C01_merging_full; decide +kernel

/-- every function of the reference has a handler at all (is not left to NumPy's default path) -/
theorem merging_functions_are_handled :
    Ref.C01.mergingFunctions.all (fun p => Generated.handledFunctions.contains p.1) = true := by
  decide +kernel

section
variable {K : Type} [OfNat K 0] [OfNat K 1]

/-- `_validate_units_consistency` refuses any collection holding two units of different
    dimension, however deeply nested -/
theorem validate_refuses_mismatch (ueq : UnitV K → UnitV K → Bool) (hs : UeqSound ueq)
    (objs : List (Obj K)) (u v : UnitV K)
    (hu : u ∈ unitsOfObjs objs) (hv : v ∈ unitsOfObjs objs) (hd : u.dim ≠ v.dim) :
    validateConsistency ueq objs = .error .UnitInconsistencyError := by
  simp only [validateConsistency, validateUnits]
  cases hl : unitsOfObjs objs with
  | nil => rw [hl] at hu; cases hu
  | cons w rest =>
    rw [hl] at hu hv
    simp only
    by_cases hall : rest.all (fun x => ueq x w) = true
    · exfalso
      rw [List.all_eq_true] at hall
      have dimOf : ∀ x, x ∈ w :: rest → x.dim = w.dim := by
        intro x hx
        cases hx with
        | head => rfl
        | tail _ hx' => exact hs _ _ (hall x hx')
      exact hd ((dimOf u hu).trans (dimOf v hv).symm)
    · simp [hall]

/-- when it answers, the answer is the first unit and every unit met has its dimension -/
theorem validate_ok_all_same_dimension (ueq : UnitV K → UnitV K → Bool) (hs : UeqSound ueq)
    (objs : List (Obj K)) (r : UnitV K) (h : validateConsistency ueq objs = .ok r) :
    ∀ u ∈ unitsOfObjs objs, u.dim = r.dim := by
  intro u hu
  by_cases hd : u.dim = r.dim
  · exact hd
  · exfalso
    have hr : r ∈ unitsOfObjs objs := by
      simp only [validateConsistency, validateUnits] at h
      cases hl : unitsOfObjs objs with
      | nil => rw [hl] at h; cases h
      | cons w rest =>
        rw [hl] at h
        simp only at h
        split at h
        · cases h; exact List.mem_cons_self
        · cases h
    rw [validate_refuses_mismatch ueq hs objs u r hu hr hd] at h
    cases h

/-- `_validate_units_consistency_v2` at full strength: any argument whose unit has another
    dimension than the reference unit is refused -/
def C01_validateV2_full (K : Type) [OfNat K 0] [OfNat K 1] : Prop :=
  ∀ (ueq : UnitV K → UnitV K → Bool) (_ : UeqSound ueq) (ref : UnitV K) (args : List (Obj K)) (v : UnitV K),
    v ∈ unitsOfObjs args → ref.dim ≠ v.dim → validateV2 ueq ref args = .error .UnitInconsistencyError

/-- it holds whenever some argument is not a plain number -/
theorem validateV2_refuses_mismatch_partial (ueq : UnitV K → UnitV K → Bool) (hs : UeqSound ueq)
    (ref : UnitV K) (args : List (Obj K)) (v : UnitV K)
    (hv : v ∈ unitsOfObjs args) (hd : ref.dim ≠ v.dim)
    (hnum : args.all Obj.isNumber = false) :
    validateV2 ueq ref args = .error .UnitInconsistencyError := by
  simp only [validateV2, hnum, Bool.false_eq_true, if_false]
  have := validate_refuses_mismatch ueq hs (.arr (some ref) :: args) ref v
    (by simp [unitsOfObjs, unitsOfObj]) (by simp [unitsOfObjs, unitsOfObj, hv]) hd
  simp [this, Except.map]

/-- plain numbers are accepted whatever the reference unit is (`np.clip(x_m, 1, 2)`,
    `np.insert(x_m, 0, 9.0)`, `np.searchsorted(x_m, 2.5)`, …) -/
theorem validateV2_numbers_unchecked (ueq : UnitV K → UnitV K → Bool) (ref : UnitV K)
    (args : List (Obj K)) (h : args.all Obj.isNumber = true) : validateV2 ueq ref args = .ok () := by
  simp [validateV2, h]

end

/-- composition of the handler table with the validators: a check of one of the three modelled kinds
    (what a `covered` row of kind `validate` / `validate_v2` / `validate_side` runs), handed operands
    among which two units differ in dimension — and, for the `_v2` kinds, not only plain numbers next
    to the reference operand — refuses with `UnitInconsistencyError` -/
theorem covering_check_refuses_mismatch {K : Type} [OfNat K 0] [OfNat K 1]
    (ueq : UnitV K → UnitV K → Bool) (hs : UeqSound ueq) (kind : String)
    (objs : List (Obj K)) (u v : UnitV K)
    (hu : u ∈ unitsOfObjs objs) (hv : v ∈ unitsOfObjs objs) (hd : u.dim ≠ v.dim)
    (hk : kind = "validate" ∨
      ((kind = "validate_v2" ∨ kind = "validate_side") ∧
        ∃ ref args, objs = .arr (some ref) :: args ∧ args.all Obj.isNumber = false)) :
    runCheck ueq kind objs = .error .UnitInconsistencyError := by
  rcases hk with hk | ⟨hk, ref, args, hobjs, hnum⟩
  · subst hk
    simp [runCheck, validate_refuses_mismatch ueq hs objs u v hu hv hd, Except.map]
  · subst hobjs
    have hmem : ∀ w, w ∈ unitsOfObjs (Obj.arr (some ref) :: args) → w = ref ∨ w ∈ unitsOfObjs args := by
      intro w hw
      simpa [unitsOfObjs, unitsOfObj] using hw
    have hex : ∃ w, w ∈ unitsOfObjs args ∧ ref.dim ≠ w.dim := by
      by_cases h1 : u.dim = ref.dim
      · rcases hmem v hv with h | h
        · subst h; exact absurd h1 hd
        · exact ⟨v, h, fun e => hd (h1.trans e)⟩
      · rcases hmem u hu with h | h
        · subst h; exact absurd rfl h1
        · exact ⟨u, h, fun e => h1 e.symm⟩
    obtain ⟨w, hw, hdw⟩ := hex
    have := validateV2_refuses_mismatch_partial ueq hs ref args w hw hdw hnum
    rcases hk with hk | hk <;> subst hk <;> simp [runCheck, this]

/-- non-vacuity: a side value in seconds next to a reference operand in metres -/
example : runCheck (K := Rat) UnitV.eqv "validate_side"
    [.arr (some Witness.metre.v), .arr (some Witness.second.v)] = .error .UnitInconsistencyError :=
  covering_check_refuses_mismatch UnitV.eqv eqv_sound _ _ Witness.metre.v Witness.second.v
    (by simp [unitsOfObjs, unitsOfObj]) (by simp [unitsOfObjs, unitsOfObj]) (by decide)
    (Or.inr ⟨Or.inr rfl, _, _, rfl, rfl⟩)

/-- non-vacuity: `[x_m, [y_m, z_s]]` meets the hypotheses of `validate_refuses_mismatch` -/
example : validateConsistency (K := Rat) UnitV.eqv
    [.arr (some Witness.metre.v), .seq [.arr (some Witness.metre.v), .arr (some Witness.second.v)]]
    = .error .UnitInconsistencyError :=
  validate_refuses_mismatch UnitV.eqv eqv_sound _ Witness.metre.v Witness.second.v
    (by simp [unitsOfObjs, unitsOfObj]) (by simp [unitsOfObjs, unitsOfObj]) (by decide)

/-- non-vacuity: a seconds array against a metres reference -/
example : validateV2 (K := Rat) UnitV.eqv Witness.metre.v [.arr (some Witness.second.v)]
    = .error .UnitInconsistencyError :=
  validateV2_refuses_mismatch_partial UnitV.eqv eqv_sound _ _ Witness.second.v
    (by simp [unitsOfObjs, unitsOfObj]) (by decide) (by rfl)

/-- a bare non-zero number is accepted against metres -/
theorem C01_validateV2_counterexample : ¬ C01_validateV2_full Rat := by
  intro h
  have := h UnitV.eqv eqv_sound Witness.metre.v [.num] nullV (by simp [unitsOfObjs, unitsOfObj]) (by decide)
  rw [validateV2_numbers_unchecked] at this
  · cases this
  · rfl

section
variable {K : Type} [Add K] [Sub K] [Mul K] [Div K] [OfNat K 0] [OfNat K 1] [BEq K]

/-- `_array_comp_helper` refuses two unit-carrying operands of different dimension -/
theorem comp_helper_refuses_mismatch (pre : Prefixes K) (lut : Lut K) (ueq : UnitV K → UnitV K → Bool)
    (hs : UeqSound ueq) (au bu : UnitV K) (hd : au.dim ≠ bu.dim)
    (ha : ueq au nullV = false) (hb : ueq bu nullV = false) :
    arrayCompHelper pre lut ueq (some au) (some bu) = .error .UnitConversionError := by
  have hne : ueq bu au = false := by
    cases h : ueq bu au with
    | false => rfl
    | true => exact absurd (hs _ _ h).symm hd
  simp [arrayCompHelper, hne, ha, hb, getConversionFactor, dim_bne_of_ne (Ne.symm hd)]

/-- `.to()` / `in_units` outside the electromagnetic branch: a dimension mismatch raises
    `UnitConversionError` and nothing is returned -/
theorem to_raises_on_mismatch (pre : Prefixes K) (lut : Lut K) (u target : UnitV K)
    (hd : u.dim ≠ target.dim) : toCheck pre lut u target = .error .UnitConversionError := by
  simp [toCheck, getConversionFactor, dim_bne_of_ne hd]

/-- non-vacuity: metres against seconds -/
example : arrayCompHelper (K := Rat) [] [] UnitV.eqv (some Witness.metre.v) (some Witness.second.v)
    = .error .UnitConversionError :=
  comp_helper_refuses_mismatch [] [] UnitV.eqv eqv_sound _ _ (by decide) (by decide) (by decide)

example : toCheck (K := Rat) [] [] Witness.metre.v Witness.second.v = .error .UnitConversionError :=
  to_raises_on_mismatch [] [] _ _ (by decide)

/-- `__setitem__` at full strength: a value whose unit has another dimension is refused -/
def C01_setitem_full (K : Type) [Add K] [Sub K] [Mul K] [Div K] [OfNat K 0] [OfNat K 1] [BEq K] : Prop :=
  ∀ (pre : Prefixes K) (lut : Lut K) (ueq : UnitV K → UnitV K → Bool) (_ : UeqSound ueq)
    (self u : UnitV K), self.dim ≠ u.dim →
    setitem pre lut ueq self (.withUnits u) = .error .UnitConversionError

/-- it holds unless the value's unit compares equal to the dimensionless unit -/
theorem setitem_converts_or_raises_partial (pre : Prefixes K) (lut : Lut K)
    (ueq : UnitV K → UnitV K → Bool) (hs : UeqSound ueq) (self u : UnitV K)
    (hd : self.dim ≠ u.dim) (hnull : ueq u nullV = false) :
    setitem pre lut ueq self (.withUnits u) = .error .UnitConversionError := by
  have hne : ueq u self = false := by
    cases h : ueq u self with
    | false => rfl
    | true => exact absurd (hs _ _ h).symm hd
  simp [setitem, hne, hnull, getConversionFactor, dim_bne_of_ne (Ne.symm hd)]

/-- commensurable values are converted with the factor `scale(value) / scale(self)` -/
theorem setitem_converts_commensurable (pre : Prefixes K) (lut : Lut K)
    (ueq : UnitV K → UnitV K → Bool) (self u : UnitV K)
    (hd : u.dim = self.dim) (hne : ueq u self = false) (hnull : ueq u nullV = false) :
    ∃ f, setitem pre lut ueq self (.withUnits u) = .ok (.converted f) ∧ f = u.scale / self.scale := by
  have hg : ∃ o, getConversionFactor pre lut u self = .ok (u.scale / self.scale, o) := by
    simp only [getConversionFactor, dim_bne_false_of_eq hd, Bool.false_eq_true, if_false]
    split <;> exact ⟨_, rfl⟩
  obtain ⟨o, ho⟩ := hg
  exact ⟨_, by simp [setitem, hne, hnull, ho], rfl⟩

/-- a dimensionless quantity, and any bare value, is stored as it is -/
theorem setitem_dimensionless_is_raw (pre : Prefixes K) (lut : Lut K)
    (ueq : UnitV K → UnitV K → Bool) (self u : UnitV K) (hnull : ueq u nullV = true) :
    setitem pre lut ueq self (.withUnits u) = .ok .raw
    ∧ setitem pre lut ueq self .bare = .ok .raw := by
  simp [setitem, hnull]

end

/-- `x_m[0] = unyt_quantity(5, 'dimensionless')` is stored raw -/
theorem C01_setitem_counterexample : ¬ C01_setitem_full Rat := by
  intro h
  have h1 := h [] [] UnitV.eqv eqv_sound Witness.metre.v nullV (by decide)
  have h2 := (setitem_dimensionless_is_raw (K := Rat) [] [] UnitV.eqv Witness.metre.v nullV (by decide)).1
  rw [h2] at h1
  cases h1

/-- non-vacuity: seconds assigned into metres meets the hypotheses of the partial theorem -/
example : setitem (K := Rat) [] [] UnitV.eqv Witness.metre.v (.withUnits Witness.second.v)
    = .error .UnitConversionError :=
  setitem_converts_or_raises_partial [] [] UnitV.eqv eqv_sound _ _ (by decide) (by decide)

end Unyt.C01
