/-
  C08 — kernel-decided obligations over the regenerated temperature tables, part 2 (rebuilt whenever
  /repo's tables, prefix table, ufunc registry or guard literals change).  Property statements only.
-/
import UnytModel.TempCheck

namespace Unyt.C08
open Unyt Unyt.Temp

/-- the subtraction block decides alike on the regenerated and on the exact table -/
theorem temp_generated_decisions_sub : decisionsMatchRule .difference = true := by decide +kernel

/-- the comparison block decides alike on the regenerated and on the exact table -/
theorem temp_generated_decisions_cmp : decisionsMatchRule .comparison = true := by decide +kernel

/-- `math.isclose` in `Unit.__eq__` decides exactly equality on every pair of units of the
    regenerated universe (values as the code holds them), so treating it as equality in the theorems
    loses nothing here -/
theorem temp_isclose_is_equality : iscloseIsEquality = true := by decide +kernel

end Unyt.C08
