/-
  C15 — kernel-decided obligations over the regenerated table of materialised constants, part 1:
  every guise in every namespace denotes the quantity of its row of `physical_constants`.
-/
import UnytModel.PhysicalConstantsCheck

namespace Unyt.C15
open Unyt PCheck Generated

/-- every namespace — `unyt.physical_constants`, the top-level namespace, `add_constants` on a
    fresh registry, on a registry of each built-in unit system and of a custom unit system —
    holds exactly the keys the model of `add_constants` writes: each alternate name and the
    name, each with `_mks`, with `_cgs` iff the quantity is representable in CGS, `hmks`/`hcgs` -/
theorem names_are_add_constants : allSpaces namesOk = true := by decide +kernel

/-- every materialised entry, under every name, suffix, registry and unit system, has the SI
    magnitude (2⁻⁴⁵ relative) and dimension of its table row — or is its Gaussian counterpart -/
theorem materialised_match_table : allSpaces matchesTable = true := by decide +kernel

/-- `X_mks` / `hmks` are the table entry itself, bit for bit, in every namespace -/
theorem mks_is_table_entry : allSpaces mksIsTable = true := by decide +kernel

/-- `X_cgs` / `hcgs` carry no MKS current in any namespace: an electromagnetic constant written
    there is the Gaussian counterpart (so `materialised_match_table`'s "or its Gaussian
    counterpart" alternative is the one taken for `qp_cgs`, `qe_cgs`, `q_pl_cgs`) -/
theorem cgs_guise_has_no_mks_current : allSpaces cgsHasNoCurrent = true := by decide +kernel

example : spaces.length ≥ 10 ∧ pcRows.length > 200 ∧ constTable.length > 30 := by decide +kernel

end Unyt.C15
