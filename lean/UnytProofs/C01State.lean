/-
  C01 — the process-wide state of the ufunc dispatcher, regenerated from the live source
  (`tools/extract.d/c01_state.py` → `Generated/C01State.lean`), is sound for the history model
  (`UnytModel/UfuncHistory.lean`): with `Unyt.C01.history_independent` this makes every theorem about
  `Ufunc.dispatch` a theorem about a call made after any other calls.
  (A module of its own so that the obligation is decided whatever happens to the other C01 modules.)
-/
import UnytModel.UfuncHistory
import UnytModel.Generated.C01State

namespace Unyt.C01
open Unyt Unyt.Ufunc Unyt.Ufunc.History

/-- Table obligation (kernel-decided over `Generated.C01State`, regenerated from the live source of
    `unyt/array.py`): every process-wide container the dispatcher (and what it calls in its module)
    writes is a memo the model has a place for, and its key mentions everything the block it
    short-circuits reads.  On the unchanged tree there is none. -/
theorem dispatcher_memos_are_sound :
    ∃ cfg, Cfg.ofRows Generated.dispatcherMemos = some cfg ∧ cfg.sound = true
      ∧ Generated.dispatcherStateUnmodelled = [] := by
  decide +kernel


end Unyt.C01
