/-
  C04 — the program-level statement: for *every* expression program over the covered ufunc
  classes (sums, differences, extrema, remainders; products; quotients; unary degree-1
  functions; rational powers), every assignment of zero-offset units to its leaves and all
  numbers, if the model of the dispatcher returns a quantity then
    * its SI magnitude is what the same mathematics gives on the operands' SI magnitudes,
    * its dimension is the one dimensional analysis gives,
    * its unit is again "good" (scale, dimension and expression in sync, …), which is what lets
      the argument go through nested expressions — by induction over the program.
  Re-expression invariance of whole programs is a corollary.  Property statements only.
-/
import UnytProofs.C04
import UnytProofs.Lemmas.C04Prog
import UnytProofs.Lemmas.C04Total

set_option linter.unusedSectionVars false

namespace Unyt.C04
open Unyt Unyt.UV Unyt.Ref.C04

variable {K : Type} [Lean.Grind.Field K] [BEq K] [LawfulBEq K] [RPow K]

/-- `Unit.simplify` preserves what the unit denotes: the simplified expression evaluates,
    against the table, to the scale and dimension the unit carries — whatever pairs were
    cancelled, in whatever order (induction over the cancellation steps) -/
theorem simplify_preserves_denotation (P : K → Prop) (laws : RPowLaws (RPow.rpow (K := K)) P)
    (pre : Prefixes K) (t : Lut K) (u s : UnitV K) (hpos : AllPos P pre t u.expr.factors)
    (h : simplify pre t u = .ok s) :
    denote pre t s.expr = denote pre t u.expr ∧ s.scale = u.scale ∧ s.dim = u.dim ∧ s.offset = u.offset := by
  obtain ⟨a, b, c, _, hc⟩ := simplify_ok pre t u s h
  exact ⟨(cancelMul_denote P laws pre t u.expr s.expr hpos hc).1, a, b, c⟩

/-- the unit `_multiply_units` returns is in sync with its expression, and the coefficient
    beside it is positive (so the hypothesis `o.mul ≠ 0` of `multiply_rule_covariant` is met) -/
theorem multiply_rule_in_sync (P : K → Prop) (laws : RPowLaws (RPow.rpow (K := K)) P)
    (hP0 : ∀ x, P x → x ≠ 0) (pre : Prefixes K) (t : Lut K) (u0 u1 ur : UnitV K) (m : K)
    (g0 : Good P pre t u0) (g1 : Good P pre t u1) (h : multiplyUnits pre t u0 u1 = .ok (m, ur)) :
    P m ∧ InSync pre t ur ∧ ur.expr.coeff = 1 :=
  let ⟨a, b⟩ := good_multiplyUnits P laws hP0 pre t u0 u1 ur m g0 g1 h
  ⟨a, b.sync, by
    simp only [multiplyUnits] at h
    split at h; · contradiction
    split at h; · contradiction
    simp only [UnitV.asCoeffUnit] at h; cases h; rfl⟩

/-- **Programs.**  Every well-formed program, evaluated by the dispatcher model on good
    quantities, yields — whenever it yields a quantity — the reference interpreter's SI
    magnitude and dimension, in a good unit. -/
theorem program_covariant (ueq : UnitV K → UnitV K → Bool) (hueq : UeqSound ueq)
    (P : K → Prop) (laws : RPowLaws (RPow.rpow (K := K)) P) (hP0 : ∀ x, P x → x ≠ 0)
    (pre : Prefixes K) (t : Lut K) (env : Nat → UnitV K × K) (genv : ∀ i, Good P pre t (env i).1) :
    ∀ (p : Prog K), p.WF P (fun i => (env i).1.dim) → ∀ u v, p.evalModel ueq pre t env = .ok (u, v) →
      Good P pre t u
      ∧ u.scale * v = p.evalRef (fun i => (env i).1.scale * (env i).2)
      ∧ u.dim = p.dimRef (fun i => (env i).1.dim) := by
  intro p
  induction p with
  | leaf i =>
    intro _ u v h
    simp only [Prog.evalModel] at h
    have h := Except.ok.inj h
    obtain ⟨rfl, rfl⟩ : (env i).1 = u ∧ (env i).2 = v := by rw [h]; exact ⟨rfl, rfl⟩
    exact ⟨genv i, rfl, rfl⟩
  | bin f F a b iha ihb =>
    intro wf u v h
    obtain ⟨wa, wb, wc⟩ := wf
    simp only [Prog.evalModel] at h
    split at h; · contradiction
    rename_i ua xa ha
    split at h; · contradiction
    rename_i ub xb hb
    split at h; · contradiction
    rename_i o ho
    split at h
    · rename_i ur hur
      cases h
      obtain ⟨ga, sa, da⟩ := iha wa ua xa ha
      obtain ⟨gb, sb, db⟩ := ihb wb ub xb hb
      simp only [Prog.evalRef, Prog.dimRef]
      rw [← sa, ← sb, ← da, ← db]
      rcases wc with ⟨c1, c2, c3⟩ | ⟨c1, c2, c3, c4⟩ | ⟨c1, c2, c3⟩ | ⟨c1, c2, c3⟩
      · -- preserve
        have hd := dispatch_converting_ok_dims ueq hueq pre t f _ c2 (Or.inl rfl) ua ub false false o ho
        obtain ⟨o', h1, h2, _, h3⟩ := preserve_rule_covariant ueq hueq pre t f c2 ua ub false false ga.off gb.off hd (hP0 _ ga.pos)
        rw [ho] at h1; cases h1
        rw [hur] at h2; cases h2
        have := h3 P F c3 ga.pos xa xb
        simp only [Out.si, hur] at this
        exact ⟨ga, this, by simp [c1]⟩
      · -- difference, away from temperature
        have hT : isTemperature ua = false := by
          simp only [isTemperature, Bool.and_eq_false_iff]
          right
          rw [da]; simpa using c4
        have hd := dispatch_converting_ok_dims ueq hueq pre t f _ c2 (Or.inr rfl) ua ub false false o ho
        obtain ⟨o', h1, h2, _, h3⟩ := difference_rule_covariant ueq hueq pre t f c2 ua ub false false ga.off gb.off hd hT (hP0 _ ga.pos)
        rw [ho] at h1; cases h1
        rw [hur] at h2; cases h2
        have := h3 P F c3 ga.pos xa xb
        simp only [Out.si, hur] at this
        exact ⟨ga, this, by simp [c1]⟩
      · -- multiply
        obtain ⟨m, unit, hmu, hpb⟩ := dispatch_multiply_shape ueq pre t f c2 ua ub false false o ho
        obtain ⟨pm, gu⟩ := good_multiplyUnits P laws hP0 pre t ua ub unit m ga gb hmu
        obtain ⟨e1, _, _, e4⟩ := postMulBlock_ok ua ub unit 1 m o hpb
        have hm : o.mul ≠ 0 := by rw [e1]; exact hP0 _ pm
        obtain ⟨ur', k1, k2, _, k3⟩ := multiply_rule_covariant ueq pre t f c2 ua ub false false ga.off gb.off o ho hm
        rw [hur] at k1; cases k1
        have := k3 F c3 xa xb
        simp only [Out.si, hur] at this
        refine ⟨?_, this, by simp [c1, k2]⟩
        rcases e4 with ⟨e5, _⟩ | ⟨e5, _, _⟩
        · rw [hur] at e5; cases e5; exact gu
        · rw [hur] at e5; cases e5; exact good_dimensionless P laws hP0 pre t
      · -- divide
        obtain ⟨m, unit, hmu, hpb⟩ := dispatch_divide_shape ueq pre t f c2 ua ub false false o ho
        obtain ⟨pm, gu⟩ := good_divideUnits P laws hP0 pre t ua ub unit m ga gb hmu
        obtain ⟨e1, _, _, e4⟩ := postMulBlock_ok ua ub unit 1 m o hpb
        have hm : o.mul ≠ 0 := by rw [e1]; exact hP0 _ pm
        obtain ⟨ur', k1, k2, _, k3⟩ := divide_rule_covariant ueq pre t f c2 ua ub false false ga.off gb.off o ho hm
        rw [hur] at k1; cases k1
        have := k3 P F c3 gb.pos xa xb
        simp only [Out.si, hur] at this
        refine ⟨?_, this, by simp [c1, k2]⟩
        rcases e4 with ⟨e5, _⟩ | ⟨e5, _, _⟩
        · rw [hur] at e5; cases e5; exact gu
        · rw [hur] at e5; cases e5; exact good_dimensionless P laws hP0 pre t
    · contradiction
  | un f G a iha =>
    intro wf u v h
    obtain ⟨wa, c1, c2, c3, c4, c5⟩ := wf
    simp only [Prog.evalModel] at h
    split at h; · contradiction
    rename_i ua xa ha
    split at h; · contradiction
    rename_i o ho
    split at h
    · rename_i ur hur
      cases h
      obtain ⟨ga, sa, da⟩ := iha wa ua xa ha
      obtain ⟨o', h1, h2, h3⟩ := unary_keep_unit_rule ueq pre t f "__call__" _ c2 (Or.inl rfl) c4 c5 ua 1
      rw [ho] at h1; cases h1
      rw [hur] at h2; cases h2
      simp only [Prog.evalRef, Prog.dimRef]
      rw [← sa, ← da]
      exact ⟨ga, h3 P G c3 ga.pos xa, rfl⟩
    · contradiction
  | pow p G a iha =>
    intro wf u v h
    obtain ⟨wa, c1⟩ := wf
    simp only [Prog.evalModel] at h
    split at h; · contradiction
    rename_i ua xa ha
    split at h; · contradiction
    rename_i o ho
    split at h
    · rename_i ur hur
      cases h
      obtain ⟨ga, sa, da⟩ := iha wa ua xa ha
      obtain ⟨ur', hp, ho'⟩ := dispatch_power_shape ueq pre t ua false false p o ho
      have hu : ur' = u := by rw [ho'] at hur; simpa using hur
      rw [hu] at hp
      obtain ⟨a1, a2, _, _⟩ := pow_ok ua u p hp
      have hG := c1 _ ga.pos xa
      simp only [Prog.evalRef, Prog.dimRef]
      rw [← sa, ← da]
      refine ⟨good_pow P laws hP0 pre t ua u p ga hp, ?_, a2⟩
      rw [ho']
      simp only [Out.value, Out.arg1, a1]
      grind
    · contradiction

/-- **Re-expression invariance of programs.**  Run the same program on two environments whose
    leaves denote the same physical quantities (same SI magnitudes, same dimensions) written in
    different good units: if both runs return quantities, these have the same SI magnitude and
    the same dimension — the result changes only by re-expression. -/
theorem program_reexpression_invariant (ueq : UnitV K → UnitV K → Bool) (hueq : UeqSound ueq)
    (P : K → Prop) (laws : RPowLaws (RPow.rpow (K := K)) P) (hP0 : ∀ x, P x → x ≠ 0)
    (pre : Prefixes K) (t : Lut K) (env env' : Nat → UnitV K × K)
    (genv : ∀ i, Good P pre t (env i).1) (genv' : ∀ i, Good P pre t (env' i).1)
    (hsi : ∀ i, (env i).1.scale * (env i).2 = (env' i).1.scale * (env' i).2)
    (hdim : ∀ i, (env i).1.dim = (env' i).1.dim)
    (p : Prog K) (wf : p.WF P (fun i => (env i).1.dim))
    (u u' : UnitV K) (v v' : K) (h : p.evalModel ueq pre t env = .ok (u, v))
    (h' : p.evalModel ueq pre t env' = .ok (u', v')) :
    u.scale * v = u'.scale * v' ∧ u.dim = u'.dim := by
  have wf' : p.WF P (fun i => (env' i).1.dim) := by
    have : (fun i => (env' i).1.dim) = (fun i => (env i).1.dim) := funext fun i => (hdim i).symm
    rw [this]; exact wf
  obtain ⟨_, a, b⟩ := program_covariant ueq hueq P laws hP0 pre t env genv p wf u v h
  obtain ⟨_, a', b'⟩ := program_covariant ueq hueq P laws hP0 pre t env' genv' p wf' u' v' h'
  have e1 : (fun i => (env i).1.scale * (env i).2) = (fun i => (env' i).1.scale * (env' i).2) := funext hsi
  have e2 : (fun i => (env i).1.dim) = (fun i => (env' i).1.dim) := funext hdim
  exact ⟨by rw [a, a', e1], by rw [b, b', e2]⟩

/-- non-vacuity of `… = .ok (u, v)`: the program `(x₀ + x₁) * x₁ / x₀` on `x₀ = 2 km`, `x₁ = 500 m`
    evaluates in the model (over ℚ) to a quantity whose SI magnitude is that of the reference
    interpreter, `(2000 + 500) · 500 / 2000 = 625`, with dimension length -/
example :
    let p : Prog Rat := .bin "divide" (· / ·) (.bin "multiply" (· * ·) (.bin "add" (· + ·) (.leaf 0) (.leaf 1)) (.leaf 1)) (.leaf 0)
    let env : Nat → UnitV Rat × Rat := fun i => if i = 0 then (uKm, 2) else (uM, 500)
    (match p.evalModel UnitV.eqv [] kmLut env with
      | .ok (u, v) => some (u.scale * v, u.dim)
      | .error _ => none) = some (p.evalRef (fun i => (env i).1.scale * (env i).2), Dim.dLength)
    ∧ p.evalRef (fun i => (env i).1.scale * (env i).2) = 625 := by
  decide +kernel

/-! ### totality: when the dispatcher model returns a result

The rule theorems above that speak of a *given* outcome (`… = .ok o → …`) would be satisfied by a model
that refuses everything.  It does not: the preserve / difference / comparison / floor-divide / pass-through
theorems are already stated as "there is an outcome"; for the remaining rules: -/

/-- **The multiply and divide rules return a result** for zero-offset, non-logarithmic operands whose
    symbols all resolve to plain table entries (no zero point, no logarithmic component): `Unit.__mul__` /
    `__truediv__` accept them, `_cancel_mul` never refuses, the post-multiplication block has no
    Celsius/Fahrenheit operand to refuse. -/
theorem multiply_divide_rule_total (ueq : UnitV K → UnitV K → Bool) (pre : Prefixes K) (t : Lut K)
    (u0 u1 : UnitV K) (z0 z1 : Bool) (h0 : u0.offset = 0) (h1 : u1.offset = 0)
    (l0 : u0.isLogarithmic = false) (l1 : u1.isLogarithmic = false)
    (p0 : AllPlain pre t u0.expr.factors) (p1 : AllPlain pre t u1.expr.factors) :
    (∃ o, dispatchBinary ueq pre t "multiply" ⟨some u0, z0⟩ ⟨some u1, z1⟩ none = .ok o) ∧
    (∃ o, dispatchBinary ueq pre t "divide" ⟨some u0, z0⟩ ⟨some u1, z1⟩ none = .ok o) := by
  have hpost : ∀ (m : K) (u : UnitV K), ∃ o, postMulBlock u0 u1 1 m u = .ok o := by
    intro m u; simp [postMulBlock, h0, h1]
  constructor
  · have hf : ruleOf "multiply" = some .multiply := by decide
    have hc : Rule.multiply.converts = false := by decide
    have hp : Rule.multiply.postMul = true := by decide
    have hmul : ∃ r, u0.mul u1 = .ok r ∧ r.expr = u0.expr.mul u1.expr := by
      simp [UnitV.mul, UnitV.mulOffset, l0, l1, h0, h1]
    obtain ⟨r, hr, hre⟩ := hmul
    have hpl : AllPlain pre t r.expr.factors := by
      rw [hre]; intro s q hm
      rcases List.mem_append.mp hm with hm | hm
      · exact p0 s q hm
      · exact p1 s q hm
    obtain ⟨e', he'⟩ := cancelMul_total pre t r.expr hpl
    have hmu : multiplyUnits pre t u0 u1 = .ok ({ r with expr := e' } : UnitV K).asCoeffUnit := by
      simp [multiplyUnits, hr, simplify, he']
    obtain ⟨o, ho⟩ := hpost ({ r with expr := e' } : UnitV K).asCoeffUnit.1 ({ r with expr := e' } : UnitV K).asCoeffUnit.2
    exact ⟨o, by simp [dispatchBinary, binaryRule, effective_of_ne_floorDivide, hf, hc, hp, hmu, Except.map, ho]⟩
  · have hf : ruleOf "divide" = some .divide := by decide
    have hc : Rule.divide.converts = false := by decide
    have hp : Rule.divide.postMul = true := by decide
    have hdiv : ∃ r, u0.div u1 = .ok r ∧ r.expr = u0.expr.div u1.expr := by
      simp [UnitV.div, l0, l1, h0, h1]
    obtain ⟨r, hr, hre⟩ := hdiv
    have hpl : AllPlain pre t r.expr.factors := by
      rw [hre]; intro s q hm
      simp only [UExpr.div] at hm
      rcases List.mem_append.mp hm with hm | hm
      · exact p0 s q hm
      · simp only [UExpr.negF, List.mem_map] at hm
        obtain ⟨x, hx, hxe⟩ := hm
        cases hxe
        exact p1 x.1 x.2 hx
    obtain ⟨e', he'⟩ := cancelMul_total pre t r.expr hpl
    have hmu : divideUnits pre t u0 u1 = .ok ({ r with expr := e' } : UnitV K).asCoeffUnit := by
      simp [divideUnits, hr, simplify, he']
    obtain ⟨o, ho⟩ := hpost ({ r with expr := e' } : UnitV K).asCoeffUnit.1 ({ r with expr := e' } : UnitV K).asCoeffUnit.2
    exact ⟨o, by simp [dispatchBinary, binaryRule, effective_of_ne_floorDivide, hf, hc, hp, hmu, Except.map, ho]⟩

/-- **The power rule returns a result** for every zero-offset, non-logarithmic quantity and every
    rational exponent -/
theorem power_rule_total (ueq : UnitV K → UnitV K → Bool) (pre : Prefixes K) (t : Lut K)
    (u0 : UnitV K) (z0 z1 : Bool) (p : Rat) (h0 : u0.offset = 0) (l0 : u0.isLogarithmic = false) :
    ∃ o, dispatchBinary ueq pre t "power" ⟨some u0, z0⟩ ⟨none, z1⟩ (some p) = .ok o := by
  have hf : ruleOf "power" = some .power := by decide
  exact ⟨_, by simp [dispatchBinary, hf, UnitV.pow, l0, h0, Except.map]; rfl⟩

/-- non-vacuity: metre and kilometre over the two-row table are plain, so `2 km * 3 m` and `2 km / 3 m`
    are covered by the totality theorem (over ℚ) -/
example : AllPlain (K := Rat) [] kmLut uKm.expr.factors ∧ AllPlain (K := Rat) [] kmLut uM.expr.factors := by
  constructor
  · intro s q hm
    simp [uKm, UExpr.sym] at hm
    obtain ⟨rfl, _⟩ := hm
    exact ⟨⟨1000, Dim.dLength, 0, false⟩, rfl, rfl, rfl⟩
  · intro s q hm
    simp [uM, UExpr.sym] at hm
    obtain ⟨rfl, _⟩ := hm
    exact ⟨⟨1, Dim.dLength, 0, true⟩, rfl, rfl, rfl⟩

end Unyt.C04
