/-
  C19 — the tolerance verdict of `allclose_units` against the SI specification, over an
  arbitrary linear ordered field (ℚ, ℝ, …).  Single Mathlib modules only.

  `allcloseQ fixed` is the model of `unyt.array.allclose_units` that the driver executes
  (`UnytModel/Testing.lean`); `fixed = true` is the code after `fix: allclose_units read a bare
  atol in actual's units` (bare `atol` read in `desired`'s own unit), `fixed = false` the code
  before it, kept so that the model can follow — and the harness can name — a regression; which
  one is live is the flag `Generated.bareAtolInDesiredUnit`, and `C19_allclose_full` needs it
  to be `true`.
  `Ref.allcloseSpec` is the hand-written specification on SI magnitudes.
-/
import Mathlib.Algebra.Order.Field.Basic
import Mathlib.Tactic.FieldSimp
import Mathlib.Tactic.Ring
import Mathlib.Tactic.Linarith
import Mathlib.Tactic.NormNum
import Mathlib.Algebra.Order.Field.Rat
import UnytModel.Ref.C19
import UnytProofs.Lemmas.C19

namespace Unyt.C19
open Unyt Unyt.Testing

set_option linter.unusedSectionVars false

variable {K : Type} [Field K] [LinearOrder K] [IsStrictOrderedRing K]

theorem mabs_eq_abs (x : K) : absV x = |x| := by
  unfold absV
  split
  · rw [abs_of_nonneg ‹_›]
  · rw [abs_of_neg (lt_of_not_ge ‹_›)]

theorem absK_eq_abs (x : K) : Ref.absK x = |x| := by
  unfold Ref.absK
  split
  · rw [abs_of_nonneg ‹_›]
  · rw [abs_of_neg (lt_of_not_ge ‹_›)]

/-- one element of `numpy.isclose` after the code's two conversions (reference reading `y` and
    tolerance `av` both brought to the unit of scale `sa`), against the SI magnitudes -/
theorem iscloseElem_conv (sa sd st rt av x y : K) (hsa : 0 < sa) :
    iscloseElem rt (av * (st / sa)) x (y * (sd / sa)) = true ↔
      (Ref.closeSI rt (av * st) (x * sa) (y * sd) ∨ x * sa = y * sd) := by
  simp only [iscloseElem, Bool.or_eq_true, decide_eq_true_eq, beq_iff_eq, Ref.closeSI, mabs_eq_abs,
    absK_eq_abs]
  have e1 : |x * sa - y * sd| = |x - y * (sd / sa)| * sa := by
    rw [← abs_of_pos hsa, ← abs_mul, abs_of_pos hsa]; congr 1; field_simp
  have e2 : |y * sd| = |y * (sd / sa)| * sa := by
    rw [← abs_of_pos hsa, ← abs_mul, abs_of_pos hsa]; congr 1; field_simp
  have e3 : av * st + rt * |y * sd| = (av * (st / sa) + rt * |y * (sd / sa)|) * sa := by
    rw [e2]; field_simp
  have e4 : (x * sa = y * sd) ↔ x = y * (sd / sa) := by
    constructor
    · intro h; field_simp; exact h
    · intro h; rw [h]; field_simp
  rw [e1, e3, e4, mul_le_mul_iff_of_pos_right hsa]

/-- with non-negative tolerances the `| (x == y)` disjunct of `numpy.isclose` adds nothing -/
theorem closeSI_of_eq (rt atolSI a d : K) (hr : 0 ≤ rt) (ha : 0 ≤ atolSI) (h : a = d) :
    Ref.closeSI rt atolSI a d := by
  simp only [Ref.closeSI, absK_eq_abs, h, sub_self, abs_zero]
  exact add_nonneg ha (mul_nonneg hr (abs_nonneg d))

/-- a conversion between zero-offset units is multiplication by the ratio of the scales -/
theorem convVal_linear (src dst : TUnit K) (x : K) (h1 : src.offset = 0) (h2 : dst.offset = 0) :
    convVal src dst x = x * (src.scale / dst.scale) := by
  simp [convVal, h1, h2]

/-- "this tolerance argument's own unit has no offset" -/
def TolLinear : Tol K → Prop
  | .bare _ => True
  | .qty _ u => u.offset = 0

theorem atolUnit_offset (fixed : Bool) (a d : TUnit K) (atol : Tol K) (ha : a.offset = 0)
    (hd : d.offset = 0) (ht : TolLinear atol) : (atolUnit fixed a d atol).offset = 0 := by
  cases atol with
  | bare x => cases fixed <;> simp [atolUnit, bareAtolUnit, ha, hd]
  | qty x u => simpa [atolUnit, TolLinear] using ht

/-- with zero offsets, bringing `atol` to `actual`'s unit multiplies it by the ratio of the scale
    of the unit it is read in (`atolUnit`) to `actual`'s scale — in both variants -/
theorem atolInActualUnit_linear (fixed : Bool) (a d : TUnit K) (atol : Tol K)
    (ha : a.offset = 0) (hd0 : d.offset = 0) (ht : TolLinear atol)
    (hdim : (atolUnit fixed a d atol).dim = a.dim) :
    atolInActualUnit fixed a d atol
      = some (atol.value * ((atolUnit fixed a d atol).scale / a.scale)) := by
  cases atol with
  | bare x =>
    cases fixed
    · simp [atolInActualUnit, atolUnit, bareAtolUnit, Tol.value, convVal_linear _ _ _ ha ha]
    · simp only [atolInActualUnit, atolUnit, bareAtolUnit, Tol.value, if_true,
        convVal_linear _ _ _ hd0 ha]
      congr 1; ring
  | qty x u =>
    have hu : u.offset = 0 := ht
    have hd : (u.dim != a.dim) = false := by
      have : u.dim = a.dim := hdim
      simp [this]
    simp [atolInActualUnit, atolUnit, Tol.value, hd, convVal_linear _ _ _ hu ha]

/-- an `atol` whose unit has another dimension is refused (for a bare `atol` this cannot happen
    once `desired` is commensurable with `actual`) -/
theorem atolInActualUnit_refused (fixed : Bool) (a d : TUnit K) (atol : Tol K)
    (hd : d.dim = a.dim) (hdim : (atolUnit fixed a d atol).dim ≠ a.dim) :
    atolInActualUnit fixed a d atol = none := by
  cases atol with
  | bare x => cases fixed <;> simp [atolUnit, bareAtolUnit, hd] at hdim
  | qty x u =>
    have : (u.dim != a.dim) = true := by simpa [atolUnit] using hdim
    simp [atolInActualUnit, this]

/-- **what either variant of the code computes**, in SI terms: the verdict is `True` exactly
    when `desired` and the unit given to `atol` are commensurable with `actual`, the shapes
    broadcast, and every pair of SI magnitudes is within tolerance (or equal) — with `atol` read
    in the unit `atolUnit fixed …` -/
theorem allcloseQ_iff_si (fixed : Bool) (act des : Qty K) (rtol : K) (atol : Tol K)
    (hsa : 0 < act.unit.scale) (hoa : act.unit.offset = 0) (hod : des.unit.offset = 0)
    (hot : TolLinear atol) :
    allcloseQ fixed act des (.bare rtol) atol = .ok true ↔
      ∃ ps, broadcast2 act.vals des.vals = some ps ∧
        act.unit.dim = des.unit.dim ∧ (atolUnit fixed act.unit des.unit atol).dim = des.unit.dim ∧
        ∀ p ∈ ps,
          Ref.closeSI rtol (atol.value * (atolUnit fixed act.unit des.unit atol).scale)
              (p.1 * act.unit.scale) (p.2 * des.unit.scale)
            ∨ p.1 * act.unit.scale = p.2 * des.unit.scale := by
  have hau := atolUnit_offset fixed act.unit des.unit atol hoa hod hot
  unfold allcloseQ inUnits
  have hr : (rtolDim (Tol.bare rtol : Tol K) != Dim.one) = false := by simp [rtolDim]
  have hv : rtolNumber (Tol.bare rtol : Tol K) = rtol := rfl
  by_cases hd : des.unit.dim = act.unit.dim
  · have hd' : (des.unit.dim != act.unit.dim) = false := by simp [hd]
    by_cases ht : (atolUnit fixed act.unit des.unit atol).dim = act.unit.dim
    · have hconv := atolInActualUnit_linear fixed act.unit des.unit atol hoa hod hot ht
      have h := npAllclose_map_iff rtol
        (atol.value * ((atolUnit fixed act.unit des.unit atol).scale / act.unit.scale)) id
        (convVal des.unit act.unit) act.vals des.vals
      simp only [List.map_id, id] at h
      simp only [hd', hr, hv, hconv, Bool.false_eq_true, if_false]
      rw [h]
      constructor
      · rintro ⟨ps, hps, hall⟩
        refine ⟨ps, hps, hd.symm, ht.trans hd.symm, fun p hp => ?_⟩
        have := hall p hp
        rw [convVal_linear _ _ _ hod hoa] at this
        exact (iscloseElem_conv _ _ _ _ _ _ _ hsa).mp this
      · rintro ⟨ps, hps, _, _, hall⟩
        refine ⟨ps, hps, fun p hp => ?_⟩
        rw [convVal_linear _ _ _ hod hoa]
        exact (iscloseElem_conv _ _ _ _ _ _ _ hsa).mpr (hall p hp)
    · have hconv := atolInActualUnit_refused fixed act.unit des.unit atol hd ht
      simp only [hd', hr, hconv, Bool.false_eq_true, if_false]
      constructor
      · intro h; cases h
      · rintro ⟨_, _, h1, h2, _⟩; exact absurd (h2.trans h1.symm) ht
  · have hd' : (des.unit.dim != act.unit.dim) = true := by simpa using hd
    simp only [hd', if_true]
    constructor
    · intro h; cases h
    · rintro ⟨_, _, h1, _⟩; exact absurd h1.symm hd

/-! ### the specification, and the two variants against it -/

/-- a tolerance's own `(dimension, scale)`, if it carries a unit -/
def tolOwn : Tol K → Option (Dim × K)
  | .bare _ => none
  | .qty _ u => some (u.dim, u.scale)

/-- the documented contract for `allclose_units(actual, desired, rtol, atol)`:
    `Ref.allcloseSpec` on the element pairs NumPy broadcasting forms, `atol` read in its own
    unit, or in `desired`'s when bare (`Ref.atolReadIn`) -/
def AllcloseSpecHolds (act des : Qty K) (rtol : K) (atol : Tol K) : Prop :=
  ∃ ps, broadcast2 act.vals des.vals = some ps ∧
    Ref.allcloseSpec act.unit.dim des.unit.dim
      (Ref.atolReadIn (tolOwn atol) (des.unit.dim, des.unit.scale)).1
      act.unit.scale des.unit.scale
      (Ref.atolReadIn (tolOwn atol) (des.unit.dim, des.unit.scale)).2 rtol atol.value ps

/-- "the unit this tolerance is read in has a positive scale" for a tolerance with a unit -/
def TolScalePos : Tol K → Prop
  | .bare _ => True
  | .qty _ u => 0 < u.scale

theorem atolUnit_true (a d : TUnit K) (atol : Tol K) :
    (atolUnit true a d atol).dim = (Ref.atolReadIn (tolOwn atol) (d.dim, d.scale)).1 ∧
    (atolUnit true a d atol).scale = (Ref.atolReadIn (tolOwn atol) (d.dim, d.scale)).2 := by
  cases atol <;> simp [atolUnit, bareAtolUnit, Ref.atolReadIn, tolOwn]

/-- **`allclose_iff_spec` (repaired variant).**  With a bare `atol` read in `desired`'s own unit,
    `allclose_units` says `True` exactly when the documented contract holds — for all values,
    shapes, zero-offset units with positive scales, and non-negative tolerances. -/
theorem allclose_iff_spec (act des : Qty K) (rtol : K) (atol : Tol K)
    (hsa : 0 < act.unit.scale) (hsd : 0 < des.unit.scale) (hst : TolScalePos atol)
    (hoa : act.unit.offset = 0) (hod : des.unit.offset = 0) (hot : TolLinear atol)
    (hr : 0 ≤ rtol) (ha : 0 ≤ atol.value) :
    allcloseQ true act des (.bare rtol) atol = .ok true ↔ AllcloseSpecHolds act des rtol atol := by
  rw [allcloseQ_iff_si true act des rtol atol hsa hoa hod hot]
  obtain ⟨e1, e2⟩ := atolUnit_true act.unit des.unit atol
  have hpos : 0 ≤ atol.value * (atolUnit true act.unit des.unit atol).scale := by
    apply mul_nonneg ha
    cases atol with
    | bare x => simpa [atolUnit, bareAtolUnit] using hsd.le
    | qty x u => simpa [atolUnit, TolScalePos] using hst.le
  unfold AllcloseSpecHolds Ref.allcloseSpec
  rw [← e1, ← e2]
  constructor
  · rintro ⟨ps, hps, h1, h2, hall⟩
    refine ⟨ps, hps, h1, h2, fun p hp => ?_⟩
    rcases hall p hp with h | h
    · exact h
    · exact closeSI_of_eq _ _ _ _ hr hpos h
  · rintro ⟨ps, hps, h1, h2, hall⟩
    exact ⟨ps, hps, h1, h2, fun p hp => Or.inl (hall p hp)⟩

/-! ### the full statement for the code as it currently is -/

/-- the dimensionless number a relative tolerance denotes: its bare number, times the scale of
    its unit when it has one (`1 percent` is 0.01) -/
def rtolSI : Tol K → K
  | .bare x => x
  | .qty x u => x * u.scale

/-- **`rtol_read_by_dimensionless_value`**: an `rtol` given as a dimensionless quantity acts as
    the number it denotes, whatever dimensionless unit it is written in -/
theorem rtol_read_by_dimensionless_value (fixed : Bool) (act des : Qty K) (r : K) (u : TUnit K)
    (atol : Tol K) (hd : u.dim = Dim.one) (ho : u.offset = 0) :
    allcloseQ fixed act des (.qty r u) atol = allcloseQ fixed act des (.bare (r * u.scale)) atol := by
  have h : rtolNumber (Tol.qty r u) = rtolNumber (Tol.bare (r * u.scale) : Tol K) := by
    simp only [rtolNumber]
    rw [convVal_linear u nullUnit r ho rfl]
    simp [nullUnit]
  have e : rtolDim (Tol.qty r u) = rtolDim (Tol.bare (r * u.scale) : Tol K) := by
    simp [rtolDim, hd]
  unfold allcloseQ
  rw [h, e]

/-- `allclose_units` on two quantities is `allcloseQ` with the regenerated flag -/
theorem allcloseUnits_qty [UnitClose K] (act des : Qty K) (rtol atol : Tol K) :
    allcloseUnits (.qty act) (.qty des) rtol atol
      = allcloseQ Generated.bareAtolInDesiredUnit act des rtol atol := rfl

/-- **the full statement** about `allclose_units` as the source currently is (the flag is
    regenerated from `/repo` on every run): for every ordered field, all values, shapes, units
    and tolerances — `rtol` bare or in any dimensionless unit, `atol` bare or in any unit — the
    verdict is the documented one -/
def C19_full : Prop :=
  ∀ (K : Type) [Field K] [LinearOrder K] [IsStrictOrderedRing K] [UnitClose K]
    (act des : Qty K) (rtol atol : Tol K),
    0 < act.unit.scale → 0 < des.unit.scale → TolScalePos atol →
    act.unit.offset = 0 → des.unit.offset = 0 → TolLinear atol →
    rtolDim rtol = Dim.one → TolLinear rtol → 0 ≤ rtolSI rtol → 0 ≤ atol.value →
    (allcloseUnits (.qty act) (.qty des) rtol atol = .ok true ↔
      AllcloseSpecHolds act des (rtolSI rtol) atol)

/-- when unyt reads a bare `atol` in `desired`'s unit, the full statement is a theorem -/
theorem C19_full_of_repaired (h : Generated.bareAtolInDesiredUnit = true) : C19_full := by
  intro K _ _ _ _ act des rtol atol hsa hsd hst hoa hod hot hrd hrl hr ha
  rw [allcloseUnits_qty, h]
  cases rtol with
  | bare r => exact allclose_iff_spec act des r atol hsa hsd hst hoa hod hot hr ha
  | qty r u =>
    rw [rtol_read_by_dimensionless_value true act des r u atol hrd hrl]
    exact allclose_iff_spec act des (r * u.scale) atol hsa hsd hst hoa hod hot hr ha

/-- **`C19_allclose_full`** — the full statement holds for the source as it is: the flag
    regenerated from `/repo` says that a bare `atol` is read in `desired`'s unit (this obligation
    stops checking the moment the translator reads anything else off the live function) -/
theorem C19_allclose_full : C19_full := C19_full_of_repaired rfl

/-- the witness of the repaired defect: `actual = 1 m`, `desired = 150 cm`, `rtol = 0`, bare
    `atol = 0.6` -/
def witnessAct : Qty ℚ := ⟨[1], true, ⟨1, 0, Dim.dLength⟩⟩
def witnessDes : Qty ℚ := ⟨[150], true, ⟨1 / 100, 0, Dim.dLength⟩⟩

/-- 0.5 m is not within 0.6 cm: the documented contract fails for the witness … -/
theorem witness_spec_false :
    ¬ AllcloseSpecHolds witnessAct witnessDes 0 (.bare (6 / 10)) := by
  rintro ⟨ps, hps, _, _, hall⟩
  have : ps = [(1, 150)] := by
    have h : broadcast2 witnessAct.vals witnessDes.vals = some [(1, 150)] := rfl
    rw [h] at hps; exact (Option.some.inj hps).symm
  subst this
  have h := hall (1, 150) (by simp)
  simp only [Ref.closeSI, absK_eq_abs, Ref.atolReadIn, tolOwn, witnessAct, witnessDes, Tol.value,
    Option.getD_none] at h
  norm_num [abs_le] at h

/-- … so `allclose_units(1 m, 150 cm, rtol=0, atol=0.6)` does not say `True` (it did before the
    repair, and said `False` with the arguments swapped) -/
theorem witness_not_accepted :
    allcloseUnits (.qty witnessAct) (.qty witnessDes) (.bare 0) (.bare (6 / 10)) ≠ .ok true := by
  intro h
  exact witness_spec_false
    ((C19_allclose_full ℚ witnessAct witnessDes (.bare 0) (.bare (6 / 10))
      (by norm_num [witnessAct]) (by norm_num [witnessDes]) trivial rfl rfl trivial rfl trivial
      (by norm_num [rtolSI]) (by norm_num [Tol.value])).mp h)

/-! ### the verdict depends on the SI magnitudes only: re-expression invariance -/

/-- the verdict as a function of dimensions and SI magnitudes alone -/
def SIVerdict (dimA dimD dimT : Dim) (rtol atolSI : K) (aSI dSI : List K) : Prop :=
  ∃ qs, broadcast2 aSI dSI = some qs ∧ dimA = dimD ∧ dimT = dimD ∧
    ∀ q ∈ qs, Ref.closeSI rtol atolSI q.1 q.2 ∨ q.1 = q.2

/-- the SI magnitudes a quantity denotes (zero-offset unit) -/
def Qty.si (q : Qty K) : List K := q.vals.map (fun x => x * q.unit.scale)

/-- **`verdict_is_function_of_si`**: either variant's verdict is determined by the dimensions,
    the SI magnitudes of the two arguments, and the SI magnitude given to `atol` -/
theorem verdict_is_function_of_si (fixed : Bool) (act des : Qty K) (rtol : K) (atol : Tol K)
    (hsa : 0 < act.unit.scale) (hoa : act.unit.offset = 0) (hod : des.unit.offset = 0)
    (hot : TolLinear atol) :
    allcloseQ fixed act des (.bare rtol) atol = .ok true ↔
      SIVerdict act.unit.dim des.unit.dim (atolUnit fixed act.unit des.unit atol).dim rtol
        (atol.value * (atolUnit fixed act.unit des.unit atol).scale) (Qty.si act) (Qty.si des) := by
  rw [allcloseQ_iff_si fixed act des rtol atol hsa hoa hod hot]
  unfold SIVerdict Qty.si
  rw [broadcast2_map]
  cases broadcast2 act.vals des.vals with
  | none => simp
  | some ps =>
    simp only [Option.some.injEq, exists_eq_left', Option.map_some, List.forall_mem_map]

theorem reexpress_si (q : Qty K) (u : TUnit K) (hq : q.unit.offset = 0) (hu : u.offset = 0)
    (hsu : u.scale ≠ 0) : Qty.si (q.reexpress u) = Qty.si q := by
  unfold Qty.si Qty.reexpress
  simp only [List.map_map]
  apply List.map_congr_left
  intro x _
  simp only [Function.comp, convVal_linear _ _ _ hq hu]
  field_simp

/-- **`verdict_invariant_under_reexpression` (actual).**  Writing `actual` in another
    commensurable unit does not change the verdict, provided the unit `atol` is read in does not
    move with it — which is the case for the repaired code, and for any `atol` with a unit -/
theorem verdict_invariant_reexpress_actual (fixed : Bool) (act des : Qty K) (u : TUnit K)
    (rtol : K) (atol : Tol K)
    (hinv : atolUnit fixed u des.unit atol = atolUnit fixed act.unit des.unit atol)
    (hdim : u.dim = act.unit.dim) (hsu : 0 < u.scale) (hou : u.offset = 0)
    (hsa : 0 < act.unit.scale) (hoa : act.unit.offset = 0) (hod : des.unit.offset = 0)
    (hot : TolLinear atol) :
    allcloseQ fixed (act.reexpress u) des (.bare rtol) atol = .ok true ↔
      allcloseQ fixed act des (.bare rtol) atol = .ok true := by
  rw [verdict_is_function_of_si fixed (act.reexpress u) des rtol atol hsu hou hod hot,
    verdict_is_function_of_si fixed act des rtol atol hsa hoa hod hot,
    reexpress_si act u hoa hou (ne_of_gt hsu)]
  simp only [Qty.reexpress, hinv, hdim]

/-- for the repaired code the side condition always holds -/
theorem repaired_invariant_reexpress_actual (act des : Qty K) (u : TUnit K) (rtol : K)
    (atol : Tol K) (hdim : u.dim = act.unit.dim) (hsu : 0 < u.scale) (hou : u.offset = 0)
    (hsa : 0 < act.unit.scale) (hoa : act.unit.offset = 0) (hod : des.unit.offset = 0)
    (hot : TolLinear atol) :
    allcloseQ true (act.reexpress u) des (.bare rtol) atol = .ok true ↔
      allcloseQ true act des (.bare rtol) atol = .ok true :=
  verdict_invariant_reexpress_actual true act des u rtol atol
    (by cases atol <;> rfl) hdim hsu hou hsa hoa hod hot

/-- **`verdict_invariant_under_reexpression` (desired).**  Likewise for `desired`, provided the
    unit `atol` is read in does not move with it: any `atol` with a unit (both variants), and a
    bare `atol` on the pinned commit (which reads it in `actual`'s unit) -/
theorem verdict_invariant_reexpress_desired (fixed : Bool) (act des : Qty K) (u : TUnit K)
    (rtol : K) (atol : Tol K)
    (hinv : atolUnit fixed act.unit u atol = atolUnit fixed act.unit des.unit atol)
    (hdim : u.dim = des.unit.dim) (hsu : 0 < u.scale) (hou : u.offset = 0)
    (hsa : 0 < act.unit.scale) (hoa : act.unit.offset = 0) (hod : des.unit.offset = 0)
    (hot : TolLinear atol) :
    allcloseQ fixed act (des.reexpress u) (.bare rtol) atol = .ok true ↔
      allcloseQ fixed act des (.bare rtol) atol = .ok true := by
  rw [verdict_is_function_of_si fixed act (des.reexpress u) rtol atol hsa hoa hou hot,
    verdict_is_function_of_si fixed act des rtol atol hsa hoa hod hot,
    reexpress_si des u hod hou (ne_of_gt hsu)]
  simp only [Qty.reexpress, hinv, hdim]

/-- with an `atol` that carries its own unit both side conditions hold, for both variants:
    the verdict is invariant under re-expression of either argument -/
theorem verdict_invariant_reexpress_both_qty_atol (fixed : Bool) (act des : Qty K)
    (ua ud : TUnit K) (rtol x : K) (t : TUnit K)
    (hda : ua.dim = act.unit.dim) (hsua : 0 < ua.scale) (houa : ua.offset = 0)
    (hdd : ud.dim = des.unit.dim) (hsud : 0 < ud.scale) (houd : ud.offset = 0)
    (hsa : 0 < act.unit.scale) (hoa : act.unit.offset = 0) (hod : des.unit.offset = 0)
    (hot : t.offset = 0) :
    allcloseQ fixed (act.reexpress ua) (des.reexpress ud) (.bare rtol) (.qty x t) = .ok true ↔
      allcloseQ fixed act des (.bare rtol) (.qty x t) = .ok true := by
  rw [verdict_invariant_reexpress_actual fixed act (des.reexpress ud) ua rtol (.qty x t) rfl hda
      hsua houa hsa hoa houd hot,
    verdict_invariant_reexpress_desired fixed act des ud rtol (.qty x t) rfl hdd hsud houd hsa hoa
      hod hot]

/-- re-expressing `desired` *together with* a bare `atol` (the same physical tolerance) leaves
    the repaired code's verdict unchanged -/
theorem repaired_invariant_reexpress_desired_with_atol (act des : Qty K) (u : TUnit K)
    (rtol x : K) (hdim : u.dim = des.unit.dim) (hsu : 0 < u.scale) (hou : u.offset = 0)
    (hsa : 0 < act.unit.scale) (hoa : act.unit.offset = 0) (hod : des.unit.offset = 0) :
    allcloseQ true act (des.reexpress u) (.bare rtol) (.bare (x * (des.unit.scale / u.scale)))
        = .ok true ↔
      allcloseQ true act des (.bare rtol) (.bare x) = .ok true := by
  rw [verdict_is_function_of_si true act (des.reexpress u) rtol
      (.bare (x * (des.unit.scale / u.scale))) hsa hoa hou trivial,
    verdict_is_function_of_si true act des rtol (.bare x) hsa hoa hod trivial,
    reexpress_si des u hod hou (ne_of_gt hsu)]
  have e : x * (des.unit.scale / u.scale) * u.scale = x * des.unit.scale := by
    field_simp
  simp only [Qty.reexpress, atolUnit, bareAtolUnit, if_true, Tol.value, hdim, e]

/-- non-vacuity of the re-expression theorems: 1 m re-expressed in cm is 100 cm -/
example : (witnessAct.reexpress ⟨1 / 100, 0, Dim.dLength⟩).vals = [100] := by
  simp [Qty.reexpress, witnessAct, convVal]


/-! ### the `numpy.allclose` handler on two quantities -/

theorem tunit_eq_iff_field [UnitClose K] (hc : ∀ a b : K, UnitClose.close a b = (a == b))
    (u v : TUnit K) :
    TUnit.eq u v = true ↔ u.scale = v.scale ∧ u.offset = v.offset ∧ u.dim = v.dim := by
  simp [TUnit.eq, hc, and_assoc]

/-- **what the `numpy.allclose` handler computes on two quantities neither of which is
    `NULL_UNIT`-like**: it raises or says `False` unless the dimensions agree, and otherwise
    compares the SI magnitudes with the bare `atol` read in the *first* argument's unit (the
    documented reference value of `numpy.allclose(a, b)` is `b`; finding
    `np.allclose|verdict|reads-bare-atol-in-first-unit`) -/
theorem handler_allclose_iff_si [UnitClose K] (hc : ∀ a b : K, UnitClose.close a b = (a == b))
    (a b : Qty K) (rt atl : K)
    (ha : TUnit.eq a.unit nullUnit = false) (hb : TUnit.eq b.unit nullUnit = false)
    (hsa : 0 < a.unit.scale) (hoa : a.unit.offset = 0) (hob : b.unit.offset = 0) :
    allcloseHandler (.qty a) (.qty b) rt atl = .ok true ↔
      ∃ ps, broadcast2 a.vals b.vals = some ps ∧ a.unit.dim = b.unit.dim ∧
        ∀ p ∈ ps, Ref.closeSI rt (atl * a.unit.scale) (p.1 * a.unit.scale) (p.2 * b.unit.scale)
          ∨ p.1 * a.unit.scale = p.2 * b.unit.scale := by
  have hne : a.unit.scale ≠ 0 := ne_of_gt hsa
  have key : ∀ x y : K, iscloseElem rt atl x (y * (b.unit.scale / a.unit.scale)) = true ↔
      (Ref.closeSI rt (atl * a.unit.scale) (x * a.unit.scale) (y * b.unit.scale)
        ∨ x * a.unit.scale = y * b.unit.scale) := by
    intro x y
    have := iscloseElem_conv a.unit.scale b.unit.scale a.unit.scale rt atl x y hsa
    rwa [div_self hne, mul_one] at this
  unfold allcloseHandler arrayCompHelper
  simp only [unitsAttr, rawVals, ha, hb, Bool.not_false, Bool.and_true, Bool.false_eq_true,
    if_false]
  by_cases he : TUnit.eq b.unit a.unit = true
  · obtain ⟨hs, _, hd⟩ := (tunit_eq_iff_field hc _ _).mp he
    simp only [he, Bool.not_true, Bool.false_eq_true, if_false]
    rw [npAllclose_iff]
    constructor
    · rintro ⟨ps, hps, hall⟩
      refine ⟨ps, hps, hd.symm, fun p hp => ?_⟩
      have h1 := hall p hp
      have h2 := (key p.1 p.2).mp (by rwa [hs, div_self hne, mul_one])
      exact h2
    · rintro ⟨ps, hps, _, hall⟩
      refine ⟨ps, hps, fun p hp => ?_⟩
      have h2 := (key p.1 p.2).mpr (hall p hp)
      rwa [hs, div_self hne, mul_one] at h2
  · simp only [Bool.not_eq_true] at he
    simp only [he, Bool.not_false, if_true, inUnits]
    by_cases hd : b.unit.dim = a.unit.dim
    · have hd' : (b.unit.dim != a.unit.dim) = false := by simp [hd]
      simp only [hd', Bool.false_eq_true, if_false]
      have h := npAllclose_map_iff rt atl id (convVal b.unit a.unit) a.vals b.vals
      simp only [List.map_id, id] at h
      rw [h]
      constructor
      · rintro ⟨ps, hps, hall⟩
        refine ⟨ps, hps, hd.symm, fun p hp => ?_⟩
        have h1 := hall p hp
        rw [convVal_linear _ _ _ hob hoa] at h1
        exact (key p.1 p.2).mp h1
      · rintro ⟨ps, hps, _, hall⟩
        refine ⟨ps, hps, fun p hp => ?_⟩
        rw [convVal_linear _ _ _ hob hoa]
        exact (key p.1 p.2).mpr (hall p hp)
    · have hd' : (b.unit.dim != a.unit.dim) = true := by simpa using hd
      simp only [hd', if_true]
      constructor
      · intro h; cases h
      · rintro ⟨_, _, h1, _⟩; exact absurd h1.symm hd


/-! ### lists of quantities -/

/-- `unyt_array([q₁, q₂, …])` denotes the same SI magnitudes as its items, whatever units the
    items are written in (zero-offset, commensurable units; the result is labelled with the
    first item's unit), so a list of quantities in mixed spellings is judged like the array -/
theorem qlist_preserves_si [UnitClose K] (hc : ∀ a b : K, UnitClose.close a b = (a == b))
    (x : K) (u : TUnit K) (rest : List (K × TUnit K)) (q : Qty K)
    (hsu : u.scale ≠ 0) (hoff : ∀ it ∈ (x, u) :: rest, it.2.offset = 0)
    (h : asUnytArray (.qlist ((x, u) :: rest)) = .ok q) :
    q.unit = u ∧ Qty.si q = ((x, u) :: rest).map (fun it => it.1 * it.2.scale) := by
  have hu0 : u.offset = 0 := hoff (x, u) (by simp)
  simp only [asUnytArray] at h
  by_cases hany : (((x, u) :: rest).any fun it => !(TUnit.eq u it.2)) = true
  · rw [if_pos hany] at h
    by_cases hdim : (((x, u) :: rest).any fun it => it.2.dim != u.dim) = true
    · rw [if_pos hdim] at h; cases h
    · rw [if_neg hdim] at h
      cases h
      refine ⟨rfl, ?_⟩
      unfold Qty.si
      simp only [List.map_map]
      apply List.map_congr_left
      intro it hit
      simp only [Function.comp, convVal_linear _ _ _ (hoff it hit) hu0]
      field_simp
  · rw [if_neg hany] at h
    cases h
    refine ⟨rfl, ?_⟩
    unfold Qty.si
    simp only [List.map_map]
    apply List.map_congr_left
    intro it hit
    have : TUnit.eq u it.2 = true := by
      simp only [List.any_eq_true, Bool.not_eq_true', not_exists, not_and,
        Bool.not_eq_false] at hany
      exact hany it hit
    obtain ⟨hs, _, _⟩ := (tunit_eq_iff_field hc _ _).mp this
    simp [Function.comp, hs]


/-! ### non-vacuity: concrete instances meeting the hypotheses of the theorems above -/

/-- `allclose_iff_spec` at 150 cm against 1 m with a bare `atol` of 0.6 (read in metres) -/
example :
    allcloseQ true witnessDes witnessAct (.bare 0) (.bare (6 / 10)) = .ok true ↔
      AllcloseSpecHolds witnessDes witnessAct 0 (.bare (6 / 10)) :=
  allclose_iff_spec witnessDes witnessAct 0 (.bare (6 / 10)) (by norm_num [witnessDes])
    (by norm_num [witnessAct]) trivial rfl rfl trivial le_rfl (by norm_num [Tol.value])

/-- `C19_allclose_full` with `rtol = 1 percent` and an `atol` of 60 cm given as a quantity -/
example :
    allcloseUnits (.qty witnessAct) (.qty witnessDes) (.qty 1 ⟨1 / 100, 0, Dim.one⟩)
        (.qty 60 ⟨1 / 100, 0, Dim.dLength⟩) = .ok true ↔
      AllcloseSpecHolds witnessAct witnessDes (1 * (1 / 100)) (.qty 60 ⟨1 / 100, 0, Dim.dLength⟩) :=
  C19_allclose_full ℚ witnessAct witnessDes (.qty 1 ⟨1 / 100, 0, Dim.one⟩)
    (.qty 60 ⟨1 / 100, 0, Dim.dLength⟩)
    (by norm_num [witnessAct]) (by norm_num [witnessDes]) (by norm_num [TolScalePos]) rfl rfl rfl
    rfl rfl (by norm_num [rtolSI]) (by norm_num [Tol.value])

/-- `verdict_invariant_reexpress_both_qty_atol`: 1 m → 100 cm, 150 cm → 0.0015 km -/
example :
    allcloseQ false (witnessAct.reexpress ⟨1 / 100, 0, Dim.dLength⟩)
        (witnessDes.reexpress ⟨1000, 0, Dim.dLength⟩) (.bare 0) (.qty 60 ⟨1 / 100, 0, Dim.dLength⟩)
      = .ok true ↔
    allcloseQ false witnessAct witnessDes (.bare 0) (.qty 60 ⟨1 / 100, 0, Dim.dLength⟩) = .ok true :=
  verdict_invariant_reexpress_both_qty_atol false witnessAct witnessDes _ _ 0 60 _ rfl
    (by norm_num) rfl rfl (by norm_num) rfl (by norm_num [witnessAct]) rfl rfl rfl

end Unyt.C19
