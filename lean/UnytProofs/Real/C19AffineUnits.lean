/-
  C19 — `allclose_units` on units with a zero point of their own (temperature scales), `rtol = 0`,
  over an arbitrary linear ordered field: what the code computes (`allcloseQ_affine_iff_si`), the part
  of it that is the documented contract (`allcloseQ_affine_contract_partial`), and the part that is
  not (`C19_affine_atol_counterexample`: an `atol` *with units* is converted to `actual`'s scale like a
  point temperature — finding `allclose_units|verdict|reads-qty-atol-as-point-on-offset-scale`).
-/
import UnytProofs.Real.C19Affine

namespace Unyt.C19
open Unyt Unyt.Testing

set_option linter.unusedSectionVars false

variable {K : Type} [Field K] [LinearOrder K] [IsStrictOrderedRing K]

/-- the SI size the code ends up giving `atol` (read off `atolInActualUnit true`): a bare number is a
    difference in `desired`'s own unit; a quantity `x u` is sent through `in_units`, i.e. treated as
    the *point* `x` on `u`'s scale and measured from the zero of `actual`'s scale -/
def atolSIRead (act des0 : TUnit K) : Tol K → K
  | .bare x => x * des0.scale
  | .qty x u => TUnit.si u x - TUnit.si act 0

/-- the SI size the contract gives `atol`: its number times the scale of the unit it is read in
    ("atol interpreted in its own unit, or the desired value's unit when bare") -/
def atolSIContract (des0 : TUnit K) : Tol K → K
  | .bare x => x * des0.scale
  | .qty x u => x * u.scale

/-- the guard of the partial theorem: `atol` is bare, or neither its unit nor `actual`'s has an offset -/
def AtolConvertedAsDifference (act : TUnit K) : Tol K → Prop
  | .bare _ => True
  | .qty _ u => u.offset = 0 ∧ act.offset = 0

theorem atolInActualUnit_affine (act des0 : TUnit K) (atol : Tol K) (hsa : act.scale ≠ 0)
    (hdim : ∀ x u, atol = .qty x u → u.dim = act.dim) :
    ∃ av, atolInActualUnit true act des0 atol = some av ∧
      av * act.scale = atolSIRead act des0 atol := by
  cases atol with
  | bare x =>
    refine ⟨x * (convVal des0 act 1 - convVal des0 act 0), by simp [atolInActualUnit], ?_⟩
    simp only [convVal_affine, atolSIRead]
    field_simp
    ring
  | qty x u =>
    have hd := hdim x u rfl
    have hd' : (u.dim != act.dim) = false := by simp [hd]
    refine ⟨convVal u act x, by simp [atolInActualUnit, hd'], ?_⟩
    simp only [convVal_affine, atolSIRead, TUnit.si, Ref.absSI]
    field_simp
    ring

/-- **what `allclose_units` computes on commensurable quantities in any units, temperature scales
    included, `rtol = 0`** (repaired bare-`atol` rule): `True` exactly when the shapes broadcast and
    every pair of absolute SI magnitudes differs by at most `atolSIRead` (or is equal) -/
theorem allcloseQ_affine_iff_si (act des : Qty K) (atol : Tol K) (hsa : 0 < act.unit.scale)
    (hd : des.unit.dim = act.unit.dim) (hdim : ∀ x u, atol = .qty x u → u.dim = act.unit.dim) :
    allcloseQ true act des (.bare 0) atol = .ok true ↔
      ∃ ps, broadcast2 act.vals des.vals = some ps ∧ ∀ p ∈ ps,
        Ref.closeAbs (atolSIRead act.unit des.unit atol) (TUnit.si act.unit p.1) (TUnit.si des.unit p.2)
          ∨ TUnit.si act.unit p.1 = TUnit.si des.unit p.2 := by
  obtain ⟨av, hav, hT⟩ := atolInActualUnit_affine act.unit des.unit atol (ne_of_gt hsa) hdim
  have hd' : (des.unit.dim != act.unit.dim) = false := by simp [hd]
  unfold allcloseQ inUnits
  simp only [hd', Bool.false_eq_true, if_false, rtolDim, bne_self_eq_false, hav, rtolNumber]
  have h := npAllclose_map_iff (0 : K) av id (convVal des.unit act.unit) act.vals des.vals
  simp only [List.map_id, id] at h
  rw [h]
  constructor
  · rintro ⟨ps, hps, hall⟩
    refine ⟨ps, hps, fun p hp => ?_⟩
    have := (iscloseElem_affine act.unit des.unit av p.1 p.2 hsa).mp (hall p hp)
    rwa [CloseAbsSI, hT] at this
  · rintro ⟨ps, hps, hall⟩
    refine ⟨ps, hps, fun p hp => ?_⟩
    apply (iscloseElem_affine act.unit des.unit av p.1 p.2 hsa).mpr
    rw [CloseAbsSI, hT]
    exact hall p hp

/-- under the guard the size the code gives `atol` is the contract's -/
theorem atolSIRead_eq_contract (act des0 : TUnit K) (atol : Tol K)
    (hg : AtolConvertedAsDifference act atol) : atolSIRead act des0 atol = atolSIContract des0 atol := by
  cases atol with
  | bare x => rfl
  | qty x u =>
    obtain ⟨h1, h2⟩ := hg
    simp [atolSIRead, atolSIContract, TUnit.si, Ref.absSI, h1, h2]

/-- the full statement for temperature scales: the verdict is the contract's (absolute SI magnitudes
    within `atol` read in its own unit / `desired`'s unit) for *every* tolerance spelling -/
def C19_affine_full : Prop :=
  ∀ (act des : Qty ℚ) (atol : Tol ℚ), 0 < act.unit.scale → des.unit.dim = act.unit.dim →
    (∀ x u, atol = .qty x u → u.dim = act.unit.dim) →
    (allcloseQ true act des (.bare 0) atol = .ok true ↔
      ∃ ps, broadcast2 act.vals des.vals = some ps ∧ ∀ p ∈ ps,
        Ref.closeAbs (atolSIContract des.unit atol) (TUnit.si act.unit p.1) (TUnit.si des.unit p.2)
          ∨ TUnit.si act.unit p.1 = TUnit.si des.unit p.2)

/-- **the contract holds whenever `atol` is bare or no offset is involved in its conversion**
    (operands on any scales: °C against °F with a bare `atol` is inside) -/
theorem allcloseQ_affine_contract_partial (act des : Qty K) (atol : Tol K) (hsa : 0 < act.unit.scale)
    (hd : des.unit.dim = act.unit.dim) (hdim : ∀ x u, atol = .qty x u → u.dim = act.unit.dim)
    (hg : AtolConvertedAsDifference act.unit atol) :
    allcloseQ true act des (.bare 0) atol = .ok true ↔
      ∃ ps, broadcast2 act.vals des.vals = some ps ∧ ∀ p ∈ ps,
        Ref.closeAbs (atolSIContract des.unit atol) (TUnit.si act.unit p.1) (TUnit.si des.unit p.2)
          ∨ TUnit.si act.unit p.1 = TUnit.si des.unit p.2 := by
  rw [allcloseQ_affine_iff_si act des atol hsa hd hdim, atolSIRead_eq_contract _ _ _ hg]

def affineWitnessAct : Qty ℚ := ⟨[0], true, ⟨1, -27315 / 100, Dim.dTemperature⟩⟩
def affineWitnessDes : Qty ℚ := ⟨[1 / 2], true, ⟨1, -27315 / 100, Dim.dTemperature⟩⟩
def affineWitnessAtol : Tol ℚ := .qty 1 ⟨1, 0, Dim.dTemperature⟩

/-- **counterexample outside the guard** (replayed on the real code by the harness):
    `allclose_units(0 °C, 0.5 °C, rtol=0, atol=1 K)` is `False` although 273.15 K and 273.65 K differ
    by less than 1 K — the `atol` quantity is converted to °C like a point temperature (−272.15 °C) -/
theorem C19_affine_atol_counterexample :
    allcloseQ true affineWitnessAct affineWitnessDes (.bare 0) affineWitnessAtol = .ok false ∧
      Ref.closeAbs (atolSIContract affineWitnessDes.unit affineWitnessAtol)
        (TUnit.si affineWitnessAct.unit 0) (TUnit.si affineWitnessDes.unit (1 / 2)) := by
  constructor
  · decide +kernel
  · unfold Ref.closeAbs
    decide +kernel

theorem C19_affine_not_full : ¬ C19_affine_full := by
  intro h
  have h1 := h affineWitnessAct affineWitnessDes affineWitnessAtol (by decide +kernel) rfl
    (by intro x u e; cases e; rfl)
  have h2 : allcloseQ true affineWitnessAct affineWitnessDes (.bare 0) affineWitnessAtol = .ok true :=
    h1.mpr ⟨[(0, 1 / 2)], by decide +kernel,
      fun p hp => by
        simp only [List.mem_singleton] at hp
        subst hp
        exact Or.inl C19_affine_atol_counterexample.2⟩
  rw [C19_affine_atol_counterexample.1] at h2
  cases h2

/-- non-vacuity of the partial theorem: 32 °F against 0.5 °C with the bare `atol = 1` (°C) meets the
    hypotheses and the guard, and is accepted -/
example :
    let degF : TUnit ℚ := ⟨5 / 9, -45967 / 100, Dim.dTemperature⟩
    0 < degF.scale ∧ AtolConvertedAsDifference degF (.bare (1 : ℚ)) ∧
      allcloseQ true (⟨[32], true, degF⟩ : Qty ℚ) affineWitnessDes (.bare 0) (.bare 1) = .ok true := by
  refine ⟨by decide +kernel, trivial, by decide +kernel⟩

end Unyt.C19
