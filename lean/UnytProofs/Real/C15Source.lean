/-
  The literals of the regenerated source as a real environment, the enclosure of π, and the
  unpacking of the Boolean checks of `UnytModel/PhysicalConstantsCheck.lean` into real
  inequalities (helper lemmas for `UnytProofs/C15.lean`).
-/
import UnytProofs.Real.C15Numeric
import UnytModel.PhysicalConstantsCheck

namespace Unyt.C15Real
open Unyt PCheck Generated Ref.C15

theorem lookup_pos (l : List (String × ℚ)) (h : l.all (fun p => decide (0 < p.2)) = true)
    (s : String) (q : ℚ) (hl : l.lookup s = some q) : 0 < q := by
  induction l with
  | nil => simp at hl
  | cons p rest ih =>
    obtain ⟨k, v⟩ := p
    simp only [List.all_cons, Bool.and_eq_true, decide_eq_true_eq] at h
    simp only [List.lookup] at hl
    split at hl
    · cases hl; exact h.1
    · exact ih h.2 hl

/-- the base constants of `_physical_ratios.py` at the exact decimals of the source; any other
    name reads 1 -/
noncomputable def sourceEnv : String → ℝ := fun s =>
  match baseQ.lookup s with
  | some q => (q : ℝ)
  | none => 1

theorem sourceEnv_spec (s : String) (q : ℚ) (h : baseQ.lookup s = some q) : sourceEnv s = (q : ℝ) := by
  simp [sourceEnv, h]

theorem sourceEnv_pos (hb : basePositive = true) (s : String) : 0 < sourceEnv s := by
  unfold sourceEnv
  cases h : baseQ.lookup s with
  | none => simp
  | some q =>
    have := lookup_pos baseQ hb s q h
    simp only
    exact_mod_cast this

theorem piLo_pos : 0 < piLo := by unfold piLo e10; norm_num

theorem piLo_le_pi : ((piLo : ℚ) : ℝ) ≤ Real.pi := by
  have h := Real.pi_gt_d20
  have e : ((piLo : ℚ) : ℝ) = 3.14159265358979323846 := by unfold piLo e10; norm_num
  rw [e]; exact h.le

theorem pi_le_piHi : Real.pi ≤ ((piHi : ℚ) : ℝ) := by
  have h := Real.pi_lt_d20
  have e : ((piHi : ℚ) : ℝ) = 3.14159265358979323847 := by unfold piHi e10; norm_num
  rw [e]; exact h.le

/-- a checked numeric relation holds over ℝ at the source's literals, within its class -/
theorem numRelationOk_sound (hb : basePositive = true) (r : NumRelation) (h : numRelationOk r = true) :
    |(closeRel r.lhs).eval sourceEnv / (closeRel r.rhs).eval sourceEnv - 1| ≤ ((r.tol : ℚ) : ℝ) := by
  unfold numRelationOk at h
  simp only [Bool.and_eq_true] at h
  obtain ⟨_, h⟩ := h
  cases h1 : ratioAtPi baseQ piLo (closeRel r.lhs) (closeRel r.rhs) with
  | none => simp [h1] at h
  | some v1 =>
    cases h2 : ratioAtPi baseQ piHi (closeRel r.lhs) (closeRel r.rhs) with
    | none => simp [h1, h2] at h
    | some v2 =>
      simp only [h1, h2, Bool.and_eq_true] at h
      exact ratioAtPi_sound sourceEnv (sourceEnv_pos hb) baseQ sourceEnv_spec piLo piHi piLo_pos
        piLo_le_pi pi_le_piHi _ _ v1 v2 _ h1 h2 h.1 h.2

/-- a checked cell: the square of the real value of the symbolic definition is within
    `2·2⁻⁴⁵` (relative) of the square of the stored double -/
theorem cellMatchesDouble_sound (hb : basePositive = true) (e : CExpr) (d : ℚ)
    (h : cellMatchesDouble e d = true) :
    |(e.eval sourceEnv) ^ 2 - ((d * d : ℚ) : ℝ)| ≤ ((2 * guiseTol : ℚ) : ℝ) * |((d * d : ℚ) : ℝ)| := by
  unfold cellMatchesDouble at h
  cases h1 : squareAtPi baseQ piLo e with
  | none => simp [h1] at h
  | some s1 =>
    cases h2 : squareAtPi baseQ piHi e with
    | none => simp [h1, h2] at h
    | some s2 =>
      simp only [h1, h2, Bool.and_eq_true] at h
      exact squareAtPi_sound sourceEnv (sourceEnv_pos hb) baseQ sourceEnv_spec piLo piHi piLo_pos
        piLo_le_pi pi_le_piHi e s1 s2 (d * d) (2 * guiseTol) h1 h2 h.1.2 h.2

end Unyt.C15Real
