/-
  C10 over ℝ, part 3 — `registered_systems_obey_C10` with every hypothesis discharged: over the
  regenerated table cast to ℝ with `Real.rpow`, starting from the empty registry, ANY sequence of
  constructions of `UnitSystem(name, 2*m, 3*kg, 5*s)` under any names (re-registrations included)
  leaves a registry in which whatever a name resolves to obeys the conversion clauses of C10.
  (Thorough tier: depends on `builtin_names_agree`.)
-/
import UnytProofs.Real.C10RealInit
import UnytProofs.C10RegistryWF

set_option linter.unusedSectionVars false

namespace Unyt.C10
open Unyt UExpr SysWorld

noncomputable section

/-- the hypothesis `CanonUnits` holds for the eight units of the coefficient system over ℝ -/
theorem coefUnitsReal_canon :
    CanonUnits (fun x : ℝ => 0 < x) realPre realLut Generated.invNames coefUnitsReal := by
  intro e he
  simp only [coefUnitsReal, List.mem_map] at he
  obtain ⟨o, ho, hoe⟩ := he
  cases o with
  | none => simp at hoe
  | some eq =>
    simp only [Option.map, Option.some.injEq] at hoe
    subst hoe
    have := List.all_eq_true.mp coefQ_canonical (some eq) ho
    simp only [Bool.and_eq_true, beq_iff_eq, decide_eq_true_eq] at this
    obtain ⟨⟨hn, hc⟩, hall⟩ := this
    refine ⟨hn, qr_pos hc, fun s q hm => ?_⟩
    have hs := List.all_eq_true.mp hall (s, q) hm
    simp only [Bool.and_eq_true] at hs
    obtain ⟨hinv, hres⟩ := hs
    refine ⟨fun c hc' => ?_, fun ent hent => ?_⟩
    · simp only [hc', beq_iff_eq] at hinv; exact hinv
    · simp only [realPre, realLut, resolve_mapK qr qr_mul] at hent
      cases hr : resolve c10Pre c10Lut s with
      | none => simp [hr] at hres
      | some e0 =>
        simp only [hr, Option.map, Option.some.injEq] at hent
        subst hent
        simp only [hr, decide_eq_true_eq] at hres
        exact qr_pos hres

/-- **registered_systems_obey_C10, all hypotheses discharged over ℝ** -/
theorem real_registered_systems_obey_C10 (names : List String) (n : String) (i : Nat)
    (h : (run realPre realLut Generated.invNames { heap := [], names := [] }
            (names.map fun nm => SysOp.construct nm none coefUnitsReal)).resolveName n = .system i) :
    ∃ o, (run realPre realLut Generated.invNames { heap := [], names := [] }
            (names.map fun nm => SysOp.construct nm none coefUnitsReal)).heap[i]? = some o ∧ o.sys.name = n ∧
      WF (fun x : ℝ => 0 < x) realPre realLut o.sys ∧
      ∀ (T : EmTable ℝ) (u : UnitV ℝ), T.hasDim u.dim = false ∧ u.scale ≠ 0 →
        ∀ x, ClosedAt realPre realLut T o.sys u x :=
  registered_systems_obey_C10 (fun x : ℝ => 0 < x) real_rpow_laws real_pos_ne realPre realLut Generated.invNames
    names_agree_real _
    (by
      intro op hop
      simp only [List.mem_map] at hop
      obtain ⟨nm, _, rfl⟩ := hop
      exact ⟨rfl, coefUnitsReal_canon⟩)
    _ (empty_world_regwf _ _ _ _) n i h

/-- … and the name of the construction does resolve (the statement above is not vacuous) -/
theorem real_registered_coef_resolves :
    (run realPre realLut Generated.invNames { heap := [], names := [] }
        [SysOp.construct "coef" none coefUnitsReal]).resolveName "coef" = .system 0 := by
  have := (constructed_usable_immediately realPre realLut Generated.invNames { heap := [], names := [] }
    "coef" none coefUnitsReal coefReal coef_real_init).2.1
  simpa [run] using this

end
end Unyt.C10
