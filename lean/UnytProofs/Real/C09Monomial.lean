/-
  C09 — soundness of the monomial normaliser over ℝ (helper lemmas; the property statements
  are in `UnytProofs/C09.lean`).

  For an environment of positive reals (physical constants, keyword parameters and the input are
  all positive), a formula with normal form `m` evaluates to `m.coef · Π ρ(a)^e`.  Hence two
  formulas with the same normal form are the same function on positive arguments, which turns
  the inverse / path / reference obligations over the regenerated table into `decide`.
  Single Mathlib module (through `UnytProofs.Real.RPow`).
-/
import UnytProofs.Real.RPow
import UnytModel.Equivalencies

namespace Unyt.Equiv
open Unyt

noncomputable instance : HasSqrt ℝ := ⟨Real.sqrt⟩
noncomputable instance : OfRat ℝ := ⟨fun q => (q : ℝ)⟩

/-- every atom is bound to a positive real -/
def PosEnv (ρ : String → ℝ) : Prop := ∀ a, 0 < ρ a

theorem posEnv_withX {ρ : String → ℝ} (h : PosEnv ρ) {v : ℝ} (hv : 0 < v) : PosEnv (withX ρ v) := by
  intro a; unfold withX; split
  · exact hv
  · exact h a

@[simp] theorem rpow_real (x : ℝ) (q : Rat) : RPow.rpow x q = x ^ (q : ℝ) := rfl
@[simp] theorem sqrt_real (x : ℝ) : HasSqrt.sqrt x = Real.sqrt x := rfl
@[simp] theorem ofRat_real (q : Rat) : (OfRat.ofRat q : ℝ) = (q : ℝ) := rfl

namespace Mono

theorem evalAtoms_nil (ρ : String → ℝ) : evalAtoms ρ [] = 1 := rfl
theorem evalAtoms_cons (ρ : String → ℝ) (a : String) (e : Rat) (r : Atoms) :
    evalAtoms ρ ((a, e) :: r) = ρ a ^ (e : ℝ) * evalAtoms ρ r := rfl

theorem evalAtoms_pos {ρ : String → ℝ} (hρ : PosEnv ρ) (m : Atoms) : 0 < evalAtoms ρ m := by
  induction m with
  | nil => simp [evalAtoms_nil]
  | cons p rest ih =>
    obtain ⟨a, e⟩ := p
    rw [evalAtoms_cons]
    exact mul_pos (Real.rpow_pos_of_pos (hρ a) _) ih

theorem evalAtoms_insert {ρ : String → ℝ} (hρ : PosEnv ρ) (a : String) (e : Rat) (m : Atoms) :
    evalAtoms ρ (insertAtom a e m) = ρ a ^ (e : ℝ) * evalAtoms ρ m := by
  induction m with
  | nil => simp [insertAtom, evalAtoms_cons, evalAtoms_nil]
  | cons p rest ih =>
    obtain ⟨b, f⟩ := p
    unfold insertAtom
    split
    · subst_vars
      simp only [evalAtoms_cons]
      push_cast
      rw [Real.rpow_add (hρ _)]
      ring
    · split
      · simp only [evalAtoms_cons]
      · simp only [evalAtoms_cons, ih]
        ring

theorem evalAtoms_mul {ρ : String → ℝ} (hρ : PosEnv ρ) (m n : Atoms) :
    evalAtoms ρ (mulAtoms m n) = evalAtoms ρ m * evalAtoms ρ n := by
  unfold mulAtoms
  induction n generalizing m with
  | nil => simp [evalAtoms_nil]
  | cons p rest ih =>
    obtain ⟨a, e⟩ := p
    simp only [List.foldl_cons, ih, evalAtoms_insert hρ, evalAtoms_cons]
    ring

theorem evalAtoms_pow {ρ : String → ℝ} (hρ : PosEnv ρ) (m : Atoms) (q : Rat) :
    evalAtoms ρ (powAtoms m q) = evalAtoms ρ m ^ (q : ℝ) := by
  induction m with
  | nil => simp [powAtoms, evalAtoms_nil]
  | cons p rest ih =>
    obtain ⟨a, e⟩ := p
    have ih' : evalAtoms ρ (List.map (fun p => (p.1, p.2 * q)) rest) = evalAtoms ρ rest ^ (q : ℝ) := ih
    simp only [powAtoms, List.map_cons, evalAtoms_cons, ih']
    rw [Real.mul_rpow (Real.rpow_pos_of_pos (hρ a) _).le (evalAtoms_pos hρ rest).le,
      ← Real.rpow_mul (hρ a).le]
    push_cast
    ring_nf

theorem evalAtoms_clean {ρ : String → ℝ} (m : Atoms) :
    evalAtoms ρ (cleanAtoms m) = evalAtoms ρ m := by
  induction m with
  | nil => rfl
  | cons p rest ih =>
    obtain ⟨a, e⟩ := p
    unfold cleanAtoms at *
    rw [List.filter_cons]
    split
    · simp only [evalAtoms_cons, ih]
    · rename_i h
      have he : e = 0 := by simpa using h
      subst he
      simp [evalAtoms_cons, ih]

/-- integer powers of a positive rational, as the normaliser computes them -/
theorem natPow_cast (c : Rat) (n : Nat) : ((zpowK.natPow c n : Rat) : ℝ) = (c : ℝ) ^ n := by
  induction n with
  | zero => simp [zpowK.natPow]
  | succ k ih => simp only [zpowK.natPow]; push_cast; rw [ih]; ring

theorem zpowK_cast {c : Rat} (hc : 0 < c) (n : Int) :
    ((zpowK c n : Rat) : ℝ) = (c : ℝ) ^ (((n : Rat)) : ℝ) := by
  have hc' : (0 : ℝ) < (c : ℝ) := by exact_mod_cast hc
  cases n with
  | ofNat k =>
    simp only [zpowK, natPow_cast]
    have : (((Int.ofNat k : Int) : Rat) : ℝ) = (k : ℝ) := by push_cast; simp
    rw [this, Real.rpow_natCast]
  | negSucc k =>
    have hcast : (((Int.negSucc k : Int) : Rat) : ℝ) = -((k + 1 : Nat) : ℝ) := by
      rw [Int.negSucc_eq]; push_cast; ring
    simp only [zpowK]
    rw [hcast, Real.rpow_neg hc'.le, Real.rpow_natCast]
    push_cast
    rw [natPow_cast]
    simp

theorem eval_pos {ρ : String → ℝ} (hρ : PosEnv ρ) (m : Mono) (hc : 0 < m.coef) : 0 < m.eval ρ := by
  unfold eval
  have : (0 : ℝ) < (m.coef : ℝ) := by exact_mod_cast hc
  exact mul_pos this (evalAtoms_pos hρ _)

theorem eval_mul {ρ : String → ℝ} (hρ : PosEnv ρ) (m n : Mono) :
    (m.mul n).eval ρ = m.eval ρ * n.eval ρ := by
  simp only [eval, mul, evalAtoms_mul hρ, ofRat_real]
  push_cast
  ring

theorem eval_pow {ρ : String → ℝ} (hρ : PosEnv ρ) (m m' : Mono) (q : Rat) (hc : 0 < m.coef)
    (h : m.pow q = some m') : m'.eval ρ = m.eval ρ ^ (q : ℝ) ∧ 0 < m'.coef := by
  unfold pow at h
  split at h
  · rename_i h1
    injection h with h; subst h
    simp only [eval, evalAtoms_pow hρ, h1, ofRat_real]
    simp
  · split at h
    · rename_i h2
      injection h with h; subst h
      obtain ⟨hden, hpos⟩ := h2
      have hq : q = (q.num : Rat) := by
        have := Rat.num_div_den q
        rw [hden] at this
        simpa using this.symm
      have hcR : (0 : ℝ) < (m.coef : ℝ) := by exact_mod_cast hc
      refine ⟨?_, ?_⟩
      · simp only [eval, evalAtoms_pow hρ, ofRat_real]
        rw [Real.mul_rpow hcR.le (evalAtoms_pos hρ _).le, zpowK_cast hc, ← hq]
      · have h0 : (0 : ℝ) < ((zpowK m.coef q.num : Rat) : ℝ) := by
          rw [zpowK_cast hc]; exact Real.rpow_pos_of_pos hcR _
        exact_mod_cast h0
    · cases h

end Mono

/-- soundness of `normRaw`, with the invariant that coefficients are positive -/
theorem normRaw_sound {ρ : String → ℝ} (hρ : PosEnv ρ) (f : Formula) (m : Mono)
    (h : normRaw f = some m) : 0 < m.coef ∧ f.eval ρ = m.eval ρ := by
  induction f generalizing m with
  | atom a =>
    simp only [normRaw, Option.some.injEq] at h; subst h
    simp [Formula.eval, Mono.eval, Mono.evalAtoms]
  | lit q =>
    simp only [normRaw] at h
    split at h
    · rename_i hq
      injection h with h; subst h
      simp [Formula.eval, Mono.eval, Mono.evalAtoms, hq]
    · cases h
  | mul a b iha ihb =>
    simp only [normRaw] at h
    cases ha : normRaw a with
    | none => simp [ha] at h
    | some ma =>
      cases hb : normRaw b with
      | none => simp [ha, hb] at h
      | some mb =>
        simp [ha, hb] at h; subst h
        obtain ⟨pa, ea⟩ := iha ma ha
        obtain ⟨pb, eb⟩ := ihb mb hb
        refine ⟨?_, ?_⟩
        · simp only [Mono.mul]; exact Rat.mul_pos pa pb
        · simp only [Formula.eval, ea, eb, Mono.eval_mul hρ]
  | div a b iha ihb =>
    simp only [normRaw] at h
    cases ha : normRaw a with
    | none => simp [ha] at h
    | some ma =>
      cases hb : normRaw b with
      | none => simp [ha, hb] at h
      | some mb =>
        cases hi : mb.pow (-1) with
        | none => simp [ha, hb, hi] at h
        | some mi =>
          simp [ha, hb, hi] at h; subst h
          obtain ⟨pa, ea⟩ := iha ma ha
          obtain ⟨pb, eb⟩ := ihb mb hb
          obtain ⟨ei, pi⟩ := Mono.eval_pow hρ mb mi (-1) pb hi
          refine ⟨?_, ?_⟩
          · simp only [Mono.mul]; exact Rat.mul_pos pa pi
          · simp only [Formula.eval, ea, eb, Mono.eval_mul hρ, ei]
            have hpos := Mono.eval_pos hρ mb pb
            have : (((-1 : Rat)) : ℝ) = -1 := by push_cast; ring
            rw [this, Real.rpow_neg_one]
            rfl
  | sub a b _ _ => simp [normRaw] at h
  | add a b _ _ => simp [normRaw] at h
  | sqrt a iha =>
    simp only [normRaw] at h
    cases ha : normRaw a with
    | none => simp [ha] at h
    | some ma =>
      have h' : ma.pow (1 / 2) = some m := by simpa [ha] using h
      obtain ⟨pa, ea⟩ := iha ma ha
      obtain ⟨ei, pi⟩ := Mono.eval_pow hρ ma m (1 / 2) pa h'
      refine ⟨pi, ?_⟩
      simp only [Formula.eval, ea, ei, sqrt_real]
      rw [Real.sqrt_eq_rpow]
      congr 1
      push_cast
      ring
  | pow a q iha =>
    simp only [normRaw] at h
    cases ha : normRaw a with
    | none => simp [ha] at h
    | some ma =>
      have h' : ma.pow q = some m := by simpa [ha] using h
      obtain ⟨pa, ea⟩ := iha ma ha
      obtain ⟨ei, pi⟩ := Mono.eval_pow hρ ma m q pa h'
      exact ⟨pi, by simp only [Formula.eval, ea, ei, rpow_real]⟩

/-- **normaliser soundness**: on positive arguments a formula is its normal form -/
theorem norm_sound' {ρ : String → ℝ} (hρ : PosEnv ρ) (f : Formula) (m : Mono)
    (h : norm f = some m) : f.eval ρ = m.eval ρ := by
  unfold norm at h
  cases hr : normRaw f with
  | none => simp [hr] at h
  | some r =>
    simp [hr] at h; subst h
    obtain ⟨_, e⟩ := normRaw_sound hρ f r hr
    rw [e]
    simp only [Mono.eval, Mono.clean, Mono.evalAtoms_clean]

/-- formulas with equal normal forms agree on positive arguments -/
theorem sameMono_sound {ρ : String → ℝ} (hρ : PosEnv ρ) (f g : Formula) (h : sameMono f g = true) :
    f.eval ρ = g.eval ρ := by
  unfold sameMono at h
  cases hf : norm f with
  | none => simp [hf] at h
  | some m =>
    cases hg : norm g with
    | none => simp [hf, hg] at h
    | some n =>
      simp [hf, hg] at h
      subst h
      rw [norm_sound' hρ f m hf, norm_sound' hρ g m hg]

/-- the identity monomial evaluates to the input -/
theorem idX_eval (ρ : String → ℝ) : Mono.idX.eval ρ = ρ "x" := by
  simp [Mono.idX, Mono.eval, Mono.evalAtoms]

end Unyt.Equiv
