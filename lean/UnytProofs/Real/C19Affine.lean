/-
  C19 — `numpy.isclose` / `numpy.allclose` on quantities whose units have a zero point of their
  own (temperature scales: `base_offset ≠ 0`), over an arbitrary linear ordered field.

  `UnytProofs/Real/C19Allclose.lean` characterises the helpers for zero-offset units only.  Here the
  conversion `convVal` (number part of `unyt_array.in_units`: `x * factor - offset`, the offset being
  expressed in the *target* unit) is proved to preserve the absolute SI magnitude `Ref.absSI` for
  *all* scales and offsets, to be the *only* map that does so, and the two handlers are
  characterised on absolute SI magnitudes for `rtol = 0` (the one comparison that is invariant
  under a change of zero point): per element for `isclose`, as a verdict for `allclose`.
  A conversion that applies the offset before the scale factor, forgets it, or adds it with the
  wrong sign differs from `convVal` at some reading and so — by `conv_preserving_unique` — does not
  preserve the magnitude there; the correspondence run executes exactly these definitions on
  K/R/°C/°F pairs.
-/
import Mathlib.Algebra.Order.Field.Basic
import Mathlib.Tactic.FieldSimp
import Mathlib.Tactic.Ring
import Mathlib.Tactic.Linarith
import Mathlib.Tactic.NormNum
import Mathlib.Algebra.Order.Field.Rat
import UnytModel.Ref.C19
import UnytProofs.Lemmas.C19
import UnytProofs.Real.C19Allclose

namespace Unyt.C19
open Unyt Unyt.Testing

set_option linter.unusedSectionVars false

variable {K : Type} [Field K] [LinearOrder K] [IsStrictOrderedRing K]

/-- the absolute SI magnitude of a reading in a unit -/
def TUnit.si (u : TUnit K) (x : K) : K := Ref.absSI u.scale u.offset x

/-- over a field the two guards of the code (`if offset:` and the zero-offset fast path) are
    immaterial: the conversion is `x * factor - offset` with
    `factor = src.scale / dst.scale`, `offset = factor * src.offset - dst.offset` -/
theorem convVal_affine (src dst : TUnit K) (x : K) :
    convVal src dst x
      = x * (src.scale / dst.scale) - (src.scale / dst.scale * src.offset - dst.offset) := by
  unfold convVal
  by_cases h0 : src.offset = 0 ∧ dst.offset = 0
  · obtain ⟨h1, h2⟩ := h0
    simp [h1, h2]
  · have hb : (src.offset == 0 && dst.offset == 0) = false := by simpa using h0
    simp only [hb, Bool.false_eq_true, if_false]
    by_cases ho : src.scale / dst.scale * src.offset - dst.offset = 0
    · simp [ho]
    · simp [ho]

/-- **the conversion preserves the absolute SI magnitude**, whatever the two scales and offsets
    (32 °F → 0 °C → 273.15 K): the affine counterpart of `convVal_linear` -/
theorem convVal_absSI (src dst : TUnit K) (x : K) (hd : dst.scale ≠ 0) :
    TUnit.si dst (convVal src dst x) = TUnit.si src x := by
  rw [convVal_affine]
  unfold TUnit.si Ref.absSI
  field_simp
  ring

/-- **… and it is the only map that does**: a routine whose result denotes the same absolute
    magnitude as its input returns exactly `convVal`'s number.  Hence any conversion that differs
    from `convVal` at a reading (offset applied before the factor, offset dropped, sign flipped, factor
    inverted) changes the physical quantity at that reading. -/
theorem conv_preserving_unique (src dst : TUnit K) (hd : dst.scale ≠ 0) (g : K → K) (x : K)
    (h : TUnit.si dst (g x) = TUnit.si src x) : g x = convVal src dst x := by
  have h2 := convVal_absSI src dst x hd
  rw [← h2] at h
  unfold TUnit.si Ref.absSI at h
  have := mul_right_cancel₀ hd h
  linarith

/-- the contrapositive, as it is used: a routine that returns a different number than `convVal` at
    `x` does not preserve the absolute magnitude at `x` -/
theorem conv_differs_breaks_si (src dst : TUnit K) (hd : dst.scale ≠ 0) (g : K → K) (x : K)
    (h : g x ≠ convVal src dst x) : TUnit.si dst (g x) ≠ TUnit.si src x :=
  fun e => h (conv_preserving_unique src dst hd g x e)

/-- the "textbook order" `(x − offset) · factor` with the offset of `get_conversion_factor` (which is
    expressed in the target unit) is *not* magnitude-preserving: it agrees with `convVal` exactly when
    `offset · (factor − 1) = 0` (K↔°C, R↔°F, zero-offset pairs) and fails on every other pair -/
theorem offset_before_factor_iff (src dst : TUnit K) (x : K) (hd : dst.scale ≠ 0) :
    let r := src.scale / dst.scale
    let o := r * src.offset - dst.offset
    TUnit.si dst ((x - o) * r) = TUnit.si src x ↔ o * (r - 1) = 0 := by
  intro r o
  have h2 : convVal src dst x = x * r - o := convVal_affine src dst x
  constructor
  · intro h
    have h1 : (x - o) * r = convVal src dst x :=
      conv_preserving_unique src dst hd (fun y => (y - o) * r) x h
    rw [h2] at h1
    linarith
  · intro h
    have e : (x - o) * r = convVal src dst x := by rw [h2]; linarith
    rw [e]
    exact convVal_absSI src dst x hd

/-- °F → °C is such a pair: 32 °F read "offset first" is −128 °C, not 0 °C -/
example :
    let degF : TUnit ℚ := ⟨5 / 9, -45967 / 100, Dim.dTemperature⟩
    let degC : TUnit ℚ := ⟨1, -27315 / 100, Dim.dTemperature⟩
    convVal degF degC 32 = 0 ∧ TUnit.si degC (convVal degF degC 32) = 27315 / 100 ∧
      (32 - (5 / 9 * (-45967 / 100) - (-27315 / 100))) * (5 / 9 : ℚ) ≠ 0 := by
  refine ⟨by decide +kernel, by decide +kernel, by norm_num⟩

/-! ### one element of `numpy.isclose` after the handler's conversion, `rtol = 0` -/

/-- what one element should be: the absolute SI magnitudes differ by at most `atol` read as a
    *difference* in the unit of scale `st`, or are equal -/
def CloseAbsSI (au bu : TUnit K) (atl st x y : K) : Prop :=
  Ref.closeAbs (atl * st) (TUnit.si au x) (TUnit.si bu y) ∨ TUnit.si au x = TUnit.si bu y

instance (au bu : TUnit K) (atl st x y : K) : Decidable (CloseAbsSI au bu atl st x y) := by
  unfold CloseAbsSI Ref.closeAbs; infer_instance

theorem iscloseElem_affine (au bu : TUnit K) (atl x y : K) (hsa : 0 < au.scale) :
    iscloseElem 0 atl x (convVal bu au y) = true ↔ CloseAbsSI au bu atl au.scale x y := by
  have hne : au.scale ≠ 0 := ne_of_gt hsa
  rw [CloseAbsSI, ← convVal_absSI bu au y hne]
  generalize convVal bu au y = z
  simp only [iscloseElem, Bool.or_eq_true, decide_eq_true_eq, beq_iff_eq, Ref.closeAbs, mabs_eq_abs,
    absK_eq_abs, TUnit.si, Ref.absSI, zero_mul, add_zero]
  have e1 : (x - au.offset) * au.scale - (z - au.offset) * au.scale = (x - z) * au.scale := by ring
  have e2 : |(x - z) * au.scale| = |x - z| * au.scale := by rw [abs_mul, abs_of_pos hsa]
  rw [e1, e2, mul_le_mul_iff_of_pos_right hsa]
  constructor
  · rintro (h | h)
    · exact Or.inl h
    · exact Or.inr (by rw [h])
  · rintro (h | h)
    · exact Or.inl h
    · have := mul_right_cancel₀ hne h
      exact Or.inr (by linarith)

/-! ### the handlers on two quantities in different, non-`NULL_UNIT` units -/

section handlers
variable [UnitClose K]

theorem arrayCompHelper_converts (a b : Qty K)
    (ha : TUnit.eq a.unit nullUnit = false) (hb : TUnit.eq b.unit nullUnit = false)
    (he : TUnit.eq b.unit a.unit = false) (hd : b.unit.dim = a.unit.dim) :
    arrayCompHelper (.qty a) (.qty b)
      = .ok (a.vals, b.vals.map (convVal b.unit a.unit), a.unit) := by
  have hd' : (b.unit.dim != a.unit.dim) = false := by simp [hd]
  simp [arrayCompHelper, unitsAttr, rawVals, ha, hb, he, inUnits, hd']

/-- **`numpy.isclose` on two quantities written in different units, temperature scales included,
    `rtol = 0`**: one Boolean per broadcast pair, `True` exactly where the absolute SI magnitudes
    agree within `atol` (a difference in the first operand's unit).  No hypothesis on the offsets. -/
theorem handler_isclose_affine (a b : Qty K) (atl : K)
    (ha : TUnit.eq a.unit nullUnit = false) (hb : TUnit.eq b.unit nullUnit = false)
    (he : TUnit.eq b.unit a.unit = false) (hd : b.unit.dim = a.unit.dim)
    (hsa : 0 < a.unit.scale) :
    iscloseHandler (.qty a) (.qty b) 0 atl
      = match broadcast2 a.vals b.vals with
        | none => .error .ValueError
        | some ps => .ok (ps.map fun p =>
            decide (CloseAbsSI a.unit b.unit atl a.unit.scale p.1 p.2)) := by
  unfold iscloseHandler
  rw [arrayCompHelper_converts a b ha hb he hd]
  simp only [npIsclose]
  have h := broadcast2_map id (convVal b.unit a.unit) a.vals b.vals
  simp only [List.map_id, id] at h
  rw [h]
  cases broadcast2 a.vals b.vals with
  | none => rfl
  | some ps =>
    simp only [Option.map, List.map_map]
    congr 1
    apply List.map_congr_left
    intro p _
    simp only [Function.comp]
    rw [Bool.eq_iff_iff, decide_eq_true_iff]
    exact iscloseElem_affine a.unit b.unit atl p.1 p.2 hsa

/-- **`numpy.allclose` likewise**: `True` exactly when the shapes broadcast and every pair of
    absolute SI magnitudes agrees within `atol` -/
theorem handler_allclose_affine_iff_si (a b : Qty K) (atl : K)
    (ha : TUnit.eq a.unit nullUnit = false) (hb : TUnit.eq b.unit nullUnit = false)
    (he : TUnit.eq b.unit a.unit = false) (hd : b.unit.dim = a.unit.dim)
    (hsa : 0 < a.unit.scale) :
    allcloseHandler (.qty a) (.qty b) 0 atl = .ok true ↔
      ∃ ps, broadcast2 a.vals b.vals = some ps ∧
        ∀ p ∈ ps, CloseAbsSI a.unit b.unit atl a.unit.scale p.1 p.2 := by
  unfold allcloseHandler
  rw [arrayCompHelper_converts a b ha hb he hd]
  simp only
  have h := npAllclose_map_iff (0 : K) atl id (convVal b.unit a.unit) a.vals b.vals
  simp only [List.map_id, id] at h
  rw [h]
  constructor
  · rintro ⟨ps, hps, hall⟩
    exact ⟨ps, hps, fun p hp => (iscloseElem_affine _ _ _ _ _ hsa).mp (hall p hp)⟩
  · rintro ⟨ps, hps, hall⟩
    exact ⟨ps, hps, fun p hp => (iscloseElem_affine _ _ _ _ _ hsa).mpr (hall p hp)⟩

/-- incommensurable operands are refused by both handlers with `UnitConversionError` (no verdict) -/
theorem handler_isclose_incommensurable (a b : Qty K) (rt atl : K)
    (ha : TUnit.eq a.unit nullUnit = false) (hb : TUnit.eq b.unit nullUnit = false)
    (hd : b.unit.dim ≠ a.unit.dim) :
    iscloseHandler (.qty a) (.qty b) rt atl = .error .UnitConversionError := by
  have he : TUnit.eq b.unit a.unit = false := by
    simp only [TUnit.eq, Bool.and_eq_false_iff]; right; simpa using hd
  have hd' : (b.unit.dim != a.unit.dim) = true := by simpa using hd
  simp [iscloseHandler, arrayCompHelper, unitsAttr, ha, hb, he, inUnits, hd']

end handlers

/-- non-vacuity of the handler theorems: `[0, 100] °C` against `[32, 212] °F` meets every hypothesis
    and is accepted with `atol = 0`; `57.6 °F` against `0 °C` is refused -/
example :
    let degF : TUnit ℚ := ⟨5 / 9, -45967 / 100, Dim.dTemperature⟩
    let degC : TUnit ℚ := ⟨1, -27315 / 100, Dim.dTemperature⟩
    let a : Qty ℚ := ⟨[0, 100], false, degC⟩
    let b : Qty ℚ := ⟨[32, 212], false, degF⟩
    TUnit.eq a.unit nullUnit = false ∧ TUnit.eq b.unit nullUnit = false ∧
      TUnit.eq b.unit a.unit = false ∧ b.unit.dim = a.unit.dim ∧ 0 < a.unit.scale ∧
      allcloseHandler (.qty a) (.qty b) 0 0 = .ok true ∧
      allcloseHandler (.qty b) (.qty a) 0 0 = .ok true ∧
      iscloseHandler (.qty a) (.qty b) 0 0 = .ok [true, true] ∧
      allcloseHandler (.qty (⟨[576 / 10], false, degF⟩ : Qty ℚ)) (.qty ⟨[0], false, degC⟩) 0 (1 / 100)
        = .ok false := by
  decide +kernel

/-! ### re-expression of the second operand -/

/-- **the verdict does not change when the second operand is re-expressed** in any commensurable
    unit (another temperature scale included), `rtol = 0`: 0 °C vs 32 °F is judged like 0 °C vs
    273.15 K -/
theorem handler_allclose_affine_reexpress_second [UnitClose K] (a b : Qty K) (u : TUnit K) (atl : K)
    (ha : TUnit.eq a.unit nullUnit = false) (hb : TUnit.eq b.unit nullUnit = false)
    (hu : TUnit.eq u nullUnit = false)
    (he : TUnit.eq b.unit a.unit = false) (heu : TUnit.eq u a.unit = false)
    (hd : b.unit.dim = a.unit.dim) (hdu : u.dim = a.unit.dim)
    (hsa : 0 < a.unit.scale) (hsu : u.scale ≠ 0) :
    (allcloseHandler (.qty a) (.qty (b.reexpress u)) 0 atl = .ok true) ↔
      (allcloseHandler (.qty a) (.qty b) 0 atl = .ok true) := by
  rw [handler_allclose_affine_iff_si a b atl ha hb he hd hsa,
    handler_allclose_affine_iff_si a (b.reexpress u) atl ha hu heu hdu hsa]
  simp only [Qty.reexpress]
  have h := broadcast2_map (id : K → K) (convVal b.unit u) a.vals b.vals
  simp only [List.map_id] at h
  rw [h]
  cases broadcast2 a.vals b.vals with
  | none => simp
  | some ps =>
    simp only [Option.map, Option.some.injEq, exists_eq_left', List.mem_map, id]
    constructor
    · intro hall p hp
      have := hall (p.1, convVal b.unit u p.2) ⟨p, hp, rfl⟩
      simpa only [CloseAbsSI, convVal_absSI b.unit u p.2 hsu] using this
    · rintro hall q ⟨p, hp, rfl⟩
      have := hall p hp
      simpa only [CloseAbsSI, convVal_absSI b.unit u p.2 hsu] using this

/-! ### every `rtol`: the relative part is measured from the zero of the first operand's scale -/

/-- what one element of the handlers' comparison is in SI terms, for any `rtol`: the absolute SI
    magnitudes differ by at most `atol` (a difference in the first operand's unit) plus `rtol` times
    the reference magnitude *measured from the zero of the first operand's scale* (for zero-offset
    units that is the plain SI magnitude; on °C it is the Celsius reading in kelvins) -/
def CloseAffineSI (au bu : TUnit K) (rt atl x y : K) : Prop :=
  |TUnit.si au x - TUnit.si bu y| ≤ atl * au.scale + rt * |TUnit.si bu y - TUnit.si au 0|
    ∨ TUnit.si au x = TUnit.si bu y

instance (au bu : TUnit K) (rt atl x y : K) : Decidable (CloseAffineSI au bu rt atl x y) := by
  unfold CloseAffineSI; infer_instance

theorem iscloseElem_affine_rtol (au bu : TUnit K) (rt atl x y : K) (hsa : 0 < au.scale) :
    iscloseElem rt atl x (convVal bu au y) = true ↔ CloseAffineSI au bu rt atl x y := by
  have hne : au.scale ≠ 0 := ne_of_gt hsa
  rw [CloseAffineSI, ← convVal_absSI bu au y hne]
  generalize convVal bu au y = z
  simp only [iscloseElem, Bool.or_eq_true, decide_eq_true_eq, beq_iff_eq, mabs_eq_abs, TUnit.si,
    Ref.absSI]
  have e1 : (x - au.offset) * au.scale - (z - au.offset) * au.scale = (x - z) * au.scale := by ring
  have e2 : |(x - z) * au.scale| = |x - z| * au.scale := by rw [abs_mul, abs_of_pos hsa]
  have e3 : (z - au.offset) * au.scale - (0 - au.offset) * au.scale = z * au.scale := by ring
  have e4 : |z * au.scale| = |z| * au.scale := by rw [abs_mul, abs_of_pos hsa]
  have e5 : atl * au.scale + rt * (|z| * au.scale) = (atl + rt * |z|) * au.scale := by ring
  rw [e1, e2, e3, e4, e5, mul_le_mul_iff_of_pos_right hsa]
  constructor
  · rintro (h | h)
    · exact Or.inl h
    · exact Or.inr (by rw [h])
  · rintro (h | h)
    · exact Or.inl h
    · have := mul_right_cancel₀ hne h
      exact Or.inr (by linarith)

/-- **`numpy.isclose` on two quantities in different non-`NULL_UNIT` units of one dimension, every
    `rtol`, every scale and offset**: exactly the per-pair decisions `CloseAffineSI` -/
theorem handler_isclose_general [UnitClose K] (a b : Qty K) (rt atl : K)
    (ha : TUnit.eq a.unit nullUnit = false) (hb : TUnit.eq b.unit nullUnit = false)
    (he : TUnit.eq b.unit a.unit = false) (hd : b.unit.dim = a.unit.dim)
    (hsa : 0 < a.unit.scale) :
    iscloseHandler (.qty a) (.qty b) rt atl
      = match broadcast2 a.vals b.vals with
        | none => .error .ValueError
        | some ps => .ok (ps.map fun p =>
            decide (CloseAffineSI a.unit b.unit rt atl p.1 p.2)) := by
  unfold iscloseHandler
  rw [arrayCompHelper_converts a b ha hb he hd]
  simp only [npIsclose]
  have h := broadcast2_map id (convVal b.unit a.unit) a.vals b.vals
  simp only [List.map_id, id] at h
  rw [h]
  cases broadcast2 a.vals b.vals with
  | none => rfl
  | some ps =>
    simp only [Option.map, List.map_map]
    congr 1
    apply List.map_congr_left
    intro p _
    simp only [Function.comp]
    rw [Bool.eq_iff_iff, decide_eq_true_iff]
    exact iscloseElem_affine_rtol a.unit b.unit rt atl p.1 p.2 hsa

/-- `numpy.allclose` likewise, every `rtol` -/
theorem handler_allclose_general_iff_si [UnitClose K] (a b : Qty K) (rt atl : K)
    (ha : TUnit.eq a.unit nullUnit = false) (hb : TUnit.eq b.unit nullUnit = false)
    (he : TUnit.eq b.unit a.unit = false) (hd : b.unit.dim = a.unit.dim)
    (hsa : 0 < a.unit.scale) :
    allcloseHandler (.qty a) (.qty b) rt atl = .ok true ↔
      ∃ ps, broadcast2 a.vals b.vals = some ps ∧
        ∀ p ∈ ps, CloseAffineSI a.unit b.unit rt atl p.1 p.2 := by
  unfold allcloseHandler
  rw [arrayCompHelper_converts a b ha hb he hd]
  simp only
  have h := npAllclose_map_iff rt atl id (convVal b.unit a.unit) a.vals b.vals
  simp only [List.map_id, id] at h
  rw [h]
  constructor
  · rintro ⟨ps, hps, hall⟩
    exact ⟨ps, hps, fun p hp => (iscloseElem_affine_rtol _ _ _ _ _ _ hsa).mp (hall p hp)⟩
  · rintro ⟨ps, hps, hall⟩
    exact ⟨ps, hps, fun p hp => (iscloseElem_affine_rtol _ _ _ _ _ _ hsa).mpr (hall p hp)⟩

/-- with zero-offset units the reference magnitude is the plain SI magnitude (`handler_allclose_iff_si`
    is the special case) -/
theorem closeAffineSI_linear (au bu : TUnit K) (rt atl x y : K) (ha : au.offset = 0)
    (hb : bu.offset = 0) :
    CloseAffineSI au bu rt atl x y ↔
      (Ref.closeSI rt (atl * au.scale) (x * au.scale) (y * bu.scale) ∨ x * au.scale = y * bu.scale) := by
  simp [CloseAffineSI, TUnit.si, Ref.absSI, ha, hb, Ref.closeSI, absK_eq_abs]

end Unyt.C19
