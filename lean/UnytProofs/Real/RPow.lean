/-
  The rational-power laws assumed by the general theorems (C02, C05) hold for the positive
  reals: `RPowLaws` is instantiated with `Real.rpow` and `P x := 0 < x`.
  (Single Mathlib module; nothing under `UnytModel/` imports Mathlib.)
-/
import Mathlib.Analysis.SpecialFunctions.Pow.Real
import UnytModel.Num

namespace Unyt

noncomputable instance : RPow ℝ := ⟨fun x q => x ^ (q : ℝ)⟩

theorem real_rpow_laws : RPowLaws (RPow.rpow (K := ℝ)) (fun x => 0 < x) where
  pos_one := one_pos
  pos_mul := fun ha hb => mul_pos ha hb
  pos_rpow := fun q ha => Real.rpow_pos_of_pos ha _
  rpow_zero := fun _ => by simp [RPow.rpow]
  rpow_one := fun _ => by simp [RPow.rpow]
  rpow_add := fun p q ha => by
    simp only [RPow.rpow]; push_cast; exact Real.rpow_add ha _ _
  rpow_mul := fun p q ha => by
    simp only [RPow.rpow]; push_cast; exact (Real.rpow_mul ha.le _ _).symm
  mul_rpow := fun q ha hb => by
    simp only [RPow.rpow]; exact Real.mul_rpow ha.le hb.le
  one_rpow := fun q => by simp [RPow.rpow]

end Unyt
