/-
  Helper lemmas for C17 over ordered fields (no property statements): composition of relative
  errors under rounding and multiplication.  Single Mathlib modules.
-/
import Mathlib.Algebra.Order.Field.Basic
import Mathlib.Algebra.Order.AbsoluteValue.Basic
import Mathlib.Tactic.Linarith
import Mathlib.Tactic.Ring
import Mathlib.Tactic.Positivity

set_option linter.unusedVariables false

namespace Unyt.C17R

variable {K : Type} [Field K] [LinearOrder K] [IsStrictOrderedRing K]

/-- `y` approximates `x` with relative error at most `e` -/
def Approx (y x e : K) : Prop := |y - x| ≤ e * |x|

theorem approx_refl (x : K) : Approx x x 0 := by simp [Approx]

/-- rounding an approximation: relative errors compose multiplicatively -/
theorem approx_cast (cast : K → K) (u : K) (hu : 0 ≤ u)
    {y x e : K} (hc : |cast y - y| ≤ u * |y|) (he : 0 ≤ e) (h : Approx y x e) :
    Approx (cast y) x ((1 + e) * (1 + u) - 1) := by
  unfold Approx at *
  have h1 : |cast y - x| ≤ |cast y - y| + |y - x| := by
    have : cast y - x = (cast y - y) + (y - x) := by ring
    rw [this]; exact abs_add_le _ _
  have h2 : |y| ≤ |x| + |y - x| := by
    have : y = x + (y - x) := by ring
    calc |y| = |x + (y - x)| := by rw [← this]
      _ ≤ |x| + |y - x| := abs_add_le _ _
  have h3 := hc
  have hx : 0 ≤ |x| := abs_nonneg x
  have h4 : u * |y| ≤ u * (|x| + e * |x|) := by
    apply mul_le_mul_of_nonneg_left _ hu
    linarith
  nlinarith [h1, h2, h3, h4]

/-- product of approximations -/
theorem approx_mul {a' a b' b ea eb : K} (hea : 0 ≤ ea) (heb : 0 ≤ eb)
    (ha : Approx a' a ea) (hb : Approx b' b eb) :
    Approx (a' * b') (a * b) ((1 + ea) * (1 + eb) - 1) := by
  unfold Approx at *
  have hid : a' * b' - a * b = (a' - a) * b + a * (b' - b) + (a' - a) * (b' - b) := by ring
  rw [hid, abs_mul a b]
  have t1 : |(a' - a) * b + a * (b' - b) + (a' - a) * (b' - b)|
      ≤ |a' - a| * |b| + |a| * |b' - b| + |a' - a| * |b' - b| := by
    calc _ ≤ |(a' - a) * b + a * (b' - b)| + |(a' - a) * (b' - b)| := abs_add_le _ _
      _ ≤ |(a' - a) * b| + |a * (b' - b)| + |(a' - a) * (b' - b)| := by
          have := abs_add_le ((a' - a) * b) (a * (b' - b)); linarith
      _ = _ := by rw [abs_mul, abs_mul, abs_mul]
  have ha0 : 0 ≤ |a| := abs_nonneg a
  have hb0 : 0 ≤ |b| := abs_nonneg b
  have hda : 0 ≤ |a' - a| := abs_nonneg _
  have hdb : 0 ≤ |b' - b| := abs_nonneg _
  have p1 : |a' - a| * |b| ≤ ea * |a| * |b| := mul_le_mul_of_nonneg_right ha hb0
  have p2 : |a| * |b' - b| ≤ |a| * (eb * |b|) := mul_le_mul_of_nonneg_left hb ha0
  have p3 : |a' - a| * |b' - b| ≤ (ea * |a|) * (eb * |b|) :=
    mul_le_mul ha hb hdb (mul_nonneg hea ha0)
  nlinarith [t1, p1, p2, p3]

/-- an approximation with relative error at most 1/2 of a value that is inside `[2·lo, hi/2]` is
    itself inside `[lo, hi]` -/
theorem approx_in_range {y x e lo hi : K} (he : 0 ≤ e) (he2 : e ≤ 1 / 2) (h : Approx y x e)
    (hlo : 2 * lo ≤ |x|) (hhi : |x| ≤ hi / 2) : lo ≤ |y| ∧ |y| ≤ hi := by
  unfold Approx at h
  have hx : 0 ≤ |x| := abs_nonneg x
  have h1 : |y| ≤ |x| + |y - x| := by
    have : y = x + (y - x) := by ring
    calc |y| = |x + (y - x)| := by rw [← this]
      _ ≤ |x| + |y - x| := abs_add_le _ _
  have h2 : |x| ≤ |y| + |y - x| := by
    have : x = y + (x - y) := by ring
    calc |x| = |y + (x - y)| := by rw [← this]
      _ ≤ |y| + |x - y| := abs_add_le _ _
      _ = |y| + |y - x| := by rw [abs_sub_comm]
  have h3 : e * |x| ≤ 1 / 2 * |x| := mul_le_mul_of_nonneg_right he2 hx
  constructor <;> nlinarith

/-- (1+u)^k − 1 ≤ 1/2 for k ≤ 3 when u ≤ 1/16 -/
theorem small3 {u : K} (h0 : 0 ≤ u) (h : u ≤ 1 / 16) :
    (1 + u) * (1 + u) - 1 ≤ 1 / 2 ∧ (1 + ((1 + u) * (1 + u) - 1)) * (1 + u) - 1 ≤ 1 / 2 := by
  constructor <;> nlinarith [mul_nonneg h0 h0, mul_nonneg (mul_nonneg h0 h0) h0]

end Unyt.C17R
