/-
  C09 — the Lorentz equivalence (the one non-monomial equivalence), helper lemmas over ℝ:
  what a formula of the reference shapes computes, and the two inverse laws
  `v ↦ γ ↦ v` for `0 ≤ v < c` and `γ ↦ v ↦ γ` for `1 ≤ γ`.
-/
import UnytProofs.Real.C09Monomial
import UnytModel.Ref.C09

namespace Unyt.Equiv
open Unyt Unyt.Ref.C09

/-- `γ(v) = 1/√(1 − v²/c²)` -/
noncomputable def lorentzGamma (c v : ℝ) : ℝ := 1 / Real.sqrt (1 - v ^ 2 / c ^ 2)

/-- `v(γ) = c √(1 − 1/γ²)` -/
noncomputable def lorentzVel (c g : ℝ) : ℝ := c * Real.sqrt (1 - 1 / g ^ 2)

theorem lorentz_real_inverse_v {c v : ℝ} (hc : 0 < c) (hv : 0 ≤ v) (hvc : v < c) :
    lorentzVel c (lorentzGamma c v) = v := by
  unfold lorentzVel lorentzGamma
  have hc2 : 0 < c ^ 2 := by positivity
  have hlt : v ^ 2 / c ^ 2 < 1 := by
    rw [div_lt_one hc2]
    exact pow_lt_pow_left₀ hvc hv (by norm_num)
  have ht : 0 < 1 - v ^ 2 / c ^ 2 := by linarith
  have h1 : (1 / Real.sqrt (1 - v ^ 2 / c ^ 2)) ^ 2 = 1 / (1 - v ^ 2 / c ^ 2) := by
    rw [div_pow, Real.sq_sqrt ht.le]; simp
  rw [h1]
  have h2 : 1 - 1 / (1 / (1 - v ^ 2 / c ^ 2)) = (v / c) ^ 2 := by
    rw [one_div_one_div, div_pow]; ring
  rw [h2, Real.sqrt_sq (div_nonneg hv hc.le)]
  field_simp

theorem lorentz_real_inverse_gamma {c g : ℝ} (hc : 0 < c) (hg : 1 ≤ g) :
    lorentzGamma c (lorentzVel c g) = g := by
  unfold lorentzVel lorentzGamma
  have hg0 : 0 < g := by linarith
  have hg2 : 1 ≤ g ^ 2 := by nlinarith
  have hs : 0 ≤ 1 - 1 / g ^ 2 := by
    have : 1 / g ^ 2 ≤ 1 := by rw [div_le_one (by positivity)]; exact hg2
    linarith
  have h1 : (c * Real.sqrt (1 - 1 / g ^ 2)) ^ 2 / c ^ 2 = 1 - 1 / g ^ 2 := by
    rw [mul_pow, Real.sq_sqrt hs]; field_simp
  rw [h1]
  have h2 : 1 - (1 - 1 / g ^ 2) = (1 / g) ^ 2 := by rw [div_pow]; ring
  rw [h2, Real.sqrt_sq (by positivity)]
  simp

/-- for `1 < γ` the velocity is positive -/
theorem lorentzVel_pos {c g : ℝ} (hc : 0 < c) (hg : 1 < g) : 0 < lorentzVel c g := by
  unfold lorentzVel
  have hg2 : 1 < g ^ 2 := by nlinarith
  have : 1 / g ^ 2 < 1 := by rw [div_lt_one (by positivity)]; exact hg2
  exact mul_pos hc (Real.sqrt_pos.mpr (by linarith))

/-- for `0 ≤ v < c` the factor is positive -/
theorem lorentzGamma_pos {c v : ℝ} (hc : 0 < c) (hv : 0 ≤ v) (hvc : v < c) : 0 < lorentzGamma c v := by
  unfold lorentzGamma
  have hc2 : 0 < c ^ 2 := by positivity
  have hlt : v ^ 2 / c ^ 2 < 1 := by
    rw [div_lt_one hc2]
    exact pow_lt_pow_left₀ hvc hv (by norm_num)
  exact one_div_pos.mpr (Real.sqrt_pos.mpr (by linarith))

theorem beta2_eval (ρ : String → ℝ) (hρ : PosEnv ρ) :
    lorentzBeta2.eval ρ = ρ "x" ^ 2 / ρ "c.c" ^ 2 := by
  have hc := hρ "c.c"
  simp only [lorentzBeta2, Mono.eval, Mono.evalAtoms, ofRat_real, rpow_real]
  have e1 : (((-2 : Rat)) : ℝ) = -((2 : ℕ) : ℝ) := by push_cast; ring
  have e2 : (((2 : Rat)) : ℝ) = ((2 : ℕ) : ℝ) := by push_cast; ring
  rw [e1, e2, Real.rpow_neg hc.le, Real.rpow_natCast, Real.rpow_natCast]
  push_cast
  field_simp

theorem invGamma2_eval (ρ : String → ℝ) (hρ : PosEnv ρ) :
    lorentzInvGamma2.eval ρ = 1 / ρ "x" ^ 2 := by
  have hx := hρ "x"
  simp only [lorentzInvGamma2, Mono.eval, Mono.evalAtoms, ofRat_real, rpow_real]
  have e1 : (((-2 : Rat)) : ℝ) = -((2 : ℕ) : ℝ) := by push_cast; ring
  rw [e1, Real.rpow_neg hx.le, Real.rpow_natCast]
  push_cast
  field_simp

theorem lorentzC_eval (ρ : String → ℝ) : lorentzC.eval ρ = ρ "c.c" := by
  simp [lorentzC, Mono.eval, Mono.evalAtoms]

/-- a formula of the γ-shape computes `1/√(1 − x²/c²)` -/
theorem gammaShape_eval {ρ : String → ℝ} (hρ : PosEnv ρ) (f : Formula) (h : gammaShape f = true) :
    f.eval ρ = lorentzGamma (ρ "c.c") (ρ "x") := by
  unfold gammaShape at h
  split at h
  · rename_i a b B
    simp only [Bool.and_eq_true, beq_iff_eq] at h
    obtain ⟨⟨ha, hb⟩, hB⟩ := h
    subst ha hb
    simp only [Formula.eval, ofRat_real, sqrt_real, norm_sound' hρ B _ hB, beta2_eval ρ hρ, lorentzGamma]
    push_cast
    rfl
  · cases h

/-- a formula that syntactically vanishes at zero evaluates to 0 when the input is 0 -/
theorem vanishesAtZero_eval (ρ : String → ℝ) (h0 : ρ "x" = 0) (f : Formula)
    (h : f.vanishesAtZero = true) : f.eval ρ = 0 := by
  induction f with
  | atom a =>
    simp only [Formula.vanishesAtZero, beq_iff_eq] at h
    subst h; simpa [Formula.eval] using h0
  | lit q => simp [Formula.vanishesAtZero] at h
  | mul a b iha ihb =>
    simp only [Formula.vanishesAtZero, Bool.or_eq_true] at h
    rcases h with h | h
    · simp [Formula.eval, iha h]
    · simp [Formula.eval, ihb h]
  | div a b iha _ =>
    simp only [Formula.vanishesAtZero] at h
    simp [Formula.eval, iha h]
  | sub a b iha ihb =>
    simp only [Formula.vanishesAtZero, Bool.and_eq_true] at h
    simp [Formula.eval, iha h.1, ihb h.2]
  | add a b iha ihb =>
    simp only [Formula.vanishesAtZero, Bool.and_eq_true] at h
    simp [Formula.eval, iha h.1, ihb h.2]
  | sqrt a iha =>
    simp only [Formula.vanishesAtZero] at h
    simp [Formula.eval, iha h]
  | pow a q iha =>
    simp only [Formula.vanishesAtZero, Bool.and_eq_true, bne_iff_ne, ne_eq] at h
    have hq : ((q : ℝ)) ≠ 0 := by exact_mod_cast h.2
    simp [Formula.eval, iha h.1, Real.zero_rpow hq]

/-- a γ-shaped formula whose `B` vanishes at zero gives γ(0) = 1 -/
theorem gammaShape_eval_zero (ρ : String → ℝ) (h0 : ρ "x" = 0) (f : Formula)
    (h : gammaShape f = true) (hz : gammaShapeZero f = true) : f.eval ρ = 1 := by
  unfold gammaShape at h
  split at h
  · rename_i a b B
    simp only [Bool.and_eq_true, beq_iff_eq] at h
    obtain ⟨⟨ha, hb⟩, _⟩ := h
    subst ha hb
    simp only [gammaShapeZero] at hz
    simp [Formula.eval, vanishesAtZero_eval ρ h0 B hz]
  · cases h

/-- a formula of the velocity shape computes `c √(1 − 1/x²)` -/
theorem velShape_eval {ρ : String → ℝ} (hρ : PosEnv ρ) (g : Formula) (h : velShape g = true) :
    g.eval ρ = lorentzVel (ρ "c.c") (ρ "x") := by
  unfold velShape at h
  split at h
  · rename_i b B A
    simp only [Bool.and_eq_true, beq_iff_eq] at h
    obtain ⟨⟨hb, hA⟩, hB⟩ := h
    subst hb
    simp only [Formula.eval, ofRat_real, sqrt_real, norm_sound' hρ B _ hB, norm_sound' hρ A _ hA,
      invGamma2_eval ρ hρ, lorentzC_eval, lorentzVel]
    push_cast
    ring
  · rename_i A b B _
    simp only [Bool.and_eq_true, beq_iff_eq] at h
    obtain ⟨⟨hb, hA⟩, hB⟩ := h
    subst hb
    simp only [Formula.eval, ofRat_real, sqrt_real, norm_sound' hρ B _ hB, norm_sound' hρ A _ hA,
      invGamma2_eval ρ hρ, lorentzC_eval, lorentzVel]
    push_cast
    rfl
  · cases h

end Unyt.Equiv
