/-
  Soundness over ℝ of the monomial normaliser of `UnytModel/PhysicalConstants.lean` (C15):
  for every assignment of positive reals to the base constants, an expression of the
  multiplicative fragment evaluates to the value of its normal form, so two expressions with the
  same normal form are equal as real numbers — identically in the base constants.
  (Single Mathlib modules; nothing under `UnytModel/` imports Mathlib.)
-/
import Mathlib.Analysis.SpecialFunctions.Pow.Real
import Mathlib.Analysis.Real.Pi.Bounds
import UnytProofs.Real.RPow
import UnytModel.PhysicalConstants

namespace Unyt

noncomputable instance : OfRat ℝ := ⟨fun q => (q : ℝ)⟩
noncomputable instance : Transc ℝ := ⟨Real.pi, Real.sqrt, Real.log⟩

namespace C15Real

/-- value of an atom: π, the natural number, the base constant -/
noncomputable def atomVal (ρ : String → ℝ) : Atom → ℝ
  | .pi => Real.pi
  | .num n => if n = 0 then 1 else (n : ℝ)
  | .name s => ρ s

theorem atomVal_pos (ρ : String → ℝ) (hρ : ∀ s, 0 < ρ s) (a : Atom) : 0 < atomVal ρ a := by
  cases a with
  | pi => exact Real.pi_pos
  | num n =>
    simp only [atomVal]
    split
    · exact one_pos
    · rename_i h; exact_mod_cast Nat.pos_of_ne_zero h
  | name s => exact hρ s

noncomputable def evalA (v : Atom → ℝ) : Atoms → ℝ
  | [] => 1
  | (a, e) :: rest => v a ^ (e : ℝ) * evalA v rest

variable (v : Atom → ℝ) (hv : ∀ a, 0 < v a)
include hv

theorem evalA_insert (a : Atom) (e : ℚ) (m : Atoms) :
    evalA v (Atoms.insert a e m) = v a ^ (e : ℝ) * evalA v m := by
  induction m with
  | nil => simp [Atoms.insert, evalA]
  | cons p rest ih =>
    obtain ⟨b, f⟩ := p
    unfold Atoms.insert
    split
    · subst_vars; simp only [evalA]; push_cast; rw [Real.rpow_add (hv _)]; ring
    · simp only [evalA, ih]; ring

theorem evalA_mul (m n : Atoms) : evalA v (m.mul n) = evalA v m * evalA v n := by
  unfold Atoms.mul
  induction n generalizing m with
  | nil => simp [evalA]
  | cons p rest ih =>
    simp only [List.foldl_cons, ih, evalA_insert v hv, evalA]; ring

theorem evalA_pos (m : Atoms) : 0 < evalA v m := by
  induction m with
  | nil => simp [evalA]
  | cons p rest ih =>
    obtain ⟨a, e⟩ := p
    simp only [evalA]
    exact mul_pos (Real.rpow_pos_of_pos (hv a) _) ih

theorem evalA_pow (m : Atoms) (q : ℚ) : evalA v (m.pow q) = (evalA v m) ^ (q : ℝ) := by
  induction m with
  | nil => simp [Atoms.pow, evalA]
  | cons p rest ih =>
    obtain ⟨a, e⟩ := p
    have ih' : evalA v (List.map (fun p => (p.1, p.2 * q)) rest) = evalA v rest ^ (q : ℝ) := ih
    simp only [Atoms.pow, List.map_cons, evalA, ih']
    rw [Real.mul_rpow (Real.rpow_pos_of_pos (hv a) _).le (evalA_pos v hv rest).le,
      ← Real.rpow_mul (hv a).le]
    push_cast; ring_nf

omit hv in
theorem evalA_allZero (m : Atoms) (h : m.allZero = true) : evalA v m = 1 := by
  induction m with
  | nil => simp [evalA]
  | cons p rest ih =>
    obtain ⟨a, e⟩ := p
    simp only [Atoms.allZero, List.all_cons, Bool.and_eq_true, beq_iff_eq] at h
    have hr : Atoms.allZero rest = true := h.2
    simp only [evalA, ih hr, h.1]
    simp

omit hv in
/-- value of a monomial -/
noncomputable def evalM (m : Mono) : ℝ := (m.coef : ℝ) * evalA v m.atoms

end C15Real

open C15Real

theorem natPow_cast (c : ℚ) (n : ℕ) : ((zpowK.natPow c n : ℚ) : ℝ) = (c : ℝ) ^ n := by
  induction n with
  | zero => simp [zpowK.natPow]
  | succ k ih => simp only [zpowK.natPow]; push_cast; rw [ih, pow_succ]

theorem zpowK_cast (c : ℚ) (n : ℤ) : ((zpowK c n : ℚ) : ℝ) = (c : ℝ) ^ n := by
  cases n with
  | ofNat k => simp only [zpowK, natPow_cast]; simp
  | negSucc k =>
    simp only [zpowK]; push_cast; rw [natPow_cast]
    rw [zpow_negSucc]; simp

namespace C15Real

theorem insertNum_eval (ρ : String → ℝ) (hρ : ∀ s, 0 < ρ s) (n : ℕ) (e : ℚ) (m : Atoms) :
    evalA (atomVal ρ) (Mono.insertNum n e m) = (atomVal ρ (.num n)) ^ (e : ℝ) * evalA (atomVal ρ) m := by
  unfold Mono.insertNum
  split
  · rename_i h
    have : n = 0 ∨ n = 1 := by omega
    rcases this with rfl | rfl <;> simp [atomVal]
  · exact evalA_insert _ (atomVal_pos ρ hρ) _ _ _

theorem rat_cast_of_den_one (q : ℚ) (h : q.den = 1) : (q : ℝ) = ((q.num : ℤ) : ℝ) := by
  have := Rat.cast_def (K := ℝ) q
  rw [this, h]; simp

/-- `Mono.rpow` computes the real power -/
theorem rpow_sound (ρ : String → ℝ) (hρ : ∀ s, 0 < ρ s) (m m' : Mono) (q : ℚ)
    (h : m.rpow q = some m') : evalM (atomVal ρ) m' = (evalM (atomVal ρ) m) ^ (q : ℝ) := by
  have hv := atomVal_pos ρ hρ
  unfold Mono.rpow at h
  split at h
  · rename_i hc
    have hcR : (0 : ℝ) < (m.coef : ℝ) := by exact_mod_cast hc
    have hA := evalA_pos _ hv m.atoms
    split at h
    · rename_i hd
      cases h
      simp only [evalM]
      rw [Real.mul_rpow hcR.le hA.le, evalA_pow _ hv, zpowK_cast, rat_cast_of_den_one q hd]
      simp only [Real.rpow_intCast]
    · cases h
      simp only [evalM]
      rw [insertNum_eval ρ hρ, insertNum_eval ρ hρ, evalA_pow _ hv, Real.mul_rpow hcR.le hA.le]
      have hnum : (0 : ℤ) < m.coef.num := Rat.num_pos.mpr hc
      have hn0 : m.coef.num.toNat ≠ 0 := by omega
      have hd0 : m.coef.den ≠ 0 := m.coef.den_nz
      have hnv : atomVal ρ (.num m.coef.num.toNat) = ((m.coef.num : ℤ) : ℝ) := by
        simp only [atomVal, hn0, if_false]
        have : ((m.coef.num.toNat : ℕ) : ℤ) = m.coef.num := Int.toNat_of_nonneg hnum.le
        exact_mod_cast congrArg (fun z : ℤ => (z : ℝ)) this
      have hdv : atomVal ρ (.num m.coef.den) = ((m.coef.den : ℕ) : ℝ) := by
        simp only [atomVal, hd0, if_false]
      rw [hnv, hdv]
      have hcd : (m.coef : ℝ) = ((m.coef.num : ℤ) : ℝ) / ((m.coef.den : ℕ) : ℝ) := Rat.cast_def _
      have hnumR : (0 : ℝ) ≤ ((m.coef.num : ℤ) : ℝ) := by exact_mod_cast hnum.le
      have hdenR : (0 : ℝ) ≤ ((m.coef.den : ℕ) : ℝ) := by positivity
      rw [hcd, Real.div_rpow hnumR hdenR]
      push_cast
      rw [Real.rpow_neg hdenR]
      ring
  · cases h

/-- soundness of the normaliser -/
theorem norm_sound (ρ : String → ℝ) (hρ : ∀ s, 0 < ρ s) :
    ∀ (e : CExpr) (m : Mono), norm e = some m → e.eval ρ = evalM (atomVal ρ) m := by
  have hv := atomVal_pos ρ hρ
  intro e
  induction e with
  | lit q => intro m h; cases h; simp [CExpr.eval, evalM, evalA, OfRat.ofRat]
  | pi => intro m h; cases h; simp [CExpr.eval, evalM, evalA, Transc.pi, atomVal]
  | ref n => intro m h; cases h; simp [CExpr.eval, evalM, evalA, atomVal]
  | neg a ih =>
    intro m h
    simp only [norm] at h
    cases ha : norm a with
    | none => simp [ha] at h
    | some ma =>
      simp only [ha, Option.some.injEq] at h
      subst h
      simp only [CExpr.eval, ih ma ha, evalM]; push_cast; ring
  | add a b _ _ => intro m h; simp [norm] at h
  | sub a b _ _ => intro m h; simp [norm] at h
  | mul a b iha ihb =>
    intro m h
    simp only [norm] at h
    cases ha : norm a with
    | none => simp [ha] at h
    | some ma =>
      cases hb : norm b with
      | none => simp [ha, hb] at h
      | some mb =>
        simp only [ha, hb, Option.some.injEq] at h
        subst h
        simp only [CExpr.eval, iha ma ha, ihb mb hb, evalM, evalA_mul _ hv]; push_cast; ring
  | div a b iha ihb =>
    intro m h
    simp only [norm] at h
    cases ha : norm a with
    | none => simp [ha] at h
    | some ma =>
      cases hb : norm b with
      | none => simp [ha, hb] at h
      | some mb =>
        simp only [ha, hb] at h
        split at h
        · cases h
        · cases h
          simp only [CExpr.eval, iha ma ha, ihb mb hb, evalM, Mono.quot, evalA_mul _ hv, evalA_pow _ hv]
          have hB := evalA_pos _ hv mb.atoms
          have : ((-1 : ℚ) : ℝ) = -1 := by norm_num
          rw [this, Real.rpow_neg_one]
          push_cast
          field_simp
  | pow a q ih =>
    intro m h
    simp only [norm] at h
    cases ha : norm a with
    | none => simp [ha] at h
    | some ma =>
      simp only [ha] at h
      simp only [CExpr.eval, ih ma ha, RPow.rpow]
      exact (rpow_sound ρ hρ ma m q h).symm
  | sqrt a ih =>
    intro m h
    simp only [norm] at h
    cases ha : norm a with
    | none => simp [ha] at h
    | some ma =>
      simp only [ha] at h
      simp only [CExpr.eval, ih ma ha, Transc.sqrt]
      rw [rpow_sound ρ hρ ma m (1 / 2) h, Real.sqrt_eq_rpow]
      congr 1; norm_num
  | log a _ => intro m h; simp [norm] at h

/-- two expressions with the same normal form are equal for every positive assignment of the
    base constants -/
theorem sameNormalForm_sound (ρ : String → ℝ) (hρ : ∀ s, 0 < ρ s) (a b : CExpr)
    (h : sameNormalForm a b = true) : a.eval ρ = b.eval ρ := by
  have hv := atomVal_pos ρ hρ
  unfold sameNormalForm at h
  cases ha : norm a with
  | none => simp [ha] at h
  | some m =>
    cases hb : norm b with
    | none => simp [ha, hb] at h
    | some n =>
      simp only [ha, hb, Bool.and_eq_true, bne_iff_ne, ne_eq, Mono.isOne, beq_iff_eq] at h
      obtain ⟨hn0, hq1, hz⟩ := h
      rw [norm_sound ρ hρ a m ha, norm_sound ρ hρ b n hb]
      have hz' := evalA_allZero (atomVal ρ) _ hz
      simp only [Mono.quot] at hz' hq1
      rw [evalA_mul _ hv, evalA_pow _ hv] at hz'
      have hB := evalA_pos _ hv n.atoms
      have hnR : (n.coef : ℝ) ≠ 0 := by exact_mod_cast hn0
      have h1 : ((-1 : ℚ) : ℝ) = -1 := by norm_num
      rw [h1, Real.rpow_neg_one] at hz'
      have hAB : evalA (atomVal ρ) m.atoms = evalA (atomVal ρ) n.atoms := by
        field_simp at hz'; exact hz'
      have hc : (m.coef : ℝ) = (n.coef : ℝ) := by
        have : ((m.coef / n.coef : ℚ) : ℝ) = 1 := by exact_mod_cast hq1
        push_cast at this
        field_simp at this; exact this
      simp only [evalM, hAB, hc]

end C15Real
end Unyt
