/-
  C09 — helper lemmas over ℝ for the unit-carrying reading of a chain
  (`UnytModel/EquivUnitsC09.lean`): one unit-aware ufunc call maps SI magnitudes the way the
  formula says, whatever the split of the operands into data and unit scale; hence a whole chain
  does (simulation between `runOps` and `runOpsU`).
-/
import UnytProofs.Real.C09Monomial
import UnytModel.EquivUnitsC09

namespace Unyt.Equiv
open Unyt

/-- the unit-carrying value `v` denotes the formula `f`: its SI magnitude is the value of `f`, its
    unit has a positive scale and — in "positive mode" `P` (monomial chains on positive data, where
    `power` is allowed) — its data are positive -/
def ValRel (P : Prop) (ρ : String → ℝ) (f : Formula) (v : UVal ℝ) : Prop :=
  v.si = f.eval ρ ∧ 0 < v.scale ∧ (P → 0 < v.data)

def StateRel (P : Prop) (ρ : String → ℝ) (s : RunState) (u : UState ℝ) : Prop :=
  ValRel P ρ s.buf u.buf ∧ List.Forall₂ (fun p q => ValRel P ρ p.1 q.1 ∧ p.2 = q.2) s.tmps u.tmps

/-- constant operands are positive (needed in positive mode only) -/
def ArgPos (ρ : String → ℝ) (a : Arg) : Prop := ∀ g, a = .c g → 0 < g.eval ρ

/-- what a call must satisfy for the simulation: without positivity no `power`; with it no
    `subtract`/`add` and positive constant operands -/
def OpOK (P : Prop) (ρ : String → ℝ) (op : Op) : Prop :=
  (¬P → ∀ q, op.fn ≠ .pow q) ∧ (P → op.fn ≠ .sub ∧ op.fn ≠ .add ∧ ∀ a ∈ op.args, ArgPos ρ a)

theorem forall₂_getElem? {α β : Type} {R : α → β → Prop} {l₁ : List α} {l₂ : List β}
    (h : List.Forall₂ R l₁ l₂) (i : Nat) {a : α} {b : β} (ha : l₁[i]? = some a) (hb : l₂[i]? = some b) :
    R a b := by
  induction h generalizing i with
  | nil => simp at ha
  | cons hab _ ih =>
    cases i with
    | zero => simp at ha hb; subst ha; subst hb; exact hab
    | succ j => simp at ha hb; exact ih j ha hb

section
variable [BEq ℝ] {P : Prop}

theorem rescaleQuotient_rel {ρ : String → ℝ} {f : Formula} (a b r : UVal ℝ) (h : ValRel P ρ f r) :
    ValRel P ρ f (rescaleQuotient a b r) := by
  unfold rescaleQuotient
  split
  · refine ⟨?_, by norm_num, fun hp => mul_pos (h.2.2 hp) h.2.1⟩
    show r.data * r.scale * 1 = _
    rw [mul_one]; exact h.1
  · exact h

theorem applyU_rel1 {ρ : String → ℝ} {fn : UFn} (hfn : ¬P → ∀ q, fn ≠ .pow q)
    {a : Formula} {x : UVal ℝ} (h : ValRel P ρ a x)
    {f : Formula} {v : UVal ℝ} (hf : fn.apply [a] = some f) (hv : fn.applyU [x] = some v) :
    ValRel P ρ f v := by
  obtain ⟨h1, h2, h3⟩ := h
  cases fn with
  | pow q =>
    by_cases hp : P
    · simp only [UFn.apply, UFn.applyU, Option.some.injEq] at hf hv
      subst hf; subst hv
      have hd := h3 hp
      refine ⟨?_, Real.rpow_pos_of_pos h2 _, fun _ => Real.rpow_pos_of_pos hd _⟩
      show x.data ^ (q : ℝ) * x.scale ^ (q : ℝ) = (a.eval ρ) ^ (q : ℝ)
      rw [← h1, UVal.si, Real.mul_rpow hd.le h2.le]
    · exact absurd rfl (hfn hp q)
  | sqrt =>
    simp only [UFn.apply, UFn.applyU, Option.some.injEq] at hf hv
    subst hf; subst hv
    refine ⟨?_, Real.sqrt_pos.mpr h2, fun hp => Real.sqrt_pos.mpr (h3 hp)⟩
    show Real.sqrt x.data * Real.sqrt x.scale = Real.sqrt (a.eval ρ)
    rw [← h1, UVal.si, Real.sqrt_mul' _ h2.le]
  | mul => simp [UFn.apply] at hf
  | div => simp [UFn.apply] at hf
  | sub => simp [UFn.apply] at hf
  | add => simp [UFn.apply] at hf

theorem applyU_rel2 {ρ : String → ℝ} {fn : UFn} (hsa : P → fn ≠ .sub ∧ fn ≠ .add)
    {a b : Formula} {x y : UVal ℝ} (hx : ValRel P ρ a x) (hy : ValRel P ρ b y)
    {f : Formula} {v : UVal ℝ} (hf : fn.apply [a, b] = some f) (hv : fn.applyU [x, y] = some v) :
    ValRel P ρ f v := by
  cases fn with
  | pow q => simp [UFn.apply] at hf
  | sqrt => simp [UFn.apply] at hf
  | mul =>
    simp only [UFn.apply, UFn.applyU, Option.some.injEq] at hf hv
    subst hf; subst hv
    apply rescaleQuotient_rel
    refine ⟨?_, mul_pos hx.2.1 hy.2.1, fun hp => mul_pos (hx.2.2 hp) (hy.2.2 hp)⟩
    show x.data * y.data * (x.scale * y.scale) = a.eval ρ * b.eval ρ
    rw [← hx.1, ← hy.1, UVal.si, UVal.si]; ring
  | div =>
    simp only [UFn.apply, UFn.applyU, Option.some.injEq] at hf hv
    subst hf; subst hv
    apply rescaleQuotient_rel
    refine ⟨?_, div_pos hx.2.1 hy.2.1, fun hp => div_pos (hx.2.2 hp) (hy.2.2 hp)⟩
    show x.data / y.data * (x.scale / y.scale) = a.eval ρ / b.eval ρ
    rw [← hx.1, ← hy.1, UVal.si, UVal.si, div_mul_div_comm]
  | sub =>
    simp only [UFn.apply, UFn.applyU, Option.some.injEq] at hf hv
    split at hv
    · simp only [Option.some.injEq] at hv
      subst hf; subst hv
      refine ⟨?_, hx.2.1, fun hp => absurd rfl (hsa hp).1⟩
      show (x.data - y.data * (y.scale / x.scale)) * x.scale = a.eval ρ - b.eval ρ
      rw [← hx.1, ← hy.1, UVal.si, UVal.si]
      have := hx.2.1.ne'
      field_simp
    · simp at hv
  | add =>
    simp only [UFn.apply, UFn.applyU, Option.some.injEq] at hf hv
    split at hv
    · simp only [Option.some.injEq] at hv
      subst hf; subst hv
      refine ⟨?_, hx.2.1, fun hp => absurd rfl (hsa hp).2⟩
      show (x.data + y.data * (y.scale / x.scale)) * x.scale = a.eval ρ + b.eval ρ
      rw [← hx.1, ← hy.1, UVal.si, UVal.si]
      have := hx.2.1.ne'
      field_simp
    · simp at hv

theorem applyU_rel {ρ : String → ℝ} {fn : UFn} (hfn : ¬P → ∀ q, fn ≠ .pow q)
    (hsa : P → fn ≠ .sub ∧ fn ≠ .add)
    {fs : List Formula} {vs : List (UVal ℝ)} (hrel : List.Forall₂ (ValRel P ρ) fs vs)
    {f : Formula} {v : UVal ℝ} (hf : fn.apply fs = some f) (hv : fn.applyU vs = some v) :
    ValRel P ρ f v := by
  cases hrel with
  | nil => cases fn <;> simp [UFn.apply] at hf
  | cons h1 t1 =>
    cases t1 with
    | nil => exact applyU_rel1 hfn h1 hf hv
    | cons h2 t2 =>
      cases t2 with
      | nil => exact applyU_rel2 hsa h1 h2 hf hv
      | cons h3 t3 => cases fn <;> simp [UFn.apply] at hf

omit [BEq ℝ] in
theorem resolveArg_rel {cd : String → Option Dim} {ρ : String → ℝ} {al : Bool} {s : RunState}
    {u : UState ℝ} (h : StateRel P ρ s u) (a : Arg) (hc : P → ArgPos ρ a) {f : Formula} {v : UVal ℝ}
    (hf : resolveArg al s a = some f) (hv : resolveArgU cd ρ al u a = some v) : ValRel P ρ f v := by
  cases a with
  | buf =>
    simp only [resolveArg, resolveArgU, Option.some.injEq] at hf hv
    subst hf; subst hv; exact h.1
  | tmp i =>
    simp only [resolveArg, resolveArgU] at hf hv
    split at hf
    · rename_i f0 al0 hs
      split at hv
      · rename_i v0 al1 hu
        have hr := forall₂_getElem? h.2 i hs hu
        simp only at hr
        obtain ⟨hr1, hr2⟩ := hr
        subst hr2
        split at hf
        · rename_i hcnd
          rw [if_pos hcnd] at hv
          simp only [Option.some.injEq] at hf hv
          subst hf; subst hv; exact h.1
        · rename_i hcnd
          rw [if_neg hcnd] at hv
          simp only [Option.some.injEq] at hf hv
          subst hf; subst hv; exact hr1
      · simp at hv
    · simp at hf
  | c g =>
    simp only [resolveArg, resolveArgU, Option.some.injEq] at hf hv
    subst hf
    split at hv
    · simp only [Option.some.injEq] at hv
      subst hv
      exact ⟨by show g.eval ρ * 1 = _; rw [mul_one], by norm_num, fun hp => hc hp g rfl⟩
    · simp at hv

omit [BEq ℝ] in
theorem resolveArgs_rel {cd : String → Option Dim} {ρ : String → ℝ} {al : Bool} {s : RunState}
    {u : UState ℝ} (h : StateRel P ρ s u) (as : List Arg) (hc : P → ∀ a ∈ as, ArgPos ρ a)
    {fs : List Formula} {vs : List (UVal ℝ)}
    (hf : resolveArgs al s as = some fs) (hv : resolveArgsU cd ρ al u as = some vs) :
    List.Forall₂ (ValRel P ρ) fs vs := by
  induction as generalizing fs vs with
  | nil =>
    simp only [resolveArgs, resolveArgsU, Option.some.injEq] at hf hv
    subst hf; subst hv; exact .nil
  | cons a rest ih =>
    simp only [resolveArgs, resolveArgsU] at hf hv
    cases hfa : resolveArg al s a with
    | none => simp [hfa] at hf
    | some f =>
      cases hfr : resolveArgs al s rest with
      | none => simp [hfa, hfr] at hf
      | some fr =>
        simp [hfa, hfr] at hf
        subst hf
        cases hva : resolveArgU cd ρ al u a with
        | none => simp [hva] at hv
        | some v =>
          cases hvr : resolveArgsU cd ρ al u rest with
          | none => simp [hva, hvr] at hv
          | some vr =>
            simp [hva, hvr] at hv
            subst hv
            exact .cons (resolveArg_rel h a (fun hp => hc hp a (List.mem_cons_self ..)) hfa hva)
              (ih (fun hp b hb => hc hp b (List.mem_cons_of_mem _ hb)) hfr hvr)

theorem stepOp_rel {cd : String → Option Dim} {ρ : String → ℝ} {al : Bool} {s s' : RunState}
    {u u' : UState ℝ} (h : StateRel P ρ s u) (op : Op) (hok : OpOK P ρ op)
    (hs : stepOp al s op = some s') (hu : stepOpU cd ρ al u op = some u') : StateRel P ρ s' u' := by
  simp only [stepOp, stepOpU] at hs hu
  cases hfa : resolveArgs al s op.args with
  | none => simp [hfa] at hs
  | some fs =>
    cases hva : resolveArgsU cd ρ al u op.args with
    | none => simp [hva] at hu
    | some vs =>
      cases hf : op.fn.apply fs with
      | none => simp [hfa, hf] at hs
      | some f =>
        cases hv : op.fn.applyU vs with
        | none => simp [hva, hv] at hu
        | some v =>
          simp [hfa, hf] at hs
          simp [hva, hv] at hu
          subst hs; subst hu
          have hr := applyU_rel hok.1 (fun hp => ⟨(hok.2 hp).1, (hok.2 hp).2.1⟩)
            (resolveArgs_rel h op.args (fun hp => (hok.2 hp).2.2) hfa hva) hf hv
          refine ⟨?_, ?_⟩
          · show ValRel P ρ (if op.outBuf then f else s.buf) (if op.outBuf then v else u.buf)
            split
            · exact hr
            · exact h.1
          · exact List.rel_append h.2 (.cons ⟨hr, rfl⟩ .nil)

theorem runOps_rel {cd : String → Option Dim} {ρ : String → ℝ} {al : Bool} (ops : List Op)
    (hok : ∀ op ∈ ops, OpOK P ρ op) {s s' : RunState} {u u' : UState ℝ} (h : StateRel P ρ s u)
    (hs : runOps al s ops = some s') (hu : runOpsU cd ρ al u ops = some u') : StateRel P ρ s' u' := by
  induction ops generalizing s u with
  | nil =>
    simp only [runOps, runOpsU, Option.some.injEq] at hs hu
    subst hs; subst hu; exact h
  | cons op rest ih =>
    simp only [runOps, runOpsU] at hs hu
    cases h1 : stepOp al s op with
    | none => simp [h1] at hs
    | some s1 =>
      cases h2 : stepOpU cd ρ al u op with
      | none => simp [h2] at hu
      | some u1 =>
        simp [h1] at hs
        simp [h2] at hu
        exact ih (fun o ho => hok o (List.mem_cons_of_mem _ ho))
          (stepOp_rel h op (hok op (List.mem_cons_self ..)) h1 h2) hs hu

/-- **simulation, whole chain**: if every call is admissible, the unit-carrying run and the formula
    run of a chain agree on what is left in the buffer and on what is returned -/
theorem Trace.runU_rel {cd : String → Option Dim} {ρ : String → ℝ} {al : Bool} (t : Trace)
    (hok : ∀ op ∈ t.ops, OpOK P ρ op) (hret : P → ∀ a, t.ret = some a → ArgPos ρ a)
    (x : UVal ℝ) (hx : ValRel P ρ Formula.x x)
    {fb : Formula} {fr : Option Formula} {ub : UVal ℝ} {ur : Option (UVal ℝ)}
    (hs : t.run al = some (fb, fr)) (hu : t.runU cd ρ al x = some (ub, ur)) :
    ValRel P ρ fb ub ∧
      (match fr, ur with
       | some f, some v => ValRel P ρ f v
       | none, none => True
       | _, _ => False) := by
  simp only [Trace.run, Trace.runU] at hs hu
  cases h1 : runOps al ⟨Formula.x, []⟩ t.ops with
  | none => simp [h1] at hs
  | some s1 =>
    cases h2 : runOpsU cd ρ al ⟨x, []⟩ t.ops with
    | none => simp [h2] at hu
    | some u1 =>
      have hrel : StateRel P ρ s1 u1 := runOps_rel t.ops hok ⟨hx, .nil⟩ h1 h2
      simp [h1] at hs
      simp [h2] at hu
      cases hr : t.ret with
      | none =>
        simp [hr] at hs hu
        obtain ⟨e1, e2⟩ := hs; obtain ⟨e3, e4⟩ := hu
        subst e1; subst e2; subst e3; subst e4
        exact ⟨hrel.1, trivial⟩
      | some a =>
        simp [hr] at hs hu
        cases hfa : resolveArg al s1 a with
        | none => simp [hfa] at hs
        | some f =>
          cases hva : resolveArgU cd ρ al u1 a with
          | none => simp [hva] at hu
          | some v =>
            simp [hfa] at hs
            simp [hva] at hu
            obtain ⟨e1, e2⟩ := hs; obtain ⟨e3, e4⟩ := hu
            subst e1; subst e2; subst e3; subst e4
            exact ⟨hrel.1, resolveArg_rel hrel a (fun hp => hret hp a hr) hfa hva⟩

end

/-! ### the two admissible classes of chains, as decidable checks -/

theorem noPow_spec {t : Trace} (h : t.noPow = true) (ρ : String → ℝ) :
    ∀ op ∈ t.ops, OpOK False ρ op := by
  intro op hop
  refine ⟨fun _ q hq => ?_, fun hp => hp.elim⟩
  simp only [Trace.noPow, List.all_eq_true] at h
  have := h op hop
  rw [hq] at this
  simp at this

theorem argMono_pos {ρ : String → ℝ} (hρ : PosEnv ρ) {a : Arg} (h : a.monoOk = true) : ArgPos ρ a := by
  intro g hg
  subst hg
  simp only [Arg.monoOk] at h
  cases hn : normRaw g with
  | none => simp [hn] at h
  | some m =>
    obtain ⟨hc, he⟩ := normRaw_sound hρ g m hn
    rw [he]; exact Mono.eval_pos hρ m hc

theorem monomial_spec {t : Trace} (h : t.monomial = true) {ρ : String → ℝ} (hρ : PosEnv ρ) :
    (∀ op ∈ t.ops, OpOK True ρ op) ∧ (True → ∀ a, t.ret = some a → ArgPos ρ a) := by
  simp only [Trace.monomial, Bool.and_eq_true, List.all_eq_true] at h
  refine ⟨fun op hop => ⟨fun hn => (hn trivial).elim, fun _ => ?_⟩, fun _ a ha => ?_⟩
  · have := h.1 op hop
    simp only [Bool.and_eq_true, List.all_eq_true, bne_iff_ne, ne_eq] at this
    exact ⟨this.1.1, this.1.2, fun a ha => argMono_pos hρ (this.2 a ha)⟩
  · have := h.2
    rw [ha] at this
    exact argMono_pos hρ this

end Unyt.Equiv
