/-
  C04 over the reals: the homogeneity classes of `Ref/C04Classes.lean` are *proved* for the real
  functions + − × ÷ max min |·| hypot, the remainder `a − b⌊a/b⌋`, the floor-quotient `⌊a/b⌋`,
  the orderings, sign, sqrt, integer powers and the reciprocal; floor-division is shown *not* to
  be of degree (1, −1) — which is why the divide rule is wrong for it.  The rule-covariance
  theorems of `UnytProofs/C04.lean` are then instantiated at ℝ with these kernels, giving
  hypothesis-free statements about the real-number semantics of the dispatcher model.
  (Single Mathlib module; nothing under `UnytModel/` imports Mathlib.)
-/
import Mathlib.Analysis.SpecialFunctions.Pow.Real
import UnytProofs.Real.RPow
import UnytProofs.C04
import UnytProofs.C04Programs

namespace Unyt.C04
open Unyt Unyt.UV Unyt.Ref.C04

/-- the positive part of ℝ -/
def Pos : ℝ → Prop := fun x => 0 < x

/-! ### degree 1 (jointly): + − max min hypot remainder -/

theorem add_hom1 : Hom1On Pos (fun a b : ℝ => a + b) := by intro c _ a b; ring
theorem sub_hom1 : Hom1On Pos (fun a b : ℝ => a - b) := by intro c _ a b; ring

theorem max_hom1 : Hom1On Pos (fun a b : ℝ => max a b) := by
  intro c hc a b; exact (mul_max_of_nonneg a b (le_of_lt hc)).symm

theorem min_hom1 : Hom1On Pos (fun a b : ℝ => min a b) := by
  intro c hc a b; exact (mul_min_of_nonneg a b (le_of_lt hc)).symm

/-- `hypot a b = √(a² + b²)` -/
noncomputable def hypot (a b : ℝ) : ℝ := Real.sqrt (a * a + b * b)

theorem hypot_hom1 : Hom1On Pos hypot := by
  intro c hc a b
  have hc0 : (0 : ℝ) ≤ c := le_of_lt hc
  have : c * a * (c * a) + c * b * (c * b) = (c * c) * (a * a + b * b) := by ring
  simp only [hypot]
  rw [this, Real.sqrt_mul (mul_self_nonneg c), Real.sqrt_mul_self hc0]

/-- NumPy's `remainder`: `a − b⌊a/b⌋` -/
noncomputable def remainder (a b : ℝ) : ℝ := a - b * (⌊a / b⌋ : ℝ)

/-- NumPy's `floor_divide`: `⌊a/b⌋` -/
noncomputable def floorDiv (a b : ℝ) : ℝ := (⌊a / b⌋ : ℝ)

theorem floorDiv_deg0 : Deg0On Pos floorDiv := by
  intro c hc a b
  simp only [floorDiv]
  rw [mul_div_mul_left a b (ne_of_gt hc)]

theorem remainder_hom1 : Hom1On Pos remainder := by
  intro c hc a b
  simp only [remainder]
  rw [mul_div_mul_left a b (ne_of_gt hc)]
  ring

/-- floor-division is *not* of degree (1, −1): rescaling the dividend alone does not rescale
    the quotient (⌊2000/3⌋ = 666, 1000·⌊2/3⌋ = 0) -/
theorem floorDiv_not_ratio : ¬ RatioHomOn Pos floorDiv := by
  intro h
  have := h 1000 1 (by norm_num [Pos]) 2 3
  simp only [floorDiv] at this
  have e1 : (⌊(1000 * 2 : ℝ) / (1 * 3)⌋ : ℤ) = 666 := by
    rw [Int.floor_eq_iff]; norm_num
  have e2 : (⌊(2 : ℝ) / 3⌋ : ℤ) = 0 := by
    rw [Int.floor_eq_iff]; norm_num
  rw [e1, e2] at this
  norm_num at this

/-! ### bilinear, ratio -/

theorem mul_bihom : BiHom (fun a b : ℝ => a * b) := by intro c d a b; ring

theorem div_ratio : RatioHomOn Pos (fun a b : ℝ => a / b) := by
  intro c d hd a b
  have : d ≠ 0 := ne_of_gt hd
  by_cases hb : b = 0
  · simp [hb]
  · field_simp

/-! ### degree 0: orderings, equality, sign -/

theorem lt_deg0 : Deg0On Pos (fun a b : ℝ => a < b) := by
  intro c hc a b
  exact propext ⟨fun h => lt_of_mul_lt_mul_left h (le_of_lt hc), fun h => mul_lt_mul_of_pos_left h hc⟩

theorem le_deg0 : Deg0On Pos (fun a b : ℝ => a ≤ b) := by
  intro c hc a b
  exact propext ⟨fun h => le_of_mul_le_mul_left h hc, fun h => mul_le_mul_of_nonneg_left h (le_of_lt hc)⟩

theorem eq_deg0 : Deg0On Pos (fun a b : ℝ => a = b) := by
  intro c hc a b; exact propext (mul_right_inj' (ne_of_gt hc))

theorem sign_deg0 : Deg0UnaryOn Pos (fun a : ℝ => SignType.sign a) := by
  intro c hc a
  simp only [sign_mul, sign_pos hc, one_mul]

/-! ### unary degree 1, powers and roots -/

theorem neg_hom1 : Hom1UnaryOn Pos (fun a : ℝ => -a) := by intro c _ a; ring

theorem abs_hom1 : Hom1UnaryOn Pos (fun a : ℝ => |a|) := by
  intro c hc a
  show |c * a| = c * |a|
  rw [abs_mul, abs_of_pos hc]

theorem square_hom : SquareHom (fun a : ℝ => a * a) := by intro c a; ring

theorem sqrt_degree : DegreeOn Pos (1 / 2) (fun a : ℝ => Real.sqrt a) := by
  intro c hc a
  simp only [RPow.rpow]
  rw [Real.sqrt_mul (le_of_lt hc), Real.sqrt_eq_rpow]
  norm_num

theorem reciprocal_degree : DegreeOn Pos (-1) (fun a : ℝ => a⁻¹) := by
  intro c hc a
  simp only [RPow.rpow]
  rw [mul_inv]
  congr 1
  rw [show ((-1 : ℚ) : ℝ) = -1 by norm_num, Real.rpow_neg_one]

/-- `x ↦ xⁿ` for an integer `n` is of degree `n` -/
theorem zpow_degree (n : ℤ) : DegreeOn Pos (n : ℚ) (fun a : ℝ => a ^ n) := by
  intro c hc a
  simp only [RPow.rpow]
  rw [mul_zpow]
  congr 1
  rw [show (((n : ℚ)) : ℝ) = (n : ℝ) by norm_num, Real.rpow_intCast]

/-! ### the rule-covariance theorems at ℝ with the real kernels: nothing assumed about `F` -/

/-- `add`, `subtract`-like, `maximum`, `minimum`, `hypot`, `remainder` on commensurable real
    quantities: the result is in the left operand's unit and its SI magnitude is the function
    of the SI magnitudes -/
theorem preserve_ufuncs_covariant_real (pre : Prefixes ℝ) (t : Lut ℝ) (u0 u1 : UnitV ℝ)
    (h0 : u0.offset = 0) (h1 : u1.offset = 0) (hd : u0.dim = u1.dim) (hs : 0 < u0.scale) (x0 x1 : ℝ) :
    (∃ o, dispatchBinary UnitV.eqv pre t "add" ⟨some u0, false⟩ ⟨some u1, false⟩ none = .ok o ∧ o.unit = some u0 ∧
      o.si (o.value (fun a b => a + b) x0 x1) = u0.scale * x0 + u1.scale * x1) ∧
    (∃ o, dispatchBinary UnitV.eqv pre t "maximum" ⟨some u0, false⟩ ⟨some u1, false⟩ none = .ok o ∧ o.unit = some u0 ∧
      o.si (o.value (fun a b => max a b) x0 x1) = max (u0.scale * x0) (u1.scale * x1)) ∧
    (∃ o, dispatchBinary UnitV.eqv pre t "minimum" ⟨some u0, false⟩ ⟨some u1, false⟩ none = .ok o ∧ o.unit = some u0 ∧
      o.si (o.value (fun a b => min a b) x0 x1) = min (u0.scale * x0) (u1.scale * x1)) ∧
    (∃ o, dispatchBinary UnitV.eqv pre t "hypot" ⟨some u0, false⟩ ⟨some u1, false⟩ none = .ok o ∧ o.unit = some u0 ∧
      o.si (o.value hypot x0 x1) = hypot (u0.scale * x0) (u1.scale * x1)) ∧
    (∃ o, dispatchBinary UnitV.eqv pre t "remainder" ⟨some u0, false⟩ ⟨some u1, false⟩ none = .ok o ∧ o.unit = some u0 ∧
      o.si (o.value remainder x0 x1) = remainder (u0.scale * x0) (u1.scale * x1)) := by
  have hs0 : u0.scale ≠ 0 := ne_of_gt hs
  refine ⟨?_, ?_, ?_, ?_, ?_⟩
  · obtain ⟨o, a, b, _, c⟩ := preserve_rule_covariant UnitV.eqv eqv_sound pre t "add" (by decide) u0 u1 false false h0 h1 hd hs0
    exact ⟨o, a, b, c Pos _ add_hom1 hs x0 x1⟩
  · obtain ⟨o, a, b, _, c⟩ := preserve_rule_covariant UnitV.eqv eqv_sound pre t "maximum" (by decide) u0 u1 false false h0 h1 hd hs0
    exact ⟨o, a, b, c Pos _ max_hom1 hs x0 x1⟩
  · obtain ⟨o, a, b, _, c⟩ := preserve_rule_covariant UnitV.eqv eqv_sound pre t "minimum" (by decide) u0 u1 false false h0 h1 hd hs0
    exact ⟨o, a, b, c Pos _ min_hom1 hs x0 x1⟩
  · obtain ⟨o, a, b, _, c⟩ := preserve_rule_covariant UnitV.eqv eqv_sound pre t "hypot" (by decide) u0 u1 false false h0 h1 hd hs0
    exact ⟨o, a, b, c Pos _ hypot_hom1 hs x0 x1⟩
  · obtain ⟨o, a, b, _, c⟩ := preserve_rule_covariant UnitV.eqv eqv_sound pre t "remainder" (by decide) u0 u1 false false h0 h1 hd hs0
    exact ⟨o, a, b, c Pos _ remainder_hom1 hs x0 x1⟩

/-- `subtract` away from the temperature dimension -/
theorem subtract_covariant_real (pre : Prefixes ℝ) (t : Lut ℝ) (u0 u1 : UnitV ℝ)
    (h0 : u0.offset = 0) (h1 : u1.offset = 0) (hd : u0.dim = u1.dim) (hT : isTemperature u0 = false)
    (hs : 0 < u0.scale) (x0 x1 : ℝ) :
    ∃ o, dispatchBinary UnitV.eqv pre t "subtract" ⟨some u0, false⟩ ⟨some u1, false⟩ none = .ok o ∧ o.unit = some u0 ∧
      o.si (o.value (fun a b => a - b) x0 x1) = u0.scale * x0 - u1.scale * x1 := by
  obtain ⟨o, a, b, _, c⟩ := difference_rule_covariant UnitV.eqv eqv_sound pre t "subtract" (by decide) u0 u1 false false
    h0 h1 hd hT (ne_of_gt hs)
  exact ⟨o, a, b, c Pos _ sub_hom1 hs x0 x1⟩

/-- `multiply` and `divide` of real quantities, whatever was cancelled -/
theorem multiply_divide_covariant_real (pre : Prefixes ℝ) (t : Lut ℝ) (u0 u1 : UnitV ℝ)
    (h0 : u0.offset = 0) (h1 : u1.offset = 0) (hs1 : 0 < u1.scale) (x0 x1 : ℝ) (o : Out ℝ) (hm : o.mul ≠ 0) :
    (dispatchBinary UnitV.eqv pre t "multiply" ⟨some u0, false⟩ ⟨some u1, false⟩ none = .ok o →
      o.si (o.value (fun a b => a * b) x0 x1) = (u0.scale * x0) * (u1.scale * x1)) ∧
    (dispatchBinary UnitV.eqv pre t "divide" ⟨some u0, false⟩ ⟨some u1, false⟩ none = .ok o →
      o.si (o.value (fun a b => a / b) x0 x1) = (u0.scale * x0) / (u1.scale * x1)) := by
  constructor
  · intro h
    obtain ⟨_, _, _, _, c⟩ := multiply_rule_covariant UnitV.eqv pre t "multiply" (by decide) u0 u1 false false h0 h1 o h hm
    exact c _ mul_bihom x0 x1
  · intro h
    obtain ⟨_, _, _, _, c⟩ := divide_rule_covariant UnitV.eqv pre t "divide" (by decide) u0 u1 false false h0 h1 o h hm
    exact c Pos _ div_ratio hs1 x0 x1

/-- the orderings of real quantities are those of their SI magnitudes -/
theorem less_covariant_real (pre : Prefixes ℝ) (t : Lut ℝ) (u0 u1 : UnitV ℝ)
    (h0 : u0.offset = 0) (h1 : u1.offset = 0) (hd : u0.dim = u1.dim) (hs : 0 < u0.scale) (x0 x1 : ℝ) :
    ∃ o, dispatchBinary UnitV.eqv pre t "less" ⟨some u0, false⟩ ⟨some u1, false⟩ none = .ok o ∧ o.unit = none ∧
      (x0 < o.arg1 x1 ↔ u0.scale * x0 < u1.scale * x1) := by
  obtain ⟨o, a, _, _, _, b, c⟩ := comparison_covariant UnitV.eqv eqv_sound pre t "less" .comparison (by decide)
    (Or.inl rfl) u0 u1 false false h0 h1 hd (ne_of_gt hs) (fun h => by cases h)
  refine ⟨o, a, by simpa using b, ?_⟩
  have := c Pos (fun a b : ℝ => a < b) lt_deg0 hs x0 x1
  exact Iff.of_eq this

/-! ### the program-level theorem at ℝ -/

/-- over the reals, with `P = (0 < ·)` and `Real.rpow`: every well-formed program on good
    quantities returns the reference interpreter's SI magnitude and dimension -/
theorem program_covariant_real (pre : Prefixes ℝ) (t : Lut ℝ) (env : Nat → UnitV ℝ × ℝ)
    (genv : ∀ i, Good Pos pre t (env i).1) (p : Prog ℝ) (wf : p.WF Pos (fun i => (env i).1.dim))
    (u : UnitV ℝ) (v : ℝ) (h : p.evalModel UnitV.eqv pre t env = .ok (u, v)) :
    u.scale * v = p.evalRef (fun i => (env i).1.scale * (env i).2)
      ∧ u.dim = p.dimRef (fun i => (env i).1.dim) :=
  (program_covariant UnitV.eqv eqv_sound Pos real_rpow_laws (fun _ hx => ne_of_gt hx) pre t env genv p wf u v h).2

/-- non-vacuity of the well-formedness hypothesis: `hypot(x₀ + x₁, x₁) * x₁ / |x₀|` with the real
    kernels is a well-formed program for leaves of any non-temperature dimension -/
example (dim : Nat → Dim) :
    (Prog.bin "divide" (fun a b : ℝ => a / b)
      (.bin "multiply" (fun a b => a * b)
        (.bin "hypot" hypot (.bin "add" (fun a b => a + b) (.leaf 0) (.leaf 1)) (.leaf 1)) (.leaf 1))
      (.un "absolute" (fun a => |a|) (.leaf 0))).WF Pos dim := by
  simp only [Prog.WF]
  refine ⟨⟨⟨⟨trivial, trivial, Or.inl ⟨by decide, by decide, add_hom1⟩⟩, trivial, Or.inl ⟨by decide, by decide, hypot_hom1⟩⟩,
    trivial, Or.inr (Or.inr (Or.inl ⟨by decide, by decide, mul_bihom⟩))⟩,
    ⟨trivial, by decide, by decide, abs_hom1, by decide, by decide⟩,
    Or.inr (Or.inr (Or.inr ⟨by decide, by decide, div_ratio⟩))⟩

/-! ### `Unit.__eq__` as executed: `math.isclose` with relative tolerance 1e-9, not equality

The covariance theorems of `UnytProofs/C04.lean` take `UeqSound` — units the dispatcher calls equal have
equal scales.  That holds of `UnitV.eqv` but not of the comparison the library (and the driver, `eqFloat`)
executes: two commensurable units whose scales differ by less than 1e-9 relative compare equal and the second
operand is *not* rescaled (`1 aa + 1 bb` with `bb = (1 + 2e-10) m` gives `2.0 aa`).  What is true of the
executed comparison is covariance up to that tolerance: -/

/-- what `math.isclose(rel_tol = ε)` on the scales (and equal dimensions) guarantees -/
def UeqTol (ε : ℝ) (ueq : UnitV ℝ → UnitV ℝ → Bool) : Prop :=
  ∀ a b, ueq a b = true → |a.scale - b.scale| ≤ ε * max |a.scale| |b.scale| ∧ a.dim = b.dim

/-- `Unit.__eq__` over ℝ with relative tolerance `ε` -/
noncomputable def eqTol (ε : ℝ) (u v : UnitV ℝ) : Bool :=
  decide (|u.scale - v.scale| ≤ ε * max |u.scale| |v.scale|)
    && decide (|u.offset - v.offset| ≤ ε * max |u.offset| |v.offset|) && u.dim == v.dim

theorem eqTol_tol (ε : ℝ) : UeqTol ε (eqTol ε) := by
  intro a b h
  simp only [eqTol, Bool.and_eq_true, decide_eq_true_eq, beq_iff_eq] at h
  exact ⟨h.1.1, h.2⟩

/-- 1-Lipschitz in the second argument (`+`, `−`, `max`, `min`) -/
def Lip2 (F : ℝ → ℝ → ℝ) : Prop := ∀ a b b', |F a b - F a b'| ≤ |b - b'|

theorem add_lip2 : Lip2 (fun a b => a + b) := by intro a b b'; simp
theorem sub_lip2 : Lip2 (fun a b => a - b) := by
  intro a b b'
  have : a - b - (a - b') = -(b - b') := by ring
  show |a - b - (a - b')| ≤ |b - b'|
  rw [this, abs_neg]
theorem max_lip2 : Lip2 (fun a b => max a b) := by
  intro a b b'
  show |max a b - max a b'| ≤ |b - b'|
  rw [max_comm a b, max_comm a b']; exact abs_max_sub_max_le_abs b b' a

/-- **Preserve-rule covariance for the executed unit comparison.**  With `Unit.__eq__` a relative
    closeness test of tolerance `ε` (1e-9 in unyt), the result of a sum-like ufunc is labelled with the
    left operand's unit and its SI magnitude differs from the kernel of the SI magnitudes by at most
    `ε · max(|s₀|, |s₁|) · |x₁|` — exactly 0 whenever the units do not compare equal. -/
theorem preserve_rule_covariant_isclose (ε : ℝ) (hε : 0 ≤ ε) (ueq : UnitV ℝ → UnitV ℝ → Bool)
    (hueq : UeqTol ε ueq) (pre : Prefixes ℝ) (t : Lut ℝ) (f : String) (hf : ruleOf f = some .preserve)
    (u0 u1 : UnitV ℝ) (z0 z1 : Bool) (h0 : u0.offset = 0) (h1 : u1.offset = 0) (hd : u0.dim = u1.dim)
    (hs : 0 < u0.scale) :
    ∃ o, dispatchBinary ueq pre t f ⟨some u0, z0⟩ ⟨some u1, z1⟩ none = .ok o ∧ o.unit = some u0 ∧
      ∀ (F : ℝ → ℝ → ℝ), Hom1On Pos F → Lip2 F → ∀ x0 x1,
        |o.si (o.value F x0 x1) - F (u0.scale * x0) (u1.scale * x1)|
          ≤ ε * max |u0.scale| |u1.scale| * |x1| := by
  have hc : Rule.preserve.converts = true := by decide
  have hpm : Rule.preserve.postMul = false := by decide
  have hp := preserveUnits_zero u0 u1 h1
  have hs0 : u0.scale ≠ 0 := ne_of_gt hs
  have hbound : ∀ x1 : ℝ, 0 ≤ ε * max |u0.scale| |u1.scale| * |x1| := fun x1 =>
    mul_nonneg (mul_nonneg hε (le_max_of_le_left (abs_nonneg _))) (abs_nonneg _)
  cases he : ueq u0 u1
  · refine ⟨⟨some u0, u1.scale / u0.scale, 1, 1, none⟩, ?_, rfl, ?_⟩
    · simp [dispatchBinary, binaryRule, effective_of_ne_floorDivide, hf, h1, hc, hpm, he, hd,
        conv_zero_offsets pre t u1 u0 h1 h0 hd.symm, hp]
    · intro F hF _ x0 x1
      have key : u0.scale * (1 * (F x0 (x1 * (u1.scale / u0.scale)) * 1)) = F (u0.scale * x0) (u1.scale * x1) := by
        have := hF _ hs x0 (x1 * (u1.scale / u0.scale))
        have e : u0.scale * (x1 * (u1.scale / u0.scale)) = u1.scale * x1 := by field_simp
        rw [e] at this
        rw [this]; ring
      simp only [Out.si, Out.value, Out.arg1, key, sub_self, abs_zero]
      exact hbound x1
  · obtain ⟨e1, _⟩ := hueq _ _ he
    refine ⟨⟨some u0, 1, 1, 1, none⟩, ?_, rfl, ?_⟩
    · simp [dispatchBinary, binaryRule, effective_of_ne_floorDivide, hf, h1, hc, hpm, he, hp]
    · intro F hF hL x0 x1
      have key : u0.scale * (1 * (F x0 (x1 * 1) * 1)) = F (u0.scale * x0) (u0.scale * x1) := by
        have := hF _ hs x0 x1
        rw [this]; ring_nf
      simp only [Out.si, Out.value, Out.arg1, key]
      calc |F (u0.scale * x0) (u0.scale * x1) - F (u0.scale * x0) (u1.scale * x1)|
          ≤ |u0.scale * x1 - u1.scale * x1| := hL _ _ _
        _ = |u0.scale - u1.scale| * |x1| := by rw [← sub_mul, abs_mul]
        _ ≤ ε * max |u0.scale| |u1.scale| * |x1| := mul_le_mul_of_nonneg_right e1 (abs_nonneg _)

/-- the instance the library runs, for `add`: at most 1e-9 relative to the second operand -/
example (pre : Prefixes ℝ) (t : Lut ℝ) (u0 u1 : UnitV ℝ) (h0 : u0.offset = 0) (h1 : u1.offset = 0)
    (hd : u0.dim = u1.dim) (hs : 0 < u0.scale) (x0 x1 : ℝ) :
    ∃ o, dispatchBinary (eqTol 1e-9) pre t "add" ⟨some u0, false⟩ ⟨some u1, false⟩ none = .ok o ∧
      |o.si (o.value (fun a b => a + b) x0 x1) - (u0.scale * x0 + u1.scale * x1)|
        ≤ 1e-9 * max |u0.scale| |u1.scale| * |x1| := by
  obtain ⟨o, a, _, c⟩ := preserve_rule_covariant_isclose 1e-9 (by norm_num) (eqTol 1e-9) (eqTol_tol _) pre t "add"
    (by decide) u0 u1 false false h0 h1 hd hs
  exact ⟨o, a, c _ add_hom1 add_lip2 x0 x1⟩

end Unyt.C04
