/-
  C07 over the reals (single Mathlib module): `degree_rule_covariant` instantiated with `Real.rpow`
  on the positive reals, and its converse — a label whose exponent is not the homogeneity degree
  breaks covariance for EVERY re-expression with a factor ≠ 1 and every non-zero value.
-/
import Mathlib.Analysis.SpecialFunctions.Pow.Real
import UnytProofs.Real.RPow
import UnytProofs.C07

namespace Unyt.C07R
open Unyt Unyt.UR

/-- covariance over ℝ: operands in units of scale `u g > 0`, re-expressed in units of scale `u' g > 0`
    (numbers multiplied by `u g / u' g`); a component homogeneous of multi-degree `d`, labelled
    `Π u_g^{d_g}`, has the same SI magnitude in both runs -/
theorem degree_rule_covariant_real (u u' : String → ℝ) (d : List (String × Rat)) (r r' : ℝ)
    (hu : ∀ g, 0 < u g) (hu' : ∀ g, 0 < u' g)
    (hhom : r' = labelScale (fun g => u g / u' g) d * r) :
    labelScale u' d * r' = labelScale u d * r := by
  refine C07.degree_rule_covariant (fun x : ℝ => 0 < x) real_rpow_laws u u' (fun g => u g / u' g) d r r'
    (fun g => ⟨hu' g, div_pos (hu g) (hu' g)⟩) (fun g => ?_) hhom
  have := (hu' g).ne'
  field_simp

/-- non-vacuity: metres → centimetres for a determinant of a 3×3 matrix (degree 3) -/
example (r : ℝ) :
    labelScale (fun _ => (1 / 100 : ℝ)) [("0", 3)] * (labelScale (fun _ => (1 : ℝ) / (1 / 100)) [("0", 3)] * r)
      = labelScale (fun _ => (1 : ℝ)) [("0", 3)] * r :=
  degree_rule_covariant_real (fun _ => 1) (fun _ => 1 / 100) [("0", 3)] r _ (fun _ => by norm_num) (fun _ => by norm_num) rfl

/-- the executable label of `np.linalg.inv`'s row (exponent −1) over ℝ: non-vacuity of `labelled_leaf_covariant` -/
example (env : Env) (u u' x : ℝ) (hu : 0 < u) (hu' : 0 < u') :
    ∃ s s', (Leaf.scale (fun _ => u) env ⟨true, "unyt_array", [("0", .const (-1))], 1⟩) = some s
      ∧ (Leaf.scale (fun _ => u') env ⟨true, "unyt_array", [("0", .const (-1))], 1⟩) = some s'
      ∧ s' * (labelScale (fun _ => u / u') [("0", -1)] * x) = s * x := by
  refine C07.labelled_leaf_covariant (fun x : ℝ => 0 < x) real_rpow_laws _ env [("0", -1)] (by simp [Leaf.exponents, Expo.eval])
    (fun _ => u) (fun _ => u') (fun _ => u / u') x _ (fun _ => ⟨hu', div_pos hu hu'⟩) (fun _ => ?_) rfl
  have := hu'.ne'
  field_simp

/-- converse: one operand group, label exponent `e`, true degree `d ≠ e`; re-expressing with any factor
    `lam ≠ 1` changes the SI magnitude of every non-zero result -/
theorem wrong_degree_breaks_covariance (u' lam r : ℝ) (d e : ℚ)
    (hu' : 0 < u') (hl : 0 < lam) (hl1 : lam ≠ 1) (hr : r ≠ 0) (hde : d ≠ e) :
    labelScale (fun _ => u') [("0", e)] * (labelScale (fun _ => lam) [("0", d)] * r)
      ≠ labelScale (fun _ => lam * u') [("0", e)] * r := by
  simp only [labelScale, RPow.rpow, mul_one]
  intro h
  rw [Real.mul_rpow hl.le hu'.le] at h
  have hup : (0 : ℝ) < u' ^ (e : ℝ) := Real.rpow_pos_of_pos hu' _
  have h2 : lam ^ (d : ℝ) = lam ^ (e : ℝ) := by
    have h3 : u' ^ (e : ℝ) * r * lam ^ (d : ℝ) = u' ^ (e : ℝ) * r * lam ^ (e : ℝ) := by linarith
    exact mul_left_cancel₀ (mul_ne_zero hup.ne' hr) h3
  have hlog : Real.log lam ≠ 0 := Real.log_ne_zero_of_pos_of_ne_one hl hl1
  have h4 := congrArg Real.log h2
  rw [Real.log_rpow hl, Real.log_rpow hl] at h4
  have h5 : (d : ℝ) = (e : ℝ) := mul_right_cancel₀ hlog h4
  exact hde (by exact_mod_cast h5)

/-- non-vacuity: `np.einsum('i,i', x, x)` — degree 2 labelled with exponent 1, metres → centimetres -/
example : labelScale (fun _ => (1 / 100 : ℝ)) [("0", 1)] * (labelScale (fun _ => (100 : ℝ)) [("0", 2)] * 1)
    ≠ labelScale (fun _ => (100 : ℝ) * (1 / 100)) [("0", 1)] * 1 :=
  wrong_degree_breaks_covariance (1 / 100) 100 1 2 1 (by norm_num) (by norm_num) (by norm_num) (by norm_num) (by norm_num)

/-! ### all hypotheses of `C07_partial_property` hold jointly, over ℝ, on a row of the regenerated table -/

/-- a concrete call: a 3×3 operand `a`, a 3×3 operand `b`, result of 9 elements -/
def env0 : Env := ⟨fun _ => some [3, 3], 9, fun _ => none, fun _ => 0⟩

/-- every hypothesis of `C07_partial_property` that is not an equation between named terms, as a Boolean -/
def witnessB (r : Row) : Bool :=
  r.func == "numpy.linalg.solve" && !r.raised && (Ref.exclC07.all fun e => e.1 != r.func) &&
  match Ref.expected r.callForm, r.leaves with
  | .leaves [.units l], [leaf] =>
    (r.groups.all fun g =>
      match expectedExpo r l g with
      | some e => ((expoOf leaf.expo g).reducedParams ++ e.reducedParams).isEmpty
      | none => true)
    && decide ((leaf.expo.map (·.1)).Nodup) && (C07.refDegrees r l leaf env0).isSome
  | _, _ => false

theorem property_hypotheses_jointly_satisfiable :
    ∃ r ∈ Generated.ruleRows, ∃ leaf ∈ r.leaves, ∃ deg,
      C07.CovariantLeaf (fun x : ℝ => 0 < x) leaf env0 deg := by
  have h : (Generated.ruleRows.any witnessB) = true := by decide +kernel
  obtain ⟨r, hr, hb⟩ := List.any_eq_true.mp h
  unfold witnessB at hb
  split at hb
  · rename_i l leaf hexp hleaves
    simp only [Bool.and_eq_true, Bool.not_eq_true', decide_eq_true_eq, List.all_eq_true] at hb
    obtain ⟨⟨⟨_, hnr⟩, hguard⟩, ⟨hvb, hnodup⟩, hsome⟩ := hb
    obtain ⟨deg, hdeg⟩ := Option.isSome_iff_exists.mp hsome
    refine ⟨r, hr, leaf, by rw [hleaves]; exact List.mem_singleton.mpr rfl, deg, ?_⟩
    refine C07.C07_partial_property (fun x : ℝ => 0 < x) real_rpow_laws r hr
      (by rw [List.all_eq_true]; exact hguard) hnr [.units l] hexp (.units l, leaf)
      (by rw [hleaves]; simp) l rfl env0 ?_ hnodup deg hdeg
    intro g hg e he p hp
    have := hvb g hg
    simp only [he, List.isEmpty_iff] at this
    rw [this] at hp
    simp at hp
  · simp at hb

end Unyt.C07R
