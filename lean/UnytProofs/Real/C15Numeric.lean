/-
  Bridge between the exact-rational evaluation of a normal form with a rational stand-in for π
  (`Mono.evalAtPi`, decided by the kernel) and its real value: for a monomial `c · πᵏ · rest`
  with integer `k`, the real value lies between the values computed at the two ends of a
  rational enclosure of π.  (C15: relations between independent literals, and the agreement of
  the table doubles with the symbolic definitions.)
-/
import UnytProofs.Real.C15Mono
import UnytModel.TableCheck

namespace Unyt.C15Real

/-- the exponent function splits the value: `∏ = v(π)^(exp π) · ∏ (π-free part)` -/
theorem evalA_split_pi (v : Atom → ℝ) (hv : ∀ a, 0 < v a) (m : Atoms) :
    evalA v m = v .pi ^ ((m.exp .pi : ℚ) : ℝ) * evalA v m.dropPi := by
  induction m with
  | nil => simp [evalA, Atoms.exp, Atoms.dropPi]
  | cons p rest ih =>
    obtain ⟨a, e⟩ := p
    by_cases ha : a = Atom.pi
    · subst ha
      have hd : Atoms.dropPi ((Atom.pi, e) :: rest) = Atoms.dropPi rest := by
        simp [Atoms.dropPi, List.filter]
      have he : Atoms.exp ((Atom.pi, e) :: rest) Atom.pi = e + Atoms.exp rest Atom.pi := by
        simp [Atoms.exp]
      rw [hd, he]
      simp only [evalA, ih]
      push_cast
      rw [Real.rpow_add (hv _)]
      ring
    · have hb : (a != Atom.pi) = true := by simp [ha]
      have hd : Atoms.dropPi ((a, e) :: rest) = (a, e) :: Atoms.dropPi rest := by
        simp [Atoms.dropPi, List.filter, hb]
      have he : Atoms.exp ((a, e) :: rest) Atom.pi = Atoms.exp rest Atom.pi := by
        have : ¬ Atom.pi = a := fun h => ha h.symm
        simp [Atoms.exp, this]
      rw [hd, he]
      simp only [evalA, ih]
      ring

theorem qpowInt_cast (b e r : ℚ) (h : qpowInt b e = some r) :
    e.den = 1 ∧ (r : ℝ) = (b : ℝ) ^ (e.num : ℤ) := by
  unfold qpowInt at h
  split at h
  · rename_i hd
    cases h
    exact ⟨hd, zpowK_cast b e.num⟩
  · cases h

/-- exact evaluation of a π-free atom list agrees with the real value when the environment
    assigns the listed rationals -/
theorem evalQ_sound (ρ : String → ℝ) (env : List (String × ℚ))
    (henv : ∀ s q, env.lookup s = some q → ρ s = (q : ℝ)) :
    ∀ (m : Atoms) (r : ℚ), m.evalQ env = some r → evalA (atomVal ρ) m = (r : ℝ) := by
  intro m
  induction m with
  | nil => intro r h; simp only [Atoms.evalQ, Option.some.injEq] at h; subst h; simp [evalA]
  | cons p rest ih =>
    intro r h
    obtain ⟨a, e⟩ := p
    simp only [Atoms.evalQ] at h
    -- the base value of the head atom
    have key : ∀ (b : ℚ), atomVal ρ a = (b : ℝ) → ∀ r', Atoms.evalQ env rest = some r' →
        ∀ x, qpowInt b e = some x → r = x * r' → evalA (atomVal ρ) ((a, e) :: rest) = (r : ℝ) := by
      intro b hb r' hr' x hx hr
      obtain ⟨hd, hxr⟩ := qpowInt_cast b e x hx
      simp only [evalA, ih r' hr', hb, hr]
      rw [rat_cast_of_den_one e hd, Real.rpow_intCast]
      push_cast
      rw [hxr]
    cases a with
    | pi => simp at h
    | num n =>
      by_cases hn : n = 0
      · simp [hn] at h
      · simp only [hn, if_false] at h
        cases hr' : Atoms.evalQ env rest with
        | none => simp [hr'] at h
        | some r' =>
          simp only [hr'] at h
          cases hx : qpowInt (n : ℚ) e with
          | none => simp [hx] at h
          | some x =>
            simp only [hx, Option.map_some, Option.some.injEq] at h
            refine key (n : ℚ) ?_ r' hr' x hx h.symm
            simp [atomVal, hn]
    | name s =>
      cases hb : env.lookup s with
      | none => simp [hb] at h
      | some b =>
        cases hr' : Atoms.evalQ env rest with
        | none => simp [hb, hr'] at h
        | some r' =>
          simp only [hb, hr'] at h
          cases hx : qpowInt b e with
          | none => simp [hx] at h
          | some x =>
            simp only [hx, Option.map_some, Option.some.injEq] at h
            exact key b (by simp [atomVal, henv s b hb]) r' hr' x hx h.symm

/-- integer powers are monotone or antitone on the positive reals -/
theorem zpow_between (lo hi x : ℝ) (hlo : 0 < lo) (h1 : lo ≤ x) (h2 : x ≤ hi) (k : ℤ) :
    min (lo ^ k) (hi ^ k) ≤ x ^ k ∧ x ^ k ≤ max (lo ^ k) (hi ^ k) := by
  have hx : 0 < x := lt_of_lt_of_le hlo h1
  have hhi : 0 < hi := lt_of_lt_of_le hx h2
  cases k with
  | ofNat n =>
    simp only [Int.ofNat_eq_natCast, zpow_natCast]
    have a := pow_le_pow_left₀ hlo.le h1 n
    have b := pow_le_pow_left₀ hx.le h2 n
    exact ⟨le_trans (min_le_left _ _) a, le_trans b (le_max_right _ _)⟩
  | negSucc n =>
    simp only [zpow_negSucc]
    have a := pow_le_pow_left₀ hlo.le h1 (n + 1)
    have b := pow_le_pow_left₀ hx.le h2 (n + 1)
    have pl : 0 < lo ^ (n + 1) := pow_pos hlo _
    have px : 0 < x ^ (n + 1) := pow_pos hx _
    have a' : (x ^ (n + 1))⁻¹ ≤ (lo ^ (n + 1))⁻¹ := inv_anti₀ pl a
    have b' : (hi ^ (n + 1))⁻¹ ≤ (x ^ (n + 1))⁻¹ := inv_anti₀ px b
    exact ⟨le_trans (min_le_right _ _) b', le_trans a' (le_max_left _ _)⟩

/-- a linear image of a point between two others lies between their images -/
theorem mul_between (c t t1 t2 : ℝ) (h1 : min t1 t2 ≤ t) (h2 : t ≤ max t1 t2) :
    min (c * t1) (c * t2) ≤ c * t ∧ c * t ≤ max (c * t1) (c * t2) := by
  rcases le_total 0 c with hc | hc
  · rcases le_total t1 t2 with h | h
    · rw [min_eq_left h] at h1; rw [max_eq_right h] at h2
      exact ⟨le_trans (min_le_left _ _) (mul_le_mul_of_nonneg_left h1 hc),
             le_trans (mul_le_mul_of_nonneg_left h2 hc) (le_max_right _ _)⟩
    · rw [min_eq_right h] at h1; rw [max_eq_left h] at h2
      exact ⟨le_trans (min_le_right _ _) (mul_le_mul_of_nonneg_left h1 hc),
             le_trans (mul_le_mul_of_nonneg_left h2 hc) (le_max_left _ _)⟩
  · rcases le_total t1 t2 with h | h
    · rw [min_eq_left h] at h1; rw [max_eq_right h] at h2
      exact ⟨le_trans (min_le_right _ _) (mul_le_mul_of_nonpos_left h2 hc),
             le_trans (mul_le_mul_of_nonpos_left h1 hc) (le_max_left _ _)⟩
    · rw [min_eq_right h] at h1; rw [max_eq_left h] at h2
      exact ⟨le_trans (min_le_left _ _) (mul_le_mul_of_nonpos_left h2 hc),
             le_trans (mul_le_mul_of_nonpos_left h1 hc) (le_max_right _ _)⟩

/-- the real value of a monomial lies between its exact values at the two ends of an
    enclosure of π -/
theorem evalAtPi_encloses (ρ : String → ℝ) (hρ : ∀ s, 0 < ρ s) (env : List (String × ℚ))
    (henv : ∀ s q, env.lookup s = some q → ρ s = (q : ℝ))
    (m : Mono) (lo hi vlo vhi : ℚ) (hlo0 : 0 < lo)
    (hlo : (lo : ℝ) ≤ Real.pi) (hhi : Real.pi ≤ (hi : ℝ))
    (h1 : m.evalAtPi lo env = some vlo) (h2 : m.evalAtPi hi env = some vhi) :
    min (vlo : ℝ) (vhi : ℝ) ≤ evalM (atomVal ρ) m ∧ evalM (atomVal ρ) m ≤ max (vlo : ℝ) (vhi : ℝ) := by
  have hv := atomVal_pos ρ hρ
  unfold Mono.evalAtPi at h1 h2
  cases hr : Atoms.evalQ env m.atoms.dropPi with
  | none => simp [hr] at h1
  | some r =>
    cases hp1 : qpowInt lo (m.atoms.exp .pi) with
    | none => simp [hp1] at h1
    | some p1 =>
      cases hp2 : qpowInt hi (m.atoms.exp .pi) with
      | none => simp [hp2] at h2
      | some p2 =>
        simp only [hr, hp1, hp2, Option.some.injEq] at h1 h2
        obtain ⟨hd, e1⟩ := qpowInt_cast _ _ _ hp1
        obtain ⟨_, e2⟩ := qpowInt_cast _ _ _ hp2
        have hR := evalQ_sound ρ env henv _ r hr
        have hval : evalM (atomVal ρ) m
            = ((m.coef : ℝ) * (r : ℝ)) * Real.pi ^ ((m.atoms.exp .pi).num : ℤ) := by
          simp only [evalM]
          rw [evalA_split_pi _ hv, hR, rat_cast_of_den_one _ hd, Real.rpow_intCast]
          simp only [atomVal]
          ring
        have hvl : (vlo : ℝ) = ((m.coef : ℝ) * (r : ℝ)) * (lo : ℝ) ^ ((m.atoms.exp .pi).num : ℤ) := by
          rw [← h1]; push_cast; rw [e1]; ring
        have hvh : (vhi : ℝ) = ((m.coef : ℝ) * (r : ℝ)) * (hi : ℝ) ^ ((m.atoms.exp .pi).num : ℤ) := by
          rw [← h2]; push_cast; rw [e2]; ring
        have hlo0R : (0 : ℝ) < (lo : ℝ) := by exact_mod_cast hlo0
        obtain ⟨b1, b2⟩ := zpow_between (lo : ℝ) (hi : ℝ) Real.pi hlo0R hlo hhi ((m.atoms.exp .pi).num)
        rw [hval, hvl, hvh]
        exact mul_between _ _ _ _ b1 b2


/-! ### from the Boolean checks to real inequalities -/

theorem absR_cast (q : ℚ) : ((absR q : ℚ) : ℝ) = |(q : ℝ)| := by
  unfold absR
  split
  · rename_i h
    have : (q : ℝ) < 0 := by exact_mod_cast h
    rw [abs_of_neg this]; push_cast; ring
  · rename_i h
    have : (0 : ℝ) ≤ (q : ℝ) := by exact_mod_cast not_lt.mp h
    rw [abs_of_nonneg this]

theorem within_cast (v r t : ℚ) (h : within v r t = true) :
    |(v : ℝ) - (r : ℝ)| ≤ (t : ℝ) * |(r : ℝ)| := by
  unfold within at h
  have h' : absR (v - r) ≤ t * absR r := of_decide_eq_true h
  have : ((absR (v - r) : ℚ) : ℝ) ≤ ((t * absR r : ℚ) : ℝ) := by exact_mod_cast h'
  rw [absR_cast] at this
  push_cast at this
  rw [absR_cast] at this
  exact this

theorem abs_sub_between (x a b c ε : ℝ) (h1 : min a b ≤ x) (h2 : x ≤ max a b)
    (ha : |a - c| ≤ ε) (hb : |b - c| ≤ ε) : |x - c| ≤ ε := by
  rw [abs_le] at ha hb ⊢
  rcases le_total a b with h | h
  · rw [min_eq_left h] at h1; rw [max_eq_right h] at h2
    constructor <;> linarith [ha.1, ha.2, hb.1, hb.2]
  · rw [min_eq_right h] at h1; rw [max_eq_left h] at h2
    constructor <;> linarith [ha.1, ha.2, hb.1, hb.2]

theorem quot_eval (v : Atom → ℝ) (hv : ∀ a, 0 < v a) (m n : Mono) :
    evalM v (m.quot n) = evalM v m / evalM v n := by
  simp only [evalM, Mono.quot, evalA_mul v hv, evalA_pow v hv]
  have h1 : ((-1 : ℚ) : ℝ) = -1 := by norm_num
  have hB := evalA_pos v hv n.atoms
  rw [h1, Real.rpow_neg_one]
  push_cast
  by_cases hn : (n.coef : ℝ) = 0
  · simp [hn]
  · field_simp

theorem square_eval (v : Atom → ℝ) (hv : ∀ a, 0 < v a) (m : Mono) :
    evalM v m.square = (evalM v m) ^ 2 := by
  simp only [evalM, Mono.square, evalA_pow v hv]
  have h2 : ((2 : ℚ) : ℝ) = ((2 : ℕ) : ℝ) := by norm_num
  rw [h2, Real.rpow_natCast]
  push_cast
  ring

section enclosure
variable (ρ : String → ℝ) (hρ : ∀ s, 0 < ρ s) (env : List (String × ℚ))
  (henv : ∀ s q, env.lookup s = some q → ρ s = (q : ℝ))
  (lo hi : ℚ) (hlo0 : 0 < lo) (hlo : (lo : ℝ) ≤ Real.pi) (hhi : Real.pi ≤ (hi : ℝ))
include hρ henv hlo0 hlo hhi

/-- the kernel-checked ratio test implies the real inequality `|a/b − 1| ≤ tol` -/
theorem ratioAtPi_sound (a b : CExpr) (v1 v2 tol : ℚ)
    (h1 : ratioAtPi env lo a b = some v1) (h2 : ratioAtPi env hi a b = some v2)
    (w1 : within v1 1 tol = true) (w2 : within v2 1 tol = true) :
    |a.eval ρ / b.eval ρ - 1| ≤ (tol : ℝ) := by
  have hv := atomVal_pos ρ hρ
  unfold ratioAtPi at h1 h2
  cases ha : norm a with
  | none => simp [ha] at h1
  | some m =>
    cases hb : norm b with
    | none => simp [ha, hb] at h1
    | some n =>
      simp only [ha, hb] at h1 h2
      split at h1
      · cases h1
      · rw [if_neg (by assumption)] at h2
        obtain ⟨e1, e2⟩ := evalAtPi_encloses ρ hρ env henv (m.quot n) lo hi v1 v2 hlo0 hlo hhi h1 h2
        rw [norm_sound ρ hρ a m ha, norm_sound ρ hρ b n hb, ← quot_eval _ hv]
        have c1 := within_cast v1 1 tol w1
        have c2 := within_cast v2 1 tol w2
        simp only [Rat.cast_one, abs_one, mul_one] at c1 c2
        exact abs_sub_between _ _ _ _ _ e1 e2 c1 c2

/-- the kernel-checked square test implies `|e² − dd| ≤ t·|dd|` over ℝ -/
theorem squareAtPi_sound (e : CExpr) (s1 s2 dd t : ℚ)
    (h1 : squareAtPi env lo e = some s1) (h2 : squareAtPi env hi e = some s2)
    (w1 : within s1 dd t = true) (w2 : within s2 dd t = true) :
    |(e.eval ρ) ^ 2 - (dd : ℝ)| ≤ (t : ℝ) * |(dd : ℝ)| := by
  have hv := atomVal_pos ρ hρ
  unfold squareAtPi at h1 h2
  cases ha : norm e with
  | none => simp [ha] at h1
  | some m =>
    simp only [ha] at h1 h2
    obtain ⟨e1, e2⟩ := evalAtPi_encloses ρ hρ env henv m.square lo hi s1 s2 hlo0 hlo hhi h1 h2
    rw [norm_sound ρ hρ e m ha, ← square_eval _ hv]
    exact abs_sub_between _ _ _ _ _ e1 e2 (within_cast s1 dd t w1) (within_cast s2 dd t w2)

end enclosure

end Unyt.C15Real
