/-
  C10 over ℝ, part 2 — `user_system_usable` with every hypothesis discharged: the constructor
  model accepts `UnitSystem("coef", 2*m, 3*kg, 5*s)` over the regenerated table cast to ℝ, the
  hypothesis `NamesAgree` holds for that table (transported from the kernel-decided
  `builtin_names_agree`), `hcanon` holds for the eight units, and the theorem yields the same
  well-formed system as `coef_real_WF`.  (Thorough tier: `builtin_names_agree` is decided there.)
-/
import UnytProofs.Real.C10Real
import UnytProofs.C10Pre

set_option linter.unusedSectionVars false

namespace Unyt.C10
open Unyt UExpr

noncomputable section

/-- the eight constructor arguments of the coefficient system, parsed, at ℚ -/
def coefUnitsQ : List (Option (UExpr Rat)) :=
  [⟨2, [("m", 1)]⟩, ⟨3, [("kg", 1)]⟩, ⟨5, [("s", 1)]⟩, UExpr.sym "K", UExpr.sym "rad", UExpr.sym "A",
    UExpr.sym "cd", UExpr.sym "Np"].map some

def coefUnitsReal : List (Option (UExpr ℝ)) := coefUnitsQ.map (Option.map (UExpr.mapK qr))

/-- the constructor's validation accepts the eight units (decided at ℚ) -/
theorem coefQ_validates :
    (match validateAll c10Pre c10Lut Generated.invNames none coefQ.um with | .ok _ => true | .error _ => false) = true := by
  decide +kernel

theorem coefReal_um : coefReal.um = baseDimsInit.zip coefUnitsReal := by
  simp only [coefReal, USys.mapK, coefQ, UMap.mapK, coefUnitsReal, coefUnitsQ, baseDimsInit, List.zip, List.zipWith,
    List.map, Option.map]

/-- **`UnitSystem("coef", 2*m, 3*kg, 5*s)` is accepted over ℝ and is `coefReal`** -/
theorem coef_real_init :
    USys.init realPre realLut Generated.invNames none "coef" coefUnitsReal = .ok coefReal := by
  have hv : validateAll realPre realLut Generated.invNames none coefReal.um = .ok () := by
    have := coefQ_validates
    simp only [coefReal, USys.mapK, realPre, realLut, validateAll_mapK]
    cases h : validateAll c10Pre c10Lut Generated.invNames none coefQ.um with
    | ok u => rfl
    | error e => simp [h] at this
  have hl : coefUnitsReal.length = 8 := by simp [coefUnitsReal, coefUnitsQ]
  simp only [USys.init, hl, ne_eq, not_true_eq_false, if_false, ← coefReal_um, hv]
  simp only [coefReal, USys.mapK, coefQ]

/-- `NamesAgree` over ℝ, transported from the kernel-decided statement at ℚ -/
theorem names_agree_real : NamesAgree realPre realLut Generated.invNames := by
  have hQ := builtin_names_agree
  refine ⟨fun s e1 h => ?_, fun s e1 h => ?_⟩
  · simp only [realLut, Lut.find?_mapK] at h
    cases hf : c10Lut.find? s with
    | none => simp [hf] at h
    | some e0 =>
      simp only [realPre, realLut, splitPrefix_mapK]
      exact hQ.keys_unsplit s e0 hf
  · simp only [realLut, Lut.find?_mapK] at h
    cases hf : c10Lut.find? s with
    | none => simp [hf] at h
    | some e0 => exact hQ.inv_id s e0 hf

/-- what `hcanon` asks of the eight units, decided at ℚ: canonical factor lists, positive
    coefficients, every symbol is not an alias and resolves to a positive scale -/
theorem coefQ_canonical :
    (coefUnitsQ.all fun o => match o with
      | none => true
      | some e => UExpr.normF e.factors == e.factors && decide (0 < e.coeff)
          && e.factors.all (fun p =>
              (match invLookup Generated.invNames p.1 with | none => true | some c => c == p.1)
              && (match resolve c10Pre c10Lut p.1 with | some ent => decide (0 < ent.scale) | none => false))) = true := by
  decide +kernel

/-- **user_system_usable, all hypotheses discharged over ℝ**: the accepted coefficient system is well-formed -/
theorem coef_real_usable : WF (fun x : ℝ => 0 < x) realPre realLut coefReal := by
  refine user_system_usable (fun x : ℝ => 0 < x) real_rpow_laws realPre realLut Generated.invNames names_agree_real
    "coef" coefUnitsReal coefReal coef_real_init ?_
  intro e he
  simp only [coefUnitsReal, List.mem_map] at he
  obtain ⟨o, ho, hoe⟩ := he
  cases o with
  | none => simp at hoe
  | some eq =>
    simp only [Option.map, Option.some.injEq] at hoe
    subst hoe
    have := List.all_eq_true.mp coefQ_canonical (some eq) ho
    simp only [Bool.and_eq_true, beq_iff_eq, decide_eq_true_eq] at this
    obtain ⟨⟨hn, hc⟩, hall⟩ := this
    refine ⟨hn, qr_pos hc, fun s q hm => ?_⟩
    have hs := List.all_eq_true.mp hall (s, q) hm
    simp only [Bool.and_eq_true] at hs
    obtain ⟨hinv, hres⟩ := hs
    refine ⟨fun c hc' => ?_, fun ent hent => ?_⟩
    · simp only [hc', beq_iff_eq] at hinv; exact hinv
    · simp only [realPre, realLut, resolve_mapK qr qr_mul] at hent
      cases hr : resolve c10Pre c10Lut s with
      | none => simp [hr] at hres
      | some e0 =>
        simp only [hr, Option.map, Option.some.injEq] at hent
        subst hent
        simp only [hr, decide_eq_true_eq] at hres
        exact qr_pos hres

end
end Unyt.C10
