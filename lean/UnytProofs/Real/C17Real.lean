/-
  C17 over ordered fields (ℚ, ℝ, …; single Mathlib modules): under the standard model of
  floating-point rounding — every cast has relative error at most `u` — the value a conversion
  route produces from an integer is within `(1+u)^4 - 1` (relative) of the exact product `n * f`,
  the copying and the in-place route agree up to twice that, and whenever the exact value is
  non-zero (e.g. strictly between 0 and 1, where an integer operation yields 0) neither route
  returns 0.  Property theorems only; lemmas in `C17Approx.lean`.
-/
import UnytProofs.Real.C17Approx
import UnytModel.Dtype

namespace Unyt.C17R
open Unyt

variable {K : Type} [Field K] [LinearOrder K] [IsStrictOrderedRing K]

/-- the standard model: every cast (and the integer-to-float conversion) has relative error ≤ `u` -/
structure StandardModel (A : NumOps K) (u : K) : Prop where
  u_nonneg : 0 ≤ u
  cast_err : ∀ d x, |A.cast d x - x| ≤ u * |x|
  int_err : ∀ d (n : Int), |A.cast d (A.ofInt n) - (n : K)| ≤ u * |(n : K)|

variable [BEq K]

/-- non-vacuity: exact arithmetic is a standard model with `u = 0` -/
example : StandardModel (exactOps K (fun n => (n : K))) 0 :=
  ⟨le_refl 0, by intro d x; simp [exactOps], by intro d n; simp [exactOps]⟩

/-- copy route (`in_units`) on integer data: the value is within `(1+u)^4 - 1` of the exact product -/
theorem copy_value_within (A : NumOps K) (u : K) (S : StandardModel A u)
    (m new : Dtype) (hm : m.kind ≠ .c) (hn : new.kind ≠ .c) (n : Int) (f : K) :
    ∃ r, copyValue A m new (.int n) f none = .real r ∧ Approx r ((n : K) * f) ((1 + u) ^ 4 - 1) := by
  refine ⟨A.cast new (A.cast m (A.cast m (A.ofInt n) * A.cast m f)), ?_, ?_⟩
  · simp [copyValue, castElem, mulIn, offsetTruthy, hm, hn]
  · have hu := S.u_nonneg
    have a1 : Approx (A.cast m (A.ofInt n)) (n : K) u := S.int_err m n
    have b1 : Approx (A.cast m f) f u := S.cast_err m f
    have p := approx_mul hu hu a1 b1
    have he1 : 0 ≤ (1 + u) * (1 + u) - 1 := by nlinarith
    have c1 := approx_cast (A.cast m) u hu (S.cast_err m) he1 p
    have he2 : 0 ≤ (1 + ((1 + u) * (1 + u) - 1)) * (1 + u) - 1 := by nlinarith
    have c2 := approx_cast (A.cast new) u hu (S.cast_err new) he2 c1
    have e : (1 + ((1 + ((1 + u) * (1 + u) - 1)) * (1 + u) - 1)) * (1 + u) - 1 = (1 + u) ^ 4 - 1 := by ring
    rw [e] at c2
    exact c2

/-- in-place route (`convert_to_units`) on integer data: the same bound -/
theorem inplace_value_within (A : NumOps K) (u : K) (S : StandardModel A u)
    (new : Dtype) (hn : new.kind ≠ .c) (n : Int) (f : K) :
    ∃ r, inplaceValue A new (.int n) f none = .real r ∧ Approx r ((n : K) * f) ((1 + u) ^ 4 - 1) := by
  refine ⟨A.cast new (A.cast new (A.cast new (A.ofInt n)) * A.cast new f), ?_, ?_⟩
  · simp [inplaceValue, castElem, mulIn, offsetTruthy, hn]
  · have hu := S.u_nonneg
    have a1 : Approx (A.cast new (A.ofInt n)) (n : K) u := S.int_err new n
    have a2 := approx_cast (A.cast new) u hu (S.cast_err new) hu a1
    have b1 : Approx (A.cast new f) f u := S.cast_err new f
    have he0 : 0 ≤ (1 + u) * (1 + u) - 1 := by nlinarith
    have p := approx_mul he0 hu a2 b1
    have he1 : 0 ≤ (1 + ((1 + u) * (1 + u) - 1)) * (1 + u) - 1 := by nlinarith
    have c1 := approx_cast (A.cast new) u hu (S.cast_err new) he1 p
    have e : (1 + ((1 + ((1 + u) * (1 + u) - 1)) * (1 + u) - 1)) * (1 + u) - 1 = (1 + u) ^ 4 - 1 := by ring
    rw [e] at c1
    exact c1

/-- hence the two routes agree on the values up to twice that bound -/
theorem routes_agree_within (A : NumOps K) (u : K) (S : StandardModel A u)
    (m new : Dtype) (hm : m.kind ≠ .c) (hn : new.kind ≠ .c) (n : Int) (f : K) :
    ∃ r1 r2, copyValue A m new (.int n) f none = .real r1 ∧ inplaceValue A new (.int n) f none = .real r2
      ∧ |r1 - r2| ≤ 2 * ((1 + u) ^ 4 - 1) * |(n : K) * f| := by
  obtain ⟨r1, h1, a1⟩ := copy_value_within A u S m new hm hn n f
  obtain ⟨r2, h2, a2⟩ := inplace_value_within A u S new hn n f
  refine ⟨r1, r2, h1, h2, ?_⟩
  unfold Approx at a1 a2
  have : r1 - r2 = (r1 - (n : K) * f) - (r2 - (n : K) * f) := by ring
  rw [this]
  have := abs_sub (r1 - (n : K) * f) (r2 - (n : K) * f)
  linarith

/-- never truncated: when the exact converted value is non-zero (for instance strictly between 0 and
    1, where an integer operation yields 0) and the accumulated rounding error is below 100 %
    (`u ≤ 1/8` suffices; binary16 has `u = 2^-11`), neither route returns 0 -/
theorem never_zero_when_exact_nonzero (A : NumOps K) (u : K) (S : StandardModel A u) (hu8 : u ≤ 1 / 8)
    (m new : Dtype) (hm : m.kind ≠ .c) (hn : new.kind ≠ .c) (n : Int) (f : K) (hne : (n : K) * f ≠ 0) :
    copyValue A m new (.int n) f none ≠ .real 0 ∧ inplaceValue A new (.int n) f none ≠ .real 0 := by
  have hu := S.u_nonneg
  have hsmall : (1 + u) ^ 4 - 1 < 1 := by
    have h1 : (1 + u) ^ 2 ≤ (1 + 1 / 8) ^ 2 := by nlinarith
    have h2 : (1 + u) ^ 4 = ((1 + u) ^ 2) ^ 2 := by ring
    have h3 : 0 ≤ (1 + u) ^ 2 := by positivity
    have h4 : ((1 + u) ^ 2) ^ 2 ≤ ((1 + 1 / 8 : K) ^ 2) ^ 2 := by nlinarith
    have h5 : ((1 + 1 / 8 : K) ^ 2) ^ 2 < 2 := by norm_num
    rw [h2]; linarith
  have hpos : 0 < |(n : K) * f| := abs_pos.2 hne
  obtain ⟨r1, h1, a1⟩ := copy_value_within A u S m new hm hn n f
  obtain ⟨r2, h2, a2⟩ := inplace_value_within A u S new hn n f
  have key : ∀ r : K, Approx r ((n : K) * f) ((1 + u) ^ 4 - 1) → r ≠ 0 := by
    intro r ha h0
    unfold Approx at ha
    rw [h0, zero_sub, abs_neg] at ha
    nlinarith
  constructor
  · rw [h1]; intro h; exact key r1 a1 (by injection h)
  · rw [h2]; intro h; exact key r2 a2 (by injection h)

end Unyt.C17R
