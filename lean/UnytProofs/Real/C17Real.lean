/-
  C17 over ordered fields (ℚ, ℝ, …; single Mathlib modules): a rounding model **on a bounded
  range**.  `RangeModel A u lo hi` says that every cast (and the integer-to-float conversion) has
  relative error at most `u` for arguments whose magnitude lies in `[lo, hi]` — what an IEEE format
  guarantees between its smallest normal number and its largest finite one, and nothing outside
  (underflow to zero, overflow to infinity).  Under it, for data, factor and exact result inside the
  range (with a factor-2 margin), the value a conversion route produces from an integer is within
  `(1+u)^4 - 1` (relative) of the exact product `n * f`, the copying and the in-place route agree up
  to twice that, and neither route returns 0.  Outside the range nothing of the kind holds:
  `underflow_outside_range` exhibits a model of the hypotheses in which a non-zero exact value is
  converted to 0 — that is rounding (the property says "rounded to that float type"), not
  truncation, and the theorems do not claim otherwise.

  The hypotheses are met jointly by a model that is *not* exact: `gridOps`, rounding to the nearest
  multiple of a grid step (`gridOps_rangeModel`, any `u > 0`; instantiated over ℚ).
  Property theorems only; lemmas in `C17Approx.lean`.
-/
import UnytProofs.Real.C17Approx
import Mathlib.Algebra.Order.Round
import Mathlib.Data.Rat.Floor
import UnytModel.Dtype

set_option linter.unusedVariables false

namespace Unyt.C17R
open Unyt

variable {K : Type} [Field K] [LinearOrder K] [IsStrictOrderedRing K]

/-- `x` lies in the range on which the rounding model is accurate -/
def InRange (lo hi x : K) : Prop := lo ≤ |x| ∧ |x| ≤ hi

/-- the rounding model on a bounded range: every cast, and the integer-to-float conversion, has
    relative error ≤ `u` for arguments of magnitude in `[lo, hi]` (smallest normal … largest finite) -/
structure RangeModel (A : NumOps K) (u lo hi : K) : Prop where
  u_nonneg : 0 ≤ u
  u_small : u ≤ 1 / 16
  cast_err : ∀ d x, InRange lo hi x → |A.cast d x - x| ≤ u * |x|
  int_err : ∀ d (n : Int), InRange lo hi (n : K) → |A.cast d (A.ofInt n) - (n : K)| ≤ u * |(n : K)|

variable [BEq K]

/-- copy route (`in_units`) on integer data, everything inside the range: the value is within
    `(1+u)^4 - 1` of the exact product -/
theorem copy_value_within (A : NumOps K) (u lo hi : K) (S : RangeModel A u lo hi)
    (m new : Dtype) (hm : m.kind ≠ .c) (hn : new.kind ≠ .c) (n : Int) (f : K)
    (hnr : InRange lo hi (n : K)) (hfr : InRange lo hi f)
    (hlo : 2 * lo ≤ |(n : K) * f|) (hhi : |(n : K) * f| ≤ hi / 2) :
    ∃ r, copyValue A m new (.int n) f none = .real r ∧ Approx r ((n : K) * f) ((1 + u) ^ 4 - 1) := by
  refine ⟨A.cast new (A.cast m (A.cast m (A.ofInt n) * A.cast m f)), ?_, ?_⟩
  · simp [copyValue, castElem, mulIn, offsetTruthy, hm, hn]
  · have hu := S.u_nonneg
    obtain ⟨s2, s3⟩ := small3 hu S.u_small
    have a1 : Approx (A.cast m (A.ofInt n)) (n : K) u := S.int_err m n hnr
    have b1 : Approx (A.cast m f) f u := S.cast_err m f hfr
    have p := approx_mul hu hu a1 b1
    have he1 : 0 ≤ (1 + u) * (1 + u) - 1 := by nlinarith
    have r1 := approx_in_range he1 s2 p hlo hhi
    have c1 := approx_cast (A.cast m) u hu (S.cast_err m _ r1) he1 p
    have he2 : 0 ≤ (1 + ((1 + u) * (1 + u) - 1)) * (1 + u) - 1 := by nlinarith
    have r2 := approx_in_range he2 s3 c1 hlo hhi
    have c2 := approx_cast (A.cast new) u hu (S.cast_err new _ r2) he2 c1
    have e : (1 + ((1 + ((1 + u) * (1 + u) - 1)) * (1 + u) - 1)) * (1 + u) - 1 = (1 + u) ^ 4 - 1 := by ring
    rw [e] at c2
    exact c2

/-- in-place route (`convert_to_units`) on integer data: the same bound (the integer needs the
    factor-2 margin too, because its float image is cast once more) -/
theorem inplace_value_within (A : NumOps K) (u lo hi : K) (S : RangeModel A u lo hi)
    (new : Dtype) (hn : new.kind ≠ .c) (n : Int) (f : K)
    (hnlo : 2 * lo ≤ |(n : K)|) (hnhi : |(n : K)| ≤ hi / 2) (hlo0 : 0 ≤ lo) (hfr : InRange lo hi f)
    (hlo : 2 * lo ≤ |(n : K) * f|) (hhi : |(n : K) * f| ≤ hi / 2) :
    ∃ r, inplaceValue A new (.int n) f none = .real r ∧ Approx r ((n : K) * f) ((1 + u) ^ 4 - 1) := by
  refine ⟨A.cast new (A.cast new (A.cast new (A.ofInt n)) * A.cast new f), ?_, ?_⟩
  · simp [inplaceValue, castElem, mulIn, offsetTruthy, hn]
  · have hu := S.u_nonneg
    obtain ⟨s2, s3⟩ := small3 hu S.u_small
    have hnr : InRange lo hi (n : K) := by
      have : 0 ≤ |(n : K)| := abs_nonneg _
      constructor <;> linarith
    have a1 : Approx (A.cast new (A.ofInt n)) (n : K) u := S.int_err new n hnr
    have hu2 : u ≤ 1 / 2 := by linarith [S.u_small]
    have r0 := approx_in_range hu hu2 a1 hnlo hnhi
    have a2 := approx_cast (A.cast new) u hu (S.cast_err new _ r0) hu a1
    have b1 : Approx (A.cast new f) f u := S.cast_err new f hfr
    have he0 : 0 ≤ (1 + u) * (1 + u) - 1 := by nlinarith
    have p := approx_mul he0 hu a2 b1
    have he1 : 0 ≤ (1 + ((1 + u) * (1 + u) - 1)) * (1 + u) - 1 := by nlinarith
    have r1 := approx_in_range he1 s3 p hlo hhi
    have c1 := approx_cast (A.cast new) u hu (S.cast_err new _ r1) he1 p
    have e : (1 + ((1 + ((1 + u) * (1 + u) - 1)) * (1 + u) - 1)) * (1 + u) - 1 = (1 + u) ^ 4 - 1 := by ring
    rw [e] at c1
    exact c1

/-- hence, inside the range, the two routes agree on the values up to twice that bound -/
theorem routes_agree_within (A : NumOps K) (u lo hi : K) (S : RangeModel A u lo hi)
    (m new : Dtype) (hm : m.kind ≠ .c) (hn : new.kind ≠ .c) (n : Int) (f : K)
    (hnlo : 2 * lo ≤ |(n : K)|) (hnhi : |(n : K)| ≤ hi / 2) (hlo0 : 0 ≤ lo) (hfr : InRange lo hi f)
    (hlo : 2 * lo ≤ |(n : K) * f|) (hhi : |(n : K) * f| ≤ hi / 2) :
    ∃ r1 r2, copyValue A m new (.int n) f none = .real r1 ∧ inplaceValue A new (.int n) f none = .real r2
      ∧ |r1 - r2| ≤ 2 * ((1 + u) ^ 4 - 1) * |(n : K) * f| := by
  have hnr : InRange lo hi (n : K) := by
    have : 0 ≤ |(n : K)| := abs_nonneg _
    constructor <;> linarith
  obtain ⟨r1, h1, a1⟩ := copy_value_within A u lo hi S m new hm hn n f hnr hfr hlo hhi
  obtain ⟨r2, h2, a2⟩ := inplace_value_within A u lo hi S new hn n f hnlo hnhi hlo0 hfr hlo hhi
  refine ⟨r1, r2, h1, h2, ?_⟩
  unfold Approx at a1 a2
  have : r1 - r2 = (r1 - (n : K) * f) - (r2 - (n : K) * f) := by ring
  rw [this]
  have := abs_sub (r1 - (n : K) * f) (r2 - (n : K) * f)
  linarith

/-- never truncated **inside the range**: when data, factor and the exact converted value lie in the
    range where the float type is accurate (for instance an exact value strictly between 0 and 1 but
    above the smallest normal number, where an integer operation yields 0), neither route returns 0.
    Below the range the result may round to 0 (`underflow_outside_range`). -/
theorem never_zero_inside_range (A : NumOps K) (u lo hi : K) (S : RangeModel A u lo hi)
    (m new : Dtype) (hm : m.kind ≠ .c) (hn : new.kind ≠ .c) (n : Int) (f : K)
    (hnlo : 2 * lo ≤ |(n : K)|) (hnhi : |(n : K)| ≤ hi / 2) (hlo0 : 0 < lo) (hfr : InRange lo hi f)
    (hlo : 2 * lo ≤ |(n : K) * f|) (hhi : |(n : K) * f| ≤ hi / 2) :
    copyValue A m new (.int n) f none ≠ .real 0 ∧ inplaceValue A new (.int n) f none ≠ .real 0 := by
  have hu := S.u_nonneg
  have hsmall : (1 + u) ^ 4 - 1 < 1 := by
    have h16 := S.u_small
    have h1 : (1 + u) ^ 2 ≤ (1 + 1 / 16) ^ 2 := by nlinarith
    have h2 : (1 + u) ^ 4 = ((1 + u) ^ 2) ^ 2 := by ring
    have h3 : 0 ≤ (1 + u) ^ 2 := by positivity
    have h4 : ((1 + u) ^ 2) ^ 2 ≤ ((1 + 1 / 16 : K) ^ 2) ^ 2 := by nlinarith
    have h5 : ((1 + 1 / 16 : K) ^ 2) ^ 2 < 2 := by norm_num
    rw [h2]; linarith
  have hpos : 0 < |(n : K) * f| := by linarith
  have hnr : InRange lo hi (n : K) := by
    have : 0 ≤ |(n : K)| := abs_nonneg _
    constructor <;> linarith
  obtain ⟨r1, h1, a1⟩ := copy_value_within A u lo hi S m new hm hn n f hnr hfr hlo hhi
  obtain ⟨r2, h2, a2⟩ := inplace_value_within A u lo hi S new hn n f hnlo hnhi (le_of_lt hlo0) hfr hlo hhi
  have key : ∀ r : K, Approx r ((n : K) * f) ((1 + u) ^ 4 - 1) → r ≠ 0 := by
    intro r ha h0
    unfold Approx at ha
    rw [h0, zero_sub, abs_neg] at ha
    nlinarith
  constructor
  · rw [h1]; intro h; exact key r1 a1 (by injection h)
  · rw [h2]; intro h; exact key r2 a2 (by injection h)

/-! ### a witness that is not exact arithmetic, and what happens outside the range -/

section witness
variable [FloorRing K]

/-- rounding to the nearest multiple of the grid step `g` (fixed-point rounding: accurate above
    `g / (2u)`, flushes everything below `g / 2` to zero — the shape of float underflow) -/
def gridOps (g : K) : NumOps K := ⟨fun n => (n : K), fun _ x => g * (round (x / g) : K)⟩

theorem gridOps_err (g : K) (hg : 0 < g) (d : Dtype) (x : K) : |(gridOps g).cast d x - x| ≤ g / 2 := by
  have hgne : g ≠ 0 := ne_of_gt hg
  have h1 : (gridOps g).cast d x - x = g * ((round (x / g) : K) - x / g) := by
    simp only [gridOps]; field_simp
  rw [h1, abs_mul, abs_of_pos hg]
  have h2 : |(round (x / g) : K) - x / g| ≤ 1 / 2 := by
    rw [abs_sub_comm]; exact abs_sub_round (x / g)
  nlinarith

/-- the hypotheses of the theorems above are met jointly by an inexact model: for every `0 < u ≤ 1/16`
    and `0 < lo`, rounding to multiples of `g = 2·u·lo` is a range model on `[lo, hi]` -/
theorem gridOps_rangeModel (u lo hi : K) (hu : 0 < u) (hu16 : u ≤ 1 / 16) (hlo : 0 < lo) :
    RangeModel (gridOps (2 * u * lo)) u lo hi := by
  have hg : 0 < 2 * u * lo := by positivity
  have key : ∀ d x, InRange lo hi x → |(gridOps (2 * u * lo)).cast d x - x| ≤ u * |x| := by
    intro d x hx
    have h := gridOps_err (2 * u * lo) hg d x
    have : u * lo ≤ u * |x| := mul_le_mul_of_nonneg_left hx.1 (le_of_lt hu)
    linarith
  exact ⟨le_of_lt hu, hu16, key, fun d n hn => key d (n : K) hn⟩

/-- the model is genuinely inexact and genuinely bounded: below the range a non-zero value is
    flushed to zero, so it does **not** satisfy the relative-error bound for all `x` -/
theorem gridOps_underflows (g : K) (hg : 0 < g) (d : Dtype) :
    (gridOps g).cast d (g / 4) = 0 ∧ g / 4 ≠ 0 := by
  have hgne : g ≠ 0 := ne_of_gt hg
  constructor
  · simp only [gridOps]
    have : g / 4 / g = (1 / 4 : K) := by field_simp
    rw [this]
    have hr : round (1 / 4 : K) = 0 := by
      rw [round_eq_zero_iff]
      constructor <;> norm_num
    rw [hr]; simp
  · positivity

end witness

/-- non-vacuity over ℚ: binary16-like parameters (`u = 2⁻¹¹`, smallest normal `2⁻¹⁴`, largest
    finite 65504) admit an inexact range model -/
example : RangeModel (gridOps (2 * (1 / 2048 : ℚ) * (1 / 16384))) (1 / 2048) (1 / 16384) 65504 :=
  gridOps_rangeModel _ _ _ (by norm_num) (by norm_num) (by norm_num)

/-- … and a concrete instance meeting every hypothesis of `never_zero_inside_range` jointly:
    n = 3, f = 1/1000 (3 m in km), exact value 0.003 — an integer operation would give 0 -/
example :
    copyValue (gridOps (2 * (1 / 2048 : ℚ) * (1 / 16384))) ⟨.f, 8⟩ ⟨.f, 2⟩ (.int 3) (1 / 1000) none ≠ .real 0
    ∧ inplaceValue (gridOps (2 * (1 / 2048 : ℚ) * (1 / 16384))) ⟨.f, 2⟩ (.int 3) (1 / 1000) none ≠ .real 0 :=
  never_zero_inside_range _ (1 / 2048) (1 / 16384) 65504
    (gridOps_rangeModel _ _ _ (by norm_num) (by norm_num) (by norm_num))
    ⟨.f, 8⟩ ⟨.f, 2⟩ (by decide) (by decide) 3 (1 / 1000)
    (by norm_num) (by norm_num) (by norm_num) ⟨by norm_num [abs_of_pos], by norm_num [abs_of_pos]⟩
    (by norm_num [abs_of_pos]) (by norm_num [abs_of_pos])

/-- outside the range the conclusion fails, for a model that satisfies the hypotheses: an exact
    converted value that is non-zero but below the smallest accurately represented magnitude is
    rounded to 0 on both routes (1 nm held as an integer, in metres, in a binary16-like format).
    This is rounding to the float type — what the property asks for — not integer truncation. -/
theorem underflow_outside_range :
    ∃ (A : NumOps ℚ) (u lo hi : ℚ), RangeModel A u lo hi ∧ 0 < u ∧
      ((1 : Int) : ℚ) * (1 / 1000000000) ≠ 0 ∧
      copyValue A ⟨.f, 8⟩ ⟨.f, 2⟩ (.int 1) (1 / 1000000000) none = .real 0 ∧
      inplaceValue A ⟨.f, 2⟩ (.int 1) (1 / 1000000000) none = .real 0 := by
  refine ⟨gridOps (2 * (1 / 2048 : ℚ) * (1 / 16384)), 1 / 2048, 1 / 16384, 65504,
    gridOps_rangeModel _ _ _ (by norm_num) (by norm_num) (by norm_num), by norm_num, by norm_num, ?_, ?_⟩
  · simp only [copyValue, castElem, mulIn, offsetTruthy, gridOps, reduceCtorEq, if_false]
    norm_num [round_eq_zero_iff]
  · simp only [inplaceValue, castElem, mulIn, offsetTruthy, gridOps, reduceCtorEq, if_false]
    norm_num [round_eq_zero_iff]

end Unyt.C17R
