/-
  C10 over ℝ — the hypotheses of the general C10 theorems are jointly satisfiable on realistic
  states: `RPowLaws` holds for `Real.rpow` on the positive reals (`Real/RPow.lean`), and the
  regenerated unit table, cast to ℝ, makes (a) the regenerated `mks` system and (b) a user system
  whose base units carry coefficients (`2 m`, `3 kg`, `5 s`) well-formed (`WF`).  Every general
  theorem of `UnytProofs/C10.lean` is then instantiated on them.
  (Single Mathlib module via `Real/RPow.lean`; the dimension/positivity facts are decided by the
  kernel at ℚ and transported along the cast, `Lemmas/C10Map.lean`.)
-/
import UnytProofs.Real.RPow
import UnytProofs.C10
import UnytProofs.Lemmas.C10Map

set_option linter.unusedSectionVars false

namespace Unyt.C10
open Unyt UExpr

noncomputable section

/-- the cast ℚ → ℝ, multiplicative -/
def qr (q : Rat) : ℝ := (q : ℝ)

theorem qr_mul (a b : Rat) : qr (a * b) = qr a * qr b := by simp [qr]
theorem qr_pos {a : Rat} (h : 0 < a) : 0 < qr a := by simpa [qr] using h

/-- the regenerated tables over ℝ: every cell is the exact rational value of the double unyt holds -/
def realPre : Prefixes ℝ := c10Pre.mapK qr
def realLut : Lut ℝ := c10Lut.mapK qr
def realEm : EmTable ℝ := c10Em.map fun r => ⟨r.name, r.dim, r.toDim, r.partner, qr r.factor, r.syms⟩

/-! ### a kernel-decidable sufficient condition for `WF`, stated at ℚ -/

def entryOkQ (d : Dim) (e : UExpr Rat) : Bool :=
  decide (0 < e.coeff)
  && e.factors.all (fun p => match resolve c10Pre c10Lut p.1 with
      | some ent => decide (0 < ent.scale)
      | none => false)
  && dimF (fun s => (resolve c10Pre c10Lut s).map (·.dim)) e.factors == some d

def sysOkQ (S : USys Rat) : Bool :=
  S.um.all (fun p => match p.2 with | some e => entryOkQ p.1 e | none => true)
  && baseDimsInit.all (fun bd => bd == Dim.dCurrent || (S.um.get? bd).isSome)

theorem resolve_real_dim (s : String) :
    (resolve realPre realLut s).map (·.dim) = (resolve c10Pre c10Lut s).map (·.dim) := by
  simp only [realPre, realLut, resolve_mapK qr qr_mul]
  cases resolve c10Pre c10Lut s <;> rfl

/-- a system that passes the check at ℚ is well-formed over ℝ -/
theorem WF_real_of_sysOkQ (S : USys Rat) (h : sysOkQ S = true) :
    WF (fun x : ℝ => 0 < x) realPre realLut (S.mapK qr) := by
  simp only [sysOkQ, Bool.and_eq_true] at h
  obtain ⟨hent, hbase⟩ := h
  refine ⟨fun d e' hget => ?_, fun bd hbd hne => ?_⟩
  · simp only [USys.mapK, UMap.get?_mapK] at hget
    cases hg : S.um.get? d with
    | none => simp [hg] at hget
    | some e =>
      simp only [hg, Option.map, Option.some.injEq] at hget
      subst hget
      have hf : S.um.find? d = some (some e) := by
        simp only [UMap.get?] at hg
        split at hg
        · rename_i e0 he0; cases hg; exact he0
        · contradiction
      have hmem := UMap.find?_mem S.um d _ hf
      have hok := List.all_eq_true.mp hent (d, some e) hmem
      simp only [entryOkQ, Bool.and_eq_true, decide_eq_true_eq, beq_iff_eq] at hok
      obtain ⟨⟨hc, hall⟩, hdim⟩ := hok
      have hpos : AllPos (fun x : ℝ => 0 < x) realPre realLut (e.mapK qr).factors := by
        intro s q hm
        have := List.all_eq_true.mp hall (s, q) hm
        cases hr : resolve c10Pre c10Lut s with
        | none => simp [hr] at this
        | some ent =>
          simp only [hr, decide_eq_true_eq] at this
          exact ⟨ent.mapK qr, by simp only [realPre, realLut, resolve_mapK qr qr_mul, hr, Option.map], qr_pos this⟩
      obtain ⟨v, d', hv, _⟩ := denoteF_pos (fun x : ℝ => 0 < x) real_rpow_laws realPre realLut _ hpos
      have hd' : d' = d := by
        have h1 := denoteF_dimF realPre realLut (e.mapK qr).factors
        rw [hv, dimF_congr _ _ _ resolve_real_dim] at h1
        have h2 : (some d' : Option Dim) = some d := by
          rw [← hdim]; exact h1
        exact Option.some.inj h2
      exact ⟨hpos, qr_pos hc, v, hd' ▸ hv⟩
  · have := List.all_eq_true.mp hbase bd hbd
    simp only [Bool.or_eq_true, beq_iff_eq] at this
    rcases this with h1 | h1
    · exact absurd h1 hne
    · simp only [USys.mapK, UMap.get?_mapK]
      cases hg : S.um.get? bd with
      | none => simp [hg] at h1
      | some e => rfl

/-! ### the two concrete systems -/

/-- the regenerated `mks` system (at ℚ) -/
def mksQ : USys Rat := (findSystem Rat "mks").getD ⟨"", [], []⟩

/-- a user system whose base units are quantities: `UnitSystem("coef", 2*m, 3*kg, 5*s)` -/
def coefQ : USys Rat :=
  let um : UMap Rat := baseDimsInit.zip
    ([⟨2, [("m", 1)]⟩, ⟨3, [("kg", 1)]⟩, ⟨5, [("s", 1)]⟩, UExpr.sym "K", UExpr.sym "rad", UExpr.sym "A",
      UExpr.sym "cd", UExpr.sym "Np"].map some)
  ⟨"coef", um, um⟩

theorem mksQ_ok : sysOkQ mksQ = true := by decide +kernel
theorem coefQ_ok : sysOkQ coefQ = true := by decide +kernel
theorem mksQ_is_mks : mksQ.name = "mks" ∧ mksQ.um.length ≥ 8 := by decide +kernel

def mksReal : USys ℝ := mksQ.mapK qr
def coefReal : USys ℝ := coefQ.mapK qr

/-- **the regenerated mks system over ℝ is well-formed** -/
theorem mks_real_WF : WF (fun x : ℝ => 0 < x) realPre realLut mksReal := WF_real_of_sysOkQ mksQ mksQ_ok

/-- **the coefficient-carrying user system over ℝ is well-formed** -/
theorem coef_real_WF : WF (fun x : ℝ => 0 < x) realPre realLut coefReal := WF_real_of_sysOkQ coefQ coefQ_ok

/-! ### the general theorems, instantiated (hypotheses jointly satisfied) -/

theorem real_pos_ne (a : ℝ) (h : 0 < a) : a ≠ 0 := ne_of_gt h

/-- C10 on ℝ: every system well-formed over the regenerated table (mks and the coefficient system
    are two), every unit of non-EM dimension with non-zero scale, every real reading -/
theorem C10_partial_real :
    C10_full realPre realLut realEm (fun S => WF (fun x : ℝ => 0 < x) realPre realLut S)
      (fun u => realEm.hasDim u.dim = false ∧ u.scale ≠ 0) :=
  C10_partial (fun x : ℝ => 0 < x) real_rpow_laws realPre realLut realEm real_pos_ne

/-- the class of systems of `C10_partial_real` is inhabited by realistic states -/
theorem C10_partial_real_inhabited :
    (WF (fun x : ℝ => 0 < x) realPre realLut mksReal) ∧ (WF (fun x : ℝ => 0 < x) realPre realLut coefReal) :=
  ⟨mks_real_WF, coef_real_WF⟩

/-- `synth_scale` on the coefficient system: the unit synthesised for any dimension without
    `current_mks`… (the system has a current unit, so: for any dimension) denotes the product of
    `2 m`, `3 kg`, `5 s`, … to the dimension's exponents -/
theorem coef_real_synth_scale (d : Dim) :
    denote realPre realLut (synth coefReal.um d)
      = some (scaleOver (baseScale realPre realLut coefReal) d baseDimsSympy, d) := by
  refine synth_scale (fun x : ℝ => 0 < x) real_rpow_laws realPre realLut coefReal coef_real_WF d (fun _ => ?_)
  simp only [USys.hasCurrent, coefReal, USys.mapK, UMap.get?_mapK]
  have : (coefQ.um.get? Dim.dCurrent).isSome = true := by decide +kernel
  cases hg : coefQ.um.get? Dim.dCurrent with
  | none => simp [hg] at this
  | some e => rfl

/-- `lookup_sound`, `memo_transparent` on mks over ℝ -/
theorem mks_real_lookup_sound (d : Dim) (e : UExpr ℝ) (h : mksReal.lookup d = .ok e) :
    ExprOK (fun x : ℝ => 0 < x) realPre realLut e d ∧ ∀ s, expOf e.factors s ≠ 0 → Owned mksReal s :=
  lookup_sound (fun x : ℝ => 0 < x) real_rpow_laws realPre realLut mksReal mks_real_WF d e h

theorem mks_real_memo_transparent (k : Dim) (e : UExpr ℝ) (S' : USys ℝ) (h : mksReal.getItem k = .ok (e, S')) :
    mksReal.lookup k = .ok e ∧ (∀ k', S'.lookup k' = mksReal.lookup k') ∧ WF (fun x : ℝ => 0 < x) realPre realLut S' :=
  memo_transparent (fun x : ℝ => 0 < x) real_rpow_laws realPre realLut mksReal mks_real_WF k e S' h

end
end Unyt.C10
