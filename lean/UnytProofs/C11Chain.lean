/-
  C11 — histories of persistence steps (`UnytModel/PersistChain.lean`): an object that came back from
  one route is edited (units added to its registry) and persisted again; the configuration of each
  step is looked up for the ORIGIN of the registry object the unit hangs on.

  General theorems (every carrier, every table, every history), and the kernel-decided obligations on
  the table regenerated from the live code (`Generated/PersistOrigins.lean`).
-/
import UnytProofs.C11
import UnytModel.PersistChain
import UnytModel.Generated.PersistOrigins

set_option linter.unusedSectionVars false
set_option linter.unusedVariables false

namespace Unyt.C11
open Unyt Unyt.Persist

section general
variable {K : Type} [Add K] [Sub K] [Mul K] [Div K] [OfNat K 0] [OfNat K 1] [BEq K] [RPow K]

/-- ROUND TRIP OF A HISTORY.  For every table, every history (any number of steps, any user edits
    in between, any starting origin) and every object: if each step is exact (`chainGuard`: the table
    has a row for the origin reached and `restoreGuard` holds of the object as edited so far) then the
    history returns exactly what the user's edits alone produce — the persistence steps are invisible:
    numbers, unit with identity bit, every registry row including every row added on the way, unit
    system. -/
theorem chain_roundtrip (E : EqTests K) (hE : LawfulEq E) (T : OriginTable) (pre : Prefixes K)
    (dflt : Lut K) (steps : List (Step K)) (o : Origin) (x : PObj K)
    (h : chainGuard E T pre dflt steps o x = true) :
    restoreChain T pre dflt steps o x = some (.ok (originAfter T steps o, applyEdits steps x)) := by
  induction steps generalizing o x with
  | nil => rfl
  | cons s rest ih =>
    unfold chainGuard at h
    unfold restoreChain originAfter applyEdits
    cases hT : T.get o s.route with
    | none => simp [hT] at h
    | some cfg =>
      simp only [hT, Bool.and_eq_true] at h
      simp only [roundtrip_state_eq_partial E hE cfg pre dflt _ h.1]
      exact ih (o.next cfg) (x.addRows s.adds) h.2

/-- … and then every follow-up PROGRAM over the battery gives the same outcome on the object that
    went through the history as on the object that was only edited -/
theorem chain_behaviour_congr (E : EqTests K) (hE : LawfulEq E) (T : OriginTable) (pre : Prefixes K)
    (dflt : Lut K) (C : FCtx K) (steps : List (Step K)) (o o' : Origin) (x y : PObj K)
    (h : chainGuard E T pre dflt steps o x = true)
    (hy : restoreChain T pre dflt steps o x = some (.ok (o', y)))
    (ops : List (FollowOp K)) (last : FollowOp K) :
    runProg C ops last y = runProg C ops last (applyEdits steps x) := by
  rw [chain_roundtrip E hE T pre dflt steps o x h] at hy
  cases hy; rfl

/-- a one-step history is `restore` with the row of the origin -/
theorem chain_single (T : OriginTable) (pre : Prefixes K) (dflt : Lut K) (o : Origin) (r : Route)
    (cfg : RouteCfg) (x y : PObj K) (hT : T.get o r = some cfg) (hy : restore cfg pre dflt x = .ok y) :
    restoreChain T pre dflt [⟨[], r⟩] o x = some (.ok (o.next cfg, y)) := by
  simp [restoreChain, hT, PObj.addRows, PReg.addRows, hy]

/-- origin-independence lifts from the table to behaviour: when the row of (origin, route) is the
    route's base row, one step on a registry of that origin IS the step on a user-built registry -/
theorem uniform_step (T : RouteTable) (O : OriginTable) (pre : Prefixes K) (dflt : Lut K)
    (o : Origin) (r : Route) (cfg : RouteCfg) (x : PObj K)
    (hO : O.get o r = some cfg) (hT : T.get r = some cfg) :
    restoreAt O pre dflt o r x = (T.get r).map fun c => restore c pre dflt x := by
  simp [restoreAt, hO, hT]

end general

/-! ### obligations on the regenerated per-origin table -/

/-- every private origin has a row for every route -/
theorem origins_complete : originsComplete Generated.persistOrigins Generated.originRoutes = true := by
  decide

/-- TABLE OBLIGATION: on the live code, every route treats a registry that came out of a route (deep
    copy / unpickled copy / `from_json` copy of the default registry — whatever its class) exactly as it
    treats a registry the user built: all 18 flags of every (origin, route) row equal the base row -/
theorem origins_uniform : originsUniform Generated.persistRoutes Generated.persistOrigins = true := by
  decide

/-- in particular the user's own units survive a second step wherever they survive a first one -/
theorem origins_keep_added : originsKeepAdded Generated.persistRoutes Generated.persistOrigins = true := by
  decide

/-- the routes whose product is a private registry all have a probed representative -/
theorem origin_reps_probed :
    (Generated.originRep.all fun p => Generated.originRoutes.contains p.2) = true := by
  decide

example : Generated.persistOrigins.get (.via .deepcopyArray) .pickleUnit
    = Generated.persistRoutes.get .pickleUnit := by decide

end Unyt.C11
