/-
  C03 — unit conversion obeys identity, inverse and composition laws on every route.

  All theorems are over an arbitrary field `K` of characteristic zero (`Lean.Grind.Field`),
  i.e. symbolic in every scale and offset; they apply to ℚ and (via Mathlib's
  `Field.toGrindField`) to ℝ.  Property theorems only; no helper lemmas here.
-/
import UnytModel.Convert

set_option linter.unusedSectionVars false

namespace Unyt.C03
open Unyt

variable {K : Type} [Lean.Grind.Field K]

/-- the affine rule preserves the SI magnitude `s * (x - o)` — what "conversion" means -/
theorem conv_preserves_base (sA oA sB oB x : K) (hB : sB ≠ 0) :
    toBase sB oB (applyConv (convFactor sA oA sB oB) x) = toBase sA oA x := by
  simp only [toBase, applyConv, convFactor]
  grind

/-- converting to its own unit returns the same numbers -/
theorem conv_id (s o x : K) (h : s ≠ 0) : applyConv (convFactor s o s o) x = x := by
  simp only [applyConv, convFactor]
  grind

/-- A → B → A returns the original numbers -/
theorem conv_inv (sA oA sB oB x : K) (hA : sA ≠ 0) (hB : sB ≠ 0) :
    applyConv (convFactor sB oB sA oA) (applyConv (convFactor sA oA sB oB) x) = x := by
  simp only [applyConv, convFactor]
  grind

/-- A → B → C equals A → C -/
theorem conv_comp (sA oA sB oB sC oC x : K) (hB : sB ≠ 0) :
    applyConv (convFactor sB oB sC oC) (applyConv (convFactor sA oA sB oB) x)
      = applyConv (convFactor sA oA sC oC) x := by
  simp only [applyConv, convFactor]
  grind

/-- the same three laws with SI-prefixed spellings on any side (offset divided by scale):
    each unit's "spelled with prefix" flag is a property of the unit, so the prefixed rule is
    the plain rule on effective offsets -/
theorem convP_id (p : Bool) (s o x : K) (h : s ≠ 0) :
    applyConv (convFactorP p s o p s o) x = x := by
  simp only [convFactorP]; exact conv_id _ _ _ h

theorem convP_inv (pA pB : Bool) (sA oA sB oB x : K) (hA : sA ≠ 0) (hB : sB ≠ 0) :
    applyConv (convFactorP pB sB oB pA sA oA) (applyConv (convFactorP pA sA oA pB sB oB) x) = x := by
  simp only [convFactorP]; exact conv_inv _ _ _ _ _ hA hB

theorem convP_comp (pA pB pC : Bool) (sA oA sB oB sC oC x : K) (hB : sB ≠ 0) :
    applyConv (convFactorP pB sB oB pC sC oC) (applyConv (convFactorP pA sA oA pB sB oB) x)
      = applyConv (convFactorP pA sA oA pC sC oC) x := by
  simp only [convFactorP]; exact conv_comp _ _ _ _ _ _ _ hB

/-- the "if offset:" short-cut of the implementation is harmless: applying a factor whose
    offset is `None` or `0` is the same affine map -/
theorem applyFactor_eq_applyConv [BEq K] [LawfulBEq K] (r x : K) (o : Option K) :
    applyFactor (r, o) x = applyConv (r, o.getD 0) x := by
  cases o with
  | none => simp only [applyFactor, applyConv, Option.getD]; grind
  | some v =>
    simp only [applyFactor, applyConv, Option.getD]
    by_cases h : v = 0
    · subst h; simp; grind
    · simp [h]

variable [BEq K] [LawfulBEq K]

/-- all routes that express the same request give the same numbers and the same unit:
    `in_units`/`to`, `to_value`, `convert_to_units` (in place) and the factor applied by hand -/
theorem routes_agree (pre : Prefixes K) (t : Lut K) (u target : UnitV K) (x : K) :
    (convertToUnits pre t (x, u) target = inUnits pre t u x target)
    ∧ (toValue pre t u x target = (inUnits pre t u x target).map (·.1))
    ∧ (∀ f, getConversionFactor pre t u target = .ok f →
          inUnits pre t u x target = .ok (applyFactor f x, target)) := by
  refine ⟨?_, rfl, ?_⟩
  · simp only [convertToUnits, inUnits]
    cases getConversionFactor pre t u target with
    | error e => rfl
    | ok f =>
      obtain ⟨r, o⟩ := f
      cases o with
      | none => rfl
      | some v => simp only [applyFactor]
  · intro f hf
    simp only [inUnits, hf]

/-- a request between incommensurable units raises on every route and returns nothing -/
theorem routes_refuse_mismatch (pre : Prefixes K) (t : Lut K) (u target : UnitV K) (x : K)
    (h : u.dim ≠ target.dim) :
    inUnits pre t u x target = .error .UnitConversionError
    ∧ convertToUnits pre t (x, u) target = .error .UnitConversionError
    ∧ toValue pre t u x target = .error .UnitConversionError := by
  have hne : (u.dim != target.dim) = true := by simpa using h
  simp [inUnits, convertToUnits, toValue, getConversionFactor, hne, Except.map]

/-- the model's `getConversionFactor` is the affine rule with prefix-aware offsets -/
theorem getConversionFactor_is_affine (pre : Prefixes K) (t : Lut K) (u v : UnitV K)
    (hd : u.dim = v.dim) (x : K) :
    ∃ f, getConversionFactor pre t u v = .ok f ∧
      applyFactor f x =
        applyConv (convFactorP (u.dim == Dim.dTemperature && u.spelledWithPrefix pre t) u.scale u.offset
                               (v.dim == Dim.dTemperature && v.spelledWithPrefix pre t) v.scale v.offset) x := by
  have hde : (u.dim != v.dim) = false := by simp [hd]
  simp only [getConversionFactor, hde]
  by_cases h0 : (u.offset == 0 && v.offset == 0) = true
  · refine ⟨(u.scale / v.scale, none), by simp [h0], ?_⟩
    have hu : u.offset = 0 := by simp at h0; exact h0.1
    have hv : v.offset = 0 := by simp at h0; exact h0.2
    simp only [applyFactor, applyConv, convFactorP, convFactor, effOffset, hu, hv]
    split <;> grind
  · refine ⟨(u.scale / v.scale, some (u.scale / v.scale *
        effOffset (u.dim == Dim.dTemperature && u.spelledWithPrefix pre t) u.scale u.offset -
        effOffset (u.dim == Dim.dTemperature && v.spelledWithPrefix pre t) v.scale v.offset)), by simp [h0], ?_⟩
    rw [applyFactor_eq_applyConv]
    simp only [Option.getD, convFactorP, convFactor, hd]

/-- non-vacuity: the Celsius → Fahrenheit instance over ℚ -/
example : applyConv (convFactor (1 : Rat) (-27315/100) (5/9) (-45967/100)) 100 = 212 := by decide +kernel

end Unyt.C03
