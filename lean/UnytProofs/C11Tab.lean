/-
  C11 — kernel-decided obligations over the regenerated route table and the concrete
  counterexamples (part 1: identity).  Everything here is evaluated at ℚ over the regenerated default
  table (one kernel evaluation per file, shared by the statements); the harness replays every
  witness on the real code.
-/
import UnytProofs.C11

set_option linter.unusedSectionVars false
set_option linter.unusedVariables false

namespace Unyt.C11
open Unyt Unyt.Persist

section witnesses
attribute [local instance] ratPowStub

/-- everything this file decides, evaluated once -/
def tab1 : Bool :=
  canonKeptRoundTrips Ref.c11AsIs
    && guardQ (asIsCfg .arrayCopy) wDeg && guardQ (asIsCfg .unitOfStr) wDeg && guardQ (asIsCfg .registryJson) wK
    && guardQ (asIsCfg .pickleArray) wDeg && guardQ (asIsCfg .deepcopyArray) wK
    && guardQ (asIsCfg .pickleUnit) wDB && guardQ (asIsCfg .deepcopyArray) wModG
    && guardQ (asIsCfg .deepcopyUnit) wCgs && guardQ (asIsCfg .deepcopyArray) wNoLb

theorem tab1_decided : tab1 = true := by decide +kernel

/-- identity at full strength (it was a counterexample before fix C11-01): on EVERY route the
    three witnesses that used to come back with the bit lost — 90°, 300 K, 3 dB — come back with it -/
theorem identity_kept_on_every_route : canonKeptRoundTrips Ref.c11AsIs = true := by
  have h := tab1_decided
  simp only [tab1, Bool.and_eq_true] at h
  exact h.1.1.1.1.1.1.1.1.1

/-- the same for the table regenerated from the live code -/
theorem live_identity_kept : canonKeptRoundTrips Generated.persistRoutes = true := by
  rw [active_routes_classified]; exact identity_kept_on_every_route

/-- non-vacuity of the guard of `roundtrip_state_eq_partial`: it holds outright (identity bits
    included) on the shared-object routes, `Unit(str(u))`, JSON, and — since the fixes — on pickle and
    deepcopy, also for a registry with a MODIFIED default symbol, a REMOVED default symbol and a unit
    system of its own under deepcopy -/
theorem guards_inhabited :
    guardQ (asIsCfg .arrayCopy) wDeg = true ∧ guardQ (asIsCfg .unitOfStr) wDeg = true
      ∧ guardQ (asIsCfg .registryJson) wK = true
      ∧ guardQ (asIsCfg .pickleArray) wDeg = true ∧ guardQ (asIsCfg .deepcopyArray) wK = true
      ∧ guardQ (asIsCfg .pickleUnit) wDB = true ∧ guardQ (asIsCfg .deepcopyArray) wModG = true
      ∧ guardQ (asIsCfg .deepcopyUnit) wCgs = true ∧ guardQ (asIsCfg .deepcopyArray) wNoLb = true := by
  have h := tab1_decided
  simp only [tab1, Bool.and_eq_true] at h
  exact ⟨h.1.1.1.1.1.1.1.1.2, h.1.1.1.1.1.1.1.2, h.1.1.1.1.1.1.2, h.1.1.1.1.1.2, h.1.1.1.1.2, h.1.1.1.2,
    h.1.1.2, h.1.2, h.2⟩

/-- the hypothesis of `identity_loss_pinned_binaryQ / binarySelf` holds of the contexts the checks
    run with: exact equality at ℚ and `math.isclose` at `Float` read scale, offset and dimension only -/
example : UeqBlindF qCtx := fun _ _ _ _ => rfl
example (C : FCtx Float) (h : C.ueq = UnitV.eqFloat) : UeqBlindF C := by
  intro a b ca cb; rw [h]; rfl

end witnesses

end Unyt.C11
