/-
  C11 — kernel-decided obligations over the regenerated route table and the concrete
  counterexamples (part 1: identity).  Everything here is evaluated at ℚ over the regenerated default
  table (one kernel evaluation per file, shared by the statements); the harness replays every
  witness on the real code.
-/
import UnytProofs.C11

set_option linter.unusedSectionVars false
set_option linter.unusedVariables false

namespace Unyt.C11
open Unyt Unyt.Persist

section witnesses
attribute [local instance] ratPowStub

/-- everything this file decides, evaluated once -/
def tab1 : Bool :=
  canonLossShows Ref.c11AsIs && rowCanonLossShows Ref.c11AsIs && canonKeptRoundTrips Ref.c11Reinterned
    && guardQ (asIsCfg .arrayCopy) wDeg && guardQ (asIsCfg .unitOfStr) wDeg && guardQ (asIsCfg .registryJson) wK
    && guardQ (keepIdentity (asIsCfg .pickleArray)) wDeg && guardQ (keepIdentity (asIsCfg .deepcopyArray)) wK
    && guardQ ((Ref.c11Reinterned.get .pickleArray).getD Ref.c11Shared) wDeg
    && guardQ ((Ref.c11Reinterned.get .deepcopyArray).getD Ref.c11Shared) wDB

theorem tab1_decided : tab1 = true := by decide +kernel

/-- `roundtrip_state_eq_counterexample` (identity): on every route of the present code that carries
    the unit's data without its identity — pickle of a Unit, deepcopy, Unit.copy — and on pickle of
    an array (identity of every table row lost): 90° comes back with the bit lost, `sin` of it is
    `sin(90 rad)`; 300 K + 1 °C raises `InvalidUnitOperation` instead of `UnitOperationError`;
    dB * m is accepted -/
theorem identity_loss_shows_asIs :
    canonLossShows Ref.c11AsIs = true ∧ rowCanonLossShows Ref.c11AsIs = true := by
  have h := tab1_decided
  simp only [tab1, Bool.and_eq_true] at h
  exact ⟨h.1.1.1.1.1.1.1.1.1, h.1.1.1.1.1.1.1.1.2⟩

/-- … and with the candidate fix (every `lose` re-interned) the three witnesses come back with the
    bit set on every route -/
theorem identity_kept_reinterned : canonKeptRoundTrips Ref.c11Reinterned = true := by
  have h := tab1_decided
  simp only [tab1, Bool.and_eq_true] at h
  exact h.1.1.1.1.1.1.1.2

/-- the live code either shows the identity defects on every concerned route, or keeps identity -/
theorem live_identity_status :
    (canonLossShows Generated.persistRoutes = true ∧ rowCanonLossShows Generated.persistRoutes = true)
      ∨ canonKeptRoundTrips Generated.persistRoutes = true := by
  rcases active_routes_classified with h | h <;> rw [h]
  · exact Or.inl identity_loss_shows_asIs
  · exact Or.inr identity_kept_reinterned

/-- non-vacuity of the guards of `roundtrip_state_eq_partial` / `…_modulo_identity`: objects and
    routes that meet them (present code: shared-object routes, `Unit(str(u))`, JSON; pickle and
    deepcopy only modulo identity; after the candidate fix pickle and deepcopy outright) -/
theorem guards_inhabited :
    guardQ (asIsCfg .arrayCopy) wDeg = true ∧ guardQ (asIsCfg .unitOfStr) wDeg = true
      ∧ guardQ (asIsCfg .registryJson) wK = true
      ∧ guardQ (keepIdentity (asIsCfg .pickleArray)) wDeg = true
      ∧ guardQ (keepIdentity (asIsCfg .deepcopyArray)) wK = true
      ∧ guardQ ((Ref.c11Reinterned.get .pickleArray).getD Ref.c11Shared) wDeg = true
      ∧ guardQ ((Ref.c11Reinterned.get .deepcopyArray).getD Ref.c11Shared) wDB = true := by
  have h := tab1_decided
  simp only [tab1, Bool.and_eq_true] at h
  exact ⟨h.1.1.1.1.1.1.2, h.1.1.1.1.1.2, h.1.1.1.1.2, h.1.1.1.2, h.1.1.2, h.1.2, h.2⟩

/-- the hypothesis of `identity_loss_pinned_binaryQ / binarySelf` holds of the contexts the checks
    run with: exact equality at ℚ and `math.isclose` at `Float` read scale, offset and dimension only -/
example : UeqBlindF qCtx := fun _ _ _ _ => rfl
example (C : FCtx Float) (h : C.ueq = UnitV.eqFloat) : UeqBlindF C := by
  intro a b ca cb; rw [h]; rfl

end witnesses

end Unyt.C11
