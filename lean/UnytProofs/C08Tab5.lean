/-
  C08 — table obligation over the regenerated source of `_coerce_iterable_units`
  (`Generated/TempSeqSrc.lean`, written by tools/extract.d/c08_seq.py from the live source).
-/
import UnytModel.TempSeq
import UnytModel.TempReduce
import UnytModel.Generated.TempSeqSrc

namespace Unyt.C08
open Unyt.Temp

/-- the regenerated text of the unification of a sequence of quantities is the text
    `UnytModel.TempSeq.coerceIterable` implements -/
def seqSourceMatches : Bool :=
  Generated.coerceTest == srcCoerceTest.map Name.ofString
  && Generated.coerceLoopBody == srcCoerceLoopBody.map Name.ofString
  && Generated.coerceResults == srcCoerceResults.map Name.ofString
  -- the start value of a reduction is converted with `.to_value(u)` and nothing else (`tempReduceInitial`)
  && Generated.initialBlock == srcInitialBlock.map fun (a, b) => (Name.ofString a, b.map Name.ofString)

/-- `_coerce_iterable_units` converts every element with `datum.in_units(ff.units)` under the test
    `any(ff != …units…)` and labels the array with `ff` — the code `coerceIterable` models -/
theorem temp_seq_source_matches : seqSourceMatches = true := by decide +kernel

end Unyt.C08
