/-
  C17 on the equivalence routes: "never an integer operation" as a kernel-decided obligation over
  the ufunc chains recorded from the live `unyt/equivalencies.py` (all branches, copy mode, integer
  input; regenerated on every run by tools/extract.d/c17_equiv_chains.py).  Property statements only.
-/
import UnytModel.EquivChain
import UnytModel.Ref.C17
import UnytModel.Generated.EquivChains

namespace Unyt.C17Chains
open Unyt Unyt.Generated Unyt.Ref.C17

/-- the model's rule for "NumPy does integer arithmetic here" agrees with the result kind observed
    on the live code, for every step of every branch -/
theorem integer_step_rule_matches_observed :
    equivChains.all (fun b => b.steps.all (fun s => integerStep s == s.resultKind.isIntegral)) = true := by
  decide +kernel

/-- every recorded step works on the data, and every branch has at least one step -/
theorem chains_are_about_the_data :
    equivChains.all (fun b => !b.steps.isEmpty && b.steps.all ChainStep.touchesData) = true := by
  decide +kernel

/-- the full statement: on integer input no equivalence branch does integer arithmetic on the data
    (the first thing that happens to the integers is a float operation) -/
def C17_chain_full : Prop :=
  ∀ b ∈ equivChains, ∀ s ∈ b.steps, integerStep s = false

/-- it holds for every branch and step outside the listed ones: in particular every first step on
    the raw input is `np.true_divide` or a product with a float64 constant — never `np.reciprocal`,
    `np.floor_divide`, an integer power or an integer product -/
theorem no_integer_arithmetic_on_input_partial :
    ∀ b ∈ equivChains, ∀ s ∈ b.steps,
      knownIntegerSteps.contains (b.equiv, b.fromDim, b.toDim, s.ufunc) = false → integerStep s = false := by
  decide +kernel

example : ∃ b ∈ equivChains, ∃ s ∈ b.steps,
    knownIntegerSteps.contains (b.equiv, b.fromDim, b.toDim, s.ufunc) = false := by
  decide +kernel

/-- every listed exclusion is real: that branch has an integer-arithmetic step with that ufunc -/
theorem known_integer_steps_are_tight :
    knownIntegerSteps.all (fun (e, f, t, u) =>
      equivChains.any (fun b => b.equiv == e && b.fromDim == f && b.toDim == t &&
        b.steps.any (fun s => s.ufunc == u && integerStep s))) = true := by
  decide +kernel

/-- the spectral equivalence (all twelve directions), thermal, mass-energy, number-density,
    Schwarzschild and Compton branches are free of integer arithmetic — the full statement
    restricted to them -/
theorem monomial_equivalences_have_no_integer_step :
    ∀ b ∈ equivChains, b.equiv ≠ "sound_speed" → b.equiv ≠ "lorentz" → b.equiv ≠ "effective_temperature" →
      ∀ s ∈ b.steps, integerStep s = false := by
  decide +kernel

theorem chain_counterexample : ¬ C17_chain_full := by
  intro h
  have := h ⟨"sound_speed", "(length)/(time)", "(temperature)",
      [⟨"multiply", [⟨.raw, .i⟩, ⟨.raw, .i⟩], .i⟩, ⟨"multiply", [⟨.derived, .i⟩, ⟨.const, .f⟩], .f⟩,
       ⟨"divide", [⟨.derived, .f⟩, ⟨.const, .f⟩], .f⟩]⟩ (by decide +kernel)
    ⟨"multiply", [⟨.raw, .i⟩, ⟨.raw, .i⟩], .i⟩ (by decide +kernel)
  revert this
  decide +kernel

end Unyt.C17Chains
