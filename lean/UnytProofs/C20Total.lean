/-
  C20 — guarded totality of the string path of `Unit.__new__`.

  `C20_total_full` (UnytProofs/C20.lean) is false for the faithful model — `lat**0.5`,
  `(-8)**(1/3)`, `m**(2*s)` let a `TypeError` escape, `9**9**9**9` and `1e999999999` do not
  come back.  Here: on every string whose syntax tree is `simple` (numbers, names, signs,
  `* /`, parentheses, integer-literal powers up to 64 — `UnytModel/ParseGuard.lean`), the model
  answers with a unit or with `UnitParseError`, or marks the input as not modelled (numbers
  beyond 8192 bits, division by zero); it never lets another exception escape and never hangs.
-/
import UnytModel.ParseGuard
import UnytProofs.Lemmas.C20Total
import UnytProofs.Lemmas.C20Mild

namespace Unyt.C20
open Unyt Parse C20T C20W

/-- **no other exception escapes** (full strength since the fixes C20-02 / C20-03): for every string
    whatsoever the string path answers with a unit, with `UnitParseError`, or — the two outcomes
    that are not exceptions — does not come back (`hang`, the remaining finding) or is outside the
    exact model (`unmodelled`).  It never answers `TypeError` and never a decoding error. -/
theorem no_other_exception (s : String) :
    parseUnit s ≠ .error .typeError ∧ parseUnit s ≠ .error .decodeError := by
  have h := parseChars_mild s.toList
  constructor
  · intro he
    rcases h _ he with h | h | h <;> cases h
  · intro he
    rcases h _ he with h | h | h <;> cases h

/-- the same for any list of characters (what `Unit(bytes)` passes on after decoding) -/
theorem no_other_exception_chars (cs : List Char) (c : PErr) (h : parseChars cs = .error c) :
    c = .unitParseError ∨ c = .unmodelled ∨ c = .hang := parseChars_mild cs c h

/-- **guarded totality.** -/
theorem parse_total_partial (s : String) (p : PExpr) (hp : syntaxOf s = some p) (hs : simple p = true) :
    (∃ e, parseUnit s = .ok e) ∨ parseUnit s = .error .unitParseError ∨ parseUnit s = .error .unmodelled := by
  unfold syntaxOf at hp
  unfold parseUnit parseChars
  simp only [] at hp ⊢
  split at hp
  · cases hp
  · next ts hts =>
    simp only [hp]
    have hb := evalP_benign p hs
    cases he : evalP p with
    | error c =>
      rw [he] at hb
      rcases hb with rfl | rfl
      · exact Or.inr (Or.inl rfl)
      · exact Or.inr (Or.inr rfl)
    | ok v =>
      rw [he] at hb
      rcases finish_good v hb with ⟨e, h⟩ | h
      · exact Or.inl ⟨e, h⟩
      · exact Or.inr (Or.inl h)

/-- the evaluation of a guarded syntax tree never yields `TypeError`, a hang, or a decoding error -/
theorem simple_never_escapes (p : PExpr) (hs : simple p = true) (c : PErr) (h : evalP p = .error c) :
    c = .unitParseError ∨ c = .unmodelled := by
  have hb := evalP_benign p hs
  rw [h] at hb
  exact hb

/-- non-vacuity: ordinary unit strings are inside the guard (and are accepted) -/
example : (syntaxOf "kg*m**2/s**2").map simple = some true := by decide +kernel
example : (syntaxOf "-3*km/(2*hr)").map simple = some true := by decide +kernel
example : (syntaxOf "zz*m").map simple = some true := by decide +kernel
/-- the listed escapes are outside it -/
example : (syntaxOf "lat**0.5").map simple = some false ∧ (syntaxOf "(-8)**(1/3)").map simple = some false ∧
    (syntaxOf "m**(2*s)").map simple = some false ∧ (syntaxOf "9**9**9**9").map simple = some false ∧
    (syntaxOf "1e999999999*m").map simple = some false ∧ (syntaxOf "sqrt(lat)").map simple = some false := by
  decide +kernel

end Unyt.C20
