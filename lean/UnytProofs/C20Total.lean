/-
  C20 — guarded totality of the string path of `Unit.__new__`.

  `C20_total_full` (UnytProofs/C20.lean) is false for the faithful model — `lat**0.5`,
  `(-8)**(1/3)`, `m**(2*s)` let a `TypeError` escape, `9**9**9**9` and `1e999999999` do not
  come back.  Here: on every string whose syntax tree is `simple` (numbers, names, signs,
  `* /`, parentheses, integer-literal powers up to 64 — `UnytModel/ParseGuard.lean`), the model
  answers with a unit or with `UnitParseError`, or marks the input as not modelled (numbers
  beyond 8192 bits, division by zero); it never lets another exception escape and never hangs.
-/
import UnytModel.ParseGuard
import UnytProofs.Lemmas.C20Total

namespace Unyt.C20
open Unyt Parse C20T

/-- **guarded totality.** -/
theorem parse_total_partial (s : String) (p : PExpr) (hp : syntaxOf s = some p) (hs : simple p = true) :
    (∃ e, parseUnit s = .ok e) ∨ parseUnit s = .error .unitParseError ∨ parseUnit s = .error .unmodelled := by
  unfold syntaxOf at hp
  unfold parseUnit parseChars
  simp only [] at hp ⊢
  split at hp
  · cases hp
  · next ts hts =>
    by_cases hb : hasBinarySign ts = true
    · simp only [hb, if_true] at hp; cases hp
    simp only [hb, Bool.false_eq_true, if_false] at hp
    simp only [hb, Bool.false_eq_true, if_false, hp]
    have hb := evalP_benign p hs
    cases he : evalP p with
    | error c =>
      rw [he] at hb
      rcases hb with rfl | rfl
      · exact Or.inr (Or.inl rfl)
      · exact Or.inr (Or.inr rfl)
    | ok v =>
      rw [he] at hb
      rcases finish_good v hb with ⟨e, h⟩ | h
      · exact Or.inl ⟨e, h⟩
      · exact Or.inr (Or.inl h)

/-- the evaluation of a guarded syntax tree never yields `TypeError`, a hang, or a decoding error -/
theorem simple_never_escapes (p : PExpr) (hs : simple p = true) (c : PErr) (h : evalP p = .error c) :
    c = .unitParseError ∨ c = .unmodelled := by
  have hb := evalP_benign p hs
  rw [h] at hb
  exact hb

/-- non-vacuity: ordinary unit strings are inside the guard (and are accepted) -/
example : (syntaxOf "kg*m**2/s**2").map simple = some true := by decide +kernel
example : (syntaxOf "-3*km/(2*hr)").map simple = some true := by decide +kernel
example : (syntaxOf "zz*m").map simple = some true := by decide +kernel
/-- the listed escapes are outside it -/
example : (syntaxOf "lat**0.5").map simple = some false ∧ (syntaxOf "(-8)**(1/3)").map simple = some false ∧
    (syntaxOf "m**(2*s)").map simple = some false ∧ (syntaxOf "9**9**9**9").map simple = some false ∧
    (syntaxOf "1e999999999*m").map simple = some false ∧ (syntaxOf "sqrt(lat)").map simple = some false := by
  decide +kernel

end Unyt.C20
