/-
  C10 — the outer quantifier of the property, "for every REGISTERED unit system S", as a theorem.

  `UnytProofs/C10.lean` proves the conversion clauses for every well-formed system (`WF`);
  `UnytProofs/C10Registry.lean` proves by induction over histories that what is registered passed
  the validation of `__init__`.  Here the two are composed: along ANY history of admissible steps
  (constructions without a registry from parser-canonical units — accepted or REJECTED, under
  fresh or already registered names —, memoising look-ups, dimensionally right overrides,
  look-ups by name and by object) every live object stays well-formed, so whatever a name
  resolves to afterwards is a system on which `C10_partial` holds
  (`registered_systems_obey_C10`).
-/
import UnytProofs.C10
import UnytProofs.C10Registry

namespace Unyt
namespace C10

open SysWorld

section
variable {K : Type} [Lean.Grind.Field K] [RPow K] [BEq K] [LawfulBEq K]
variable (P : K → Prop) (laws : RPowLaws (RPow.rpow (K := K)) P)

/-- the base units of a construction are parser-canonical and resolve to positive scales (the
    hypothesis `hcanon` of `user_system_usable`) -/
def CanonUnits (pre : Prefixes K) (t : Lut K) (inv : List (String × String)) (units : List (Option (UExpr K))) : Prop :=
  ∀ e, some e ∈ units → UExpr.normF e.factors = e.factors ∧ P e.coeff ∧
    ∀ s q, (s, q) ∈ e.factors → (∀ c, invLookup inv s = some c → c = s) ∧
      (∀ ent, resolve pre t s = some ent → P ent.scale)

/-- the steps covered: constructions without a registry from canonical units (whether the
    validation then accepts or rejects them is NOT assumed), overrides with a unit of the
    dimension they are filed under, and every look-up -/
def Admissible (pre : Prefixes K) (t : Lut K) (inv : List (String × String)) : SysOp K → Prop
  | .construct _ reg units => reg = none ∧ CanonUnits P pre t inv units
  | .setitem _ d e => ExprOK P pre t e d
  | _ => True

/-- the registry invariant together with well-formedness of every live object -/
structure RegWF (pre : Prefixes K) (t : Lut K) (inv : List (String × String)) (W : SysWorld K) : Prop where
  inv : RegInv pre t inv W
  wf : ∀ o, o ∈ W.heap → WF P pre t o.sys

omit laws [BEq K] [LawfulBEq K] in
/-- before anything is registered -/
theorem empty_world_regwf (pre : Prefixes K) (t : Lut K) (inv : List (String × String)) :
    RegWF P pre t inv { heap := [], names := [] } :=
  { inv := { heap_ok := fun _ h => (by cases h), names_ok := fun _ _ h => (by simp [dfind?] at h) },
    wf := fun _ h => (by cases h) }

omit laws [BEq K] [LawfulBEq K] in
/-- an override with a unit of the right dimension keeps a system well-formed -/
theorem setItem_WF (pre : Prefixes K) (t : Lut K) (S S' : USys K) (d : Dim) (e : UExpr K)
    (hS : WF P pre t S) (he : ExprOK P pre t e d) (h : S.setItem d e = .ok S') : WF P pre t S' := by
  simp only [USys.setItem] at h
  split at h
  · contradiction
  · cases h
    constructor
    · intro d' b hb
      simp only [UMap.get?_set] at hb
      by_cases hd : d' = d
      · subst hd
        simp only [if_true, Option.some.injEq] at hb
        subst hb; exact he
      · simp only [hd, if_false] at hb
        exact hS.entries d' b hb
    · intro bd hbd hne
      simp only [UMap.get?_set]
      by_cases hd : bd = d
      · simp [hd]
      · simp only [hd, if_false]
        exact hS.base bd hbd hne

include laws

/-- **every admissible step keeps every live object well-formed** (and the registry invariant) -/
theorem regwf_step (pre : Prefixes K) (t : Lut K) (inv : List (String × String)) (hT : NamesAgree pre t inv)
    (W : SysWorld K) (hW : RegWF P pre t inv W) (op : SysOp K) (ha : Admissible P pre t inv op) :
    RegWF P pre t inv (step pre t inv W op).1 := by
  refine ⟨registry_step_inv pre t inv W hW.inv op, ?_⟩
  cases op with
  | construct name reg units =>
    obtain ⟨hr, hc⟩ := ha
    subst hr
    cases hi : USys.init pre t inv none name units with
    | error e => rw [rejected_construction_changes_nothing pre t inv W name none units e hi]; exact hW.wf
    | ok S =>
      simp only [step, hi]
      intro o ho
      rcases List.mem_append.mp ho with h | h
      · exact hW.wf o h
      · simp only [List.mem_singleton] at h
        subst h
        exact user_system_usable P laws pre t inv hT name units S hi hc
  | getitem j d =>
    simp only [step]
    split
    · exact hW.wf
    · rename_i oj hj
      split
      · exact hW.wf
      · rename_i e S' hg
        intro o ho
        rcases List.mem_or_eq_of_mem_set ho with h | h
        · exact hW.wf o h
        · subst h
          exact (memo_transparent P laws pre t oj.sys (hW.wf oj (List.mem_of_getElem? hj)) d e S' hg).2.2
  | setitem j d e =>
    simp only [step]
    split
    · exact hW.wf
    · rename_i oj hj
      split
      · exact hW.wf
      · rename_i S' hg
        intro o ho
        rcases List.mem_or_eq_of_mem_set ho with h | h
        · exact hW.wf o h
        · subst h
          exact setItem_WF P pre t oj.sys S' d e (hW.wf oj (List.mem_of_getElem? hj)) ha hg
  | byName n => exact hW.wf
  | byObject j =>
    simp only [step]
    split <;> exact hW.wf

/-- … and so does every admissible history -/
theorem regwf_run (pre : Prefixes K) (t : Lut K) (inv : List (String × String)) (hT : NamesAgree pre t inv)
    (ops : List (SysOp K)) (hadm : ∀ op, op ∈ ops → Admissible P pre t inv op)
    (W : SysWorld K) (hW : RegWF P pre t inv W) : RegWF P pre t inv (run pre t inv W ops) := by
  induction ops generalizing W with
  | nil => exact hW
  | cons op ops ih =>
    exact ih (fun o ho => hadm o (List.mem_cons_of_mem _ ho)) _
      (regwf_step P laws pre t inv hT W hW op (hadm op List.mem_cons_self))

/-- **for every registered unit system**: after any admissible history — rejected constructions
    and re-definitions under registered names included — whatever a name resolves to is a live
    object of that name, well-formed, on which the conversion clauses of C10 hold for every unit
    of non-electromagnetic dimension and every reading (`C10_partial`), whatever the EM table -/
theorem registered_systems_obey_C10 (hP0 : ∀ a : K, P a → a ≠ 0)
    (pre : Prefixes K) (t : Lut K) (inv : List (String × String)) (hT : NamesAgree pre t inv)
    (ops : List (SysOp K)) (hadm : ∀ op, op ∈ ops → Admissible P pre t inv op)
    (W : SysWorld K) (hW : RegWF P pre t inv W) (n : String) (i : Nat)
    (h : (run pre t inv W ops).resolveName n = .system i) :
    ∃ o, (run pre t inv W ops).heap[i]? = some o ∧ o.sys.name = n ∧ WF P pre t o.sys ∧
      ∀ (T : EmTable K) (u : UnitV K), T.hasDim u.dim = false ∧ u.scale ≠ 0 →
        ∀ x, ClosedAt pre t T o.sys u x := by
  have hR := regwf_run P laws pre t inv hT ops hadm W hW
  simp only [resolveName] at h
  cases hj : dfind? (run pre t inv W ops).names n with
  | none => rw [hj] at h; cases h
  | some j =>
    rw [hj] at h
    cases h
    obtain ⟨o, ho, hon⟩ := hR.inv.names_ok n i hj
    have hwf := hR.wf o (List.mem_of_getElem? ho)
    exact ⟨o, ho, hon, hwf, fun T u hu x => C10_partial P laws pre t T hP0 o.sys hwf u hu x⟩

end

end C10
end Unyt
