/-
  C05 — the regenerated control flow of `Unit.__mul__` / `__truediv__` / `__pow__` computes the model.

  `Generated.C05Paths.{mul,truediv,pow}Paths` are rewritten from the live `unyt/unit_object.py` on every run
  (tools/extract.d/c05_paths.py).  The theorems below say: whatever the opaque conditions answer (`ω`), for
  EVERY pair of unit values and every exponent the interpreted source program returns exactly what
  `UnitV.mul` / `UnitV.div` / `UnitV.powSrc` return — values built from the operands' stored scale,
  dimension and expression, and the same refusals.  All laws proved about `mul`/`div`/`pow` in
  `UnytProofs/C05.lean` and `UnytProofs/C05Div.lean` thereby hold of the program read off the source; an
  added early return (e.g. "same expression ⇒ dimensionless"), a dropped guard or a changed field makes
  these statements false and the build fails.
-/
import UnytModel.UnitPaths
import UnytModel.Generated.C05Paths
import UnytProofs.C05Div

set_option linter.unusedSectionVars false
set_option linter.unusedSimpArgs false

namespace Unyt.C05
open Unyt UnitV UnitPaths Generated.C05Paths

section refine
variable {K : Type} [Mul K] [Div K] [OfNat K 1] [OfNat K 0] [RPow K] [BEq K]

/-- the source of `Unit.__truediv__` computes `UnitV.div` on the stored data of any two units -/
theorem truediv_paths_refine (ω : String → Bool) (u v : UnitV K) (p : Rat) :
    evalPaths ω u v p truedivPaths = u.div v := by
  simp only [truedivPaths, evalPaths, guardHolds, Cond.eval, Atom.eval, Outcome.eval, exprField, scaleField,
    dimField, OffE.eval, UnitV.div]
  by_cases h1 : u.isLogarithmic = true <;> by_cases h2 : v.isLogarithmic = true <;>
  by_cases h3 : u.isDimensionless = true <;> by_cases h4 : v.isDimensionless = true <;>
  by_cases h5 : (u.offset != 0) = true <;> by_cases h6 : (v.offset != 0) = true <;>
  by_cases h7 : u.isTempOrAngle = true <;> by_cases h8 : v.isTempOrAngle = true <;>
  simp [h1, h2, h3, h4, h5, h6, h7, h8]

/-- the source of `Unit.__mul__` computes `UnitV.mul` on the stored data of any two units -/
theorem mul_paths_refine (ω : String → Bool) (u v : UnitV K) (p : Rat) :
    evalPaths ω u v p mulPaths = u.mul v := by
  simp only [mulPaths, evalPaths, guardHolds, Cond.eval, Atom.eval, Outcome.eval, exprField, scaleField,
    dimField, OffE.eval, UnitV.mul, UnitV.mulOffset]
  by_cases h1 : u.isLogarithmic = true <;> by_cases h2 : v.isLogarithmic = true <;>
  by_cases h3 : u.isDimensionless = true <;> by_cases h4 : v.isDimensionless = true <;>
  by_cases h5 : (u.offset != 0) = true <;> by_cases h6 : (v.offset != 0) = true <;>
  by_cases h7 : u.isTempOrAngle = true <;> by_cases h8 : v.isTempOrAngle = true <;>
  simp [h1, h2, h3, h4, h5, h6, h7, h8]

/-- the source of `Unit.__pow__` computes `UnitV.powSrc` (exponent already rationalised) -/
theorem pow_paths_refine (ω : String → Bool) (u v : UnitV K) (p : Rat) :
    evalPaths ω u v p powPaths = u.powSrc p := by
  simp only [powPaths, evalPaths, guardHolds, Cond.eval, Atom.eval, Outcome.eval, exprField, scaleField,
    dimField, OffE.eval, UnitV.powSrc]
  have e1 : (p != 1) = !(p == 1) := rfl
  have e0 : (p != 0) = !(p == 0) := rfl
  rw [e1, e0]
  by_cases h1 : u.isLogarithmic = true <;> by_cases h5 : (u.offset != 0) = true <;>
  by_cases hb1 : (p == 1) = true <;> by_cases hb0 : (p == 0) = true <;>
  simp [h1, h5, hb1, hb0]

/-- the source of `Unit.__eq__` decides equality by (scale, offset, dimension) only — whatever the closeness
    relation on numbers is (`math.isclose` at `Float`, `==` at an exact carrier); the expression, the
    registry and the identity of the dimension object play no role -/
theorem eq_paths_refine (close : K → K → Bool) (ω : String → Bool) (u v : UnitV K) :
    evalBoolPaths close ω u v eqPaths
      = some (close u.scale v.scale && close u.offset v.offset && u.dim == v.dim) := by
  simp only [eqPaths, evalBoolPaths, guardHoldsB, Cond.evalB, Atom.evalB, Atom.eval]
  by_cases h1 : u.canon = true <;> by_cases h2 : v.canon = true <;> by_cases h3 : (u.dim == v.dim) = true <;>
  by_cases h4 : close u.scale v.scale = true <;> by_cases h5 : close u.offset v.offset = true <;>
  simp [h1, h2, h3, h4, h5]

/-- … at an exact carrier it is `UnitV.eqv` (the subject of `eq_iff_scale_offset_dim`) -/
theorem eq_paths_exact (ω : String → Bool) (u v : UnitV K) :
    evalBoolPaths (· == ·) ω u v eqPaths = some (UnitV.eqv u v) := by
  rw [eq_paths_refine]; rfl

/-- … and at `Float` with `math.isclose` it is `UnitV.eqFloat`, what the driver's `ueq` runs -/
theorem eq_paths_float (ω : String → Bool) (u v : UnitV Float) :
    evalBoolPaths Float.isclose ω u v eqPaths = some (UnitV.eqFloat u v) := by
  rw [eq_paths_refine]; rfl

end refine

section powsrc
variable {K : Type} [Lean.Grind.Field K] [BEq K] [LawfulBEq K] [RPow K]

/-- `UnitV.powSrc` (the source's `__pow__`, which keeps the offset for the exponent 1) and `UnitV.pow` (the
    shared model the power laws of `UnytProofs/C05.lean` are about) agree whenever the unit has no offset
    or the exponent is not 1 -/
theorem powSrc_eq_pow (u : UnitV K) (p : Rat) (h : u.offset = 0 ∨ p ≠ 1) : u.powSrc p = u.pow p := by
  simp only [UnitV.powSrc, UnitV.pow]
  have : (if (p == 1) = true then u.offset else 0) = 0 := by
    rcases h with h | h
    · simp [h]
    · simp [h]
  rw [this]

/-- `u ** 1` is `u`, offset included (`degC ** 1 == degC`) -/
theorem pow_one (P : K → Prop) (laws : RPowLaws (RPow.rpow (K := K)) P) (u : UnitV K)
    (hs : P u.scale) (hc : P u.expr.coeff) :
    ∃ z, u.powSrc 1 = .ok z ∧ UnitV.Equiv z u := by
  have h1 : ((1 : Rat) != 1) = false := by decide +kernel
  have h2 : ((1 : Rat) == 1) = true := by decide +kernel
  refine ⟨⟨u.expr.pow 1, RPow.rpow u.scale 1, u.offset, u.dim.pow 1, true⟩, ?_, ?_⟩
  · simp [UnitV.powSrc, h1, h2]
  · refine ⟨laws.rpow_one hs, rfl, Dim.pow_one _, ⟨laws.rpow_one hc, fun s => ?_⟩⟩
    simp only [UExpr.pow, expOf_scaleF]; grind

/-- `u ** 0` is the dimensionless unit for every non-logarithmic unit, offset units included -/
theorem pow_zero (P : K → Prop) (laws : RPowLaws (RPow.rpow (K := K)) P) (u : UnitV K)
    (hl : u.isLogarithmic = false) (hs : P u.scale) (hc : P u.expr.coeff) :
    ∃ z, u.powSrc 0 = .ok z ∧ UnitV.Equiv z UnitV.dimensionless := by
  have h1 : ((0 : Rat) != 0) = false := by decide +kernel
  have h2 : ((0 : Rat) == 1) = false := by decide +kernel
  refine ⟨⟨u.expr.pow 0, RPow.rpow u.scale 0, 0, u.dim.pow 0, true⟩, ?_, ?_⟩
  · simp [UnitV.powSrc, hl, h1, h2]
  · refine ⟨laws.rpow_zero hs, rfl, Dim.pow_zero _, ⟨laws.rpow_zero hc, fun s => ?_⟩⟩
    simp only [UExpr.pow, expOf_scaleF, UnitV.dimensionless, UExpr.one, expOf_nil]; grind

end powsrc

/-- table obligations on the regenerated programs: every returned unit belongs to `self.registry`; no
    statement of the three bodies is outside the translator's reading; `__pow__` rationalises its
    exponent first; `__rmul__`/`__rtruediv__` are `self.__mul__(u)` and `u * self**-1` -/
theorem paths_table_obligations :
    regsOfSelf mulPaths = true ∧ regsOfSelf truedivPaths = true ∧ regsOfSelf powPaths = true
    ∧ unknownStmts = [] ∧ powRationalises = true
    ∧ rmulSrc = "self.__mul__(u)" ∧ rtruedivSrc = "u * self ** (-1)" := by
  decide +kernel

end Unyt.C05
