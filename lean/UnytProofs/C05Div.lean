/-
  C05 — division of unit objects works on the STORED data of its operands.

  `Unit.__truediv__` builds the quotient from `self.base_value / u.base_value`,
  `self.dimensions / u.dimensions`, `self.expr / u.expr`: what the operands are *spelled* like
  (and which registry they point to) plays no role.  Two unit objects with the same spelling in
  the same registry may carry different data (one is older than a `registry.modify`, or was built
  with explicit `base_value=`/`dimensions=`), so none of the laws may be decided on the spelling.
  The theorems are about `UnitV.div`/`UnitV.mul`/`UnitV.pow` — the functions the driver runs for
  the opcodes `udiv`/`umul`/`upow` — for every pair of unit values.
-/
import UnytModel.Unit
import UnytProofs.C05
import UnytProofs.Lemmas.C05Dim

set_option linter.unusedSectionVars false

namespace Unyt.C05
open Unyt UnitV

variable {K : Type} [Lean.Grind.Field K] [BEq K] [LawfulBEq K] [RPow K]

/-- what an accepted quotient is: scale, dimension and expression are the quotients of the
    operands' STORED scale, dimension and expression; the offset is the numerator's -/
theorem div_ok (u v z : UnitV K) (h : u.div v = .ok z) :
    z.scale = u.scale / v.scale ∧ z.dim = u.dim / v.dim ∧ z.expr = u.expr.div v.expr
    ∧ z.offset = u.offset := by
  simp only [UnitV.div] at h
  split at h; · contradiction
  split at h; · contradiction
  split at h
  · contradiction
  · rename_i o ho
    cases h
    refine ⟨rfl, rfl, rfl, ?_⟩
    split at ho
    · split at ho
      · cases ho; rfl
      · contradiction
    · rename_i hz
      cases ho
      have : u.offset = 0 := by
        cases h1 : (u.offset != 0) <;> simp_all
      exact this.symm

/-- homomorphism onto (scale, dimension) for quotients -/
theorem hom_scale_dim_div (u v z : UnitV K) (h : u.div v = .ok z) :
    z.scale = u.scale / v.scale ∧ z.dim = u.dim / v.dim :=
  let ⟨a, b, _, _⟩ := div_ok u v z h; ⟨a, b⟩

/-- the spelling does not decide the quotient: two units with the SAME expression (one built
    before, one after a `registry.modify`) still divide to the quotient of their stored scales
    and dimensions — no "same expression ⇒ dimensionless 1" shortcut is sound -/
theorem div_same_spelling (u v z : UnitV K) (_he : u.expr = v.expr) (h : u.div v = .ok z) :
    z.scale = u.scale / v.scale ∧ z.dim = u.dim / v.dim :=
  hom_scale_dim_div u v z h

/-- and a quotient of equally spelled units is the dimensionless unit only when the stored
    scales agree: if the result has scale 1 the operands' scales are equal -/
theorem div_same_spelling_one (u v z : UnitV K) (_he : u.expr = v.expr) (hv : v.scale ≠ 0)
    (h : u.div v = .ok z) (h1 : z.scale = 1) : u.scale = v.scale := by
  have := (div_ok u v z h).1
  rw [h1] at this
  grind

/-- `(u / v) * v` is `u` again (zero-offset operands, non-zero stored scale and coefficient) -/
theorem div_mul_cancel (u v d r : UnitV K) (hu : u.offset = 0) (hv : v.offset = 0)
    (hs : v.scale ≠ 0) (hc : v.expr.coeff ≠ 0)
    (h1 : u.div v = .ok d) (h2 : d.mul v = .ok r) : UnitV.Equiv r u := by
  obtain ⟨ds, dd, de, dof⟩ := div_ok u v d h1
  have wf0 : ∀ (x : UnitV K), x.offset = 0 → x.WF := fun x hx h => absurd hx h
  obtain ⟨rs, rd, re, ro, _⟩ := mul_ok d v r (wf0 _ (by rw [dof, hu])) (wf0 _ hv) h2
  refine ⟨by rw [rs, ds]; grind, by rw [ro, dof, hv, hu]; grind, ?_, ?_⟩
  · rw [rd, dd]; exact Dim.div_mul_cancel' _ _
  · rw [re, de]
    refine ⟨by simp only [UExpr.mul, UExpr.div]; grind, fun s => ?_⟩
    simp only [UExpr.mul, UExpr.div, expOf_append, expOf_negF]; grind

variable (P : K → Prop) (laws : RPowLaws (RPow.rpow (K := K)) P)
include laws

/-- `u / v == u * v**-1` on the stored data of any two units -/
theorem div_eq_mul_inv (u v d i m : UnitV K) (hu : u.WF) (hs : P v.scale) (hc : P v.expr.coeff)
    (h1 : u.div v = .ok d) (h2 : v.pow (-1) = .ok i) (h3 : u.mul i = .ok m) : UnitV.Equiv d m := by
  obtain ⟨ds, dd, de, dof⟩ := div_ok u v d h1
  simp only [UnitV.pow] at h2
  split at h2 <;> try contradiction
  split at h2 <;> try contradiction
  cases h2
  have wf0 : ∀ (x : UnitV K), x.offset = 0 → x.WF := fun x hx h => absurd hx h
  obtain ⟨ms, md, me, mo, _⟩ := mul_ok u _ m hu (wf0 _ rfl) h3
  have inv_of : ∀ x : K, P x → x * RPow.rpow x (-1) = 1 := by
    intro x hx
    have h1 := laws.rpow_one hx
    have h2 := laws.rpow_add (1 : Rat) (-1) hx
    have h3 := laws.rpow_zero hx
    have : (1 : Rat) + -1 = 0 := by grind
    rw [this, h3, h1] at h2; exact h2.symm
  have rs := inv_of _ hs
  have rc := inv_of _ hc
  refine ⟨?_, ?_, ?_, ?_⟩
  · rw [ds, ms]; grind
  · rw [dof, mo]; grind
  · rw [dd, md]; exact Dim.div_eq_mul_pow_neg_one _ _
  · rw [de, me]
    refine ⟨by simp only [UExpr.mul, UExpr.div, UExpr.pow]; grind, fun s => ?_⟩
    simp only [UExpr.mul, UExpr.div, UExpr.pow, expOf_append, expOf_negF, expOf_scaleF]; grind

/-! ### non-vacuity: a concrete pair of equally spelled units with different stored scales -/
namespace Witness

@[instance_reducible] def idRPow : RPow Rat := ⟨fun x _ => x⟩
attribute [local instance] idRPow

/-- `code_length` as built before `registry.modify("code_length", 3)` … -/
def old : UnitV Rat := ⟨UExpr.sym "code_length", 1, 0, Dim.dLength, true⟩
/-- … and after it: same expression, another stored scale -/
def new : UnitV Rat := ⟨UExpr.sym "code_length", 3, 0, Dim.dLength, true⟩

/-- the hypotheses of `div_same_spelling` are met by `new / old`, and its scale is 3 — not the 1 a
    "same expression ⇒ dimensionless unit" shortcut would return -/
theorem div_same_spelling_witness :
    new.expr = old.expr ∧ ∃ z, new.div old = .ok z ∧ z.scale = 3 ∧ z.scale ≠ 1 ∧ z.dim = Dim.one := by
  refine ⟨rfl, _, rfl, ?_, ?_, ?_⟩ <;> decide +kernel

example : ∃ z, new.div old = .ok z ∧ z.scale = new.scale / old.scale ∧ z.dim = new.dim / old.dim :=
  ⟨_, rfl, (div_same_spelling new old _ rfl rfl).1, (div_same_spelling new old _ rfl rfl).2⟩

end Witness

end Unyt.C05
