/-
  C18 — `inplace_equals_copy_numbers`, the part that rests on other properties' theorems:
  C03 `routes_agree` (the in-place route and `in_units` compute the same reading for every scale,
  offset and value) and C17 `routes_agree_dtype` (they select the same dtype).  Kept in a module of its
  own so that a break in C03/C17 does not hide C18's own obligations.
-/
import UnytModel.Effects
import UnytProofs.Lemmas.C18
import UnytProofs.C18
import UnytProofs.C03
import UnytProofs.C17

set_option linter.unusedSectionVars false
set_option linter.unusedVariables false

namespace Unyt.C18
open Unyt Unyt.Effects

section numbers
variable {K : Type} [Lean.Grind.Field K] [BEq K] [LawfulBEq K] [RPow K]

/-- **inplace_equals_copy_numbers** (`convert_to_units` vs `in_units`/`to`, outside the EM branch):
    for every unit table, every pair of units, every value — a `convert_to_units` that returns
    leaves exactly the reading and the unit that `in_units` returns for the same request -/
theorem convert_to_units_equals_in_units (fl : CtuFlags) (N : NumpyFacts) (P : DtypeRules) (pre : Prefixes K) (t : Lut K)
    (T : EmTable K) (a : Arr K) (tg : UnitV K) (x : K) (nm : Bool) (kern : String → K → K) (stored : K)
    (hem : checkEmTo pre t T a.unit tg = .ok none)
    (h : (runSteps (convertToUnitsSteps fl N P pre t T a (.ok tg))).result = .ok ()) :
    let r := after kern stored a x nm (runSteps (convertToUnitsSteps fl N P pre t T a (.ok tg)))
    inUnits pre t a.unit x tg = .ok (r.value, r.unit)
      ∧ convertToUnits pre t (x, a.unit) tg = .ok (r.value, r.unit) := by
  obtain ⟨f, hf, hv, hu, _, _, _⟩ := convert_to_units_success fl N P pre t T a tg x nm kern stored h
  have hg : getConversionFactor pre t a.unit tg = .ok f := by
    unfold ctuPrelude at hf
    rw [hem] at hf
    dsimp only at hf
    cases hgc : getConversionFactor pre t a.unit tg with
    | error e => rw [hgc] at hf; simp at hf
    | ok f' => rw [hgc] at hf; simp at hf; rw [hf]
  have hra := C03.routes_agree pre t a.unit tg x
  have h3 := hra.2.2 f hg
  dsimp only
  rw [hv, hu]
  exact ⟨h3, hra.1.trans h3⟩

end numbers

open Unyt.Generated in
/-- **inplace_equals_copy_numbers**, dtype part (live NumPy facts and regenerated dtype rules): when
    `convert_to_units` returns on data of any integer / float / complex dtype, the dtype it leaves
    is the dtype `in_units` gives its copy -/
theorem convert_to_units_dtype_equals_in_units_dtype {K : Type} [Add K] [Sub K] [Mul K] [Div K] [OfNat K 0] [OfNat K 1]
    [BEq K] [RPow K] (fl : CtuFlags) (pre : Prefixes K) (t : Lut K)
    (T : EmTable K) (a : Arr K) (tg : UnitV K) (x : K) (nm : Bool) (kern : String → K → K) (stored : K)
    (hd : a.dtype ∈ C17.scope)
    (h : (runSteps (convertToUnitsSteps fl liveNumpy liveRules pre t T a (.ok tg))).result = .ok ()) :
    inUnitsDtype liveNumpy liveRules a.dtype
      = .ok (after kern stored a x nm (runSteps (convertToUnitsSteps fl liveNumpy liveRules pre t T a (.ok tg)))).dtype := by
  obtain ⟨f, _, _, _, _, _, hdt⟩ := convert_to_units_success fl liveNumpy liveRules pre t T a tg x nm kern stored h
  have h17 := C17.routes_agree_dtype a.dtype hd
  rw [show C17.N = liveNumpy from rfl, show C17.P = liveRules from rfl, hdt] at h17
  cases hi : inUnitsDtype liveNumpy liveRules a.dtype with
  | error e => rw [hi] at h17; simp [C17.eqOut] at h17
  | ok d' =>
    rw [hi] at h17
    simp [C17.eqOut] at h17
    rw [h17]

end Unyt.C18
