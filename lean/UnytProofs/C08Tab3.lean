/-
  C08 — kernel-decided obligations over the regenerated temperature tables, part 3: the numbers
  computed from the regenerated table against those from the exact table.  Property statements only.
-/
import UnytModel.TempCheck

namespace Unyt.C08
open Unyt Unyt.Temp

/-- the numbers the table contributes to a returned value — the rescaling factors of the binary
    path and the factor and offset of a conversion — computed from the regenerated table (the exact
    values of the doubles the code holds) are within 2⁻⁴⁷ of those computed from the exact table,
    for every ordered pair of units of the regenerated universe.  Together with
    `temp_generated_decisions_*` this is the bridge from the theorems (over `Ref.exactTab`) to the
    table the driver and the library compute with; IEEE rounding of the arithmetic itself is outside. -/
theorem temp_generated_numbers_close : numbersCloseArith = true := by decide +kernel

end Unyt.C08
