/-
  C20 — the print/parse round trip at the token level, for every expression.

  For every expression `e` with a non-zero coefficient whose symbols are ordinary unit symbols
  (not `sqrt`, not a class name of `global_dict`, fixed points of the name table — true of
  every atomic symbol of the regenerated unit table except the 48 listed non-canonical ones,
  which cannot occur in a parsed `Unit('µm')` but do occur in `Unit('micrometer')`):

      tokens of the printed layout  --parseTokens-->  a syntax tree  --evalP-->  x ≈ e

  whenever the evaluator answers at all (it declines with `unmodelled` only beyond its size
  guards).  Together with `print_parse_ast` (layout ≈ expression) and `tokens_roundtrip`
  (tokens ↦ syntax tree) this is `parse (render (printAst e)) ≈ e` with the character level
  (`tokenize (render a) = renderTokens a`) left to the correspondence opcode `c20.layout`.
-/
import UnytModel.Reparse
import UnytProofs.Lemmas.C20Sem
import UnytProofs.C20
import UnytProofs.C20Syntax

set_option maxRecDepth 1000000

namespace Unyt.C20
open Unyt Parse Print UExpr C20M Reparse

/-- the syntax tree of a printed layout means the layout: whenever `evalP (syn a)` answers, it
    answers a monomial `≈ evalAst a` (any sign, coefficient, exponents; literals non-zero and
    names ordinary) -/
theorem layout_meaning (a : Ast) (h : AstOK a) (x : UExpr Rat) (hx : evalP (syn a) = .ok (.mono x)) :
    x.Equiv (evalAst a) := by
  obtain ⟨y, hy, he⟩ := layout_sem a h _ hx
  cases hy
  exact he

/-- **print → tokens → parse → evaluate is the identity up to `≈`.** -/
theorem print_parse_roundtrip (e : UExpr Rat) (hc : e.coeff ≠ 0)
    (hs : ∀ p ∈ normF e.factors, Ordinary p.1) :
    ∃ p, parseTokens (renderTokens (printAst e)) = some p ∧
      ∀ x, evalP p = .ok (.mono x) → x.Equiv e := by
  refine ⟨syn (printAst e), tokens_roundtrip _, fun x hx => ?_⟩
  exact equiv_trans (layout_meaning _ (printAst_ok e hc hs) x hx) (print_parse_ast e)

/-- **`a**-1` and `1/a` are the same expression**, for every sub-expression `a` that evaluates to a
    monomial with non-zero coefficient: whenever the evaluator answers on both spellings, the answers
    are `≈` (this is a statement about `evalP`, the function the driver runs on parsed text — the
    general counterpart of the `inversePower` rows of the reference list of `spellings_equal`) -/
theorem neg_one_power_is_reciprocal (a : PExpr) (x : UExpr Rat) (hx : evalP a = .ok (.mono x))
    (hc : x.coeff ≠ 0) (v w : Val)
    (h1 : evalP (.pow a (.neg (.num 1 0))) = .ok v) (h2 : evalP (.div (.num 1 0) a) = .ok w) :
    ∃ p q, v = .mono p ∧ w = .mono q ∧ p.Equiv q := by
  -- the quotient
  simp only [evalP] at h2
  obtain ⟨o, ho, h2⟩ := bind_ok h2
  obtain ⟨x', hx', h2⟩ := bind_ok h2
  have hx'' : evalP a = .ok x' := hx'
  rw [hx] at hx''; cases hx''
  have ho' := evalP_num_sem 1 o (by simpa [evalP] using ho)
  rw [ho'] at h2
  have hone : ((((1 : Nat) : Int) : Rat)) ≠ 0 := by decide
  obtain ⟨q, rfl, hq⟩ := vDiv_sem (sx := ⟨(((1 : Nat) : Int) : Rat), []⟩) (sy := x) (equiv_refl _) (equiv_refl _) hone hc h2
  -- the power
  simp only [evalP] at h1
  obtain ⟨x1, hx1, h1⟩ := bind_ok h1
  rw [hx] at hx1; cases hx1
  obtain ⟨y, hy, h1⟩ := bind_ok h1
  have hy' := evalP_neg_num_sem 1 y (by simpa [evalP] using hy)
  rw [hy'] at h1
  have hm1 : (-(((1 : Nat) : Int) : Rat)) = -1 := by decide +kernel
  rw [hm1] at h1
  have e0 : ¬ ((-1 : Rat) = 0) := by decide
  have ed : (-1 : Rat).den = 1 := rfl
  have en : (-1 : Rat).num = -1 := rfl
  simp only [vPow, List.isEmpty_nil, Bool.not_true, Bool.false_eq_true, if_false, e0, hc, ed, if_true, en] at h1
  obtain ⟨cn, hcn, h1⟩ := bind_ok h1
  have hcn' := numPowInt_neg_one hc hcn
  have hcn0 : cn ≠ 0 := by
    rw [hcn']; intro h0
    have : (1 : Rat) / x.coeff * x.coeff = 1 := Rat.div_mul_cancel hc
    rw [h0, Rat.zero_mul] at this
    exact absurd this (by decide)
  refine ⟨_, q, mkMono_ok h1 hcn0, rfl, ?_⟩
  refine equiv_trans ⟨?_, fun t => ?_⟩ ⟨hq.1.symm, fun t => (hq.2 t).symm⟩
  · show cn = (((1 : Nat) : Int) : Rat) / x.coeff
    rw [hcn']; congr 1
  · show expOf (normF (scaleF x.factors (-1))) t = expOf ([] ++ negF x.factors) t
    rw [expOf_normF, expOf_scaleF, List.nil_append, expOf_negF]; grind

/-- the same up to the end of `Unit.__new__` (`finish` = table look-up and `_get_unit_data_from_expr`):
    if moreover every symbol of the answered monomial resolves in the table and no negative-scale
    symbol (`lat`) sits under a fractional power (`factorFlags = (false, false)`), the unit is
    constructed and its expression is `≈ e`.  Without that hypothesis the statement is false:
    `sqrt(lat)` is answered by the evaluator and refused by `finish` (kept finding
    `reparse|…|negative-scale-root`). -/
theorem print_parse_roundtrip_unit (e : UExpr Rat) (hc : e.coeff ≠ 0)
    (hs : ∀ p ∈ normF e.factors, Ordinary p.1) :
    ∃ p, parseTokens (renderTokens (printAst e)) = some p ∧
      ∀ x, evalP p = .ok (.mono x) → factorFlags x.factors = (false, false) →
        finish (.mono x) = .ok x ∧ x.Equiv e := by
  obtain ⟨p, hp, hx⟩ := print_parse_roundtrip e hc hs
  refine ⟨p, hp, fun x h1 h2 => ⟨?_, hx x h1⟩⟩
  simp only [finish, unitData, h2]

theorem sqrt_lat_answered_but_refused :
    answersMono (evalP (syn (printAst ⟨1, [("lat", (1 : Rat) / 2)]⟩))) = true ∧
    isOrdinary "lat" = true ∧
    (match parseUnit "sqrt(lat)" with | .error .unitParseError => true | _ => false) = true := by decide +kernel

/-- every atomic symbol of the regenerated unit table is an ordinary symbol (kernel-decided), so the
    hypothesis of `print_parse_roundtrip` holds for every expression over table symbols -/
theorem table_symbols_ordinary : lutKeys.all isOrdinary = true := by decide +kernel

/-- non-vacuity: a concrete expression meeting the hypotheses, and the evaluator does answer -/
example : answersMono (evalP (syn (printAst ⟨(-3 : Rat) / 2, [("m", 1), ("s", -2), ("kg", (1 : Rat) / 2)]⟩))) = true := by
  decide +kernel
example : isOrdinary "m" = true ∧ isOrdinary "sqrt" = false ∧ isOrdinary "µm" = false := by decide +kernel

end Unyt.C20
