/-
  C20 — the print/parse round trip at the token level, for every expression.

  For every expression `e` with a non-zero coefficient whose symbols are ordinary unit symbols
  (not `sqrt`, not a class name of `global_dict`, fixed points of the name table — true of
  every atomic symbol of the regenerated unit table except the 48 listed non-canonical ones,
  which cannot occur in a parsed `Unit('µm')` but do occur in `Unit('micrometer')`):

      tokens of the printed layout  --parseTokens-->  a syntax tree  --evalP-->  x ≈ e

  whenever the evaluator answers at all (it declines with `unmodelled` only beyond its size
  guards).  Together with `print_parse_ast` (layout ≈ expression) and `tokens_roundtrip`
  (tokens ↦ syntax tree) this is `parse (render (printAst e)) ≈ e` with the character level
  (`tokenize (render a) = renderTokens a`) left to the correspondence opcode `c20.layout`.
-/
import UnytModel.Reparse
import UnytProofs.Lemmas.C20Sem
import UnytProofs.C20
import UnytProofs.C20Syntax

set_option maxRecDepth 1000000

namespace Unyt.C20
open Unyt Parse Print UExpr C20M Reparse

/-- the syntax tree of a printed layout means the layout: whenever `evalP (syn a)` answers, it
    answers a monomial `≈ evalAst a` (any sign, coefficient, exponents; literals non-zero and
    names ordinary) -/
theorem layout_meaning (a : Ast) (h : AstOK a) (x : UExpr Rat) (hx : evalP (syn a) = .ok (.mono x)) :
    x.Equiv (evalAst a) := by
  obtain ⟨y, hy, he⟩ := layout_sem a h _ hx
  cases hy
  exact he

/-- **print → tokens → parse → evaluate is the identity up to `≈`.** -/
theorem print_parse_roundtrip (e : UExpr Rat) (hc : e.coeff ≠ 0)
    (hs : ∀ p ∈ normF e.factors, Ordinary p.1) :
    ∃ p, parseTokens (renderTokens (printAst e)) = some p ∧
      ∀ x, evalP p = .ok (.mono x) → x.Equiv e := by
  refine ⟨syn (printAst e), tokens_roundtrip _, fun x hx => ?_⟩
  exact equiv_trans (layout_meaning _ (printAst_ok e hc hs) x hx) (print_parse_ast e)

/-- every atomic symbol of the regenerated unit table is an ordinary symbol (kernel-decided), so the
    hypothesis of `print_parse_roundtrip` holds for every expression over table symbols -/
theorem table_symbols_ordinary : lutKeys.all isOrdinary = true := by decide +kernel

/-- non-vacuity: a concrete expression meeting the hypotheses, and the evaluator does answer -/
example : answersMono (evalP (syn (printAst ⟨(-3 : Rat) / 2, [("m", 1), ("s", -2), ("kg", (1 : Rat) / 2)]⟩))) = true := by
  decide +kernel
example : isOrdinary "m" = true ∧ isOrdinary "sqrt" = false ∧ isOrdinary "µm" = false := by decide +kernel

end Unyt.C20
