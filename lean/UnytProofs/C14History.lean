/-
  C14 over registry HISTORIES: "no string has two different readings — a name that is both a table
  symbol and a possible prefix+unit split resolves to the table symbol", for a registry that has been
  looked up in, edited, saved and loaded in any order.

  The model is `UnytModel/NamesHistoryC14.lean` (the driver executes `NamesHist.run` — opcode
  `c14.hist`); the configuration `Generated.C14.regCfg` is regenerated from the live
  `UnitRegistry` on every run.  Helper lemmas: `UnytProofs/Lemmas/C14History.lean`.
-/
import UnytProofs.Lemmas.C14History
import UnytModel.Generated.C14RegCfg

namespace Unyt.C14
open Unyt Unyt.Names Unyt.NamesHist

variable {K : Type}

/-- the look-up of the history model is the look-up of `UnytModel/Names.lean` (the one the
    whole-table obligations of `UnytProofs/C14.lean` are about), on any table -/
theorem history_lookup_is_names_lookup [Mul K] (pre : PrefixesN K) (t : LutN K) (s : Name) :
    Names.lookupUnitSymbol pre t s = lookupF pre t.get? s := by
  unfold Names.lookupUnitSymbol lookupF derivedF Names.splitPrefix
  cases t.get? s with
  | some e => rfl
  | none =>
    simp only
    cases hc : Names.splitCandidate s with
    | none => simp [Name.nil]
    | some pw =>
      obtain ⟨p, wo⟩ := pw
      simp only
      cases hp : pre.get? p with
      | none => cases Nat.beq p 0 <;> simp [Name.nil]
      | some pv =>
        simp only
        cases hw : t.get? wo with
        | none => cases Nat.beq p 0 <;> simp [Name.nil]
        | some e =>
          simp only
          cases he : e.prefixable
          · cases Nat.beq p 0 <;> simp [Name.nil]
          · cases hb : Nat.beq p 0 <;> simp [hb, hp, hw]

/-- **History independence.**  When every edit forgets the written-back entries and dumps leave them
    out (`cfg.sound`), a registry started from ANY table `t` answers EVERY history of look-ups, `add`,
    `remove`, `modify` and save/load round trips exactly as the specification does, in which every
    look-up is answered by a fresh registry holding the table the user built so far. -/
theorem readings_are_history_independent [Mul K] {cfg : Cfg} (hs : cfg.sound = true) (pre : PrefixesN K)
    (dflt t : Dict (Entry K)) (ops : List (Op K)) :
    (run cfg pre dflt (fresh t) ops).2 = (absRun pre dflt t.get? ops).2 :=
  (run_sim hs pre dflt ops (fresh t) t.get? (fresh_inv pre t)).2

/-- **A table symbol wins after any history.**  If, after the history `ops`, the user's table holds
    `e` under `s`, the registry reads `s` as `e` — never as a prefix+unit split, whatever was looked
    up, written back, edited or reloaded before. -/
theorem table_symbol_wins_after_any_history [Mul K] {cfg : Cfg} (hs : cfg.sound = true) (pre : PrefixesN K)
    (dflt t : Dict (Entry K)) (ops : List (Op K)) (s : Name) (e : Entry K)
    (hc : (absRun pre dflt t.get? ops).1 s = some e) :
    (step cfg pre dflt (run cfg pre dflt (fresh t) ops).1 (.look s)).2 = .entry (some e) := by
  have h := (run_sim hs pre dflt ops (fresh t) t.get? (fresh_inv pre t)).1
  have h2 := (step_sim hs pre dflt _ _ h (.look s)).2
  rw [h2]
  simp only [absOut, lookupF, hc]

/-- **A name that is not a table symbol is read from the user's table only**: as prefix × prefixable
    base of the table the user built (or refused), never from a stale written-back entry. -/
theorem non_symbol_read_from_user_table [Mul K] {cfg : Cfg} (hs : cfg.sound = true) (pre : PrefixesN K)
    (dflt t : Dict (Entry K)) (ops : List (Op K)) (s : Name)
    (hc : (absRun pre dflt t.get? ops).1 s = none) :
    (step cfg pre dflt (run cfg pre dflt (fresh t) ops).1 (.look s)).2
      = .entry (derivedF pre (absRun pre dflt t.get? ops).1 s) := by
  have h := (run_sim hs pre dflt ops (fresh t) t.get? (fresh_inv pre t)).1
  have h2 := (step_sim hs pre dflt _ _ h (.look s)).2
  rw [h2]
  simp only [absOut, lookupF, hc]

/-- **Save/load keeps the user's table**: after any history followed by a dump and a load
    (`from_json(to_json())`, pickling), the table of the loaded registry is the table the user built
    with the missing default symbols put back (`fillC`) — no written-back entry is in it. -/
theorem reload_holds_user_table [Mul K] {cfg : Cfg} (hs : cfg.sound = true) (pre : PrefixesN K)
    (dflt t : Dict (Entry K)) (ops : List (Op K)) (s : Name) :
    (step cfg pre dflt (run cfg pre dflt (fresh t) ops).1 .reload).1.tab.get? s
      = fillC dflt (absRun pre dflt t.get? ops).1 s ∧
    (step cfg pre dflt (run cfg pre dflt (fresh t) ops).1 .reload).1.derived = [] := by
  have h := (run_sim hs pre dflt ops (fresh t) t.get? (fresh_inv pre t)).1
  have h2 := (step_sim hs pre dflt _ _ h .reload).1
  have hd : (step cfg pre dflt (run cfg pre dflt (fresh t) ops).1 .reload).1.derived = [] := by
    simp only [step, (sound_rest hs).2.2.1, if_true]; rfl
  exact ⟨h2.of_nil hd s, hd⟩

/-- in particular every symbol of the user's table survives a save/load with the user's entry -/
theorem user_symbol_survives_reload [Mul K] {cfg : Cfg} (hs : cfg.sound = true) (pre : PrefixesN K)
    (dflt t : Dict (Entry K)) (ops : List (Op K)) (s : Name) (e : Entry K)
    (hc : (absRun pre dflt t.get? ops).1 s = some e) :
    (step cfg pre dflt (run cfg pre dflt (fresh t) ops).1 .reload).1.tab.get? s = some e := by
  rw [(reload_holds_user_table hs pre dflt t ops s).1]
  simp only [fillC, hc]

/-- the live `UnitRegistry` (probed and source-inspected by `tools/extract.d/c14_registry.py` on
    this run) forgets on every edit and never dumps a written-back name -/
theorem live_registry_forgets_on_every_edit : Generated.C14.regCfg.sound = true := by decide

/-- the statement for the code as it is: the live registry reads every name, after every history,
    as a fresh registry over the user's table does -/
theorem live_registry_readings_are_history_independent [Mul K] (pre : PrefixesN K) (dflt t : Dict (Entry K))
    (ops : List (Op K)) :
    (run Generated.C14.regCfg pre dflt (fresh t) ops).2 = (absRun pre dflt t.get? ops).2 :=
  readings_are_history_independent live_registry_forgets_on_every_edit pre dflt t ops

theorem live_registry_table_symbol_wins [Mul K] (pre : PrefixesN K) (dflt t : Dict (Entry K)) (ops : List (Op K))
    (s : Name) (e : Entry K) (hc : (absRun pre dflt t.get? ops).1 s = some e) :
    (step Generated.C14.regCfg pre dflt (run Generated.C14.regCfg pre dflt (fresh t) ops).1 (.look s)).2 = .entry (some e) :=
  table_symbol_wins_after_any_history live_registry_forgets_on_every_edit pre dflt t ops s e hc

/-! ### the string route `Unit(str, registry=reg)` with the string cache in front of the look-up -/

/-- **Unit strings are read history-independently, cache included.**  When edits forget the
    written-back entries and empty the string cache (`cfg.sound`, `cc.sound`), `Unit(name, registry)`
    and every other operation answer, after ANY history, as the specification does in which
    `Unit(name)` is built by a fresh registry holding the user's table: a cached object is never
    stale, an alias is read as its symbol, a table symbol wins over a prefix split. -/
theorem unit_strings_are_history_independent [Mul K] {cfg : Cfg} {cc : CacheCfg} (hs : cfg.sound = true)
    (hcs : cc.sound = true) (rt : Route K) (dflt t : Dict (Entry K)) (ops : List (OpS K)) :
    (runS cfg cc rt dflt (freshS t) ops).2 = (absRunS rt dflt t.get? ops).2 :=
  (runS_sim hs hcs rt dflt ops (freshS t) t.get? (freshS_inv rt t)).2

/-- a string whose symbol the user's table holds denotes the user's entry, cached or not -/
theorem unit_string_of_table_symbol [Mul K] {cfg : Cfg} {cc : CacheCfg} (hs : cfg.sound = true)
    (hcs : cc.sound = true) (rt : Route K) (dflt t : Dict (Entry K)) (ops : List (OpS K)) (name s : Name) (e : Entry K)
    (hn : name ≠ 0) (hsym : rt.symbolOf name = some s) (hc : (absRunS rt dflt t.get? ops).1 s = some e) :
    (stepS cfg cc rt dflt (runS cfg cc rt dflt (freshS t) ops).1 (.unit name)).2 = .unit (some (.sym s e)) := by
  have h := (runS_sim hs hcs rt dflt ops (freshS t) t.get? (freshS_inv rt t)).1
  rw [(stepS_sim hs hcs rt dflt _ _ h (.unit name)).2]
  simp [absOutS, freshUnit, hn, hsym, lookupF, hc]

/-- the live registry empties its string cache on every successful edit (probed on this run) -/
theorem live_registry_clears_cache_on_every_edit : Generated.C14.regCacheCfg.sound = true := by decide

theorem live_unit_strings_are_history_independent [Mul K] (rt : Route K) (dflt t : Dict (Entry K))
    (ops : List (OpS K)) :
    (runS Generated.C14.regCfg Generated.C14.regCacheCfg rt dflt (freshS t) ops).2 = (absRunS rt dflt t.get? ops).2 :=
  unit_strings_are_history_independent live_registry_forgets_on_every_edit live_registry_clears_cache_on_every_edit
    rt dflt t ops

/-- the fresh construction of the specification is the string route of `UnytModel/Names.lean`
    (`stringEntry`, the subject of the whole-table obligations) on the same table -/
theorem fresh_unit_is_string_entry [Mul K] [OfNat K 0] [OfNat K 1] (c : Ctx K) (name : Name) :
    (freshUnit ⟨c.globals, c.inv, c.rewritten, c.pre⟩ c.lut.get? name).map
        (fun u => match u with | .one => Names.oneEntry | .sym _ e => e)
      = Names.stringEntry c name := by
  unfold freshUnit Names.stringEntry Route.symbolOf
  by_cases h0 : name = 0
  · subst h0; simp [Nat.beq]
  · have hb : Nat.beq name 0 = false := by
      cases hbq : Nat.beq name 0
      · rfl
      · exact absurd (Nat.eq_of_beq_eq_true hbq) h0
    simp only [h0, hb, if_false, Bool.false_eq_true, Name.force_eq]
    cases nameToSymbol c.globals c.inv c.rewritten (parserRewrite name) with
    | none => rfl
    | some s =>
      simp only [history_lookup_is_names_lookup]
      cases lookupF c.pre c.lut.get? s <;> rfl

/-! ### the hypothesis `cfg.sound` is needed: a registry whose `add` keeps the written-back entries
    when it overwrites one loses the user's symbol at the next edit -/

/-- tiny world: prefix `k` (code 108) = 1000, prefixable `g` (code 104) = 1; `kg` is not a key -/
def toyPre : PrefixesN Nat := .node .leaf 108 1000 .leaf
def toyTab : Dict (Entry Nat) := .node .leaf 104 ⟨1, Dim.one, 0, true⟩ .leaf
def toyKg : Name := Name.cons 107 (Name.cons 103 Name.nil)
/-- every edit forgets, except `add` of a non-prefixable entry over a written-back one -/
def guardedCfg : Cfg :=
  { addTbl := [true, true, true, false, true, true, true, true], removeForgets := true, modifyForgets := true,
    dumpSkipsDerived := true, forgetUnconditional := false, copyKeepsFlags := true }

def scaleOf : Out Nat → Option Nat
  | .entry (some e) => some e.scale
  | _ => none

/-- look `kg` up (1000), pin `kg` := 7 as a table symbol, edit something else: with the guarded
    `add` the registry reads `kg` as `k`+`g` = 1000 again although the user's table says 7 -/
def toyHistory : List (Op Nat) :=
  [.look toyKg, .add toyKg ⟨7, Dim.one, 0, false⟩, .modify 104 1]

theorem guarded_forgetting_loses_the_table_symbol :
    guardedCfg.sound = false ∧
    ((absRun toyPre toyTab toyTab.get? toyHistory).1 toyKg).map (·.scale) = some 7 ∧
    scaleOf (step guardedCfg toyPre toyTab (run guardedCfg toyPre toyTab (fresh toyTab) toyHistory).1 (.look toyKg)).2 = some 1000 ∧
    scaleOf (step Generated.C14.regCfg toyPre toyTab (run Generated.C14.regCfg toyPre toyTab (fresh toyTab) toyHistory).1 (.look toyKg)).2 = some 7 := by
  decide

/-- non-vacuity of `table_symbol_wins_after_any_history` / `user_symbol_survives_reload`: the toy
    history meets their hypothesis -/
example : ∃ e, (absRun toyPre toyTab toyTab.get? toyHistory).1 toyKg = some e := ⟨_, rfl⟩

/-- non-vacuity of `non_symbol_read_from_user_table`: after the look-up alone `kg` is no user key -/
example : (absRun toyPre toyTab toyTab.get? [.look toyKg]).1 toyKg = none := by decide

/-- non-vacuity of `unit_string_of_table_symbol`: with no alias tables the string `kg` is parsed to
    the symbol `kg`, which the user's table holds after the toy history -/
def toyRoute : Route Nat := { globals := [], inv := .leaf, rewritten := .leaf, pre := toyPre }

example : toyKg ≠ 0 ∧ toyRoute.symbolOf toyKg = some toyKg ∧
    ∃ e, (absRunS toyRoute toyTab toyTab.get? (toyHistory.map .op)).1 toyKg = some e := by
  refine ⟨by decide, by decide, ⟨_, rfl⟩⟩

/-- the hypotheses `cfg.sound`, `cc.sound` are met by the live configurations
    (`live_registry_forgets_on_every_edit`, `live_registry_clears_cache_on_every_edit`) -/
example : Generated.C14.regCfg.sound = true ∧ Generated.C14.regCacheCfg.sound = true :=
  ⟨live_registry_forgets_on_every_edit, live_registry_clears_cache_on_every_edit⟩

end Unyt.C14
