/-
  C17 — conversions and mixed-unit arithmetic never truncate to integers.

  The dtype part of the property has a finite quantifier (every NumPy dtype of kind i/u/f/c ×
  every conversion route × scalar/array, every dtype pair of a mixed-unit binary ufunc, every
  `out=` dtype): it is decided by the kernel over the whole domain, on the model instantiated
  with the rules regenerated from `/repo/unyt/array.py` (`Generated.liveRules`) and the live
  NumPy facts (`Generated.liveNumpy`), and the model is tied to the code by the kernel-checked
  agreement with the outcome tables observed on the live library (`observed…`).
  The value part and the warning threshold are general theorems (every integer, every factor,
  every carrier).

  Where unyt violates the full statement, the full statement is kept as `def C17_…_full`, the
  `…_partial` theorem carries an explicit decidable guard, and `…_counterexample` exhibits the
  witness the harness replays on the real code.  Property theorems only; lemmas are in
  `UnytProofs/Lemmas/C17.lean`.
-/
import UnytModel.Dtype
import UnytModel.Convert
import UnytModel.Ref.C17
import UnytModel.Generated.DtypeTables
import UnytProofs.Lemmas.C17

set_option linter.unusedSectionVars false
set_option linter.unusedVariables false
set_option linter.unusedSimpArgs false

namespace Unyt.C17
open Unyt Unyt.Generated Unyt.Ref.C17
open Unyt.C17L (decEqExcept)
attribute [local instance] Unyt.C17L.decEqExcept

/-- the model is run and proved about with the regenerated parameters -/
abbrev N : NumpyFacts := liveNumpy
abbrev P : DtypeRules := liveRules

/-- the dtypes the property quantifies over: every integer, unsigned, float and complex dtype -/
def scope : List Dtype := N.dtypes.filter (fun d => d.kind != .b)

def eqOut : Except Err Dtype → Except Err Dtype → Bool
  | .ok a, .ok b => a == b
  | .error a, .error b => a == b
  | _, _ => false

/-! ## dtype selection, route by route -/

/-- copy route (`in_units`, `to`): integers become the float of the same item size (float16 for
    1-byte items), floats and complex keep their dtype — for every dtype, never raising -/
theorem copy_route_dtype :
    ∀ d ∈ scope, eqOut (inUnitsDtype N P d) (.ok (expectedDtype d)) = true := by
  decide +kernel

/-- in-place route (`convert_to_units`, `convert_to_base`): the same dtype, or `ValueError`
    exactly for the 1-byte integers (no float of that item size exists) -/
theorem inplace_route_dtype_or_raises :
    ∀ d ∈ scope, eqOut (convertToUnitsDtype N P d)
      (if mayRaise d then .error .ValueError else .ok (expectedDtype d)) = true := by
  decide +kernel

/-- the copying and the in-place route agree on the dtype wherever the in-place route returns -/
theorem routes_agree_dtype :
    ∀ d ∈ scope, (eqOut (convertToUnitsDtype N P d) (inUnitsDtype N P d)
      || (mayRaise d && eqOut (convertToUnitsDtype N P d) (.error .ValueError))) = true := by
  decide +kernel

/-- float16/float32 (and every other float) data stay in their width and complex data stay
    complex on every route that does not cross dimensions, and on the in-place equivalence route -/
theorem float_and_complex_stay :
    ∀ d ∈ scope, (d.kind = .f ∨ d.kind = .c) →
      ∀ r ∈ [Route.to, .inUnits, .inBase, .convertToUnits, .convertToBase, .convertToEquivalent],
        eqOut (routeDtype N P r d false) (.ok d) = true
        ∧ eqOut (routeDtype N P r d true) (.ok d) = true := by
  decide +kernel

example : (⟨.f, 2⟩ : Dtype) ∈ scope ∧ ((⟨.f, 2⟩ : Dtype).kind = .f ∨ (⟨.f, 2⟩ : Dtype).kind = .c) := by decide

/-- verdict of the reference on one (route, dtype, scalar/array) cell.  `to_value` on a quantity
    hands back a Python float / complex (binary64 components): acceptable when the expected type
    fits in it. -/
def verdict (r : Route) (d : Dtype) (q : Bool) : Bool :=
  if r == .toValue && q then
    match toValueOut N P d true with
    | .ok .pyfloat => (expectedDtype d).kind == .f && (expectedDtype d).size ≤ 8
    | .ok .pycomplex => (expectedDtype d).kind == .c && (expectedDtype d).size ≤ 16
    | .ok (.ndarray _) => false
    | .error _ => mayRaise d
  else acceptable d (routeDtype N P r d q)

/-- the full dtype statement: on every route, for every dtype, scalar or array -/
def C17_dtype_full : Prop :=
  ∀ r ∈ Route.all, ∀ d ∈ scope, ∀ q : Bool, verdict r d q = true

/-- outside the excluded region the statement holds on the whole domain … -/
theorem route_dtype_partial :
    ∀ r ∈ Route.all, ∀ d ∈ scope, ∀ q : Bool, knownExcluded r d q = false → verdict r d q = true := by
  decide +kernel

/-- … and the excluded region is exactly the set of violating cells (the guard hides nothing) -/
theorem route_dtype_excluded_is_tight :
    ∀ r ∈ Route.all, ∀ d ∈ scope, ∀ q : Bool, knownExcluded r d q = true → verdict r d q = false := by
  decide +kernel

example : Route.to ∈ Route.all ∧ (⟨.i, 4⟩ : Dtype) ∈ scope ∧ knownExcluded .to ⟨.i, 4⟩ false = false := by decide

/-- `in_base` (`in_cgs`, `in_mks`) follows the same rule as `to`: integers become the float of the
    same item size, and it agrees with `convert_to_base` wherever that returns -/
theorem in_base_route_dtype :
    ∀ d ∈ scope, ∀ q : Bool, eqOut (routeDtype N P .inBase d q) (.ok (expectedDtype d)) = true
      ∧ (eqOut (routeDtype N P .convertToBase d q) (routeDtype N P .inBase d q)
          || (mayRaise d && eqOut (routeDtype N P .convertToBase d q) (.error .ValueError))) = true := by
  decide +kernel

/-- `to_equivalent` across dimensions returns float64 for float32 data while
    `convert_to_equivalent` keeps float32 -/
theorem to_equivalent_counterexample :
    eqOut (routeDtype N P .toEquivalent ⟨.f, 4⟩ false) (.ok ⟨.f, 8⟩) = true
    ∧ eqOut (routeDtype N P .convertToEquivalent ⟨.f, 4⟩ false) (.ok ⟨.f, 4⟩) = true := by
  decide +kernel

/-- `to_value` on a complex64/complex128 quantity hands back the Python complex (nothing is lost) -/
theorem to_value_complex_quantity :
    toValueOut N P ⟨.c, 8⟩ true = .ok .pycomplex ∧ toValueOut N P ⟨.c, 16⟩ true = .ok .pycomplex
    ∧ verdict .toValue ⟨.c, 8⟩ true = true ∧ verdict .toValue ⟨.c, 16⟩ true = true := by
  decide +kernel

/-- what remains: a Python scalar cannot hold extended precision (64 → 53 bits per component) -/
theorem to_value_quantity_counterexample :
    toValueOut N P ⟨.c, 32⟩ true = .ok .pycomplex
    ∧ toValueOut N P ⟨.f, 16⟩ true = .ok .pyfloat := by
  decide +kernel

theorem dtype_counterexample : ¬ C17_dtype_full := by
  intro h
  have := h .toEquivalent (by decide) ⟨.f, 4⟩ (by decide +kernel) false
  revert this
  decide +kernel

/-! ## mixed-unit binary ufuncs and `out=` -/

/-- the full statement for the converted (second) operand of a mixed-unit binary ufunc -/
def C17_binary_full : Prop :=
  ∀ d1 ∈ scope, acceptable d1 (binaryOperandDtype N P d1) = true

/-- for **every** integer, unsigned, float and complex dtype the second operand is converted in the
    type the reference requires — the float of its own item size for integers, its own dtype for
    floats and complex — or the call raises (TypeError `'f1'`) exactly for 1-byte integers -/
theorem binary_operand_dtype :
    ∀ d1 ∈ scope,
      eqOut (binaryOperandDtype N P d1)
        (if mayRaise d1 then .error .TypeError else .ok (expectedDtype d1)) = true := by
  decide +kernel

/-- hence the full statement -/
theorem binary_full : C17_binary_full := by
  unfold C17_binary_full
  decide +kernel

/-- a complex second operand stays complex (complex64, complex128, complex256) -/
theorem binary_operand_complex_stays :
    eqOut (binaryOperandDtype N P ⟨.c, 8⟩) (.ok ⟨.c, 8⟩) = true
    ∧ eqOut (binaryOperandDtype N P ⟨.c, 16⟩) (.ok ⟨.c, 16⟩) = true
    ∧ eqOut (binaryOperandDtype N P ⟨.c, 32⟩) (.ok ⟨.c, 32⟩) = true := by
  decide +kernel

/-- the result of a mixed-unit binary ufunc is never integer-typed: for every first-operand dtype
    and every second operand that is not a 1-byte integer, the call returns float or complex data
    whose components are at least as wide as the converted operand's, complex exactly when one of the
    operands is -/
theorem binary_result_never_integer :
    ∀ d0 ∈ scope, ∀ d1 ∈ scope, mayRaise d1 = false →
      (match binaryResultDtype N P d0 d1 true false with
       | .ok r => (r.kind == .f || r.kind == .c) && decide (max 2 d1.compSize ≤ r.compSize)
                    && (r.kind == .c) == (d0.kind == .c || d1.kind == .c)
       | .error _ => false) = true := by
  decide +kernel

example : (⟨.i, 2⟩ : Dtype) ∈ scope ∧ mayRaise ⟨.i, 2⟩ = false := by decide

/-- an integer `out=` buffer is promoted to the float of its item size (TypeError for 1-byte
    items), any other buffer is left alone -/
theorem out_promotion :
    ∀ o ∈ scope, eqOut (outPromote N P o)
      (if mayRaise o then .error .TypeError else .ok (expectedDtype o)) = true := by
  decide +kernel

/-! ## the value path -/

section values
variable {K : Type} [Lean.Grind.Field K] [BEq K] (A : NumOps K)

/-- (model structure, true by unfolding `copyValue`: it records how the hand-written value path is
    built, it is not derived from the code — what ties `copyValue` to `in_units` is the bit-for-bit
    correspondence of `c17.value copy` with the library at binary16/32/64, and on the equivalence
    routes the recorded ufunc chains of `C17Chains`.)  Copy route on integer data: the stored integer
    is embedded, multiplied by the factor as a float (the dtype `m` of `int_array * python_float`),
    and only then cast to the result float type — no integer arithmetic, no truncation step -/
theorem value_is_float_product_copy (m new : Dtype) (hm : m.kind ≠ .c) (hn : new.kind ≠ .c)
    (n : Int) (f : K) :
    copyValue A m new (.int n) f none
      = .real (A.cast new (A.cast m (A.cast m (A.ofInt n) * A.cast m f))) := by
  simp [copyValue, castElem, mulIn, offsetTruthy, hm, hn]

/-- (model structure, by unfolding; tied to `convert_to_units` by the bit-exact correspondence
    `c17.value inplace`.)  In-place route on integer data: cast to the new float type, then a float
    multiplication -/
theorem value_is_float_product_inplace (new : Dtype) (hn : new.kind ≠ .c) (n : Int) (f : K) :
    inplaceValue A new (.int n) f none
      = .real (A.cast new (A.cast new (A.cast new (A.ofInt n)) * A.cast new f)) := by
  simp [inplaceValue, castElem, mulIn, offsetTruthy, hn]

/-- (model structure, by unfolding; tied to `__array_ufunc__` by the bit-exact correspondence
    `c17.value binop`.)  Binary ufunc, integer second operand: cast to the float type, then a float
    multiplication -/
theorem value_is_float_product_binary (new : Dtype) (hn : new.kind ≠ .c) (n : Int) (f : K) :
    binaryOperandValue A new (.int n) f
      = .real (A.cast new (A.cast new (A.cast new (A.ofInt n)) * A.cast new f)) := by
  simp [binaryOperandValue, castElem, mulIn, hn]

/-- in exact arithmetic (casts are identities) every route computes the affine conversion of
    C03, `applyFactor`, on the embedded integer: copy, in-place and `in_base` agree on the values -/
theorem exact_routes_agree (ofInt : Int → K) (m new : Dtype) (hm : m.kind ≠ .c) (hn : new.kind ≠ .c)
    (n : Int) (f : K) (o : Option K) :
    copyValue (exactOps K ofInt) m new (.int n) f o = .real (applyFactor (f, o) (ofInt n))
    ∧ inplaceValue (exactOps K ofInt) new (.int n) f o = .real (applyFactor (f, o) (ofInt n))
    ∧ inBaseValue (exactOps K ofInt) m (.int n) f o = .real (applyFactor (f, o) (ofInt n)) := by
  cases o with
  | none => simp [copyValue, inplaceValue, inBaseValue, castElem, mulIn, subIn, offsetTruthy, exactOps, applyFactor, hm, hn]
  | some v =>
    by_cases hv : (v != 0) = true
    · simp [copyValue, inplaceValue, inBaseValue, castElem, mulIn, subIn, offsetTruthy, exactOps, applyFactor, hm, hn, hv]
    · simp [copyValue, inplaceValue, inBaseValue, castElem, mulIn, subIn, offsetTruthy, exactOps, applyFactor, hm, hn, hv]

/-- the same for float data -/
theorem exact_routes_agree_real (ofInt : Int → K) (m new : Dtype) (hm : m.kind ≠ .c) (hn : new.kind ≠ .c)
    (x f : K) (o : Option K) :
    copyValue (exactOps K ofInt) m new (.real x) f o = .real (applyFactor (f, o) x)
    ∧ inplaceValue (exactOps K ofInt) new (.real x) f o = .real (applyFactor (f, o) x) := by
  cases o with
  | none => simp [copyValue, inplaceValue, castElem, mulIn, subIn, offsetTruthy, exactOps, applyFactor, hm, hn]
  | some v =>
    by_cases hv : (v != 0) = true
    · simp [copyValue, inplaceValue, castElem, mulIn, subIn, offsetTruthy, exactOps, applyFactor, hm, hn, hv]
    · simp [copyValue, inplaceValue, castElem, mulIn, subIn, offsetTruthy, exactOps, applyFactor, hm, hn, hv]

/-- complex data on the copy and in-place routes: both components are scaled, the imaginary part
    survives -/
theorem complex_stays_complex_value (ofInt : Int → K) (c : Dtype) (hc : c.kind = .c) (re im f : K) :
    copyValue (exactOps K ofInt) c c (.cplx re im) f none = .cplx (re * f) (im * f)
    ∧ inplaceValue (exactOps K ofInt) c (.cplx re im) f none = .cplx (re * f) (im * f) := by
  simp [copyValue, inplaceValue, castElem, mulIn, offsetTruthy, exactOps, hc]

/-- the binary route on a complex second operand (converted in its own complex dtype): both
    components are scaled, the imaginary part survives -/
theorem binary_operand_keeps_imaginary (ofInt : Int → K) (c : Dtype) (hc : c.kind = .c) (re im f : K) :
    binaryOperandValue (exactOps K ofInt) c (.cplx re im) f = .cplx (re * f) (im * f) := by
  simp [binaryOperandValue, castElem, mulIn, exactOps, hc]

end values

/-- never truncated: 1 km in miles-like units over ℚ is the exact fraction, on both routes, whereas
    an integer operation would have produced 0 -/
theorem never_truncates_example :
    copyValue (exactOps Rat (fun n => (n : Rat))) ⟨.f, 8⟩ ⟨.f, 4⟩ (.int 1) ((15625 : Rat) / 25146) none
        = .real ((15625 : Rat) / 25146)
    ∧ inplaceValue (exactOps Rat (fun n => (n : Rat))) ⟨.f, 4⟩ (.int 1) ((15625 : Rat) / 25146) none
        = .real ((15625 : Rat) / 25146)
    ∧ ((15625 : Rat) / 25146 ≠ 0) := by
  decide +kernel

/-! ## the RuntimeWarning for integers too large for the target float -/

/-- the live `LARGE_INPUT` is the documented table: itemsize 4 ↦ 2^24 + 1, itemsize 8 ↦ 2^53 + 1 -/
theorem large_input_is_documented : P.largeInput = documentedLargeInput := by
  decide +kernel

/-- the full warning statement: whenever an integer that the target float cannot hold exactly is
    converted, on any route, a warning is issued -/
def C17_warn_full : Prop :=
  ∀ r ∈ Route.all, ∀ d ∈ scope, d.isInt = true → ∀ q : Bool, ∀ t, routeDtype N P r d q = .ok t →
    ∀ v : Int, tooLarge t.size v = true → routeWarns P r d [v] = true

/-- `to`/`in_units`/`to_value`, `convert_to_units`/`convert_to_base` and `in_base`, 32- and 64-bit
    integers, **every** integer value: if the value is too large for the float of the same item
    size, the warning fires -/
theorem warn_large_integers :
    ∀ d ∈ scope, d.isInt = true → (d.size = 4 ∨ d.size = 8) → ∀ v : Int,
      tooLarge d.size v = true →
        inUnitsWarns P d [v] = true ∧ convertToUnitsWarns P d [v] = true
        ∧ routeWarns P .inBase d [v] = true := by
  intro d hd hint hsz v hv
  have hk : P.copyIntKinds.contains d.kind = true ∧ P.inplaceIntKinds.contains d.kind = true := by
    have hor : d.kind = .i ∨ d.kind = .u := by
      unfold Dtype.isInt at hint; revert hint; cases d.kind <;> simp
    rcases hor with h | h <;> rw [h] <;> decide
  have hex : exactIn (precision d.size) v.natAbs = false := by
    unfold tooLarge at hv
    simpa using hv
  have hs : P.largeStrict = false := by decide
  have hib : P.inBaseItemSize = true := by decide
  rcases hsz with h4 | h8
  · have hL : P.largeInput.lookup d.size = some (2 ^ precision d.size + 1) := by rw [h4]; decide +kernel
    have hw := C17L.largeWarns_of_inexact P d.size (precision d.size) (by rw [h4]; decide) hs hL d v hex
    have hm : max P.copyMinSize d.size = d.size := by rw [h4]; decide
    have hr : (d.size != P.inplaceRefuseSize) = true := by rw [h4]; decide
    simp only [routeWarns, inUnitsWarns, convertToUnitsWarns, hk.1, hk.2, hm, hr, hw, hib, Bool.and_self, and_self]
  · have hL : P.largeInput.lookup d.size = some (2 ^ precision d.size + 1) := by rw [h8]; decide +kernel
    have hw := C17L.largeWarns_of_inexact P d.size (precision d.size) (by rw [h8]; decide) hs hL d v hex
    have hm : max P.copyMinSize d.size = d.size := by rw [h8]; decide
    have hr : (d.size != P.inplaceRefuseSize) = true := by rw [h8]; decide
    simp only [routeWarns, inUnitsWarns, convertToUnitsWarns, hk.1, hk.2, hm, hr, hw, hib, Bool.and_self, and_self]

example : (⟨.i, 4⟩ : Dtype) ∈ scope ∧ tooLarge 4 16777217 = true := by
  decide +kernel

/-- no spurious warning: the test fires only for magnitudes above `2^p` -/
theorem warn_only_when_large :
    ∀ d : Dtype, (d.size = 4 ∨ d.size = 8) → ∀ v : Int,
      inUnitsWarns P d [v] = true → 2 ^ precision d.size < v.natAbs := by
  intro d hsz v h
  unfold inUnitsWarns at h
  have h2 : largeWarns P (max P.copyMinSize d.size) d [v] = true := by
    revert h; cases P.copyIntKinds.contains d.kind <;> simp
  have hs : P.largeStrict = false := by decide
  rcases hsz with h4 | h8
  · have hm : max P.copyMinSize d.size = 4 := by rw [h4]; decide
    rw [hm] at h2
    have := C17L.ge_of_largeWarns P 4 (2 ^ 24 + 1) hs (by decide +kernel) d v h2
    rw [h4]; exact this
  · have hm : max P.copyMinSize d.size = 8 := by rw [h8]; decide
    rw [hm] at h2
    have := C17L.ge_of_largeWarns P 8 (2 ^ 53 + 1) hs (by decide +kernel) d v h2
    rw [h8]; exact this

/-- the same for arrays (`np.any`): an array containing at least one 32/64-bit integer that the float
    of its item size cannot hold makes `to`/`in_units`, `convert_to_units` and `in_base` warn -/
theorem warn_large_integers_array :
    ∀ d ∈ scope, d.isInt = true → (d.size = 4 ∨ d.size = 8) → ∀ (vs : List Int) (v : Int), v ∈ vs →
      tooLarge d.size v = true →
        inUnitsWarns P d vs = true ∧ convertToUnitsWarns P d vs = true
        ∧ routeWarns P .inBase d vs = true := by
  intro d hd hint hsz vs v hv ht
  obtain ⟨h1, h2, h3⟩ := warn_large_integers d hd hint hsz v ht
  have hib : P.inBaseItemSize = true := by decide
  have lift : ∀ s, largeWarns P s d [v] = true → largeWarns P s d vs = true :=
    fun s h => C17L.largeWarns_of_mem P s d vs v hv h
  refine ⟨?_, ?_, ?_⟩
  · unfold inUnitsWarns at h1 ⊢
    simp only [Bool.and_eq_true] at h1 ⊢
    exact ⟨h1.1, lift _ h1.2⟩
  · unfold convertToUnitsWarns at h2 ⊢
    simp only [Bool.and_eq_true] at h2 ⊢
    exact ⟨h2.1, lift _ h2.2⟩
  · simp only [routeWarns, hib, Bool.true_and] at h3 ⊢
    unfold inUnitsWarns at h3 ⊢
    simp only [Bool.and_eq_true] at h3 ⊢
    exact ⟨h3.1, lift _ h3.2⟩

/-- no spurious warning on arrays: if `to`/`in_units` warns, some element exceeds `2^p` -/
theorem warn_only_when_large_array :
    ∀ d : Dtype, (d.size = 4 ∨ d.size = 8) → ∀ vs : List Int,
      inUnitsWarns P d vs = true → ∃ v ∈ vs, 2 ^ precision d.size < v.natAbs := by
  intro d hsz vs h
  unfold inUnitsWarns at h
  simp only [Bool.and_eq_true] at h
  obtain ⟨v, hv, hw⟩ := C17L.exists_of_largeWarns P _ d vs h.2
  refine ⟨v, hv, warn_only_when_large d hsz v ?_⟩
  unfold inUnitsWarns
  simp only [Bool.and_eq_true]
  exact ⟨h.1, hw⟩

example : (⟨.u, 4⟩ : Dtype) ∈ scope ∧ (16777219 : Int) ∈ [1, 16777219, 5] ∧ tooLarge 4 16777219 = true := by
  decide +kernel

/-- small integers need no warning: every 8-bit value fits binary16 -/
theorem one_byte_integers_fit : ∀ v : Int, v.natAbs ≤ 256 → tooLarge 2 v = false := by
  intro v hv
  unfold tooLarge
  have := C17L.exactIn_of_le (precision 2) v.natAbs (by decide) (Nat.le_trans hv (by decide))
  simp [this]

/-- the documented first casualties themselves warn: 2^24 + 1 (it becomes 2^24 in binary32) and
    2^53 + 1, on every route that has the test -/
theorem warn_at_documented_threshold :
    tooLarge 4 16777217 = true
    ∧ inUnitsWarns P ⟨.i, 4⟩ [16777217] = true ∧ convertToUnitsWarns P ⟨.i, 4⟩ [16777217] = true
    ∧ routeWarns P .inBase ⟨.u, 4⟩ [16777217] = true
    ∧ tooLarge 8 9007199254740993 = true
    ∧ inUnitsWarns P ⟨.i, 8⟩ [9007199254740993] = true
    ∧ convertToUnitsWarns P ⟨.u, 8⟩ [9007199254740993] = true
    ∧ routeWarns P .inBase ⟨.i, 8⟩ [-9007199254740993] = true := by
  decide +kernel

/-- 16-bit integers have no LARGE_INPUT entry: 2049 does not fit binary16, nothing warns -/
theorem warn_counterexample_16bit :
    tooLarge 2 2049 = true
    ∧ inUnitsWarns P ⟨.i, 2⟩ [2049] = false ∧ convertToUnitsWarns P ⟨.u, 2⟩ [2049] = false
    ∧ routeWarns P .inBase ⟨.i, 2⟩ [2049] = false := by
  decide +kernel

/-- the equivalence routes contain no test at all -/
theorem warn_counterexample_equivalence :
    eqOut (routeDtype N P .toEquivalent ⟨.i, 8⟩ false) (.ok ⟨.f, 8⟩) = true
    ∧ tooLarge 8 9007199254740995 = true
    ∧ routeWarns P .toEquivalent ⟨.i, 8⟩ [9007199254740995] = false
    ∧ routeWarns P .convertToEquivalent ⟨.i, 8⟩ [9007199254740995] = false := by
  decide +kernel

theorem warn_counterexample : ¬ C17_warn_full := by
  intro h
  have := h .to (by decide) ⟨.i, 2⟩ (by decide +kernel) (by decide) false ⟨.f, 2⟩ (by decide +kernel) 2049
    (by decide +kernel)
  revert this
  decide +kernel

end Unyt.C17
