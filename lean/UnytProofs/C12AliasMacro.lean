/-
  C12, everything together: histories of primitive calls AND reading edits (`define_unit`, `modify(sym, quantity)`)
  made through ANY registry object of a family over shared containers (`Unit.copy()`, `in_base()` results …), with
  shallow copies made at any point.  (`UnytModel/RegistryC12AliasMacro.lean`; the driver's `c12a.defunit` /
  `c12a.modqu` opcodes execute `amstep`.)
-/
import UnytProofs.C12Alias
import UnytProofs.C12Macro
import UnytProofs.Lemmas.C12AliasMacro

set_option linter.unusedSectionVars false
set_option linter.unusedVariables false

namespace Unyt.C12
open Unyt Unyt.RegC12

/-- in-place containers: after any history of calls / reading edits on and copies of registry objects, a call or
    reading edit through any object answers what the single registry answers after the erased history -/
theorem alias_macro_refines_single {K : Type} [Mul K] [OfNat K 1] [OfNat K 0] [RPow K] (cfg : Cfg)
    (pre : Prefixes K) (parse : String → Except Err (PExpr K)) (t0 : Lut K) (h : List (AMOp K)) (i : Nat)
    (m : MOp K) (hm : m.isSysId = false) :
    (amstep ACfg.shared cfg pre parse (amrun ACfg.shared cfg pre parse (afresh t0) h) i m).2
      = (mstep cfg pre parse (mrun cfg pre parse (fresh t0) (eraseAM h)) m).2 := by
  obtain ⟨ha, hp⟩ := amrun_proj cfg pre parse (afresh t0) (fresh t0) h (attached_afresh t0) (proj_afresh t0)
  exact mout_view cfg pre parse _ _ ha hp i m hm

/-- …and performs the same primitive calls (stores the same value and dimensions) -/
theorem alias_macro_expansion_single {K : Type} [Mul K] [OfNat K 1] [OfNat K 0] [RPow K] (cfg : Cfg)
    (pre : Prefixes K) (parse : String → Except Err (PExpr K)) (t0 : Lut K) (h : List (AMOp K)) (i : Nat)
    (m : MOp K) :
    let st := amrun ACfg.shared cfg pre parse (afresh t0) h
    mexpand cfg pre parse (st.view (st.handle i)) m
      = mexpand cfg pre parse (mrun cfg pre parse (fresh t0) (eraseAM h)) m := by
  obtain ⟨ha, hp⟩ := amrun_proj cfg pre parse (afresh t0) (fresh t0) h (attached_afresh t0) (proj_afresh t0)
  exact mexpand_view cfg pre parse _ _ ha hp i m

/-- C12 for the LIVE source, every call but `unit_system_id`, over histories of primitive calls and reading edits
    through any registry object with shallow copies at any point: every call answers like a fresh registry holding
    the contents, where each reading edit changes the contents as it would change a fresh registry's -/
theorem C12_alias_reading_edits_full {K : Type} [Mul K] [OfNat K 1] [OfNat K 0] [RPow K]
    (pre : Prefixes K) (parse : String → Except Err (PExpr K)) (t0 : Lut K) (h : List (AMOp K)) (i : Nat)
    (m : MOp K) (hm : m.isSysId = false) :
    Out.Sim
      (amstep Generated.registryACfg Generated.registryCfg pre parse
        (amrun Generated.registryACfg Generated.registryCfg pre parse (afresh t0) h) i m).2
      (mstep Generated.registryCfg pre parse
        (fresh (mcontents Generated.registryCfg pre parse t0 (eraseAM h))) m).2 := by
  rw [alias_step_assumptions.1, alias_macro_refines_single _ pre parse t0 h i m hm]
  exact C12_reading_edits_full K pre parse t0 (eraseAM h) m hm

open Witness in
/-- not vacuous: `copy; r.add(foo, 2 m); Unit('kfoo') via copy; r.modify(foo, 3.0); define_unit('zot', (3, 'kfoo'))
    THROUGH THE COPY` then `Unit('zot', registry=r)` is 9000 m on the live machine -/
example :
    (amstep Generated.registryACfg Generated.registryCfg pre parse
      (amrun Generated.registryACfg Generated.registryCfg pre parse (afresh t0)
        [.copy 0, .call 0 (.prim (.add "foo" foo2)), .call 1 (.prim (.unit "kfoo")), .call 0 (.prim (.modifyF "foo" 3)),
         .call 1 (.defineUnit "zot" 3 "kfoo" true)]) 0 (.prim (.unit "zot"))).2 = .unit 2 ⟨9000, 0, Dim.dLength⟩ := by
  decide +kernel

end Unyt.C12
