/-
  C02 — nested unit expressions: for every tree of numbers, symbols, products and rational powers
  (quotients and `sqrt` are the powers −1 and 1/2), the expression handed to `Unit.__new__`
  denotes exactly what the definitions of the constituents imply, and `Unit(expr)` computes it.

  About `CExpr.build` / `CExpr.sem` (UnytModel/ExprTreeC02.lean), which the driver runs (`c02.tree`)
  next to `Unit(<rendered string>)`; any table, any field with lawful rational powers on its
  "positive" part (proved for the positive reals in `Real/RPow.lean`; `table_scales_positive`
  discharges positivity for the regenerated table, `lat` excepted).
-/
import UnytModel.ExprTreeC02
import UnytProofs.C02

set_option linter.unusedSectionVars false

namespace Unyt.C02
open Unyt UExpr

variable {K : Type} [Lean.Grind.Field K] [RPow K] [BEq K] [LawfulBEq K]
variable (P : K → Prop)

/-- every number in the tree is positive and every symbol resolves to an entry of positive scale -/
def PosTree (pre : Prefixes K) (t : Lut K) : CExpr K → Prop
  | .num c => P c
  | .sym s => ∃ e, resolve pre t s = some e ∧ P e.scale
  | .mul a b => PosTree pre t a ∧ PosTree pre t b
  | .pow a _ => PosTree pre t a

variable (laws : RPowLaws (RPow.rpow (K := K)) P)
include laws

theorem build_pos (pre : Prefixes K) (t : Lut K) (e : CExpr K) (h : PosTree P pre t e) :
    AllPos P pre t e.build.factors ∧ P e.build.coeff := by
  induction e with
  | num c => exact ⟨fun s q hm => by simp [CExpr.build, UExpr.num] at hm, h⟩
  | sym s =>
    obtain ⟨ent, he, hp⟩ := h
    refine ⟨fun s' q' hm => ?_, laws.pos_one⟩
    simp only [CExpr.build, UExpr.sym, List.mem_singleton, Prod.mk.injEq] at hm
    obtain ⟨rfl, _⟩ := hm
    exact ⟨ent, he, hp⟩
  | mul a b iha ihb =>
    obtain ⟨ha, hb⟩ := h
    obtain ⟨pa, ca⟩ := iha ha
    obtain ⟨pb, cb⟩ := ihb hb
    refine ⟨fun s q hm => ?_, laws.pos_mul ca cb⟩
    simp only [CExpr.build, UExpr.mul, List.mem_append] at hm
    rcases hm with hm | hm
    · exact pa s q hm
    · exact pb s q hm
  | pow a p iha =>
    obtain ⟨pa, ca⟩ := iha h
    refine ⟨fun s q hm => ?_, laws.pos_rpow p ca⟩
    simp only [CExpr.build, UExpr.pow, UExpr.scaleF, List.mem_map] at hm
    obtain ⟨⟨s', q'⟩, hm', heq⟩ := hm
    simp only [Prod.mk.injEq] at heq
    obtain ⟨rfl, _⟩ := heq
    exact pa s' q' hm'

/-- **compositionality**: the flat expression of a tree denotes what the constituents imply —
    a coefficient multiplies the scale and leaves the dimension alone, products multiply, powers
    (also of products, also of coefficients, at any depth) raise scale and dimension -/
theorem denote_build (pre : Prefixes K) (t : Lut K) (e : CExpr K) (h : PosTree P pre t e) :
    denote pre t e.build = CExpr.sem pre t e := by
  induction e with
  | num c =>
    simp only [CExpr.build, UExpr.num, denote, denoteF, CExpr.sem, Option.some.injEq, Prod.mk.injEq, and_true]
    grind
  | sym s =>
    obtain ⟨ent, he, _⟩ := h
    simp only [CExpr.build, UExpr.sym, denote, denoteF, he, CExpr.sem, Option.map_some, pw, if_true,
      Option.some.injEq, Prod.mk.injEq, Dim.pow_one, Dim.mul_one', and_true]
    grind
  | mul a b iha ihb =>
    obtain ⟨ha, hb⟩ := h
    obtain ⟨pa, _⟩ := build_pos P laws pre t a ha
    obtain ⟨pb, _⟩ := build_pos P laws pre t b hb
    obtain ⟨va, da, hva, _⟩ := denoteF_pos P laws pre t _ pa
    obtain ⟨vb, db, hvb, _⟩ := denoteF_pos P laws pre t _ pb
    have hda : denote pre t a.build = some (a.build.coeff * va, da) := by simp only [denote, hva]
    have hdb : denote pre t b.build = some (b.build.coeff * vb, db) := by simp only [denote, hvb]
    have hm := denote_mul P laws pre t a.build b.build _ _ _ _ hda hdb
    simp only [CExpr.build, CExpr.sem, ← iha ha, ← ihb hb, hda, hdb, hm]
  | pow a p iha =>
    obtain ⟨pa, ca⟩ := build_pos P laws pre t a h
    obtain ⟨va, da, hva, _⟩ := denoteF_pos P laws pre t _ pa
    have hda : denote pre t a.build = some (a.build.coeff * va, da) := by simp only [denote, hva]
    have hp := denote_pow P laws pre t a.build p _ _ pa ca hda
    simp only [CExpr.build, CExpr.sem, ← iha h, hda, hp]

/-- `Unit(<tree>)` — the table evaluation of the flat expression — has the scale and dimension
    the constituents imply (a compound has no offset; a tree that collapses to one bare symbol
    takes that symbol's table row) -/
theorem unit_of_tree (pre : Prefixes K) (t t' : Lut K) (e : CExpr K) (u : UnitV K)
    (h : PosTree P pre t e) (hu : UnitV.ofExpr pre t e.build = .ok (u, t')) (h0 : u.offset = 0) :
    CExpr.sem pre t e = some (u.scale, u.dim) ∨
      ∃ s ent, normF e.build.factors = [(s, 1)] ∧ resolve pre t s = some ent ∧ u.scale = ent.scale ∧ u.dim = ent.dim := by
  obtain ⟨pa, _⟩ := build_pos P laws pre t e h
  have hs := (ofExpr_sound P laws pre t t' e.build u pa hu).2.1 h0
  rw [denote_build P laws pre t e h] at hs
  exact hs

end Unyt.C02

/-! ### non-vacuity: the hypotheses of the tree theorems are satisfiable without Mathlib
    (a degenerate power operation on the trivial "positive part" {1}; the instance that matters,
    `Real.rpow` on the positive reals, is `UnytProofs/Real/RPow.lean`) -/
namespace Unyt.C02.NonVacuity
open Unyt

local instance : RPow Rat := ⟨fun _ _ => 1⟩

example : RPowLaws (RPow.rpow (K := Rat)) (fun a => a = 1) where
  pos_one := rfl
  pos_mul := by intro a b ha hb; subst ha; subst hb; exact Rat.mul_one 1
  pos_rpow := by intro a q _; rfl
  rpow_zero := by intro a _; rfl
  rpow_one := by intro a ha; subst ha; rfl
  rpow_add := by intro a p q _; exact (Rat.mul_one 1).symm
  rpow_mul := by intro a p q _; rfl
  mul_rpow := by intro a b q _ _; exact (Rat.mul_one 1).symm
  one_rpow := by intro q; rfl

/-- a tree of numbers only is a `PosTree` over any table -/
example (pre : Prefixes Rat) (t : Lut Rat) :
    PosTree (fun a => a = 1) pre t (.mul (.num 1) (.pow (.num 1) (1 / 2))) := ⟨rfl, rfl⟩

end Unyt.C02.NonVacuity
