/-
  C07, second module (built in parallel with UnytProofs/C07.lean): the table obligations over the
  hand-written LISTS of functions — string-heavy kernel decisions kept out of the main module.
-/
import UnytModel.UnitRules
import UnytModel.UnitRulesCheck
import UnytModel.Generated.UnitRules
import UnytModel.Generated.Handlers
import UnytModel.Ref.C07Degrees
import UnytModel.Ref.C07Exclusions

namespace Unyt.C07
open Unyt Unyt.UR

/-- P-tab: dimension-preserving functions are never unsupported; the handled ones return a
    unit-carrying result labelled with the input's unit (exclusion list: `exclC07DimPreserving`);
    the others are on the default path (`func._implementation` on the subclass: correspondence only) -/
theorem dimensional_results_keep_units :
    dimPreservingOk Generated.npUnsupported Ref.exclC07DimPreserving
      Generated.ruleRows Ref.dimensionPreserving = true := by
  decide +kernel

/-- … and each of those exclusions is real -/
theorem dim_exclusions_are_real :
    (Ref.exclC07DimPreserving.all fun f => Generated.ruleRows.any fun r => r.func == f && !keepsUnits r) = true := by
  decide +kernel

/-- non-vacuity: handled members of the list exist and keep their units -/
example : (Generated.ruleRows.any fun r => r.func == "numpy.take" && !r.raised && keepsUnits r) = true := by
  decide +kernel

end Unyt.C07
