/-
  C20 — whole-name-table obligation: the symbols the parser produces are canonical.

  `Unit(name)` carries the symbol `inv_name_alternatives[name]`; `str()` prints that symbol and
  `Unit(str(u))` looks it up again.  The text is re-read as the same symbol exactly when the
  symbol is a fixed point of the table.  Decided by the kernel over all ≈3 900 regenerated
  entries (`Generated.nameTree`, the search-tree form of `inv_name_alternatives`).
-/
import UnytModel.Reparse

namespace Unyt.C20
open Unyt Reparse

/-- full strength: every symbol the name table yields is a fixed point of the name table -/
def C20_names_canonical_full : Prop :=
  Generated.nameTree.all (entryCanonical []) = true

set_option maxRecDepth 1000000 in
/-- every symbol the name table yields is a fixed point of the name table, except the 48
    micro-prefixed symbols of `Ref.C20.nonCanonicalSymbols` -/
theorem names_canonical_partial :
    Generated.nameTree.all (entryCanonical Ref.C20.nonCanonicalSymbols) = true := by decide +kernel

set_option maxRecDepth 1000000 in
/-- `inv["micrometer"] = "µm"` (U+00B5) but `inv["µm"] = "μm"` (U+03BC) -/
theorem names_canonical_counterexample : ¬ C20_names_canonical_full := by
  unfold C20_names_canonical_full; decide +kernel

set_option maxRecDepth 1000000 in
/-- the exclusion list is tight: each listed symbol occurs as a value that is not a fixed point -/
theorem names_exclusions_needed :
    Ref.C20.nonCanonicalSymbols.all (fun v =>
      !(Generated.nameTree.all (fun _ v' vc => v' != v || !exclusionNeeded vc))) = true := by decide +kernel

example : Generated.nameTree.size > 3000 := by decide +kernel

end Unyt.C20
