/-
  C11 — kernel-decided obligations over the regenerated route table (part 3: registry contents field
  by field).  A default symbol re-declared with exactly the default value, dimensions and offset but
  the OTHER SI-prefixability flag (`reg.add("mile", …, prefixable=True)`, `reg.add("bar", 1e5, pressure)`)
  is registry content: it decides which prefixed spellings exist.  The translator measures, per
  route, whether such a row comes back (`keepsFlagOnlyDefault`; harness/c11_lib.py: probe_route), and
  `Persist.restoreRow` follows that flag.
-/
import UnytProofs.C11

set_option linter.unusedSectionVars false
set_option linter.unusedVariables false

namespace Unyt.C11
open Unyt Unyt.Persist

/-- table obligation on the REGENERATED table alone (no reference involved): every route listed as
    preserving the contents of default rows (same `lut`, or `keepsModifiedDefault`) also keeps a row
    that differs from the default in the prefixable flag only -/
theorem flag_only_rows_travel : flagOnlyFlags Generated.persistRoutes = true := by
  decide

section witnesses
attribute [local instance] ratPowStub

/-- everything this file decides, evaluated once -/
def tab3 : Bool :=
  flagOnlyKept Ref.c11AsIs
    && decide ((Ref.c11AsIs.filter fun p => contentPreserving p.2).length = 9)
    && flagOnlyLossShows (asIsCfg .registryJson) && flagOnlyLossShows (asIsCfg .pickleArray)
    && guardQ (asIsCfg .registryJson) wFlag && guardQ (asIsCfg .pickleArray) wFlag
    && guardQ (asIsCfg .deepcopyArray) wFlag && guardQ (asIsCfg .pickleUnit) wFlag

theorem tab3_decided : tab3 = true := by decide +kernel

/-- on every content-preserving route (9 of the 10: all but the text file) the witness with `mile`
    made prefixable and `bar` made non-prefixable comes back with both flags, `2 mile → kmile` gives the
    original's answer and `→ mbar` the original's refusal -/
theorem flag_only_rows_kept :
    flagOnlyKept Ref.c11AsIs = true ∧ (Ref.c11AsIs.filter fun p => contentPreserving p.2).length = 9 := by
  have h := tab3_decided
  simp only [tab3, Bool.and_eq_true, decide_eq_true_eq] at h
  exact ⟨h.1.1.1.1.1.1.1, h.1.1.1.1.1.1.2⟩

/-- the same for the table regenerated from the live code -/
theorem live_flag_only_rows_kept : flagOnlyKept Generated.persistRoutes = true := by
  rw [active_routes_classified]; exact flag_only_rows_kept.1

/-- the model turns on the flag: the JSON / pickle route WITHOUT it resets both prefixable flags
    (`kmile` unknown, `mbar` known again), still carries a row whose value differs, and the guard of
    `roundtrip_state_eq_partial` rejects the witness — while with the flag the guard holds outright on
    JSON, pickle (array, Unit) and deepcopy -/
theorem flag_only_loss_would_show :
    flagOnlyLossShows (asIsCfg .registryJson) = true ∧ flagOnlyLossShows (asIsCfg .pickleArray) = true
      ∧ guardQ (asIsCfg .registryJson) wFlag = true ∧ guardQ (asIsCfg .pickleArray) wFlag = true
      ∧ guardQ (asIsCfg .deepcopyArray) wFlag = true ∧ guardQ (asIsCfg .pickleUnit) wFlag = true := by
  have h := tab3_decided
  simp only [tab3, Bool.and_eq_true] at h
  exact ⟨h.1.1.1.1.1.2, h.1.1.1.1.2, h.1.1.1.2, h.1.1.2, h.1.2, h.2⟩

end witnesses

end Unyt.C11
