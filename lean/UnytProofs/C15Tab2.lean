/-
  C15 — kernel-decided obligations over the regenerated table of materialised constants, part 2:
  alias names and suffixed names are equal as quantities within each namespace.
-/
import UnytModel.PhysicalConstantsCheck

namespace Unyt.C15
open Unyt PCheck Generated

/-- in every namespace every alternate name of `X` equals `X` (SI magnitude within 2⁻⁴⁵, same
    dimension) -/
theorem aliases_equal : allSpaces aliasesEqual = true := by decide +kernel

/-- in every namespace `X_mks`, `X_cgs` (of every alternate name too), `hmks`, `hcgs` equal `X`:
    same dimension and SI magnitude within 2⁻⁴⁵, or — charges in CGS — the Gaussian counterpart
    `q_G² = q_SI²·c²·10⁻⁷` -/
theorem suffixes_equal : allSpaces suffixesEqual = true := by decide +kernel

end Unyt.C15
