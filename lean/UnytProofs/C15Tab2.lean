/-
  C15 — kernel-decided obligations over the regenerated table of materialised constants, part 2:
  alias names and suffixed names are equal as quantities within each namespace; and the
  kernel-decided halves of the symbolic layer (normal forms of the defining relations, numeric
  agreement of independent literals) — a leaf module, so that they are checked independently of
  the other table obligations.
-/
import UnytModel.PhysicalConstantsCheck

namespace Unyt.C15
open Unyt PCheck Generated Ref.C15

/-- in every namespace every alternate name of `X` equals `X` (SI magnitude within 2⁻⁴⁵, same
    dimension) -/
theorem aliases_equal : allSpaces aliasesEqual = true := by decide +kernel

/-- in every namespace `X_mks`, `X_cgs` (of every alternate name too), `hmks`, `hcgs` equal `X`:
    same dimension and SI magnitude within 2⁻⁴⁵, or — charges in CGS — the Gaussian counterpart
    `q_G² = q_SI²·c²·10⁻⁷` -/
theorem suffixes_equal : allSpaces suffixesEqual = true := by decide +kernel

/-! ### symbolic layer, kernel-decided halves -/

/-- every defining relation of the reference (ħ = h/2π, ε₀μ₀c² = 1, μ₀ = 4π·10⁻⁷, σ, a, R_∞,
    the six Planck units, qe = −qp, Ry = h c R_∞) has equal normal forms over the base
    constants of the regenerated source -/
theorem defining_relations_normal_forms : relationsOk = true := by decide +kernel

/-- the hypothesis is met by the literals of the source: all base constants are positive -/
theorem base_constants_positive : basePositive = true := by decide +kernel

/-- relations between quantities the source fixes by independent literals (σ_T against
    (8π/3)·r_e², the eV against e): `lhs/rhs = k·πⁿ` is within the class tolerance of 1 at both
    ends of a 20-digit rational enclosure of π, at the exact decimals of the source -/
theorem independent_literals_agree : numRelationsOk = true := by decide +kernel

end Unyt.C15
