/-
  C12, registry OBJECTS over shared containers (`UnytModel/RegistryC12Alias.lean`): `Unit.copy()` — reached
  from `in_base()` & co. whenever the unit already is the base unit — hands out shallow copies of the registry,
  and "every unit subsequently constructed from any string against that registry" has to hold through every
  one of them, whichever object the edits and the earlier look-ups went through.

  * `alias_refines_single` — when both private containers are emptied IN PLACE, after ANY history of calls
    on and copies of registry objects, a call through ANY object answers exactly as the single registry of
    `RegC12.step` does after the same calls with the objects forgotten (every call but `unit_system_id`,
    whose memo is per object).
  * `C12_alias_resolution_full` — for the LIVE flags: … hence like a fresh registry holding the contents.
  * `C12_alias_counterexample_rebound_derived / _rebound_cache`, `alias_full_iff` — a machine that rebinds
    either container satisfies it for NO configuration of the invalidation: the property holds exactly
    for in-place emptying (and invalidating edits).
-/
import UnytProofs.C12
import UnytProofs.Lemmas.C12Alias
import UnytProofs.Lemmas.C12AliasWitness
import UnytModel.Generated.RegistryC12Alias

set_option linter.unusedSectionVars false
set_option linter.unusedVariables false

namespace Unyt.C12
open Unyt Unyt.RegC12

/-- C12 (every call but `unit_system_id`) for a family of registry objects: after every history of calls
    on / shallow copies of registry objects, starting from one fresh registry with table `t0`, every call
    through every object answers like the fresh registry whose table is the contents implied by the calls -/
def AliasFullExceptId (acfg : ACfg) (cfg : Cfg) : Prop :=
  ∀ (K : Type) [Mul K] [OfNat K 1] [OfNat K 0] [RPow K] (pre : Prefixes K)
    (parse : String → Except Err (PExpr K)) (t0 : Lut K) (h : List (AOp K)) (i : Nat) (op : Op K),
    op.isSysId = false →
    Out.Sim (astep acfg cfg pre parse (arun acfg cfg pre parse (afresh t0) h) i op).2
            (step cfg pre parse (fresh (contents t0 (eraseH h))) op).2

section general
variable {K : Type} [Mul K] [OfNat K 1] [OfNat K 0] [RPow K]
variable (cfg : Cfg) (pre : Prefixes K) (parse : String → Except Err (PExpr K))

/-- in-place containers: the family of registry objects IS the single registry — after any history of
    calls and copies, any object answers what the one registry answers after the same calls -/
theorem alias_refines_single (t0 : Lut K) (h : List (AOp K)) (i : Nat) (op : Op K)
    (hop : op.isSysId = false) :
    (astep ACfg.shared cfg pre parse (arun ACfg.shared cfg pre parse (afresh t0) h) i op).2
      = (step cfg pre parse (run cfg pre parse (fresh t0) (eraseH h)) op).2 := by
  obtain ⟨ha, hp⟩ := arun_proj cfg pre parse (afresh t0) (fresh t0) h (attached_afresh t0) (proj_afresh t0)
  rw [astep_out cfg pre parse _ ha i op hop, hp, step_out_strip _ _ _ _ _ hop]

/-- …and all objects stay attached to the first cache dict and derived set -/
theorem alias_objects_stay_attached (t0 : Lut K) (h : List (AOp K)) :
    ∀ hd ∈ (arun ACfg.shared cfg pre parse (afresh t0) h).handles, hd.cacheRef = 0 ∧ hd.dsetRef = 0 :=
  (arun_proj cfg pre parse (afresh t0) (fresh t0) h (attached_afresh t0) (proj_afresh t0)).1

end general

/-- in-place containers + invalidating edits ⇒ the property through every registry object -/
theorem alias_full_of_shared (cfg : Cfg) (hf : FullExceptId cfg) : AliasFullExceptId ACfg.shared cfg := by
  intro K _ _ _ _ pre parse t0 h i op hop
  rw [alias_refines_single cfg pre parse t0 h i op hop]
  exact hf K pre parse t0 (eraseH h) op hop

/-- table obligation: in the live source no method rebinds a container (ast), every edit form of the probe
    matrix leaves a shallow copy attached to the same set and dict, and `Unit.copy()` shares all three -/
theorem alias_step_assumptions :
    Generated.registryACfg = ACfg.shared ∧ Generated.registryContainersNeverRebound = true ∧
    Generated.unitCopyShares = true := by decide

/-- C12 for the LIVE source through every registry object (`Unit.copy()`, `in_base()` results …), every call
    but `unit_system_id`, all histories of calls and copies -/
theorem C12_alias_resolution_full : AliasFullExceptId Generated.registryACfg Generated.registryCfg := by
  rw [alias_step_assumptions.1]
  exact alias_full_of_shared _ C12_resolution_full

open Witness in
/-- `_forget_derived_symbols` rebinding the set: `cp = copy.copy(r); r.add("foo", 2 m, prefixable);
    Unit("kfoo", registry=cp); r.modify("foo", 3.0)` — `Unit("kfoo", registry=r)` is still 2000 m (the
    write-back was recorded in the set only `cp` still holds), for EVERY configuration of the invalidation -/
theorem C12_alias_counterexample_rebound_derived (cfg : Cfg) (c : Bool) :
    simB (agot ⟨false, c⟩ cfg hAliasDerived 0 (.unit "kfoo")) (want cfg (eraseH hAliasDerived) (.unit "kfoo"))
      = false := by
  obtain ⟨a, p, i, m⟩ := cfg
  cases a <;> cases p <;> cases i <;> cases m <;> cases c <;> decide +kernel

open Witness in
/-- a successful edit rebinding `_unit_object_cache`: …`Unit("foo", registry=cp); r.modify("foo", 3.0)` —
    `Unit("foo", registry=cp)` is still the cached 2 m -/
theorem C12_alias_counterexample_rebound_cache (cfg : Cfg) (d : Bool) :
    simB (agot ⟨d, false⟩ cfg hAliasCache 1 (.unit "foo")) (want cfg (eraseH hAliasCache) (.unit "foo"))
      = false := by
  obtain ⟨a, p, i, m⟩ := cfg
  cases a <;> cases p <;> cases i <;> cases m <;> cases d <;> decide +kernel

open Witness in
/-- the kept finding `memo-of-registry-copy-survives-edit`, for EVERY configuration, in-place or not: the
    `unit_system_id` memo is per registry object, an edit resets only the memo of the object it goes through —
    `r.unit_system_id; cp = copy.copy(r); r.add("foo", …)`: `cp.unit_system_id` is the id of the table without
    `foo` (why `AliasFullExceptId` excludes the id) -/
theorem C12_alias_counterexample_copy_memo (acfg : ACfg) (cfg : Cfg) :
    simB (agot acfg cfg hAliasMemo 1 .sysId) (want cfg (eraseH hAliasMemo) .sysId) = false := by
  obtain ⟨d, c⟩ := acfg
  obtain ⟨a, p, i, m⟩ := cfg
  cases d <;> cases c <;> cases a <;> cases p <;> cases i <;> cases m <;> decide +kernel

/-- a machine that rebinds either container fails the property, whatever its edits invalidate -/
theorem not_alias_full_of_rebinding (acfg : ACfg) (cfg : Cfg) (h : acfg ≠ ACfg.shared) :
    ¬ AliasFullExceptId acfg cfg := by
  intro hf
  obtain ⟨d, c⟩ := acfg
  cases c with
  | false =>
    have key := Witness.sim_simB _ _
      (hf Rat Witness.pre Witness.parse Witness.t0 Witness.hAliasCache 1 (.unit "foo") rfl)
    exact absurd (key.symm.trans (C12_alias_counterexample_rebound_cache cfg d)) (by decide)
  | true =>
    cases d with
    | true => exact h rfl
    | false =>
      have key := Witness.sim_simB _ _
        (hf Rat Witness.pre Witness.parse Witness.t0 Witness.hAliasDerived 0 (.unit "kfoo") rfl)
      exact absurd (key.symm.trans (C12_alias_counterexample_rebound_derived cfg true)) (by decide)

/-- the erased history of calls that all go through the first object -/
theorem eraseH_calls {K : Type} (h : List (Op K)) : eraseH (h.map (AOp.call 0)) = h := by
  induction h with
  | nil => rfl
  | cons o h ih => simp only [List.map_cons, eraseH, List.filterMap_cons, AOp.erase] at ih ⊢; rw [ih]

/-- the classification: the property holds through every registry object exactly when both containers are
    emptied in place and the edits invalidate both layers -/
theorem alias_full_iff (acfg : ACfg) (cfg : Cfg) :
    AliasFullExceptId acfg cfg ↔ (acfg = ACfg.shared ∧ FullExceptId cfg) := by
  constructor
  · intro hf
    have hs : acfg = ACfg.shared := Classical.byContradiction fun hne => not_alias_full_of_rebinding acfg cfg hne hf
    subst hs
    refine ⟨rfl, ?_⟩
    intro K _ _ _ _ pre parse t0 h op hop
    have := hf K pre parse t0 (h.map (AOp.call 0)) 0 op hop
    rw [alias_refines_single cfg pre parse t0 _ 0 op hop, eraseH_calls] at this
    exact this
  · rintro ⟨rfl, hf⟩; exact alias_full_of_shared cfg hf

open Witness in
/-- `alias_refines_single` is not vacuous and not trivial: through the copy, after edits through the original,
    the in-place machine answers 3000 m where the rebinding one answers 2000 m -/
example : agot ACfg.shared Generated.registryCfg hAliasDerived 0 (.unit "kfoo") = .unit 1 ⟨3000, 0, Dim.dLength⟩ ∧
    agot ⟨false, true⟩ Generated.registryCfg hAliasDerived 0 (.unit "kfoo") = .unit 1 ⟨2000, 0, Dim.dLength⟩ ∧
    want Generated.registryCfg (eraseH hAliasDerived) (.unit "kfoo") = .unit 0 ⟨3000, 0, Dim.dLength⟩ := by
  decide +kernel

end Unyt.C12
