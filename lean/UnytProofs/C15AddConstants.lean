/-
  C15 — constants built for a registry / unit system are the table's quantities: the general
  theorems about `AddConstants.materialise` (the model of the body of
  `unit_systems.py::add_constants`, i.e. `quan.in_base(unit_system)` with the `UnitsNotReducible`
  fall-back), for EVERY unit system, unit table, EM table, unit and value over any field.

  * `checkEm_shape` — the two shapes of a non-empty `em_map`.
  * `inBase_em_route` — what `in_base` does with a non-empty `em_map`.
  * `inBase_current_system_preserves_SI` — the branch "SI E&M unit, unit system with an MKS
    current" (`qp`, `qe`, `q_pl` in mks, imperial, galactic, solar, geometrized, planck and every
    user system): the reading in the system's unit denotes the same quantity.
  * `inBase_gaussian_reading` — the Gaussian branch multiplies the reading by exactly the row's factor.
  * `inBase_plain_preserves_SI` — the plain route, offset-free units.
  * `materialise_preserves_quantity` — the combined statement for `add_constants`.
  * `addConstantsRow_mks_is_table`, `addConstantsRow_plain_is_materialise`.
-/
import UnytModel.AddConstants
import UnytModel.SystemTables
import UnytProofs.Lemmas.C10

set_option linter.unusedSectionVars false

namespace Unyt.C15
open Unyt AddConstants

section general
variable {K : Type} [Lean.Grind.Field K] [RPow K] [BEq K] [LawfulBEq K]
variable (pre : Prefixes K) (t : Lut K) (T : EmTable K)

/-- **the two shapes of a non-empty `em_map`**: either the unit carries the MKS current and the
    system has a current unit — then `em_map = (unit_system[dims], unit, 1.0)` — or it is the
    Gaussian/SI pairing `(None, Unit(prefix + partner), factor)` of the `em_conversions` row hit -/
theorem checkEm_shape (S : USys K) (u : UnitV K) (m : EmMap K)
    (h : checkEm pre t T S u = .ok (some m)) :
    ((u.dim.hasCurrent && S.hasCurrent) = true ∧ m.canon = u ∧ m.scale = 1 ∧
        ∃ ex cu, S.lookup u.dim = .ok ex ∧ mkUnit pre t ex = .ok cu ∧ m.conv = some cu) ∨
    ((u.dim.hasCurrent && S.hasCurrent) = false ∧ m.conv = none ∧
        ∃ p r, emHit pre t T u = some (p, r) ∧ mkUnit pre t (UExpr.sym (r.partnerSym p)) = .ok m.canon ∧
          m.scale = r.factor) := by
  simp only [checkEm] at h
  split at h
  · cases h
  · split at h
    · rename_i p r hhit
      split at h
      · cases h
      · rename_i emUnit hem
        split at h
        · rename_i hcur
          split at h
          · cases h
          · rename_i ex hl
            split at h
            · cases h
            · rename_i cu hcu
              cases h
              exact Or.inl ⟨hcur, rfl, rfl, ex, cu, hl, hcu, rfl⟩
        · rename_i hcur
          cases h
          refine Or.inr ⟨by simpa using hcur, rfl, p, r, hhit, hem, rfl⟩
    · split at h
      · cases h
      · cases h

/-- **`in_base` on the EM route**: the short-cut returns the quantity itself; otherwise the target
    is `Unit(conv_unit.expr)`, the source is `Unit(scale * canonical_unit.expr)` and the reading is
    multiplied by `get_conversion_factor(source, target)` -/
theorem inBase_em_route (S : USys K) (u v : UnitV K) (x y : K) (m : EmMap K)
    (hc : checkEm pre t T S u = .ok (some m)) (h : inBase pre t T S u x = .ok (y, v)) :
    (umMatches S u = true ∧ y = x ∧ v = u) ∨
    (umMatches S u = false ∧ ∃ nu f, mkUnit pre t (m.conv.getD m.canon).expr = .ok v ∧
        mkUnit pre t ⟨m.scale * m.canon.expr.coeff, m.canon.expr.factors⟩ = .ok nu ∧
        getConversionFactor pre t nu v = .ok f ∧ y = applyFactor f x) := by
  simp only [inBase, hc] at h
  cases hm : umMatches S u
  · simp only [hm, Bool.false_eq_true, if_false] at h
    refine Or.inr ⟨rfl, ?_⟩
    simp only [emConversion] at h
    split at h
    · contradiction
    · rename_i r he
      obtain ⟨toUnits, f⟩ := r
      split at he
      · contradiction
      · rename_i tu htu
        split at he
        · contradiction
        · rename_i nu hnu
          split at he
          · contradiction
          · rename_i f' hf
            cases he
            cases h
            exact ⟨nu, _, htu, hnu, hf, rfl⟩
  · simp only [hm, if_true, Except.ok.injEq, Prod.mk.injEq] at h
    exact Or.inl ⟨rfl, h.1.symm, h.2.symm⟩

/-- the conversion factor between offset-free units is the ratio of the scales -/
theorem getConversionFactor_offsetFree (a b : UnitV K) (f : K × Option K)
    (ha : a.offset = 0) (hb : b.offset = 0) (h : getConversionFactor pre t a b = .ok f) :
    f = (a.scale / b.scale, none) ∧ a.dim = b.dim := by
  refine ⟨?_, getConversionFactor_dim pre t a b f h⟩
  simp only [getConversionFactor] at h
  split at h
  · contradiction
  · have h0 : (a.offset == 0 && b.offset == 0) = true := by simp [ha, hb]
    simp only [h0, if_true] at h
    cases h; rfl

/-- the unit object carries the data its own expression resolves to in the registry table (true of
    every `Unit(...)` object; decided for every row of the regenerated constants table in
    `UnytProofs/C15TabAdd.lean`) -/
def Resolves (pre : Prefixes K) (t : Lut K) (u : UnitV K) : Prop :=
  ∀ nu, mkUnit pre t u.expr = .ok nu → nu.scale = u.scale ∧ nu.offset = u.offset ∧ nu.dim = u.dim

/-- **an SI electromagnetic unit in a unit system that has an MKS current** (`C`, `A`, `T`, `V`,
    `Ω`, prefixed or not — the charge constants `qp`, `qe`, `q_pl` — in mks, imperial, galactic,
    solar, geometrized, planck and every user system): `in_base` preserves the SI magnitude and the
    dimension.  Offset-free units (every unit of an EM dimension). -/
theorem inBase_current_system_preserves_SI (S : USys K) (u v : UnitV K) (x y : K) (m : EmMap K)
    (hc : checkEm pre t T S u = .ok (some m)) (hcur : (u.dim.hasCurrent && S.hasCurrent) = true)
    (h : inBase pre t T S u x = .ok (y, v))
    (hreg : Resolves pre t u) (hu0 : u.offset = 0) (hv0 : v.offset = 0) (hv : v.scale ≠ 0) :
    y * v.scale = x * u.scale ∧ v.dim = u.dim := by
  rcases checkEm_shape pre t T S u m hc with ⟨_, hcanon, hscale, _⟩ | ⟨hno, _⟩
  · rcases inBase_em_route pre t T S u v x y m hc h with ⟨_, hy, hvu⟩ | ⟨_, nu, f, _, hnu, hf, hy⟩
    · subst hy; subst hvu; exact ⟨rfl, rfl⟩
    · have hexpr : (⟨m.scale * m.canon.expr.coeff, m.canon.expr.factors⟩ : UExpr K) = u.expr := by
        rw [hcanon, hscale]
        have : (1 : K) * u.expr.coeff = u.expr.coeff := by grind
        rw [this]
      rw [hexpr] at hnu
      obtain ⟨hs, ho, hdm⟩ := hreg nu hnu
      obtain ⟨hfe, hd⟩ := getConversionFactor_offsetFree pre t nu v f (by rw [ho, hu0]) hv0 hf
      subst hfe
      subst hy
      refine ⟨?_, by rw [← hd, hdm]⟩
      simp only [applyFactor]
      rw [hs]
      grind
  · rw [hcur] at hno; cases hno

/-- **the Gaussian branch** (the unit does not carry the MKS current or the system has no current
    unit: `C → statC`, `T → G`, … in cgs-like systems, `statC → C` elsewhere): the target is the
    partner unit of the `em_conversions` row and the reading is multiplied by exactly the row's
    factor — whatever the table says the partner's scale is.  (`P`: the positive part on which the
    power laws hold; the partner's symbols resolve with positive scales.) -/
theorem inBase_gaussian_reading (P : K → Prop) (laws : RPowLaws (RPow.rpow (K := K)) P)
    (S : USys K) (u v : UnitV K) (x y : K) (m : EmMap K)
    (hc : checkEm pre t T S u = .ok (some m)) (hcur : (u.dim.hasCurrent && S.hasCurrent) = false)
    (hm : umMatches S u = false) (h : inBase pre t T S u x = .ok (y, v))
    (hpos : AllPos P pre t m.canon.expr.factors) (val : K) (d : Dim)
    (hd : denoteF pre t m.canon.expr.factors = some (val, d))
    (hnu0 : ∀ nu, mkUnit pre t ⟨m.scale * m.canon.expr.coeff, m.canon.expr.factors⟩ = .ok nu → nu.offset = 0)
    (hv0 : v.offset = 0) (hv : v.scale ≠ 0) :
    ∃ p r, emHit pre t T u = some (p, r) ∧ y = x * r.factor := by
  rcases checkEm_shape pre t T S u m hc with ⟨hyes, _⟩ | ⟨_, hconv, p, r, hhit, _, hscale⟩
  · rw [hcur] at hyes; cases hyes
  · refine ⟨p, r, hhit, ?_⟩
    rcases inBase_em_route pre t T S u v x y m hc h with ⟨hm', _⟩ | ⟨_, nu, f, htu, hnu, hf, hy⟩
    · rw [hm] at hm'; cases hm'
    · rw [hconv] at htu
      simp only [Option.getD_none] at htu
      have hvs := mkUnit_scale P laws pre t m.canon.expr v htu hpos val d hd
      have hns := mkUnit_scale P laws pre t ⟨m.scale * m.canon.expr.coeff, m.canon.expr.factors⟩ nu hnu hpos val d hd
      obtain ⟨hfe, _⟩ := getConversionFactor_offsetFree pre t nu v f (hnu0 nu hnu) hv0 hf
      subst hfe
      subst hy
      simp only [applyFactor]
      rw [← hscale]
      simp only [] at hns
      rw [hns]
      rw [hvs] at hv ⊢
      grind

/-- **the plain route** (`_check_em_conversion` returns `()`), offset-free units: the SI magnitude
    and the dimension are preserved -/
theorem inBase_plain_preserves_SI (S : USys K) (u v : UnitV K) (x y : K)
    (hc : checkEm pre t T S u = .ok none) (h : inBase pre t T S u x = .ok (y, v))
    (hu0 : u.offset = 0) (hv0 : v.offset = 0) (hv : v.scale ≠ 0) :
    y * v.scale = x * u.scale ∧ v.dim = u.dim := by
  simp only [inBase, hc] at h
  split at h
  · contradiction
  · rename_i toUnits hg
    split at h
    · contradiction
    · rename_i f hf
      cases h
      obtain ⟨hfe, hd⟩ := getConversionFactor_offsetFree pre t u v f hu0 hv0 hf
      subst hfe
      refine ⟨?_, hd.symm⟩
      simp only [applyFactor]
      grind

/-- **constants built for any registry / unit system are the table's quantities.**
    For every unit system `S`, unit table, EM table, table row `(x, u)`: whenever the unit is not
    sent to its Gaussian counterpart (i.e. the dimension is outside the EM table, or it carries the
    MKS current and the system has a current unit — every built-in system except cgs, and every
    user system), what `add_constants` files under the plain name has the SI magnitude and the
    dimension of the table row — whichever route `in_base` takes (plain, short-cut, EM with current,
    or the `UnitsNotReducible` fall-back). -/
theorem materialise_preserves_quantity (S : USys K) (u v : UnitV K) (x y : K)
    (hroute : T.hasDim u.dim = true → (u.dim.hasCurrent && S.hasCurrent) = true)
    (h : materialise pre t T S u x = .ok (y, v))
    (hreg : Resolves pre t u) (hu0 : u.offset = 0) (hv0 : v.offset = 0) (hv : v.scale ≠ 0) :
    siMag (y, v) = siMag (x, u) ∧ v.dim = u.dim := by
  simp only [siMag]
  simp only [materialise] at h
  split at h
  · cases h; exact ⟨rfl, rfl⟩
  · contradiction
  · rename_i r hr
    cases h
    cases hc : checkEm pre t T S u with
    | error e =>
      simp only [inBase, hc] at hr
      cases e <;> simp at hr
    | ok cd =>
      cases cd with
      | none => exact inBase_plain_preserves_SI pre t T S u v x y hc hr hu0 hv0 hv
      | some m =>
        have hD : T.hasDim u.dim = true := by
          cases hD : T.hasDim u.dim
          · simp [checkEm, hD] at hc
          · rfl
        exact inBase_current_system_preserves_SI pre t T S u v x y m hc (hroute hD) hr hreg hu0 hv0 hv

/-- `X_mks` is the table entry itself, and the plain name is `materialise` -/
theorem addConstantsRow_mks_is_table (S cgsS : USys K) (u : UnitV K) (x : K) (g : Guises K)
    (h : addConstantsRow pre t T S cgsS u x = .ok g) :
    g.mks = (x, u) ∧ materialise pre t T S u x = .ok g.plain := by
  simp only [addConstantsRow] at h
  split at h
  · contradiction
  · rename_i p hp
    split at h
    · cases h; exact ⟨rfl, hp⟩
    · contradiction
    · cases h; exact ⟨rfl, hp⟩

/-- `X_cgs`, when written, is `quan.in_cgs()`; it is not written exactly when that raises
    `UnitsNotReducible` -/
theorem addConstantsRow_cgs (S cgsS : USys K) (u : UnitV K) (x : K) (g : Guises K)
    (h : addConstantsRow pre t T S cgsS u x = .ok g) :
    (g.cgs = none ∧ inBase pre t T cgsS u x = .error .UnitsNotReducible) ∨
    (∃ c, g.cgs = some c ∧ inBase pre t T cgsS u x = .ok c) := by
  simp only [addConstantsRow] at h
  split at h
  · contradiction
  · split at h
    · rename_i hc; cases h; exact Or.inl ⟨rfl, hc⟩
    · contradiction
    · rename_i c hc; cases h; exact Or.inr ⟨c, rfl, hc⟩

end general

/-! ### non-vacuity: the hypotheses are met by the regenerated tables (ℚ, stand-in powers) -/
section examples
attribute [local instance] ratPowStub

/-- `qp = 1.6021766208e-19 C` in the galactic system: the EM route with a current is taken
    (`em-current`), the hypotheses of `materialise_preserves_quantity` hold, and the result is in
    `A*Myr`-like system units with the SI magnitude of the table row -/
example :
    (match findSystem Rat "galactic", mkUnit c10Pre c10Lut (UExpr.sym "C") with
     | some S, .ok u =>
       c10Em.hasDim u.dim && (u.dim.hasCurrent && S.hasCurrent)
       && (match mkUnit c10Pre c10Lut u.expr with | .ok u' => u'.scale == u.scale && u'.dim == u.dim | _ => false)
       && u.offset == 0
       && routeLabel c10Pre c10Lut c10Em S u == "em-current"
       && (match materialise c10Pre c10Lut c10Em S u (5 / 2) with
           | .ok (y, v) => v.offset == 0 && decide (v.scale ≠ 0) && y * v.scale == 5 / 2 * u.scale && v.dim == u.dim
               && decide (v.scale ≠ u.scale)
           | _ => false)
     | _, _ => false) = true := by decide +kernel

/-- the fall-back: `N/A**2` (mu_0) is not reducible in cgs; `materialise` returns the quantity
    itself and `addConstantsRow` writes no `_cgs` guise -/
example :
    (match findSystem Rat "cgs", mkUnit c10Pre c10Lut ⟨1, [("N", 1), ("A", -2)]⟩ with
     | some S, .ok u =>
       (match addConstantsRow c10Pre c10Lut c10Em S S u 3 with
        | .ok g => g.plain.1 == 3 && g.plain.2.scale == u.scale && g.cgs.isNone && g.mks.1 == 3
        | _ => false)
     | _, _ => false) = true := by decide +kernel

end examples

end Unyt.C15
