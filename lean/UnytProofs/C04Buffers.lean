/-
  C04 — the buffer discipline of the two-input branch of `__array_ufunc__`: whatever storage the caller's
  arrays share (`out=` a view of the first operand, `out=` the second operand, in-place operators, all the
  same array), the statement list *regenerated from the live source* (`Generated.C04Buf.binaryStmts`)
  leaves in the returned array — and in the `out=` array — exactly the value the buffer-free model
  `Out.value` describes, and changes no other array of the caller.  Property statements only; lemmas in
  `Lemmas/C04Buffers.lean`.
-/
import UnytModel.UfuncValue
import UnytModel.Generated.C04Buffers
import UnytProofs.Lemmas.C04Buffers

namespace Unyt.C04
open Unyt Unyt.Buf

/-- table obligation (kernel-decided over the regenerated statement list): for all 128 flag combinations
    and all 27 placements of first operand / second operand / out array in the caller's cells, the run
    over the free term algebra meets the contract -/
theorem buffer_program_checked : checkAll Generated.C04Buf.binaryStmts = true := by decide +kernel

/-- a statement list that passes the symbolic check meets the contract over EVERY value algebra (any
    carrier, any kernel, any coefficients), for all contents of the caller's cells, all placements and
    all flags: nothing fails; the returned array holds `expected`; with `out=` the out array holds it;
    every other cell of the caller is unchanged -/
theorem checked_program_meets_contract {V : Type} (A : Alg V) (prog : List Stmt) (hc : checkAll prog = true)
    (fl : Flags) (c0 c1 c2 : V) (l0 l1 lo : Nat) (h0 : l0 < 3) (h1 : l1 < 3) (ho : lo < 3) :
    let cells := [c0, c1, c2]
    let s := run A fl lo prog (initSt c0 c1 c2 l0 l1)
    let e := expected A fl (cells.getD l0 c0) (cells.getD l1 c0)
    s.bad = false ∧ s.read .ret = some e ∧ (fl.hasOut = true → s.mem[lo]? = some e)
      ∧ ∀ i, i < 3 → (fl.hasOut = true ∧ i = lo) ∨ s.mem[i]? = cells[i]? := by
  intro cells s e
  -- the instance of the check
  have hc' := forallLoc_spec (forallLoc_spec (forallLoc_spec (forallBool_spec (forallBool_spec (forallBool_spec
    (forallBool_spec (forallBool_spec (forallBool_spec (forallBool_spec hc fl.conv) fl.tdelta) fl.post) fl.hasOut)
    fl.mulNe1) fl.free0) fl.free1) l0 h0) l1 h1) lo ho
  have hfl : flagsOf fl.conv fl.tdelta fl.post fl.hasOut fl.mulNe1 fl.free0 fl.free1 = fl := rfl
  simp only [hfl] at hc'
  -- the concrete run is the image of the symbolic run
  let env : Nat → V := fun i => cells.getD i c0
  have hrun : s = (run termAlg fl lo prog (initSt (.var 0) (.var 1) (.var 2) l0 l1)).map (Term.eval A env) := by
    rw [run_map (eval_hom A env)]
    rfl
  generalize run termAlg fl lo prog (initSt (.var 0) (.var 1) (.var 2) l0 l1) = sT at hc' hrun
  have hv : ∀ l, l < 3 → [Term.var 0, Term.var 1, Term.var 2][l]? = some (Term.var l) := by
    intro l hl
    have : l = 0 ∨ l = 1 ∨ l = 2 := by omega
    rcases this with rfl | rfl | rfl <;> rfl
  have hcell : ∀ l, l < 3 → cells[l]? = some (env l) := by
    intro l hl
    have : l = 0 ∨ l = 1 ∨ l = 2 := by omega
    rcases this with rfl | rfl | rfl <;> rfl
  unfold contract at hc'
  simp only [hv l0 h0, hv l1 h1, Bool.and_eq_true, Bool.not_eq_true', Bool.or_eq_true, beq_iff_eq,
    List.all_eq_true, List.mem_range] at hc'
  obtain ⟨⟨⟨hbad, hret⟩, hout⟩, hframe⟩ := hc'
  have he : e = (expected termAlg fl (.var l0) (.var l1)).eval A env := by
    rw [eval_expected]; rfl
  refine ⟨?_, ?_, ?_, ?_⟩
  · rw [hrun]; exact hbad
  · rw [hrun, read_map, hret, he]; rfl
  · intro hO
    rcases hout with hno | hm
    · simp [hO] at hno
    · rw [hrun, he]
      show (sT.mem.map (Term.eval A env))[lo]? = _
      rw [List.getElem?_map, hm]; rfl
  · intro i hi
    rcases hframe i hi with ⟨hO, hil⟩ | hm
    · exact Or.inl ⟨hO, hil⟩
    · right
      rw [hrun]
      show (sT.mem.map (Term.eval A env))[i]? = _
      rw [List.getElem?_map, hm, hv i hi, hcell i hi]; rfl

/-- the live code (its regenerated statement list), over every carrier with a multiplication, every kernel and
    all coefficients, under every aliasing of the caller's arrays: full strength, no hypothesis on the program -/
theorem buffer_program_refines_expected {K : Type} [Mul K] (F : K → K → K) (coef : Coef → K) (fl : Flags)
    (c0 c1 c2 : K) (l0 l1 lo : Nat) (h0 : l0 < 3) (h1 : l1 < 3) (ho : lo < 3) :
    let cells := [c0, c1, c2]
    let s := run (mulAlg F coef) fl lo Generated.C04Buf.binaryStmts (initSt c0 c1 c2 l0 l1)
    let e := expected (mulAlg F coef) fl (cells.getD l0 c0) (cells.getD l1 c0)
    s.bad = false ∧ s.read .ret = some e ∧ (fl.hasOut = true → s.mem[lo]? = some e)
      ∧ ∀ i, i < 3 → (fl.hasOut = true ∧ i = lo) ∨ s.mem[i]? = cells[i]? :=
  checked_program_meets_contract (mulAlg F coef) _ buffer_program_checked fl c0 c1 c2 l0 l1 lo h0 h1 ho

/-- `expected` is the buffer-free model's `Out.value` (commutative ring; a block that does not run has
    coefficient 1; the temperature-difference arm is C08's) -/
theorem expected_eq_value {K : Type} [Lean.Grind.CommRing K] (o : UV.Out K) (F : K → K → K) (coef : Coef → K)
    (fl : Flags) (x0 x1 : K) (htd : fl.tdelta = false)
    (hconv : coef .conv = o.conv) (hpost : coef .post = o.post) (hmul : coef .mul = o.mul)
    (h1 : fl.conv = false → o.conv = 1) (h2 : fl.post = false → o.post = 1) (h3 : fl.mulNe1 = false → o.mul = 1) :
    expected (mulAlg F coef) fl x0 x1 = o.value F x0 x1 := by
  unfold expected UV.Out.value UV.Out.arg1 mulAlg
  cases hc : fl.conv <;> cases hp : fl.post <;> cases hm : fl.mulNe1 <;> simp_all <;> grind

/-- non-vacuity of the hypotheses of `expected_eq_value` / `buffer_program_refines_value`: a rescaling call with
    `out=` (2 km + 500 m: `conv` runs, no post-multiplication, coefficient 1) -/
example : ∃ (o : UV.Out Int) (coef : Coef → Int) (fl : Flags), fl.tdelta = false ∧ coef .conv = o.conv ∧ coef .post = o.post
    ∧ coef .mul = o.mul ∧ (fl.conv = false → o.conv = 1) ∧ (fl.post = false → o.post = 1) ∧ (fl.mulNe1 = false → o.mul = 1) :=
  ⟨⟨none, 3, 1, 1, none⟩, fun c => match c with | .conv => 3 | _ => 1, ⟨true, false, false, true, false, false, false⟩,
    by decide⟩

/-- the two together: under any aliasing, the live statement list returns `Out.value` and stores it in `out=` -/
theorem buffer_program_refines_value {K : Type} [Lean.Grind.CommRing K] (o : UV.Out K) (F : K → K → K)
    (coef : Coef → K) (fl : Flags) (c0 c1 c2 : K) (l0 l1 lo : Nat) (h0 : l0 < 3) (h1 : l1 < 3) (ho : lo < 3)
    (htd : fl.tdelta = false)
    (hconv : coef .conv = o.conv) (hpost : coef .post = o.post) (hmul : coef .mul = o.mul)
    (g1 : fl.conv = false → o.conv = 1) (g2 : fl.post = false → o.post = 1) (g3 : fl.mulNe1 = false → o.mul = 1) :
    let cells := [c0, c1, c2]
    let s := run (mulAlg F coef) fl lo Generated.C04Buf.binaryStmts (initSt c0 c1 c2 l0 l1)
    let v := o.value F (cells.getD l0 c0) (cells.getD l1 c0)
    s.read .ret = some v ∧ (fl.hasOut = true → s.mem[lo]? = some v)
      ∧ ∀ i, i < 3 → (fl.hasOut = true ∧ i = lo) ∨ s.mem[i]? = cells[i]? := by
  intro cells s v
  have h := buffer_program_refines_expected F coef fl c0 c1 c2 l0 l1 lo h0 h1 ho
  have e := expected_eq_value o F coef fl ([c0, c1, c2].getD l0 c0) ([c0, c1, c2].getD l1 c0) htd hconv hpost hmul g1 g2 g3
  simp only [e] at h
  exact ⟨h.2.1, h.2.2.1, h.2.2.2⟩

/-- non-vacuity: 2 km + 500 m with `out=` a view of the first operand (cells 0 = first operand = out, 1 = second) -/
example : (run (mulAlg (fun a b : Int => a + b) (fun _ => 3)) ⟨true, false, false, true, false, false, false⟩ 0
    Generated.C04Buf.binaryStmts (initSt 2 5 0 0 1)).mem.take 3 = [17, 5, 0] := by decide +kernel

/-- the class of changes the check is there for: staging the rescaled second operand in the output buffer
    ("the kernel overwrites it anyway") passes for a fresh `out=` but not when `out=` shares storage with the
    first operand — the symbolic check rejects it -/
def stagedInOut : List Stmt := [
  ⟨[(.hasOut, true)], .viewOut⟩,
  ⟨[(.conv, true), (.tdelta, false)], .scale .inp1 .conv (some .outFunc) (some .inp1)⟩,
  ⟨[], .kernel .inp0 .inp1 (some .outFunc) (some .outArr)⟩,
  ⟨[(.hasOut, true), (.mulPending, true)], .scale .outFunc .mul (some .outFunc) none⟩,
  ⟨[(.hasOut, true), (.mulPending, true), (.shared, true)], .mulDone⟩,
  ⟨[], .retMul⟩]

theorem staging_in_out_rejected : checkAll stagedInOut = false := by decide +kernel

/-- … with the aliased call as the witness: first operand and out in cell 0, second operand in cell 1 -/
theorem staging_in_out_counterexample :
    (run (mulAlg (fun a b : Int => a + b) (fun _ => 3)) ⟨true, false, false, true, false, false, false⟩ 0
      stagedInOut (initSt 2 5 0 0 1)).mem.take 3 = [30, 5, 0] := by decide +kernel

/-- rescaling the second operand in place (no temporary) clobbers the caller's array: rejected by the frame clause -/
def rescaledInPlace : List Stmt := [
  ⟨[(.conv, true), (.tdelta, false)], .scale .inp1 .conv (some .inp1) (some .inp1)⟩,
  ⟨[(.hasOut, true)], .viewOut⟩,
  ⟨[], .kernel .inp0 .inp1 (some .outFunc) (some .outArr)⟩,
  ⟨[(.hasOut, true), (.mulPending, true)], .scale .outFunc .mul (some .outFunc) none⟩,
  ⟨[(.hasOut, true), (.mulPending, true), (.shared, true)], .mulDone⟩,
  ⟨[], .retMul⟩]

theorem rescale_in_place_rejected : checkAll rescaledInPlace = false := by decide +kernel

end Unyt.C04
