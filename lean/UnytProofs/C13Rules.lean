/-
  C13 — "operations mixing two registries use the left operand's registry": the memoised unit rules.

  Property statements about `UnytModel/RuleCache.lean`:
    * `keyed_by_registry_answers_left`  with the cache keyed by the operands' registries, EVERY call in EVERY
                                        history — hit or miss, whatever was cached before — answers with a unit of
                                        the left operand's registry
    * `unkeyed_cache_leaks`             with the plain `lru_cache` key this is false: a concrete two-call history in
                                        which arithmetic inside registry 2 answers with a unit of registry 1
                                        (the defect repaired by `fix:` ea1f881, found by this check's oracle)
    * `live_rule_caches_keyed`          kernel-decided over the regenerated table: every memoised rule of the live
                                        `_ufunc_registry` distinguishes equal-looking operands of two registries
-/
import UnytModel.RuleCache
import UnytModel.Generated.RuleCacheCfg

namespace Unyt.C13Rules
open Unyt.RuleCache

/-- every cached entry was computed by the rule for arguments with that key -/
def Sound (byReg : Bool) (f : List Nat → Nat) (c : Cache) : Prop :=
  ∀ k r, find c k = some r → ∃ args, k = cacheKey byReg args ∧ r = rule f args

theorem sound_nil (byReg : Bool) (f : List Nat → Nat) : Sound byReg f [] := by
  intro k r h; simp [find] at h

theorem find_cons (c : Cache) (k k' : Key) (r : U) :
    find ((k', r) :: c) k = if k' = k then some r else find c k := rfl

theorem call_sound (byReg : Bool) (f : List Nat → Nat) (c : Cache) (args : List U) (h : Sound byReg f c) :
    Sound byReg f (call byReg f c args).1 := by
  unfold call
  cases hf : find c (cacheKey byReg args) with
  | some r => exact h
  | none =>
    intro k r hk
    rw [find_cons] at hk
    by_cases e : cacheKey byReg args = k
    · rw [if_pos e] at hk
      cases hk
      exact ⟨args, e.symm, rfl⟩
    · rw [if_neg e] at hk
      exact h k r hk

/-- arguments with the same registries have the same left registry -/
theorem leftReg_of_regs (a b : List U) (h : a.map (·.reg) = b.map (·.reg)) : leftReg a = leftReg b := by
  cases a with
  | nil => cases b with
    | nil => rfl
    | cons y ys => simp at h
  | cons x xs => cases b with
    | nil => simp at h
    | cons y ys =>
      simp only [List.map_cons, List.cons.injEq] at h
      simp [leftReg, h.1]

/-- one call against a sound cache keyed by registries answers in the left operand's registry -/
theorem call_answers_left (f : List Nat → Nat) (c : Cache) (args : List U) (h : Sound true f c) :
    (call true f c args).2.reg = leftReg args := by
  unfold call
  cases hf : find c (cacheKey true args) with
  | none => rfl
  | some r =>
    obtain ⟨args', hk, hr⟩ := h _ r hf
    simp only [cacheKey, if_true, Prod.mk.injEq] at hk
    rw [hr]
    exact (leftReg_of_regs args args' hk.1).symm

/-- **every call of every history**, starting from any sound cache (in particular the empty one) -/
theorem keyed_by_registry_answers_left (f : List Nat → Nat) (hist : List (List U)) (c : Cache)
    (h : Sound true f c) :
    (answers true f c hist).map (·.reg) = hist.map leftReg := by
  induction hist generalizing c with
  | nil => rfl
  | cons args rest ih =>
    simp only [answers, List.map_cons]
    rw [call_answers_left f c args h, ih _ (call_sound true f c args h)]

/-- the same from the empty cache (process start) -/
theorem keyed_by_registry_answers_left_from_start (f : List Nat → Nat) (hist : List (List U)) :
    (answers true f [] hist).map (·.reg) = hist.map leftReg :=
  keyed_by_registry_answers_left f hist [] (sound_nil true f)

/-- the plain `lru_cache` key: `x_1 * y_1` in registry 1, then the equal-looking `x_2 * y_2` in registry 2
    (identical contents, hence the same classes 5 and 6): the second answer belongs to registry 1 -/
theorem unkeyed_cache_leaks :
    (answers false (fun ks => ks.sum) [] [[⟨5, 1⟩, ⟨6, 1⟩], [⟨5, 2⟩, ⟨6, 2⟩]]).map (·.reg) = [1, 1] ∧
    (answers true (fun ks => ks.sum) [] [[⟨5, 1⟩, ⟨6, 1⟩], [⟨5, 2⟩, ⟨6, 2⟩]]).map (·.reg) = [1, 2] := by
  decide

/-- every memoised rule of the live `_ufunc_registry` distinguishes equal-looking operands of two registries
    with identical contents (a second call with the other registry's units is a cache MISS), and none of the
    rules answered with a unit of the other registry -/
theorem live_rule_caches_keyed :
    Generated.ruleCachesKeyed.all (·.2) = true ∧ Generated.ruleCachesKeyed ≠ [] ∧
    Generated.ruleAnswersForeign = false := by decide

end Unyt.C13Rules
