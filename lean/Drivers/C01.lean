import UnytModel.Driver
import UnytModel.Ops.C01
open Unyt

def main : IO Unit := runDriver (baseHandlers ++ [opsC01])
