import UnytModel.Driver
import UnytModel.Ops.C01
import UnytModel.Ops.C01History
open Unyt

def main : IO Unit := runDriver (baseHandlers ++ [opsC01History, opsC01])
