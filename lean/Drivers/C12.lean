import UnytModel.Driver
import UnytModel.Ops.C12
open Unyt

/-- the C12 driver keeps its own registry-machine session beside the shared driver state -/
partial def loopC12 (h : IO.FS.Stream) (out : IO.FS.Stream) (st : DriverState) (cs : C12State) : IO Unit := do
  let line ← h.getLine
  if line.isEmpty then return ()
  let l := if line.back == '\n' then String.ofList line.toList.dropLast else line
  let fields := l.splitOn "\t"
  match stepC12 cs fields with
  | some (cs', o) =>
    out.putStrLn o
    loopC12 h out st cs'
  | none =>
    let (st', o) := stepWith (baseHandlers ++ [opsC12]) st fields
    out.putStrLn o
    loopC12 h out st' cs

def main : IO Unit := do
  let stdin ← IO.getStdin
  let stdout ← IO.getStdout
  loopC12 stdin stdout {} {}
