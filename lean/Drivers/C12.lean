import UnytModel.Driver
import UnytModel.Ops.C12
open Unyt

def main : IO Unit := runDriver (baseHandlers ++ [opsC12])
