import UnytModel.Driver
import UnytModel.Ops.C17
import UnytModel.Ops.C17Factor
open Unyt

def main : IO Unit := runDriver (baseHandlers ++ [opsC17, opsC17Factor])
