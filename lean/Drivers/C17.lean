import UnytModel.Driver
import UnytModel.Ops.C17
open Unyt

def main : IO Unit := runDriver (baseHandlers ++ [opsC17])
