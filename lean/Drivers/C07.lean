import UnytModel.Driver
import UnytModel.Ops.C07
open Unyt

def main : IO Unit := runDriver (baseHandlers ++ [opsC07])
