import UnytModel.Driver
import UnytModel.Ops.C02
open Unyt

def main : IO Unit := runDriver (baseHandlers ++ [opsC02])
