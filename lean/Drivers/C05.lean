import UnytModel.Driver
import UnytModel.Ops.C05
open Unyt

def main : IO Unit := runDriver (baseHandlers ++ [opsC05])
