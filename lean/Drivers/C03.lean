import UnytModel.Driver
import UnytModel.Ops.C03
open Unyt

def main : IO Unit := runDriver (baseHandlers ++ [opsC03])
