import UnytModel.Driver
import UnytModel.Ops.C16
open Unyt

def main : IO Unit := runDriver (baseHandlers ++ [opsC16])
