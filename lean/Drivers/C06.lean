import UnytModel.Driver
import UnytModel.Ops.C06
open Unyt

def main : IO Unit := runDriver (baseHandlers ++ [opsC06])
