import UnytModel.Driver
import UnytModel.Ops.C04
open Unyt

def main : IO Unit := runDriver (baseHandlers ++ [opsC04])
