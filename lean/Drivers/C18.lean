import UnytModel.Driver
import UnytModel.Ops.C18
open Unyt

def main : IO Unit := runDriver (baseHandlers ++ [opsC18])
