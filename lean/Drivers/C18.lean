import UnytModel.Driver
import UnytModel.Ops.C18
import UnytModel.Ops.C18Alias
open Unyt

def main : IO Unit := runDriver (baseHandlers ++ [opsC18Alias, opsC18])
