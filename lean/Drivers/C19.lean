import UnytModel.Driver
import UnytModel.Ops.C19
open Unyt

def main : IO Unit := runDriver (baseHandlers ++ [opsC19])
