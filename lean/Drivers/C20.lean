import UnytModel.Driver
import UnytModel.Ops.C20
open Unyt

def main : IO Unit := runDriver (baseHandlers ++ [opsC20])
