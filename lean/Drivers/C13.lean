import UnytModel.Driver
import UnytModel.Ops.C13
open Unyt

def main : IO Unit := runDriver (baseHandlers ++ [opsC13])
