import UnytModel.Driver
import UnytModel.Ops.C13
import UnytModel.Ops.C13Home
open Unyt

/-- the C13 driver keeps its own world-of-registries session beside the shared driver state -/
partial def loopC13 (h : IO.FS.Stream) (out : IO.FS.Stream) (st : DriverState) (cs : C13State)
    (hs : UnitHome.Heap) : IO Unit := do
  let line ← h.getLine
  if line.isEmpty then return ()
  let l := if line.back == '\n' then String.ofList line.toList.dropLast else line
  let fields := l.splitOn "\t"
  match C13Home.stepH hs fields with
  | some (hs', o) =>
    out.putStrLn o
    loopC13 h out st cs hs'
  | none =>
  match stepC13 cs fields with
  | some (cs', o) =>
    out.putStrLn o
    loopC13 h out st cs' hs
  | none =>
    let (st', o) := stepWith (baseHandlers ++ [opsC13]) st fields
    out.putStrLn o
    loopC13 h out st' cs hs

def main : IO Unit := do
  let stdin ← IO.getStdin
  let stdout ← IO.getStdout
  loopC13 stdin stdout {} {} {}
