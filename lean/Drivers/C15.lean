import UnytModel.Driver
import UnytModel.Ops.C15
open Unyt

def main : IO Unit := runDriver (baseHandlers ++ [opsC15])
