import UnytModel.Driver
import UnytModel.Ops.C10
open Unyt

def main : IO Unit := runDriver (baseHandlers ++ [opsC10])
