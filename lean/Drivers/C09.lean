import UnytModel.Driver
import UnytModel.Ops.C09
open Unyt

def main : IO Unit := runDriver (baseHandlers ++ [opsC09])
