import UnytModel.Driver
import UnytModel.Ops.C08
open Unyt

def main : IO Unit := runDriver (baseHandlers ++ [opsC08])
