import UnytModel.Driver
import UnytModel.Ops.C11
open Unyt

def main : IO Unit := runDriver (baseHandlers ++ [opsC11])
