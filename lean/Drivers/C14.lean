import UnytModel.Driver
import UnytModel.Ops.C14
open Unyt

def main : IO Unit := runDriver (baseHandlers ++ [opsC14])
