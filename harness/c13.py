"""C13 — registries are isolated from each other and the default registry is read-only.

Model: `lean/UnytModel/RegistryWorld.lean` (a heap of tables / string caches / derived-symbol sets, registry
objects holding three addresses, `RegC12.step` run on a registry's view) executed by `drv_c13`.
Theorems: `lean/UnytProofs/C13.lean` (frame, independent routes allocate, non-interference along any
interleaving, the default registry refuses and keeps its contents, mixed operations).  Translator:
`tools/extract.d/c13_routes.py` (which containers every creation route shares — measured with `is`).

This module
  * generates seeded interleavings of operations on the default registry and 2–6 custom registries made
    by every creation route (`UnitRegistry()`, `lut=`, shallow/deep copies, JSON, pickling of registries,
    units, arrays, quantities, several objects restored together, `Unit.copy`, non-default unit systems),
  * runs each on the REAL library in a forked process (`harness/c13_lib.py`; the default registry and the
    library's caches are process-global) with the DIRECT ORACLE of the property evaluated after every step —
    it never consults the model: registries of different creation groups share no container, a step
    through one registry changes what no registry of another group resolves, the module-level table is
    nobody's, the default registry refuses modify/remove, the exported names and built-in conversions
    stay, a mixed operation's result belongs to the left operand's registry,
  * runs the same history on the Lean model and compares, after every step: the answer of the step, the
    sharing structure (partition of the registries by identity of each of the three containers vs the
    model's addresses) and what every registry holds (rows, cached strings, derived keys, class, unit system).
"""
import json
import multiprocessing
import os
import time

import core
import gen
import c13_lib as L

PROOF_MODULES = ["UnytProofs.C13", "UnytProofs.C13Rules", "UnytProofs.C13Home"]
HERE = os.path.dirname(os.path.abspath(__file__))

REG_ROUTES = ["copy_registry", "deepcopy_registry", "json", "pickle_registry"]
OBJ_ROUTES = ["pickle_unit", "pickle_array", "pickle_quantity", "unit_copy_deep", "deepcopy_unit", "deepcopy_array",
              "deepcopy_quantity"]
SIBLINGS = ["sibling_pickle_arrays", "sibling_pickle_dict", "sibling_deepcopy_arrays", "sibling_deepcopy_registries",
            "sibling_json"]
POST = {"pickle_array", "pickle_quantity"}
SIBLING_AS = {"sibling_pickle_arrays": "pickle_array", "sibling_pickle_dict": "pickle_array",
              "sibling_deepcopy_arrays": "deepcopy_array", "sibling_deepcopy_registries": "deepcopy_registry",
              "sibling_json": "json"}
UNIT_STRINGS = ["foo", "kfoo", "Mfoo", "foo*s", "zot", "kzot", "foo/zot", "m", "km", "pc", "kpc", "s", "g", "km/s",
                "qux", "mile", "K", "rad", "A", "cd", "Np", "cm", "kg"]
ATOMS = ["foo", "kfoo", "zot", "m", "km", "pc", "s", "qux"]
ADDS = [("foo", 2.0, "length", 0.0, 1), ("foo", 5.0, "length", 0.0, 1), ("zot", 3.0, "time", 0.0, 1),
        ("zot", 7.0, "time", 0.0, 0), ("qux", 4.0, "mass", 0.0, 0), ("pc", 11.0, "length", 0.0, 1),
        ("mile", 2.0, "length", 0.0, 1), ("kfoo", 9.0, "length", 0.0, 0)]
# (the base symbols m / kg / s are never redefined: `define_unit` reduces its value with the registry's OWN
# `m`, so a registry whose `m` is not the metre stores values the model's `v * scale(q)` does not describe)
SYMS = ["foo", "zot", "qux", "pc", "au", "kfoo", "mile", "nosuch"]
MIXED_FORMS = ["unit*", "unit/", "arr*", "arr/", "arr+", "qty*"]
LOOSE_FORMS = {"arr*", "arr/", "arr+", "qty*"}
CONVERT_LENGTHS = ["foo", "m", "km", "pc", "kfoo", "mile"]
RULE_OF = {"arr*": "_multiply_units", "arr/": "_divide_units", "qty*": "_multiply_units"}


# --------------------------------------------------------------------------------------
# history generation


def gen_history(rng, n_steps, flavour):
    """a seeded interleaving; registry/dict indices refer to creation order as the REAL run will number
    them when every creation succeeds (a failed creation makes later references dangle: such steps are
    dropped by `fix_indices` after a dry pass — see `_work`)"""
    h = []
    nreg, ndict, nsys = 1, 0, 0
    full = [True]      # best-effort: does registry i hold the default symbols (define_unit / in_base need m, kg, s)
    dfull = []

    def creation():
        nonlocal nreg, ndict
        k = rng.random()
        if k < 0.22 or nreg == 1:
            h.append(["fresh", int(rng.random() < 0.8), rng.choice(["mks", "mks", "cgs"])])
            full.append(bool(h[-1][1]))
            nreg += 1
        elif k < 0.32:
            rows = [list(a) for a in rng.sample(ADDS[:5], rng.randint(0, 2))]
            seen = set()
            rows = [r for r in rows if not (r[0] in seen or seen.add(r[0]))]
            h.append(["dict", rows])
            ndict += 1
            dfull.append(False)
            h.append(["fromdict", ndict - 1, int(rng.random() < 0.7)])
            dfull[-1] = dfull[-1] or bool(h[-1][2])
            full.append(dfull[-1])
            nreg += 1
        elif k < 0.37 and ndict:
            h.append(["fromdict", rng.randrange(ndict), int(rng.random() < 0.5)])
            dfull[h[-1][1]] = dfull[h[-1][1]] or bool(h[-1][2])
            full.append(dfull[h[-1][1]])
            nreg += 1
        elif k < 0.57:
            h.append(["route", rng.choice(REG_ROUTES), rng.randrange(nreg)])
            full.append(full[h[-1][2]] or h[-1][1] == "json")
            nreg += 1
        elif k < 0.80:
            h.append(["routeobj", rng.choice(OBJ_ROUTES), rng.randrange(nreg), rng.choice(ATOMS)])
            full.append(full[h[-1][2]] or h[-1][1].startswith("pickle_a") or h[-1][1].startswith("pickle_q"))
            nreg += 1
        elif k < 0.93:
            h.append(["sibling", rng.choice(SIBLINGS), rng.randrange(nreg), rng.choice(ATOMS)])
            full.extend([full[h[-1][2]] or "pickle" in h[-1][1] or "json" in h[-1][1]] * 2)
            nreg += 2
        else:
            h.append(["unitcopy", rng.randrange(nreg), rng.choice(["foo", "m", "zot"]), rng.choice(["s", "g", "zot"])])
            full.append(full[h[-1][1]])
            nreg += 1

    def edit():
        r = rng.randrange(nreg) if rng.random() < 0.85 else 0
        k = rng.random()
        if k < 0.45:
            # overriding a built-in symbol IN the default registry is allowed by the library and would move the
            # baseline of every later observation: the default registry only receives new symbols here
            h.append(["op", r, "add"] + list(rng.choice(ADDS[:5] if r == 0 else ADDS)))
        elif k < 0.75:
            h.append(["op", r, "modf", rng.choice(SYMS), rng.choice([3.0, 10.0, 0.5])])
        elif k < 0.95:
            h.append(["op", r, "rm", rng.choice(SYMS)])
        else:
            h.append(["op", r, "addbad", rng.choice(["foo", "zot"])])

    def look():
        r = rng.randrange(nreg)
        k = rng.random()
        if k < 0.6:
            h.append(["op", r, "unit", rng.choice(UNIT_STRINGS)])
        elif k < 0.75:
            h.append(["op", r, "has", rng.choice(["kfoo", "Mzot", "foo", "km", "qux", "kqux", "nosuch"])])
        elif k < 0.9:
            h.append(["op", r, "get", rng.choice(["kfoo", "zot", "km", "m", "Mfoo", "nosuch"])])
        else:
            h.append(["op", r, "sysid"])

    def other():
        nonlocal nsys
        k = rng.random()
        r = rng.randrange(nreg)
        if k < 0.03 and flavour != "strict":
            h.append(["namespace", r, rng.choice(["symbols", "constants"])])
        elif k < 0.35:
            sym = rng.choice(["zot", "qux", "bork", "kbork"])
            if r == 0 and flavour != "default-define":
                r = rng.randrange(nreg)
            cand = [i for i in range(nreg) if full[i] and (i != 0 or flavour == "default-define")]
            if not full[r] and cand:
                r = rng.choice(cand)
            h.append(["defunit", r, sym, rng.choice([3.0, 0.25]), rng.choice(["kfoo", "m", "km", "foo", "s"]),
                      int(rng.random() < 0.5)])
        elif k < 0.55:
            nsys += 1
            base = rng.choice([["km", "g", "s"], ["cm", "kg", "s"], ["foo", "g", "s"], ["kfoo", "kg", "s"], ["m", "kg", "s"]])
            h.append(["newsys", r, f"c13sys{nsys}", base])
        elif k < 0.72:
            # data of one registry converted to a unit of another, given as an OBJECT or as a string
            a, b = rng.randrange(nreg), rng.randrange(nreg)
            ep = rng.choice(L.CONVERT_EPS)
            # (the constructor forms given a STRING relabel through the default registry: not a conversion)
            how = "obj" if ep.startswith("ctor") else rng.choice(["obj", "obj", "str"])
            h.append(["convert", a, b, ep, how, rng.choice(CONVERT_LENGTHS), rng.choice(CONVERT_LENGTHS)])
        else:
            a, b = rng.randrange(nreg), rng.randrange(nreg)
            form = rng.choice(MIXED_FORMS if flavour != "strict" else ["unit*", "unit/"])
            h.append(["mixed", a, b, form, rng.choice(["foo", "m", "km", "zot", "pc"]), rng.choice(["s", "zot", "g", "m", "foo"])])

    # start with two or three registries
    for _ in range(rng.randint(2, 3)):
        creation()
    while len(h) < n_steps:
        k = rng.random()
        if k < 0.2:
            creation()
        elif k < 0.48:
            edit()
        elif k < 0.80:
            look()
        else:
            other()
    if flavour == "default-define" and rng.random() < 0.8:
        h.insert(rng.randrange(2, len(h)), ["defunit", 0, rng.choice(["c13unit", "zot"]), 3.0, rng.choice(["m", "km"]), 1])
    return h


def scripted_histories():
    """short histories aimed at the aliasing routes: make, mutate the copy, look back at the source"""
    out = []
    setup = [["fresh", 1, "mks"], ["op", 1, "add", "foo", 2.0, "length", 0.0, 1], ["op", 1, "unit", "kfoo"],
             ["op", 1, "unit", "foo"]]
    mutate = lambda n: [["op", n, "modf", "foo", 10.0], ["op", n, "unit", "foo"], ["op", n, "unit", "kfoo"],  # noqa: E731
                        ["op", n, "add", "zot", 3.0, "time", 0.0, 1], ["op", n, "rm", "pc"], ["op", 1, "unit", "foo"],
                        ["op", 1, "unit", "kfoo"], ["op", 1, "has", "zot"], ["op", 0, "unit", "foo"], ["op", 0, "has", "zot"]]
    for name in REG_ROUTES:
        out.append(setup + [["route", name, 1]] + mutate(2))
    for name in OBJ_ROUTES:
        for q in ("foo", "m"):
            out.append(setup + [["routeobj", name, 1, q]] + mutate(2))
            out.append([["routeobj", name, 0, "m"], ["op", 1, "add", "foo", 2.0, "length", 0.0, 1], ["op", 1, "modf", "pc", 3.0],
                        ["op", 1, "rm", "mile"], ["op", 0, "unit", "foo"], ["op", 0, "unit", "pc"], ["op", 0, "unit", "mile"],
                        ["defunit", 1, "c13rod", 5.0, "m", 1], ["op", 0, "has", "c13rod"]])
    for name in SIBLINGS:
        for q in ("foo", "m"):
            out.append(setup + [["sibling", name, 1, q]] + mutate(2) + [["op", 3, "unit", "foo"], ["op", 3, "has", "zot"],
                                                                       ["op", 3, "modf", "foo", 0.5], ["op", 2, "unit", "foo"]])
    out.append(setup + [["unitcopy", 1, "foo", "s"]] + mutate(2))
    out.append([["dict", [["foo", 2.0, "length", 0.0, 1]]], ["fromdict", 0, 1], ["fromdict", 0, 0], ["op", 1, "modf", "foo", 3.0],
                ["op", 2, "unit", "foo"], ["fresh", 1, "cgs"], ["op", 3, "unit", "foo"], ["op", 0, "unit", "foo"]])
    out.append([["dict", []], ["fromdict", 0, 1], ["fromdict", 0, 1], ["op", 1, "add", "foo", 2.0, "length", 0.0, 1], ["op", 2, "has", "foo"]])
    out.append([["op", 0, "modf", "m", 2.0], ["op", 0, "rm", "m"], ["op", 0, "modf", "nosuch", 2.0], ["op", 0, "rm", "km"],
                ["op", 0, "unit", "km"], ["op", 0, "modf", "km", 2.0], ["route", "deepcopy_registry", 0], ["op", 1, "modf", "m", 2.0],
                ["route", "copy_registry", 0], ["op", 2, "rm", "m"], ["op", 0, "unit", "m"]])
    # two registries with identical contents, arithmetic in the second (the library's caches are global)
    for form in MIXED_FORMS:
        out.append([["fresh", 1, "mks"], ["fresh", 1, "mks"], ["mixed", 1, 1, form, "m", "s"], ["mixed", 2, 2, form, "m", "s"],
                    ["mixed", 1, 2, form, "km", "g"], ["mixed", 2, 1, form, "km", "g"], ["mixed", 0, 1, form, "pc", "s"],
                    ["mixed", 1, 0, form, "pc", "s"]])
    # namespaces bound to a registry (add_symbols / add_constants), then edits, then a look back
    for kind in ("symbols", "constants"):
        out.append([["fresh", 1, "cgs"], ["op", 1, "add", "foo", 2.0, "length", 0.0, 1], ["namespace", 1, kind],
                    ["op", 1, "modf", "pc", 3.0], ["fresh", 1, "mks"], ["namespace", 2, kind], ["op", 2, "unit", "pc"],
                    ["op", 0, "unit", "pc"], ["op", 0, "has", "foo"], ["route", "deepcopy_registry", 1], ["namespace", 3, kind],
                    ["op", 3, "rm", "mile"], ["op", 1, "unit", "mile"]])
    # the right operand's symbol is unknown to the left operand's registry
    for form in MIXED_FORMS:
        out.append([["fresh", 1, "mks"], ["op", 1, "add", "zot", 3.0, "time", 0.0, 1], ["mixed", 0, 1, form, "km", "zot"],
                    ["fresh", 1, "mks"], ["mixed", 2, 1, form, "pc", "zot"], ["mixed", 1, 2, form, "zot", "pc"]])
    # conversions across registries to a unit OBJECT (shared: the namespace / the string cache hand out the same one),
    # then edits of the data's registry and a look back at the target's
    for ep in L.CONVERT_EPS:
        out.append([["fresh", 1, "mks"], ["op", 1, "add", "foo", 2.0, "length", 0.0, 1], ["fresh", 1, "mks"],
                    ["convert", 1, 0, ep, "obj", "foo", "m"], ["convert", 1, 2, ep, "obj", "foo", "km"],
                    ["convert", 1, 2, "to" if ep.startswith("ctor") else ep, "str", "foo", "km"], ["op", 1, "modf", "m", 5.0], ["op", 0, "unit", "m"],
                    ["op", 2, "unit", "km"], ["convert", 0, 1, ep, "obj", "pc", "foo"], ["op", 2, "has", "foo"]])
    out.append([["fresh", 1, "cgs"], ["newsys", 1, "c13sysA", ["km", "g", "s"]], ["op", 1, "add", "foo", 2.0, "length", 0.0, 1],
                ["newsys", 1, "c13sysB", ["kfoo", "kg", "s"]], ["fresh", 1, "mks"], ["op", 2, "has", "kfoo"], ["op", 0, "has", "kfoo"]])
    out.append([["defunit", 0, "c13unit", 3.0, "km", 1], ["fresh", 1, "mks"], ["op", 1, "has", "c13unit"], ["op", 0, "unit", "kc13unit"],
                ["routeobj", "deepcopy_unit", 0, "c13unit"], ["op", 2, "add", "c13other", 2.0, "time", 0.0, 0], ["op", 0, "has", "c13other"]])
    return out


# --------------------------------------------------------------------------------------
# the same history on the model


def dimvec(dk):
    return gen.dim_vec(L.dims(dk))


def entry_fields(v, dk, off, pf):
    return f"{core.f2b(v)}\t{dimvec(dk)}\t{core.f2b(off)}\t{int(bool(pf))}"


def model_lines(st, out, dict_cells, key=None):
    """the lines of one step (decided from the step alone, except: how many registries a sibling route
    made — read off the real outcome — and the printed product of `unitcopy`)"""
    k = st[0]
    if k == "nop":
        return []
    if k == "fresh":
        return [f"c13.fresh\t{st[1]}\t{st[2]}"]
    if k == "dict":
        rows = "|".join(f"{s}~{core.f2b(v)}~{core.f2b(off)}~{dimvec(dk)}~{int(bool(pf))}" for s, v, dk, off, pf in st[1])
        return [f"c13.dict\t{rows}"]
    if k == "fromdict":
        return [f"c13.fromdictn\t{st[1]}\t{st[2]}"]
    if k == "route":
        return [f"c13.route\t{st[1]}\t{st[2]}"]
    if k == "routeobj":
        return [f"c13.routeobj\t{st[1]}\t{st[2]}\t{st[3]}\t{int(st[1] in POST)}"]
    if k == "sibling":
        name, src, q = st[1:]
        as_ = SIBLING_AS[name]
        two = not (out[0] == "reg2" and out[1] == out[2])
        if as_ in OBJ_ROUTES:
            return [f"c13.routeobj\t{as_}\t{src}\t{q}\t{int(as_ in POST)}"] * (2 if two else 1)
        lines = [f"c13.op\t{src}\tunit\t{q}"]
        if out[0] != "err":
            lines += [f"c13.route\t{as_}\t{src}"] * (2 if two else 1)
        return lines
    if k == "unitcopy":
        return [f"c13.unitcopy\t{st[1]}\t{st[2]}\t{st[3]}\t{key or '?'}"]
    if k == "op":
        r, kind = st[1], st[2]
        if kind == "add":
            sym, v, dk, off, pf = st[3:]
            # Dim.parse takes the vector; field order of the opcode: sym scale dim off pf
            return [f"c13.op\t{r}\tadd\t{sym}\t{core.f2b(v)}\t{dimvec(dk)}\t{core.f2b(off)}\t{int(bool(pf))}"]
        if kind == "addbad":
            return [f"c13.op\t{r}\taddbad\t{st[3]}"]
        if kind == "modf":
            return [f"c13.op\t{r}\tmodf\t{st[3]}\t{core.f2b(st[4])}"]
        if kind == "rm":
            return [f"c13.op\t{r}\trm\t{st[3]}"]
        if kind in ("unit", "has", "get"):
            return [f"c13.op\t{r}\t{kind}\t{st[3]}"]
        if kind == "sysid":
            return [f"c13.op\t{r}\tsysid"]
    if k == "defunit":
        r, sym, v, q, pf = st[1:]
        return [f"c13.defunitq\t{r}\t{sym}\t{core.f2b(v)}\t{q}\t{int(bool(pf))}"]
    if k == "newsys":
        r, name, base = st[1:]
        return [f"c13.newsys\t{r}\t{name}\t{','.join(list(base) + ['K', 'rad', 'A', 'cd', 'Np'])}"]
    if k == "namespace":
        return []  # hundreds of look-ups through r: the comparison goes on in `loose` mode (rows only)
    if k == "convert":
        a, b, ep, how, qa, qb = st[1:]
        # building the operands; a string target is resolved through the DATA's registry (`_sanitize_units_convert`)
        if how == "str" and out[0] == "err" and len(out) > 2:
            return [f"c13.op\t{a}\tunit\t{qa}"]  # the data's unit could not be built: nothing else happened
        return [f"c13.op\t{a}\tunit\t{qa}", f"c13.op\t{b if how == 'obj' else a}\tunit\t{qb}"]
    if k == "mixed":
        a, b, form, qa, qb = st[1:]
        lines = [f"c13.op\t{a}\tunit\t{qa}", f"c13.op\t{b}\tunit\t{qb}"]
        if form in RULE_OF and key:
            # the memoised rule behind the array form: operand classes (spelling + contents of the registry) and registries
            lines.append(f"c13.rule\t{RULE_OF[form]}\t{key[0]}\t{a}\t{key[1]}\t{b}")
        lines.append(f"c13.mixed\t{a}\t{b}\t?\t{core.f2b(1.0)}\t{core.f2b(0.0)}\t{dimvec('length')}")
        return lines
    raise ValueError(st)


_DV = {}


def dv_of_str(s):
    """dimension vector (model spelling) of `str(dimensions)` as c13_lib reports it"""
    if s not in _DV:
        import sympy
        import unyt.dimensions as D

        _DV[s] = gen.dim_vec(sympy.sympify(s, locals=vars(D)))
    return _DV[s]


def same_answer(real, rep):
    tag = rep[0]
    if real[0] == "err":
        return tag == "err" and rep[1] == real[1]
    if real[0] == "done":
        return tag == "done"
    if real[0] == "bool":
        return tag == "bool" and rep[1] == ("1" if real[1] else "0")
    if real[0] == "unit":
        return (tag == "unit" and core.close(core.b2f(rep[2]), real[1], 1e-12) and core.close(core.b2f(rep[3]), real[3])
                and rep[4] == dv_of_str(real[2]))
    if real[0] == "entry":
        return (tag == "entry" and core.close(core.b2f(rep[1]), real[1], 1e-12) and core.close(core.b2f(rep[2]), real[3])
                and rep[3] == dv_of_str(real[2]) and rep[4] == ("1" if real[4] else "0"))
    if real[0] == "sysid":
        return tag == "sysid"
    if real[0] == "reg":
        return tag == "reg" and int(rep[1]) == real[1]
    if real[0] == "cell":
        return tag == "cell"
    if real[0] == "same":
        return tag == "same"
    if real[0] == "mixed":
        return tag == "unitin"
    return False


def rows_digest(rows, base_rows):
    """{key: cell string} of the rows that differ from the default table (the model's `lutDigest`)"""
    def cell(v):
        return f"{core.f2b(v[0])},{core.f2b(v[2])},{dv_of_str(v[1])},{int(v[3])}"

    out = {}
    for k in set(rows) | set(base_rows):
        a = cell(rows[k]) if k in rows else "-"
        b = base_rows[k] if k in base_rows else "-"
        if a != b:
            out[k] = a
    return out


# --------------------------------------------------------------------------------------
# one history: real run + oracle (in a forked child), then the model lines


def fix_indices(hist):
    """dry pass on the real library: drop the steps that refer to registries / dicts that do not exist
    (an earlier creation failed), so that real run, oracle and model see the same well-formed history"""
    W = L.World()
    out = []
    for st in hist:
        refs = {"fromdict": [], "route": [st[2]] if st[0] == "route" else [], "routeobj": [st[2]] if st[0] == "routeobj" else [],
                "sibling": [st[2]] if st[0] == "sibling" else [], "unitcopy": [st[1]] if st[0] == "unitcopy" else [],
                "op": [st[1]] if st[0] == "op" else [], "defunit": [st[1]] if st[0] == "defunit" else [],
                "newsys": [st[1]] if st[0] == "newsys" else [], "mixed": st[1:3] if st[0] == "mixed" else [],
                "convert": st[1:3] if st[0] == "convert" else [],
                "namespace": [st[1]] if st[0] == "namespace" else []}.get(st[0], [])
        if any(r >= len(W.regs) for r in refs) or (st[0] == "fromdict" and st[1] >= len(W.dicts)):
            continue
        W.step(st)
        out.append(st)
    return out


def real_trace(hist):
    from unyt.unit_registry import default_unit_registry

    # the default registry starts every process with the residue of importing the library (cached strings
    # and written-back rows of the physical constants): drop it the way every edit does, so that the model's
    # start-up world (nothing cached, nothing written back) is the implementation's
    default_unit_registry._unit_object_cache.clear()
    default_unit_registry._forget_derived_symbols()
    default_unit_registry._unit_system_id = None
    W = L.World()
    base_rows = {k: f"{core.f2b(v[0])},{core.f2b(v[2])},{gen.dim_vec(v[1])},{int(bool(v[4]))}"
                 for k, v in __import__("unyt")._unit_lookup_table.default_unit_symbol_lut.items()}
    trace = []
    loose = False
    for st in hist:
        key = None
        if st[0] == "unitcopy":
            try:
                from unyt import Unit

                s = W.regs[st[1]]
                # the string the copy is rebuilt from (sympy's printing is not under test); computed on
                # throw-away objects of a deep copy so that the registry is not touched
                import copy as _c

                t = _c.deepcopy(s)
                key = str((Unit(st[2], registry=t) * Unit(st[3], registry=t)).expr)
            except Exception:  # noqa: BLE001
                key = None
        if st[0] == "mixed" and st[1] < len(W.regs) and st[2] < len(W.regs):
            import zlib

            def cls(q, i):
                d = W.dump(i)
                dg = rows_digest({k: v for k, v in d["rows"].items() if k not in d["derived"]}, base_rows)
                return zlib.crc32((q + "|" + json.dumps(sorted(dg.items()))).encode()) % 1000000007

            key = (cls(st[4], st[1]), cls(st[5], st[2]))
        out, created, through = W.step(st)
        if (st[0] == "mixed" and st[3] in LOOSE_FORMS) or st[0] == "namespace":
            loose = True
        if st[0] == "defunit" and out[0] == "done" and st[1] != 0:
            pass
        dumps = []
        for i, r in enumerate(W.regs):
            d = W.dump(i)
            d["digest"] = rows_digest({k: v for k, v in d["rows"].items()}, base_rows)
            del d["rows"]
            dumps.append(d)
        has_base = True
        if st[0] == "defunit" and st[1] < len(W.regs):
            has_base = all(x in W.regs[st[1]].lut for x in ("m", "kg", "s"))
        trace.append({"st": st, "out": out, "key": key, "sharing": W.sharing(), "dumps": dumps, "loose": loose, "has_base": has_base,
                      "ndicts": len(W.dicts)})
    return trace


def _work(args):
    """one history in this (fresh) process: dry pass, oracle, trace"""
    idx, hist = args
    core.quiet_numpy()
    t0 = time.time()
    try:
        hist = fix_indices(hist)
    except Exception as e:  # noqa: BLE001
        return idx, hist, None, None, f"dry pass crashed: {e!r}", 0.0
    return idx, hist, None, None, None, time.time() - t0


def _oracle_job(args):
    idx, hist = args
    core.quiet_numpy()
    try:
        return idx, L.oracle(hist), None
    except Exception as e:  # noqa: BLE001
        import traceback

        return idx, [], "oracle crashed: " + traceback.format_exc()[-800:]


def _trace_job(args):
    idx, hist = args
    core.quiet_numpy()
    try:
        return idx, real_trace(hist), None
    except Exception as e:  # noqa: BLE001
        import traceback

        return idx, None, "trace crashed: " + traceback.format_exc()[-800:]


def parse_table_lines():
    import sympy
    from unyt._parsing import parse_unyt_expr

    strings = sorted(set(UNIT_STRINGS) | set(ATOMS) | {"c13unit", "kc13unit", "c13rod", "bork", "kbork", "Mzot", "kqux",
                                                       "c13other", "nosuch"})
    lines = []
    for q in strings:
        try:
            e = parse_unyt_expr(q)
        except Exception:  # noqa: BLE001
            lines.append(f"c13.parse\t{q}\terr")
            continue
        if isinstance(e, sympy.Symbol):
            lines.append(f"c13.parse\t{q}\tatom\t{e.name}")
            continue
        args = e.args if isinstance(e, sympy.Mul) else (e,)
        coeff, fac = 1.0, []
        for a in args:
            if a.is_Number:
                coeff *= float(a)
            elif isinstance(a, sympy.Symbol):
                fac.append(f"{a.name}:1")
            elif isinstance(a, sympy.Pow) and isinstance(a.args[0], sympy.Symbol) and a.args[1].is_Rational:
                fac.append(f"{a.args[0].name}:{gen.rat_str(a.args[1])}")
            else:
                raise ValueError(f"probe string {q!r} parses outside the modelled shapes: {e!r}")
        lines.append(f"c13.parse\t{q}\tprod\t{core.f2b(coeff)}\t{';'.join(fac)}")
    return lines


def correspond(trace, replies):
    """-> list of disagreement strings for one history"""
    dis = []
    it = iter(replies)
    next(it)  # reset
    dict_cells = []
    for k, t in enumerate(trace):
        st, out = t["st"], tuple(t["out"])
        n = t["nlines"]
        reps = [next(it) for _ in range(n)]
        nreg = len(t["dumps"])
        dumps = [next(it) for _ in range(nreg)]
        if st[0] == "dict" and reps:
            dict_cells.append(int(reps[0][1]) if reps[0][0] == "cell" else -1)
        # the answer of the step
        if reps:
            last = reps[-1]
            if st[0] == "sibling":
                ok = (out[0] == "err" and last[0] == "err" and last[1] == out[1]) or (out[0] == "reg2" and last[0] == "reg" and int(last[1]) == out[2])
            elif st[0] == "routeobj" and out[0] == "err":
                ok = last[0] == "err" and last[1] == out[1]
            elif st[0] == "convert":
                ok = True  # the look-ups are compared through the caches / tables below; the oracle judges the rest
            elif st[0] == "mixed" and out[0] == "err":
                ok = True  # refusals of the arithmetic itself are other properties' subject
            elif st[0] == "mixed" and out[0] == "mixed":
                ok = last[0] == "unitin"
                rl = [r_ for r_ in reps if r_ and r_[0] == "reg"]
                if rl and out[4] and st[1] != st[2]:
                    # the memoised rule: the model's registry of the answer against the implementation's (warm caches);
                    # compared when the left registry knows the right operand's symbol (else the kept fallback applies)
                    mleft = int(rl[-1][1]) == st[1]
                    if mleft != (out[2] == "left"):
                        dis.append(f"step {k} {st}: memoised rule answers in the {'left' if mleft else 'other'} registry in the model, "
                                   f"{out[2]} in the implementation")
            elif st[0] == "defunit" and out[0] == "err" and last[0] == "done" and not t.get("has_base", True):
                # `define_unit` reduces its value with the registry's m / kg / s: a registry without them is
                # outside the model of the value (counted, comparison of this history stops here)
                return ["SKIP defunit-without-base-units"]
            else:
                ok = same_answer(out, last)
            if not ok:
                dis.append(f"step {k} {st}: implementation {out}, model {last}")
                break
        # sharing structure and contents
        sh = t["sharing"]
        maddr = []
        for i, d in enumerate(dumps):
            if d[0] != "ok":
                dis.append(f"step {k} {st}: the model has no registry {i} (implementation has {nreg})")
                break
            maddr.append((int(d[1]), int(d[2]), int(d[3])))
        else:
            # the implementation's identity classes vs the model's addresses
            rl = sh["luts"]
            for i in range(nreg):
                if (rl[1 + i] == rl[0]) != (maddr[i][0] == 0):
                    dis.append(f"step {k} {st}: registry {i} {'IS' if rl[1 + i] == rl[0] else 'is not'} the module table in the implementation, model address {maddr[i][0]}")
                for j in range(i + 1, nreg):
                    for w, (cl, ix) in {"lut": (rl[1:], 0), "cache": (sh["caches"], 1), "derived": (sh["derived"], 2)}.items():
                        if (cl[i] == cl[j]) != (maddr[i][ix] == maddr[j][ix]):
                            dis.append(f"step {k} {st}: registries {i} and {j} {'share' if cl[i] == cl[j] else 'do not share'} their {w} in the implementation; "
                                       f"model addresses {maddr[i][ix]} / {maddr[j][ix]}")
            for di, c in enumerate(dict_cells[:t["ndicts"]]):
                for i in range(nreg):
                    if (rl[1 + nreg + di] == rl[1 + i]) != (maddr[i][0] == c):
                        dis.append(f"step {k} {st}: registry {i} vs user dict {di}: implementation {'same' if rl[1 + nreg + di] == rl[1 + i] else 'different'} object, model {maddr[i][0]} / {c}")
            for i, (d, rd) in enumerate(zip(dumps, t["dumps"])):
                mdig = dict(x.split("=", 1) for x in d[6].split(";")) if d[6] else {}
                mcache = [x for x in d[7].split(",") if x] if len(d) > 7 else []
                mder = [x for x in d[8].split(",") if x] if len(d) > 8 else []
                if t["loose"]:
                    # array arithmetic looks symbols up on its own: compare the rows that are nobody's write-back
                    # (registries made from ONE `lut=` dict share the table but not the derived-symbol sets: a row
                    # written back through one of them is a write-back for all of them)
                    ider = set(rd["derived"])
                    mder_all = set(mder)
                    for j in range(nreg):
                        if rl[1 + j] == rl[1 + i]:
                            ider |= set(t["dumps"][j]["derived"])
                            dj = dumps[j]
                            mder_all |= {x for x in (dj[8].split(",") if len(dj) > 8 else []) if x}
                    a = {k2: v for k2, v in mdig.items() if k2 not in mder_all and k2 not in ider}
                    b = {k2: v for k2, v in rd["digest"].items() if k2 not in ider and k2 not in mder_all}
                    if a != b:
                        dis.append(f"step {k} {st}: registry {i} rows differ: model {sorted(a.items())[:4]} implementation {sorted(b.items())[:4]}")
                else:
                    if mdig != rd["digest"]:
                        x = {k2: (mdig.get(k2), rd["digest"].get(k2)) for k2 in set(mdig) | set(rd["digest"]) if mdig.get(k2) != rd["digest"].get(k2)}
                        dis.append(f"step {k} {st}: registry {i} table differs (model, implementation): {sorted(x.items())[:4]}")
                    if sorted(mcache) != rd["cache"]:
                        dis.append(f"step {k} {st}: registry {i} cached strings: model {sorted(mcache)} implementation {rd['cache']}")
                    if sorted(mder) != rd["derived"]:
                        dis.append(f"step {k} {st}: registry {i} derived keys: model {sorted(mder)} implementation {rd['derived']}")
                if (d[4] == "1") != rd["frozen"]:
                    dis.append(f"step {k} {st}: registry {i} non-modifiable: model {d[4]} implementation {rd['frozen']}")
                if d[5] != rd["usys"]:
                    dis.append(f"step {k} {st}: registry {i} unit system: model {d[5]} implementation {rd['usys']}")
        if dis:
            break
    return dis


def lines_of_trace(trace):
    lines = ["c13.reset"]
    for t in trace:
        ml = model_lines(t["st"], tuple(t["out"]), None, t.get("key"))
        t["nlines"] = len(ml)
        lines += ml
        lines += [f"c13.dump\t{i}" for i in range(len(t["dumps"]))]
    return lines


# --------------------------------------------------------------------------------------
# unit objects as shared mutable objects: histories for `UnytModel/UnitHome.lean`


def gen_home_history(rng, n_steps):
    h = []
    for _ in range(n_steps):
        k = rng.random()
        if k < 0.30:
            h.append(["lookup", rng.randrange(3), rng.choice(L.HOME_LENGTHS + ["s", "g"])])
        elif k < 0.36:
            h.append(["clear", rng.randint(1, 2)])
        elif k < 0.46:
            h.append(["arith", rng.randrange(64), rng.randrange(64), rng.choice("*/")])
        elif k < 0.58:
            reg = rng.choice([None, 0, 1, 2])
            # the user-level re-labelling (registry= AND bypass_validation=True) in a minority of the histories
            h.append(["construct", rng.randrange(64), reg, int(rng.random() < (0.15 if reg is not None else 0.5))])
        else:
            ep = rng.choice(L.HOME_EPS)
            if ep.startswith("ctor") or rng.random() < 0.7:
                h.append(["convert", ep, rng.randrange(64), "obj", rng.randrange(64)])
            else:
                h.append(["convert", ep, rng.randrange(64), "str", rng.choice(L.HOME_LENGTHS)])
    return h


def scripted_home_histories():
    out = []
    for ep in L.HOME_EPS:
        # data of registry 1 converted to the exported metre (object 0) and to registry 2's cached km, then look-ups
        out.append([["lookup", 1, "pc"], ["lookup", 2, "km"], ["convert", ep, 4, "obj", 0], ["convert", ep, 4, "obj", 5],
                    ["lookup", 0, "m"], ["lookup", 2, "km"], ["convert", ep, 0, "obj", 4], ["clear", 1], ["lookup", 1, "pc"],
                    ["convert", ep, 5, "obj", 1], ["lookup", 0, "km"]])
    out.append([["lookup", 1, "m"], ["construct", 4, 2, 0], ["construct", 4, 1, 0], ["construct", 0, 1, 0], ["arith", 4, 0, "*"],
                ["arith", 0, 4, "/"], ["construct", 6, 2, 0], ["lookup", 2, "m"], ["construct", 4, None, 1], ["construct", 4, 2, 1],
                ["lookup", 1, "m"]])
    return out


def _home_job(args):
    idx, hist = args
    core.quiet_numpy()
    try:
        fails, trace = L.home_oracle(hist)
        return idx, fails, trace, None
    except Exception:  # noqa: BLE001
        import traceback

        return idx, [], None, "home oracle crashed: " + traceback.format_exc()[-800:]


def home_model_lines(trace):
    lines = ["c13.h.reset\t" + ",".join(f"{n}:{int(c)}" for n, c in trace["seed"])]
    for t in trace["steps"]:
        if t is None:
            continue
        st = t["st"]
        if st[0] == "lookup":
            lines.append(f"c13.h.lookup\t{st[1]}\t{st[2]}")
        elif st[0] == "clear":
            lines.append(f"c13.h.clear\t{st[1]}")
        elif st[0] == "arith":
            lines.append(f"c13.h.arith\t{st[1]}\t{st[2]}\t{t['out'][3] if t['out'][0] == 'obj' else '?'}")
        elif st[0] == "construct":
            lines.append(f"c13.h.construct\t{st[1]}\t{'-' if st[2] is None else st[2]}\t{int(st[3])}")
        elif st[0] == "convert":
            lines.append(f"c13.h.convert\t{st[1]}\t{st[2]}\t{st[3]}\t{st[4]}")
        lines.append("c13.h.homes")
        lines += [f"c13.h.cache\t{r}" for r in range(1, trace["nregs"] + 1)]
    return lines


def home_correspond(trace, replies):
    it = iter(replies)
    next(it)
    for k, t in enumerate(trace["steps"]):
        if t is None:
            continue
        st, out = t["st"], t["out"]
        rep = next(it)
        homes = next(it)
        caches = [next(it) for _ in range(trace["nregs"])]
        if out[0] == "err":
            return [f"step {k} {st}: the implementation raised {out[1]}, model {rep}"]
        if out[0] == "obj" and (rep[0] != "obj" or int(rep[1]) != out[1] or int(rep[2]) != out[2]):
            return [f"step {k} {st}: implementation answers with unit object {out[1]} of registry {out[2]}, model {rep}"]
        mh = [int(x) for x in homes[1].split(",")] if len(homes) > 1 and homes[1] else []
        if mh != t["homes"]:
            return [f"step {k} {st}: registries of the unit objects: implementation {t['homes']}, model {mh}"]
        for r, (c, rc) in enumerate(zip(caches, t["caches"]), start=1):
            mc = sorted(x for x in (c[1].split(",") if len(c) > 1 else []) if x)
            if mc != rc:
                return [f"step {k} {st}: string cache of registry {r}: implementation {rc}, model {mc}"]
    return []


def replay_home_source(hist, key):
    lib = open(os.path.join(HERE, "c13_lib.py"), encoding="utf-8").read()
    return ("import warnings; warnings.simplefilter('ignore')\nimport numpy as _np; _np.seterr(all='ignore')\n" + lib
            + f"\n\nreplay_home({json.dumps(hist)}, {key!r})\n")


def minimise_home(hist, key):
    cur = [list(s) for s in hist]
    for i in reversed(range(len(cur))):
        trial = cur[:i] + cur[i + 1:]
        try:
            f = run_isolated(_home_job, (0, trial))[1]
        except Exception:  # noqa: BLE001
            continue
        if any(x["key"] == key for x in f):
            cur = trial
    return cur


def run_home(chk, tier, rng, ctx, nproc):
    """the unit-object heap: oracle + correspondence with `UnitHome.step` (driver opcodes `c13.h.*`)"""
    try:
        xj = json.load(open(os.path.join(core.BUILD, "extract_c13_conv.json"), encoding="utf-8"))
        chk.extra["conversion_entry_points"] = {"rows": xj["rows"], "fast_path_assigns": xj["fast"]}
        if xj["errors"]:
            chk.disagree("translator", f"conversion probes raised: {xj['errors']}")
    except Exception as e:  # noqa: BLE001
        chk.disagree("translator", f"no conversion table extracted: {e!r}")
    hists = scripted_home_histories()
    n_rand = 150 if tier == "quick" else 1500
    for _ in range(n_rand):
        hists.append(gen_home_history(rng, rng.randint(6, 18 if tier == "quick" else 30)))
    res = {}
    with ctx.Pool(nproc, maxtasksperchild=1) as pool:
        for idx, fails, trace, err in pool.imap_unordered(_home_job, list(enumerate(hists)), chunksize=1):
            res[idx] = (fails, trace, err)
    chk.extra["histories"]["unit_object_histories"] = len(res)
    lines, spans = [], {}
    for idx in sorted(res):
        fails, trace, err = res[idx]
        if err or trace is None:
            chk.disagree("c13.home", f"{hists[idx]}: {err}")
            continue
        ml = home_model_lines(trace)
        spans[idx] = (len(lines), len(lines) + len(ml))
        lines += ml
    try:
        replies = core.Model("drv_c13").ask(lines)
    except Exception as e:  # noqa: BLE001
        replies = None
        chk.disagree("driver", repr(e))
    seen = {}
    for idx in sorted(res):
        fails, trace, err = res[idx]
        h = hists[idx]
        chk.case("home:" + json.dumps(h), None)
        for s in h:
            chk.count("unit-object-step:" + s[0] + (":" + s[1] + ":" + s[3] if s[0] == "convert" else ""))
        for f in fails:
            if f["key"] not in seen or len(h) < len(seen[f["key"]][0]):
                seen[f["key"]] = (h, f)
            chk.count("oracle-failure:" + f["key"].split("|")[0])
        if replies is not None and idx in spans:
            a, b = spans[idx]
            try:
                dis = home_correspond(trace, replies[a:b])
            except Exception:  # noqa: BLE001
                import traceback

                dis = [f"correspondence crashed: {traceback.format_exc()[-600:]}"]
            for d in dis[:1]:
                chk.disagree("c13.home", f"{h}: {d}")
    known = {k["key"] for k in core.load_known() if k["property"] == "C13" and k.get("status") == "known"}
    for key in sorted(seen):
        h, f = seen[key]
        if key not in known:
            try:
                h = minimise_home(h, key)
            except Exception:  # noqa: BLE001
                pass
        chk.fail(key, f["what"], {"python": replay_home_source(h, key), "history": h})


def minimise(hist, key):
    cur = [list(s) for s in hist]
    for i in reversed(range(len(cur))):
        trial = cur[:i] + [["nop"]] + cur[i + 1:]
        try:
            f = run_isolated(_oracle_job, (0, trial))[1]
        except Exception:  # noqa: BLE001
            continue
        if any(x["key"] == key for x in f):
            cur = trial
    while cur and cur[-1] == ["nop"]:
        cur.pop()
    return cur


def run_isolated(fn, arg):
    with multiprocessing.get_context("fork").Pool(1, maxtasksperchild=1) as p:
        return p.apply(fn, (arg,))


def replay_source(hist, key):
    lib = open(os.path.join(HERE, "c13_lib.py"), encoding="utf-8").read()
    return ("import warnings; warnings.simplefilter('ignore')\nimport numpy as _np; _np.seterr(all='ignore')\n" + lib
            + f"\n\nreplay({json.dumps(hist)}, {key!r})\n")


def run(tier, seed):
    chk = core.Check("C13", tier, seed)
    chk.proof = core.prove("C13", PROOF_MODULES, extra_targets=("drv_c13",), tier=tier)
    rng = chk.rng
    try:
        xj = json.load(open(os.path.join(core.BUILD, "extract_c13_routes.json"), encoding="utf-8"))
        chk.extra["route_shapes"] = {k: {f: v[f] for f in ("lut", "cache", "derived", "addMissingDefaults")} for k, v in xj["routes"].items()}
        chk.extra["init_shape"] = xj["init"]
        chk.extra["world_cfg"] = xj["world"]
        if xj["errors"]:
            chk.disagree("translator", f"route probes raised: {xj['errors']}")
    except Exception as e:  # noqa: BLE001
        chk.disagree("translator", f"no route table extracted: {e!r}")
    ex = gen.extract()
    for s in ("foo", "kfoo", "zot", "qux", "bork", "c13unit", "c13rod", "c13other", "nosuch"):
        assert s not in ex["lut"] and s not in ex["inv_names"], s
    try:
        ptab = parse_table_lines()
    except Exception as e:  # noqa: BLE001
        chk.disagree("parse-table", repr(e))
        ptab = []
    # ---------------------------------------------------------------- histories
    hists = scripted_histories()
    n_rand = 260 if tier == "quick" else 2600
    for k in range(n_rand):
        flavour = ["strict", "strict", "any", "default-define"][k % 4]
        hists.append(gen_history(rng, rng.randint(8, 22 if tier == "quick" else 34), flavour))
    chk.extra["histories"] = {"scripted": len(scripted_histories()), "random": n_rand}
    ctx = multiprocessing.get_context("fork")
    nproc = 12
    budget = 100 if tier == "quick" else 700
    # 1. dry pass (drops dangling references), 2. oracle, 3. trace — each history in a FRESH process
    with ctx.Pool(nproc, maxtasksperchild=1) as pool:
        fixed = {}
        for idx, h, _a, _b, err, _dt in pool.imap_unordered(_work, list(enumerate(hists)), chunksize=1):
            if err:
                chk.disagree("c13.harness", err)
            else:
                fixed[idx] = h
    order = sorted(fixed)
    oracle_res, traces = {}, {}
    with ctx.Pool(nproc, maxtasksperchild=1) as pool:
        it1 = pool.imap_unordered(_oracle_job, [(i, fixed[i]) for i in order], chunksize=1)
        for idx, fails, err in it1:
            oracle_res[idx] = (fails, err)
            if time.time() - chk.t0 > budget and len(oracle_res) >= len(scripted_histories()):
                pool.terminate()
                break
    done = sorted(oracle_res)
    with ctx.Pool(nproc, maxtasksperchild=1) as pool:
        for idx, tr, err in pool.imap_unordered(_trace_job, [(i, fixed[i]) for i in done], chunksize=1):
            traces[idx] = (tr, err)
            if time.time() - chk.t0 > budget * 1.6 and len(traces) >= len(scripted_histories()):
                pool.terminate()
                break
    chk.extra["histories"]["executed_oracle"] = len(oracle_res)
    chk.extra["histories"]["executed_correspondence"] = len(traces)
    # ---------------------------------------------------------------- the model
    lines = list(ptab)
    spans = {}
    for idx in sorted(traces):
        tr, err = traces[idx]
        if err or tr is None:
            chk.disagree("c13.trace", f"{fixed[idx]}: {err}")
            continue
        ml = lines_of_trace(tr)
        spans[idx] = (len(lines), len(lines) + len(ml))
        lines += ml
    try:
        replies = core.Model("drv_c13").ask(lines)
    except Exception as e:  # noqa: BLE001
        replies = None
        chk.disagree("driver", repr(e))
    seen = {}
    for idx in sorted(oracle_res):
        fails, err = oracle_res[idx]
        h = fixed[idx]
        if err:
            chk.disagree("c13.oracle", f"{h}: {err}")
        kinds = sorted({s[0] for s in h})
        chk.case(json.dumps(h), {"history": h[:8], "steps": len(h)} if len(chk.samples) < 5 else None)
        chk.count(f"history-steps-{min(len(h) // 8 * 8, 24)}+")
        for s in h:
            chk.count("step:" + s[0] + (":" + s[1] if s[0] in ("route", "routeobj", "sibling") else (":" + s[2] if s[0] == "op" else "")))
        for f in fails:
            if f["key"] not in seen or len(h) < len(seen[f["key"]][0]):
                seen[f["key"]] = (h, f)
            chk.count("oracle-failure:" + f["key"].split("|")[0])
        if replies is not None and idx in spans:
            a, b = spans[idx]
            try:
                dis = correspond(traces[idx][0], replies[a:b])
            except Exception as e:  # noqa: BLE001
                import traceback

                dis = [f"correspondence crashed: {traceback.format_exc()[-600:]}"]
            if dis and dis[0].startswith("SKIP "):
                chk.count("correspondence-stopped:" + dis[0][5:])
                dis = []
            for d in dis[:2]:
                chk.disagree("c13.history", f"{h}: {d}")
    known = {k["key"] for k in core.load_known() if k["property"] == "C13" and k.get("status") == "known"}
    for key in sorted(seen):
        h, f = seen[key]
        if key not in known:
            try:
                h = minimise(h, key)
            except Exception:  # noqa: BLE001
                pass
        chk.fail(key, f["what"], {"python": replay_source(h, key), "history": h})
    t_home = time.time()
    run_home(chk, tier, rng, ctx, nproc)
    chk.extra["unit_object_part_wall_s"] = round(time.time() - t_home, 1)
    if os.environ.get("C13_DEBUG"):
        for d in chk.disagreements[:30]:
            print("DISAGREE", d[0], d[1][:900])
    rule = ("seeded interleavings (8–34 steps) over the default registry and 2–6 custom registries made by every creation route, "
            "plus scripted make/mutate/look-back histories per route; distinct = distinct step sequence; each runs in a fresh process "
            "on the real library (direct oracle after every step) and on the Lean world model (answers, sharing structure and "
            "contents compared after every step)")
    return chk.finish(rule)
