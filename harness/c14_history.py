"""C14 over registry histories: a name must be read the same way whatever was looked up, written back,
edited, saved and loaded before.

Direct oracle (never consults the model), on random histories of a real `UnitRegistry`:
  * table-symbol-lost: a name whose symbol the USER put into the table (tracked by the harness from its
    own add/remove/modify calls) must denote exactly the user's entry — never a prefix+unit split — by
    string, by alias, by `reg[...]`, and after a JSON or pickle round trip;
  * differs-from-fresh: every probe name must be read as a registry that received only the edits and round
    trips of the history (no look-ups) reads it.
Correspondence: the same history through `NamesHist.runS` (opcode `c14.hist`: string cache, look-up with
write-back, edits, reloads), answer by answer, and the final `_derived_symbols`.
"""
import core

HDR = ("import pickle, warnings\nwarnings.simplefilter('ignore')\nfrom unyt import Unit, unyt_quantity\n"
       "from unyt.unit_registry import UnitRegistry\nfrom unyt._unit_lookup_table import default_unit_symbol_lut as LUT\n")


# ---------------------------------------------------------------------------------- histories as data
# op = ("U", name) | ("K", sym) | ("A", sym, value, prefixable, dimsrc) | ("R", sym) | ("M", sym, value)
#      | ("J", "json" | "pickle")

def op_code(op, var="reg"):
    k = op[0]
    if k == "U":
        return f"try:\n    Unit({op[1]!r}, registry={var})\nexcept Exception:\n    pass\n"
    if k == "K":
        return f"{op[1]!r} in {var}\n"
    if k == "A":
        return f"{var}.add({op[1]!r}, {op[2]!r}, LUT[{op[4]!r}][1], prefixable={op[3]!r})\n"
    if k == "R":
        return f"try:\n    {var}.remove({op[1]!r})\nexcept Exception:\n    pass\n"
    if k == "M":
        return f"try:\n    {var}.modify({op[1]!r}, {op[2]!r})\nexcept Exception:\n    pass\n"
    if k == "J":
        return reload_code(op[1], var)
    raise ValueError(op)


def reload_code(how, var="reg"):
    if how == "deepcopy":
        return f"import copy\n{var} = copy.deepcopy({var})\n"
    if how == "json":
        return f"{var} = UnitRegistry.from_json({var}.to_json())\n"
    return (f"_k = [k for k, v in {var}.lut.items() if v[2] == 0.0 and k.isascii() and k.isidentifier()]\n"
            f"{var} = pickle.loads(pickle.dumps(unyt_quantity(1.0, _k[0], registry={var}))).units.registry if _k else UnitRegistry.from_json({var}.to_json())\n")


def history_code(start, ops):
    new = "UnitRegistry()" if start == "full" else "UnitRegistry(add_default_symbols=False)"
    body = f"reg = {new}\nfresh = {new}\n"
    for op in ops:
        body += op_code(op)
    for op in ops:
        if op[0] in "ARMJ":
            body += op_code(op, "fresh")
    body += ("def rd(r, name, item):\n    try:\n        if item:\n            e = r[name]; return (float(e[0]), float(e[2]), str(e[1]))\n"
             "        u = Unit(name, registry=r); return (float(u.base_value), float(u.base_offset), str(u.dimensions))\n"
             "    except Exception as e:\n        return type(e).__name__\n")
    return HDR + body


def wire(op):
    k = op[0]
    if k == "U":
        return "U:" + op[1]
    if k == "K":
        return "K:" + op[1]
    if k == "A":
        return f"A:{core.f2b(op[2])}:{1 if op[3] else 0}:{op[4]}:{op[1]}"
    if k == "R":
        return "R:" + op[1]
    if k == "M":
        return f"M:{core.f2b(op[2])}:{op[1]}"
    return "C" if op[1] == "deepcopy" else "J"


class World:
    def __init__(self):
        import pickle

        from unyt import Unit, unyt_quantity
        from unyt._unit_lookup_table import default_unit_symbol_lut as LUT, inv_name_alternatives as INV
        from unyt.unit_registry import UnitRegistry

        self.pickle, self.Unit, self.Q, self.LUT, self.INV, self.UR = pickle, Unit, unyt_quantity, LUT, INV, UnitRegistry

    def new(self, start):
        return self.UR() if start == "full" else self.UR(add_default_symbols=False)

    def reload(self, reg, how):
        if how == "deepcopy":
            import copy

            return copy.deepcopy(reg)
        if how == "json":
            return self.UR.from_json(reg.to_json())
        k = [k for k, v in reg.lut.items() if v[2] == 0.0 and k.isascii() and k.isidentifier()]
        if not k:
            return self.UR.from_json(reg.to_json())
        return self.pickle.loads(self.pickle.dumps(self.Q(1.0, k[0], registry=reg))).units.registry

    def read(self, reg, name, item=False):
        try:
            if item:
                e = reg[name]
                return (float(e[0]), float(e[2]), str(e[1]))
            u = self.Unit(name, registry=reg)
            return (float(u.base_value), float(u.base_offset), str(u.dimensions))
        except Exception as e:  # noqa: BLE001
            return type(e).__name__

    def symbol_of(self, name):
        """the symbol a single-name unit string is documented to stand for"""
        nm = name.replace("%", "percent").replace("Δ°", "delta_deg").replace("°", "deg")
        return self.INV.get(nm, nm)

    def apply(self, reg, user, op, outs=None, nocache=False):
        """perform one op on the real registry and on the harness's own record of the user's table;
        returns the (possibly new) registry"""
        import gen

        k = op[0]
        out = None
        if k == "U":
            if nocache and getattr(reg, "_unit_object_cache", None):
                # the correspondence is with the look-up/write-back layer: the string cache in front of it
                # (modelled by C12) would skip the look-up after an edit that failed; the oracle runs keep it
                reg._unit_object_cache.clear()
            try:
                u = self.Unit(op[1], registry=reg)
                import sympy

                sym = str(u.expr) if isinstance(u.expr, sympy.Symbol) else ("<one>" if u.expr == 1 else "<compound>")
                out = ["unit", sym, str(core.f2b(float(u.base_value))), str(core.f2b(float(u.base_offset))), gen.dim_vec(u.dimensions)]
            except Exception as e:  # noqa: BLE001
                out = ["err", core.exc_name(e)]
        elif k == "K":
            try:
                e = reg[op[1]]
                out = ["entry", str(core.f2b(float(e[0]))), str(core.f2b(float(e[2]))), gen.dim_vec(e[1]), "1" if e[4] else "0"]
            except Exception as e:  # noqa: BLE001
                out = ["err", core.exc_name(e)]
        elif k == "A":
            reg.add(op[1], op[2], self.LUT[op[4]][1], prefixable=op[3])
            user[op[1]] = (op[2], self.LUT[op[4]][1], 0.0, op[3])
            out = ["done"]
        elif k == "R":
            try:
                reg.remove(op[1])
                out = ["done"]
            except Exception as e:  # noqa: BLE001
                out = ["err", core.exc_name(e)]
            user.pop(op[1], None)
        elif k == "M":
            try:
                reg.modify(op[1], op[2])
                out = ["done"]
            except Exception as e:  # noqa: BLE001
                out = ["err", core.exc_name(e)]
            if op[1] in user:
                user[op[1]] = (op[2],) + tuple(user[op[1]][1:])
        elif k == "J":
            reg = self.reload(reg, op[1])
            # the loader puts every missing default symbol back (_correct_old_unit_registry)
            for kk, v in (self.LUT.items() if op[1] != "deepcopy" else ()):
                if kk not in user:
                    user[kk] = (v[0], v[1], v[2], v[4])
            out = ["done"]
        if outs is not None:
            outs.append(out)
        return reg

    def start_user(self, start):
        return {k: (v[0], v[1], v[2], v[4]) for k, v in self.LUT.items()} if start == "full" else {}

    def run(self, start, ops, outs=None, nocache=False):
        reg = self.new(start)
        user = self.start_user(start)
        for op in ops:
            reg = self.apply(reg, user, op, outs, nocache)
        return reg, user

    def fresh(self, start, ops):
        reg = self.new(start)
        user = {}
        for op in ops:
            if op[0] in "ARMJ":
                reg = self.apply(reg, user, op)
        return reg

    # ------------------------------------------------------------------------------ the oracle
    ROUTES = ("direct", "json", "pickle", "deepcopy", "json+edit", "pickle+edit", "deepcopy+edit")

    @staticmethod
    def tail(route, base):
        """what a route appends to the history before the probes are read: a round trip, possibly followed
        by an edit of the focus name's base symbol (a stale or mis-flagged entry shows at the next edit)"""
        if route == "direct":
            return []
        how = route.split("+")[0]
        return [("J", how)] + ([("M", base, 3.25)] if route.endswith("+edit") else [])

    def verdicts(self, start, ops, probes, base):
        """[(clause, route, name, item, got, want)] for every probe that fails after the history `ops`
        followed by the route's tail"""
        bad = []
        for route in self.ROUTES:
            full = list(ops) + self.tail(route, base)
            reg, user = self.run(start, full)
            fresh = self.fresh(start, full)
            for name, item in probes:
                got = self.read(reg, name, item)
                sym = name if item else self.symbol_of(name)
                if sym in user:
                    want = (float(user[sym][0]), float(user[sym][2]), str(user[sym][1]))
                    if got != want:
                        bad.append(("table-symbol-lost", route, name, item, got, want))
                        continue
                want = self.read(fresh, name, item)
                if got != want:
                    bad.append(("differs-from-fresh", route, name, item, got, want))
        return bad


def gen_history(rng, W, pools, length):
    """a history that keeps coming back to one focus symbol which is a prefix + prefixable-unit split"""
    prefixed, aliases, plain, dimsrcs = pools
    start = "full" if rng.random() < 0.85 else "empty"
    focus = rng.choice(prefixed)
    base = None
    for cut in (2, 1):
        if focus[cut:] in W.LUT and W.LUT[focus[cut:]][4] and (cut == 1 or focus.startswith("da")):
            base = focus[cut:]
            break
    base = base or rng.choice(plain)
    spell = [focus, focus, focus] + aliases.get(focus, [])
    users = ["c14u", "c14v"]
    ops = []
    if start == "empty":
        ops.append(("A", base, float(W.LUT[base][0]), True, base))
    for _ in range(length):
        r = rng.random()
        val = rng.choice([0.5, 2.0, 7.25, 4186.8, 1e-3, 3.0e10])
        if r < 0.25:
            ops.append(("U", rng.choice(spell)))
        elif r < 0.35:
            ops.append(("K", rng.choice([focus, focus, rng.choice(prefixed), "k" + users[0], base])))
        elif r < 0.50:
            ops.append(("A", focus, val, rng.random() < 0.25, rng.choice(dimsrcs)))
        elif r < 0.60:
            ops.append(("A", rng.choice(users + [base, rng.choice(prefixed)]), val, rng.random() < 0.5, rng.choice(dimsrcs)))
        elif r < 0.72:
            ops.append(("M", rng.choice([base, focus, users[0], rng.choice(plain)]), val))
        elif r < 0.82:
            ops.append(("R", rng.choice([focus, base, users[0], rng.choice(plain)])))
        elif r < 0.90:
            ops.append(("J", rng.choice(["json", "pickle", "deepcopy"])))
        else:
            ops.append(("U", rng.choice(["k" + users[0], "M" + users[1], users[0], rng.choice(prefixed), rng.choice(plain)])))
    probes = [(focus, False), (focus, True), (base, False), ("k" + users[0], False)]
    if aliases.get(focus):
        probes.append((rng.choice(aliases[focus]), False))
    return start, ops, probes


def shrink(W, start, ops, probe, clause, route, base):
    def still(ops_):
        try:
            return any(b[0] == clause and b[1] == route for b in W.verdicts(start, ops_, [probe], base))
        except Exception:  # noqa: BLE001
            return False

    i = 0
    while i < len(ops) and len(ops) > 0:
        cand = ops[:i] + ops[i + 1:]
        if still(cand):
            ops = cand
        else:
            i += 1
    return ops


def kind_of_history(ops):
    """seed-independent shape: which kinds of operation the (shrunk) history consists of"""
    names = {"U": "string", "K": "getitem", "A": "add", "R": "remove", "M": "modify", "J": "reload"}
    return "+".join(dict.fromkeys("deepcopy" if o == ("J", "deepcopy") else names[o[0]] for o in ops))


def run(chk, model, tier, rng, names, reader):
    W = World()
    INV, LUT = W.INV, W.LUT
    prefixed = sorted({INV[n] for n in names if (reader.verdict(n) + (0,))[1] != 0 and reader.verdict(n)[0] == "unique"
                       and INV[n] not in LUT and "°" not in INV[n] and "%" not in INV[n]})
    aliases = {}
    for n in names:
        if INV[n] != n and INV[n] in set(prefixed) and "°" not in n and "%" not in n:
            aliases.setdefault(INV[n], []).append(n)
    plain = [k for k in LUT if k.isidentifier() and k.isascii()]
    dimsrcs = ["m", "J", "s", "g", "cal", "pc"]
    pools = (prefixed, aliases, plain, dimsrcs)
    n_hist = 160 if tier == "quick" else 1600
    reported = set()
    requests, reals = [], []
    for h in range(n_hist):
        start, ops, probes = gen_history(rng, W, pools, rng.randint(3, 14))
        chk.case(("history", h), {"start": start, "ops": [wire(o) for o in ops]} if h < 3 else None)
        chk.count("history:" + start)
        for o in ops:
            chk.count("history-op:" + o[0])
        # ---- direct oracle
        try:
            base = probes[2][0]
            bad = W.verdicts(start, ops, probes, base)
        except Exception as e:  # noqa: BLE001
            chk.disagree("history-run", f"{start} {[wire(o) for o in ops]}: {e!r}"[:400])
            continue
        for clause, route, name, item, got, want in bad:
            small = shrink(W, start, list(ops), (name, item), clause, route, base)
            via = ("getitem" if item else ("alias" if W.symbol_of(name) != name else "string")) + ("" if route == "direct" else "+" + route)
            key = f"history|{clause}|{via}|{kind_of_history(small)}"
            if key in reported:
                continue
            reported.add(key)
            vb = [b for b in W.verdicts(start, small, [(name, item)], base) if b[0] == clause and b[1] == route]
            got, want = (vb[0][4], vb[0][5]) if vb else (got, want)
            body = history_code(start, small + W.tail(route, base))
            if clause == "table-symbol-lost":
                body += f"got = rd(reg, {name!r}, {item!r})\nassert got == {want!r}, ('the table symbol is not what the name denotes', got, {want!r})\n"
            else:
                body += f"got, want = rd(reg, {name!r}, {item!r}), rd(fresh, {name!r}, {item!r})\nassert got == want, ('reading depends on the history', got, want)\n"
            chk.fail(key, f"after the history {[wire(o) for o in small]} on a {start} registry ({route}), {name!r} reads {got} instead of {want}",
                     {"python": body})
        # ---- correspondence (collected; asked in one session below)
        outs = []
        try:
            reg, _user = W.run(start, ops, outs)
        except Exception as e:  # noqa: BLE001
            chk.disagree("history-run", repr(e)[:300])
            continue
        der = getattr(reg, "_derived_symbols", None)
        requests.append("c14.hist\t" + start + "\t" + "\t".join(wire(o) for o in ops))
        reals.append((start, ops, outs, None if der is None else sorted(der)))
    rep = model.ask(requests) if requests else []
    for (start, ops, outs, der), r in zip(reals, rep):
        chk.count("corr:history")
        what = f"{start} {[wire(o) for o in ops]}"
        if r[0] != "ok" or len(r) != 2 + len(ops):
            chk.disagree("c14.hist", f"{what}: model answered {r[:3]}")
            continue
        if der is not None and sorted(set(x for x in r[1].split(",") if x)) != der:
            chk.disagree("c14.hist", f"{what}: _derived_symbols model {r[1]!r} implementation {der}")
        for i, (op, real, m) in enumerate(zip(ops, outs, r[2:])):
            if real[0] == "unit":
                want = "one" if real[1] == "<one>" else f"{real[1]}=e:{real[2]}:{real[3]}:{real[4]}"
                ok = m == want or (m.startswith(want + ":") and m.count(":") == want.count(":") + 1)
            elif real[0] == "entry":
                ok = m == "e:" + ":".join(real[1:])
            elif real[0] == "done":
                ok = m == "done"
            else:
                ok = (real[1] == "UnitParseError" and (m == "none" or m.endswith("=none"))) or \
                     (real[1] == "SymbolNotFoundError" and m in ("none", "missing"))
            if not ok:
                chk.disagree("c14.hist", f"{what}: answer {i} ({wire(op)}): model {m} implementation {real}")
                break
