"""C02 — every unit's scale and dimension agree with its definition."""
import math
from fractions import Fraction

import core
import gen

PROOF_MODULES = ["UnytProofs.C02", "UnytProofs.C02Num", "UnytProofs.C02Tree"]


def snippet(body):
    return ("import math, sympy\nfrom fractions import Fraction\nimport unyt\nfrom unyt import Unit, unyt_quantity\n"
            "from unyt._unit_lookup_table import default_unit_symbol_lut as LUT, unit_prefixes as PRE\n" + body)


def frac(s):
    return Fraction(s)


# ---------------------------------------------------------------------------------------------
# numeric literals of unit strings (coefficients and numeric exponents): every spelling Python's
# tokenizer accepts for the same number must give the same unit


def spell_decimal(rng, N, k):
    """A random spelling of the number N * 10**-k (N > 0): digits with or without a decimal point, with or
    without an exponent part, either exponent marker, any sign, optional digit separators.
    Returns (text, tags) — the value is known from (N, k), never computed from the text."""
    x = rng.choice([-4, -3, -2, -1, 1, 2, 3, 4]) if rng.random() < 0.7 else 0   # the written exponent
    f = k + x                                                                  # fraction digits of the mantissa
    digs = str(N)
    if f <= 0:
        ip, fp, point = digs + "0" * (-f), "", rng.random() < 0.3
    else:
        digs = digs.rjust(f, "0")
        ip, fp, point = digs[:-f], digs[-f:], True
        if ip == "" and rng.random() < 0.6:
            ip = "0"
    if point and rng.random() < 0.2:
        fp += "0"
    if rng.random() < 0.12 and len(ip) >= 2:
        j = rng.randint(1, len(ip) - 1)
        ip = ip[:j] + "_" + ip[j:]
    text = ip + ("." + fp if point else "")
    tags = ["point" if point else "nopoint"]
    if x != 0 or rng.random() < 0.25:
        marker = rng.choice("eE")
        sign = "-" if x < 0 else rng.choice(["", "+"])
        ed = str(abs(x))
        if rng.random() < 0.15:
            ed = "0" + ed
        text += marker + sign + ed
        tags += ["marker-" + ("upper" if marker == "E" else "lower"), "exp" + (sign or "unsigned")]
    else:
        tags.append("noexp")
    return text, tags


def spell_radix(rng, n):
    kind = rng.choice("xob")
    body = format(n, kind)
    if kind == "x" and rng.random() < 0.5:
        body = body.upper()
    pre = "0" + (kind if rng.random() < 0.5 else kind.upper())
    return pre + ("_" if rng.random() < 0.1 else "") + body, ["radix-" + kind]


def numeric_literals(chk, tier, drv):
    import sympy
    from unyt import Unit, unyt_quantity
    from unyt._parsing import parse_unyt_expr
    from unyt._unit_lookup_table import default_unit_symbol_lut as LUT, unit_prefixes as PRE

    rng = chk.rng
    nlit = 500 if tier == "quick" else 8000
    zero_off = [k for k in LUT if LUT[k][2] == 0 and LUT[k][0] > 0 and k.isidentifier()]
    prefixable = [k for k in zero_off if LUT[k][4]]
    fixed_units = ["m", "km", "g/cm**3", "sqrt(J)", "kg*m**2/s**2", "s**-1"]
    lit_lines, lit_expect, unit_lines, unit_expect = [], [], [], []
    length_dim = Unit("m").dimensions

    def pick_unit():
        r = rng.random()
        if r < 0.4:
            return rng.choice(fixed_units)
        if r < 0.7:
            return rng.choice(list(PRE)) + rng.choice(prefixable)
        return rng.choice(zero_off)

    def judge(key, s, want_scale, want_dim, dim_py, what):
        """direct oracle on Unit(s): scale and dimension implied by the constituents (`dim_py`: Python
        expression of the implied dimension, for the replay)"""
        try:
            u = Unit(s)
        except Exception as e:  # noqa: BLE001
            chk.fail(key + "-raise", f"valid expression {s!r} ({what}) raised {core.exc_name(e)}", {"python": snippet(f"Unit({s!r})\n")})
            return None
        chk.case(("numlit-unit", s), {"numeric-literal": s} if len(chk.samples) < 12 else None)
        if not (math.isclose(u.base_value, want_scale, rel_tol=1e-11) and u.dimensions == want_dim):
            chk.fail(key, f"Unit({s!r}) ({what}): scale {u.base_value!r} dimension {u.dimensions} but the constituents imply {want_scale!r}, {want_dim}",
                     {"python": snippet(f"u = Unit({s!r})\nassert math.isclose(u.base_value, {want_scale!r}, rel_tol=1e-11), (u.base_value, {want_scale!r})\n"
                                         f"assert u.dimensions == {dim_py}, u.dimensions\n")})
        if "\t" not in s:
            unit_lines.append(f"c02.unitstr\t{s}")
            unit_expect.append((s, u))
        return u

    for i in range(nlit):
        if rng.random() < 0.12:
            n = rng.choice([1, 2, 3, 7, 10, 30, 255, 1000, rng.randint(1, 5000)])
            lit, tags = spell_radix(rng, n)
            val = Fraction(n)
        else:
            N = rng.choice([1, 2, 5, 15, 25, 125, rng.randint(1, 999), rng.randint(1, 99999)])
            k = rng.choice([-3, -2, -1, 0, 0, 1, 1, 2, 3, 4, 6])
            lit, tags = spell_decimal(rng, N, k)
            val = Fraction(N) / Fraction(10) ** k
        cls = "+".join(tags)
        chk.count("numlit:" + cls)
        # (a) the literal alone: the parser's number is exactly the spelled value
        chk.case(("numlit", lit))
        try:
            got = parse_unyt_expr(lit)
            gotq = Fraction(int(got.p), int(got.q)) if isinstance(got, sympy.Rational) else None
        except Exception as e:  # noqa: BLE001
            got, gotq = core.exc_name(e), None
        # property level: the number read is the number spelled (to double precision; that it is EXACTLY the
        # spelled rational is the model's claim, checked by the correspondence below)
        if gotq is None or not math.isclose(float(gotq), float(val), rel_tol=1e-14):
            chk.fail("numlit-value|" + cls, f"the numeric literal {lit!r} of a unit string is read as {got!r}, it spells {val}",
                     {"python": snippet(f"from unyt._parsing import parse_unyt_expr\ngot = parse_unyt_expr({lit!r})\n"
                                         f"assert math.isclose(float(got), float(Fraction({val.numerator}, {val.denominator})), rel_tol=1e-14), got\n")})
        lit_lines.append(f"c02.numlit\t{lit}")
        lit_expect.append((lit, val, gotq, "." in lit or (("e" in lit or "E" in lit) and not lit.startswith(("0x", "0X")))))
        # (b) as a coefficient: scale(c*u) = c*scale(u), dim(c*u) = dim(u)
        un = pick_unit()
        try:
            base = Unit(un)
        except Exception:  # noqa: BLE001
            continue
        c = float(val)
        form = rng.randrange(6)
        if form == 0:
            s, want = f"{lit}*{un}", c * base.base_value
        elif form == 1:
            s, want = f"({un})*{lit}", c * base.base_value
        elif form == 2:
            s, want = f"({un})/{lit}", base.base_value / c
        elif form == 3:
            s, want = f"({lit})*({un})", c * base.base_value
        elif form == 4:
            s, want = f"-{lit}*{un}", -c * base.base_value
        else:
            s, want = f"{lit} * {un}", c * base.base_value
        if math.isfinite(want) and 1e-250 < abs(want) < 1e250:
            chk.count("numlit-coeff")
            judge("coeff-scale|" + cls, s, want, base.dimensions, f"Unit({un!r}).dimensions", f"coefficient {lit} on {un}")
        # (c) conversion to a unit that carries a spelled coefficient
        if base.dimensions == length_dim and rng.random() < 0.5:
            x = rng.uniform(0.5, 20.0)
            chk.count("numlit-to")
            tgt = f"{lit}*{un}"
            wantv = x * 1000.0 / (c * base.base_value)
            try:
                gotv = float(unyt_quantity(x, "km").to(tgt).d)
            except Exception as e:  # noqa: BLE001
                gotv = core.exc_name(e)
            if not (isinstance(gotv, float) and math.isclose(gotv, wantv, rel_tol=1e-11)):
                chk.fail("coeff-to-ratio|" + cls, f"({x!r} km).to({tgt!r}) gives {gotv!r}, x*scale(u1)/scale(u2) is {wantv!r}",
                         {"python": snippet(f"got = float(unyt_quantity({x!r}, 'km').to({tgt!r}).d)\nassert math.isclose(got, {wantv!r}, rel_tol=1e-11), got\n")})
    # (d) numeric exponents spelled as literals
    nexp = 120 if tier == "quick" else 2000
    for _ in range(nexp):
        N, k = rng.choice([(5, 1), (15, 1), (25, 1), (1, 0), (2, 0), (3, 0), (25, 2), (75, 2)])
        lit, tags = spell_decimal(rng, N, k)
        e = Fraction(N) / Fraction(10) ** k
        un = rng.choice(list(PRE)) + rng.choice(prefixable) if rng.random() < 0.5 else rng.choice(zero_off)
        try:
            base = Unit(un)
        except Exception:  # noqa: BLE001
            continue
        neg = rng.random() < 0.3
        s = f"{un}**{'-' if neg else ''}{lit}"
        ee = -e if neg else e
        try:
            want = base.base_value ** float(ee)
        except OverflowError:
            continue
        if not (math.isfinite(want) and 1e-250 < abs(want) < 1e250):
            continue
        chk.count("numlit-exponent:" + "+".join(tags))
        judge("numexp-scale|" + "+".join(tags), s, want, base.dimensions ** sympy.Rational(ee.numerator, ee.denominator),
              f"Unit({un!r}).dimensions**sympy.Rational({ee.numerator}, {ee.denominator})", f"exponent {lit} on {un}")

    # ---- model correspondence: the value model of NumLitC02 (and C20's tokenizer model) on every literal,
    # the string path (parse, then table evaluation) on every unit string
    try:
        rep = drv.ask(lit_lines)
    except Exception as e:  # noqa: BLE001
        rep = []
        chk.disagree("driver", repr(e))
    for r, (lit, val, gotq, is_float) in zip(rep, lit_expect):
        chk.count("model:numlit")
        mv = Fraction(r[2]) if r[0] == "ok" and r[2] != "none" else None
        if mv != val:
            chk.disagree("c02.numlit", f"{lit}: model value {r[2] if len(r) > 2 else r}, the generator spelled {val}")
        if mv != gotq:
            chk.disagree("c02.numlit", f"{lit}: model value {r[2] if len(r) > 2 else r} implementation {gotq}")
        if r[0] == "ok" and (r[1] == "float") != is_float:
            chk.disagree("c02.numlit", f"{lit}: model class {r[1]}, sympy's auto_number test says float={is_float}")
        if r[0] == "ok" and len(r) > 4 and (r[4] == "float") != is_float:
            chk.disagree("c02.numlit", f"{lit}: the class test regenerated from the live source says {r[4]}, sympy's auto_number test says float={is_float}")
        if r[0] == "ok" and r[3] != r[2]:
            chk.disagree("c02.numlit", f"{lit}: value model {r[2]} and tokenizer model (Parse.lexNumber) {r[3]} differ")
    try:
        rep = drv.ask(unit_lines)
    except Exception as e:  # noqa: BLE001
        rep = []
        chk.disagree("driver", repr(e))
    for r, (s, u) in zip(rep, unit_expect):
        chk.count("model:unitstr")
        if r[0] != "ok":
            chk.disagree("c02.unitstr", f"{s}: model {r} implementation scale {u.base_value}")
            continue
        co = u.expr.as_coeff_Mul()[0]
        ok = (core.close(core.b2f(r[1]), u.base_value, 1e-11) and core.close(core.b2f(r[2]), u.base_offset) and r[3] == gen.dim_vec(u.dimensions)
              and (not co.is_Rational or Fraction(r[6]) == Fraction(int(co.p), int(co.q))))
        if not ok:
            chk.disagree("c02.unitstr", f"{s}: model ({core.b2f(r[1])}, {r[3]}, coeff {r[6]}) implementation ({u.base_value}, {gen.dim_vec(u.dimensions)}, coeff {co})")


# ---------------------------------------------------------------------------------------------
# nested expressions as trees (numbers, symbols, products, rational powers; quotient = power -1, sqrt = power 1/2)


def nested_trees(chk, tier, drv):
    import sympy
    from unyt import Unit
    from unyt._unit_lookup_table import default_unit_symbol_lut as LUT, unit_prefixes as PRE, inv_name_alternatives as INV

    rng = chk.rng
    bases = [k for k in LUT if LUT[k][2] == 0 and LUT[k][0] > 0 and k.isidentifier() and INV.get(k, k) == k]
    prefixable = [k for k in bases if LUT[k][4]]
    pre_keys = list(PRE)

    def leaf_sym():
        if rng.random() < 0.4:
            p, b = rng.choice(pre_keys), rng.choice(prefixable)
            name = p + b
            if INV.get(name, name) != name or name in LUT:
                return leaf_sym()
            return ("S " + name, name, True, PRE[p][0] * LUT[b][0], LUT[b][1])
        b = rng.choice(bases)
        return ("S " + b, b, True, LUT[b][0], LUT[b][1])

    def leaf_num():
        if rng.random() < 0.4:
            pq = rng.choice([(3, 2), (1, 4), (2, 3), (7, 5), (1, 3)])
            return (f"N {pq[0]}/{pq[1]}", f"({pq[0]}/{pq[1]})", True, pq[0] / pq[1], sympy.Integer(1))
        N, k = rng.choice([2, 3, 4, 5, 9, 15, 25, 125]), rng.choice([0, 0, 1, 2, -1])
        lit, _tags = spell_decimal(rng, N, k)
        v = Fraction(N) / Fraction(10) ** k
        return (f"N {v.numerator}/{v.denominator}" if v.denominator != 1 else f"N {v.numerator}", lit, True, float(v), sympy.Integer(1))

    def tree(depth, top=False):
        """(wire, text, is_atom, scale, dim)"""
        r = rng.random() if not top else 0.25 + 0.75 * rng.random()
        if depth == 0 or r < 0.25:
            return leaf_sym()
        if r < 0.65:
            a = tree(depth - 1) if rng.random() < 0.75 else leaf_num()
            b = tree(depth - 1)
            if rng.random() < 0.3:      # a quotient: a * b**-1
                ta = a[1] if a[2] else f"({a[1]})"
                tb = b[1] if b[2] else f"({b[1]})"
                return (f"M {a[0]} P -1 {b[0]}", f"{ta}/{tb}", False, a[3] / b[3], a[4] / b[4])
            ta = a[1] if (a[2] or rng.random() < 0.3 and "/" not in a[1]) else f"({a[1]})"
            tb = b[1] if b[2] else f"({b[1]})"
            return (f"M {a[0]} {b[0]}", f"{ta}*{tb}" if rng.random() < 0.8 else f"{ta} * {tb}", False, a[3] * b[3], a[4] * b[4])
        a = tree(depth - 1)
        e = rng.choice(gen.EXPONENTS)
        es = sympy.Rational(e.numerator, e.denominator)
        if e == Fraction(1, 2) and rng.random() < 0.6:
            text = f"sqrt({a[1]})"
        else:
            ta = a[1] if (a[2] and "**" not in a[1]) else f"({a[1]})"
            if e.denominator == 1:
                text = f"{ta}**{e.numerator}" if e > 0 else f"{ta}**({e.numerator})"
            elif e.denominator == 2 and rng.random() < 0.4:
                lit, _t = spell_decimal(rng, abs(e.numerator) * 5, 1)
                text = f"{ta}**{'-' if e < 0 else ''}{lit}"
            else:
                text = f"{ta}**({e.numerator}/{e.denominator})"
        return (f"P {e.numerator}/{e.denominator} {a[0]}" if e.denominator != 1 else f"P {e.numerator} {a[0]}", text, False, a[3] ** float(e), a[4] ** es)

    ntree = 400 if tier == "quick" else 8000
    lines, expect = [], []
    for _ in range(ntree):
        try:
            w, text, _atom, scale, dim = tree(rng.randint(1, 3), top=True)
        except (OverflowError, ZeroDivisionError):
            chk.count("tree-range-skipped")
            continue
        if not (math.isfinite(scale) and 1e-200 < abs(scale) < 1e200):
            chk.count("tree-range-skipped")
            continue
        chk.count("tree:nodes-" + str(min(12, len([t for t in w.split(" ") if t in ("N", "S", "M", "P")]))))
        try:
            u = Unit(text)
        except Exception as e:  # noqa: BLE001
            chk.fail("tree-raise", f"valid nested expression {text!r} raised {core.exc_name(e)}", {"python": snippet(f"Unit({text!r})\n")})
            continue
        chk.case(("tree", text), {"nested": text} if len(chk.samples) < 16 else None)
        if not (math.isclose(u.base_value, scale, rel_tol=1e-10) and u.dimensions == dim):
            chk.fail("tree-scale", f"Unit({text!r}): scale {u.base_value!r} dimension {u.dimensions}, the constituents imply {scale!r}, {dim}",
                     {"python": snippet(f"u = Unit({text!r})\nassert math.isclose(u.base_value, {scale!r}, rel_tol=1e-10), (u.base_value, {scale!r})\n")})
        lines.append("c02.tree\t" + w)
        expect.append((text, u))
    try:
        rep = drv.ask(lines)
    except Exception as e:  # noqa: BLE001
        rep = []
        chk.disagree("driver", repr(e))
    for r, (text, u) in zip(rep, expect):
        chk.count("model:tree")
        if r[0] != "ok" or len(r) < 8 or r[6] == "none":
            chk.disagree("c02.tree", f"{text}: model {r} implementation scale {u.base_value}")
            continue
        dv = gen.dim_vec(u.dimensions)
        ok = (core.close(core.b2f(r[1]), u.base_value, 1e-10) and r[3] == dv          # Unit(build tree)
              and core.close(core.b2f(r[6]), u.base_value, 1e-10) and r[7] == dv)      # sem tree
        try:
            ok = ok and r[5] == gen.expr_wire(u.expr)[1]
        except ValueError:
            pass
        if not ok:
            chk.disagree("c02.tree", f"{text}: model build ({core.b2f(r[1])}, {r[3]}, {r[5]}) sem ({core.b2f(r[6])}, {r[7]}) implementation ({u.base_value}, {dv}, {u.expr})")


def run(tier, seed):
    import sympy
    import unyt
    from unyt import Unit, unyt_quantity
    from unyt._unit_lookup_table import default_unit_symbol_lut as LUT, unit_prefixes as PRE, inv_name_alternatives as INV
    import unyt.dimensions as D

    chk = core.Check("C02", tier, seed)
    chk.proof = core.prove("C02", PROOF_MODULES, extra_targets=("unytmodel", "drv_c02"), tier=tier)
    rng = chk.rng
    model = core.Model()
    ex = gen.extract()

    # ------------------------------------------------------------------ translator self-check
    keys = list(LUT.keys())
    rep = model.ask([f"dump.lut\t{k}" for k in keys] + [f"dump.prefix\t{p}" for p in PRE])
    for k, r in zip(keys, rep[: len(keys)]):
        v = LUT[k]
        want = ["ok", str(core.f2b(v[0])), str(core.f2b(v[2])), gen.dim_vec(v[1]), "1" if v[4] else "0"]
        chk.count("dump:lut")
        if r != want:
            chk.disagree("dump.lut", f"{k}: generated {r} live {want}")
    for p, r in zip(PRE, rep[len(keys):]):
        chk.count("dump:prefix")
        if r != ["ok", str(core.f2b(PRE[p][0]))]:
            chk.disagree("dump.prefix", f"{p}: generated {r} live {PRE[p][0]}")

    # ------------------------------------------------------------------ rows vs the reference definitions (direct oracle)
    refs = model.ask([f"c02.refrow\t{k}" for k in keys])
    for k, r in zip(keys, refs):
        v = LUT[k]
        chk.case(("row", k), {"row": k, "scale": v[0]} if len(chk.samples) < 3 else None)
        chk.count("row")
        if r[0] != "ok":
            chk.fail(f"value|{k}", f"unit table row {k!r} has no reference definition (a new row must be given one)",
                     {"python": snippet(f"raise AssertionError('row {k} has no reference definition in UnytModel/Ref/Definitions.lean')\n")})
            continue
        kind_, q, tol, dim, off = r[1], frac(r[2]), frac(r[3]), r[4], frac(r[5])
        sv = Fraction(float(v[0]))
        if kind_ == "val":
            ok = abs(sv - q) <= tol * abs(q)
            cond = f"abs(Fraction(float(v[0])) - Fraction({str(q)!r})) <= Fraction({str(tol)!r})*abs(Fraction({str(q)!r}))"
        else:
            ok = sv > 0 and abs(sv * sv - q) <= 2 * tol * abs(q)
            cond = f"abs(Fraction(float(v[0]))**2 - Fraction({str(q)!r})) <= 2*Fraction({str(tol)!r})*abs(Fraction({str(q)!r}))"
        okd = gen.dim_vec(v[1]) == dim
        oko = (Fraction(float(v[2])) == 0) if off == 0 else abs(Fraction(float(v[2])) - off) <= tol * abs(off)
        if not (ok and okd and oko):
            what = "value outside its class" if not ok else ("wrong dimension" if not okd else "wrong offset")
            chk.fail(f"value|{k}", f"unit {k}: {what} (table {v[0]!r}, reference {float(q) if kind_ == 'val' else math.sqrt(q)!r}, class tol {float(tol):.1e})",
                     {"python": snippet(f"v = LUT[{k!r}]\nassert {cond}, v[0]\n"
                                         f"assert Unit({k!r}).base_value == v[0]\n")})
    # prefixes vs SI
    prefs = model.ask([f"c02.refprefix\t{p}" for p in PRE])
    for p, r in zip(PRE, prefs):
        chk.case(("prefix", p))
        ok = r[0] == "ok" and abs(Fraction(float(PRE[p][0])) - Fraction(10) ** int(r[1])) <= Fraction(1, 2 ** 45) * Fraction(10) ** int(r[1])
        if not ok:
            chk.fail(f"prefix|{p}", f"prefix {p!r} = {PRE[p][0]!r} is not the SI value", {"python": snippet(f"assert math.isclose(PRE[{p!r}][0], 10.0**{r[1] if r[0] == 'ok' else 0}, rel_tol=1e-13)\n")})

    # ------------------------------------------------------------------ every name: prefix × base (direct oracle) + model
    names = list(INV.keys())
    if tier == "quick":
        names = rng.sample(names, 1500)
    lines, expect = [], []
    for n in names:
        canon = INV[n]
        chk.count("name")
        try:
            u = Unit(n)
        except Exception as e:  # names that cannot be used as strings are C14's subject
            chk.count("name-unusable:" + core.exc_name(e))
            continue
        chk.case(("name", n))
        # independent expectation: table symbol, or (prefix, prefixable base) split of the canonical symbol
        if canon in LUT:
            want, wdim = LUT[canon][0], LUT[canon][1]
        else:
            cands = [(p, canon[len(p):]) for p in PRE if canon.startswith(p) and canon[len(p):] in LUT and LUT[canon[len(p):]][4]]
            if not cands:
                continue
            vals = {PRE[p][0] * LUT[b][0] for p, b in cands}
            want = PRE[cands[0][0]][0] * LUT[cands[0][1]][0]
            wdim = LUT[cands[0][1]][1]
            if len(vals) > 1:
                chk.count("ambiguous-split")
        if not (math.isclose(u.base_value, want, rel_tol=1e-14) and u.dimensions == wdim):
            chk.fail("name-scale", f"Unit({n!r}) has scale {u.base_value!r}, expected prefix*base {want!r}",
                     {"python": snippet(f"u = Unit({n!r})\nassert math.isclose(u.base_value, {want!r}, rel_tol=1e-14), u.base_value\n")})
        lines.append(f"resolve\t{n}")
        expect.append(("resolve", n, u))

    # ------------------------------------------------------------------ compounds: product of constituents (direct oracle) + model
    ncomp = 2500 if tier == "quick" else 60000
    lutkeys = [k for k in LUT if LUT[k][2] == 0 and LUT[k][0] > 0]
    pre_keys = list(PRE)
    for i in range(ncomp):
        nf = rng.randint(1, 5)
        parts, want, wdim = [], Fraction(1), sympy.Integer(1)
        wantf = 1.0
        coeff = None
        if rng.random() < 0.25:
            coeff = rng.choice(["2", "3", "10", "0.5", "2.5", "1e3", "3/2", "1/4"])
            wantf *= float(Fraction(coeff)) if "e" not in coeff else float(coeff)
            parts.append(coeff)
        arith = []  # the same compound built by unit arithmetic (no coefficient)
        wantf_units = 1.0
        for _ in range(nf):
            b = rng.choice(lutkeys)
            p = rng.choice(pre_keys) if (LUT[b][4] and rng.random() < 0.4) else ""
            alias = None
            e = rng.choice(gen.EXPONENTS)
            sc = (PRE[p][0] if p else 1.0) * LUT[b][0]
            try:
                wantf *= sc ** float(e)
                wantf_units *= sc ** float(e)
            except OverflowError:
                wantf = wantf_units = float("inf")
            wdim *= LUT[b][1] ** sympy.Rational(e.numerator, e.denominator)
            name = p + b
            arith.append((name, e))
            style = rng.random()
            if e == 1 and style < 0.5:
                parts.append(name)
            elif e == Fraction(1, 2) and style < 0.5:
                parts.append(f"sqrt({name})")
            elif e.denominator == 1:
                parts.append(f"{name}**{e.numerator}" if e > 0 and style < 0.7 else f"{name}**({e.numerator})")
            elif style < 0.5:
                parts.append(f"{name}**({e.numerator}/{e.denominator})")
            else:
                parts.append(f"{name}**{float(e)!r}" if e.denominator == 2 else f"{name}**({e.numerator}/{e.denominator})")
        rng.shuffle(parts)
        s = parts[0]
        for q in parts[1:]:
            r = rng.random()
            if r < 0.7:
                s = f"{s}*{q}"
            elif r < 0.85:
                s = f"({s})*({q})"
            else:
                s = f"{s} * {q}"
        if not (math.isfinite(wantf) and 1e-250 < abs(wantf) < 1e250):
            chk.count("compound-range-skipped")
            continue
        try:
            u = Unit(s)
        except Exception as e:
            chk.fail("compound-raise", f"valid compound {s!r} raised {core.exc_name(e)}", {"python": snippet(f"Unit({s!r})\n")})
            continue
        chk.case(("compound", s), {"compound": s} if len(chk.samples) < 8 else None)
        chk.count(f"compound:{nf}")
        if not (math.isclose(u.base_value, wantf, rel_tol=1e-11) and u.dimensions == wdim):
            chk.fail("compound-scale", f"Unit({s!r}): scale {u.base_value!r} / dimension differ from the product of the constituents ({wantf!r})",
                     {"python": snippet(f"u = Unit({s!r})\nassert math.isclose(u.base_value, {wantf!r}, rel_tol=1e-11), (u.base_value, {wantf!r})\n")})
        # arithmetic route: Unit objects multiplied / divided / raised must give the product of the constituents too
        try:
            ua = None
            for j, (nm, e) in enumerate(arith):
                f = Unit(nm)
                if e < 0 and j > 0 and rng.random() < 0.5:
                    ua = ua / f ** sympy.Rational(-e.numerator, e.denominator)
                    continue
                f = f if e == 1 else f ** sympy.Rational(e.numerator, e.denominator)
                ua = f if ua is None else ua * f
            chk.count("compound-arith")
            if not (math.isclose(ua.base_value, wantf_units, rel_tol=1e-11) and ua.dimensions == wdim):
                expr_py = " * ".join(f"Unit({nm!r})**sympy.Rational({e.numerator},{e.denominator})" for nm, e in arith)
                chk.fail("compound-arith-scale", f"unit arithmetic {arith}: scale {ua.base_value!r} differs from the product of the constituents ({wantf_units!r})",
                         {"python": snippet(f"u = {expr_py}\nassert math.isclose(u.base_value, {wantf_units!r}, rel_tol=1e-11), (u.base_value, {wantf_units!r})\n")})
        except Exception as e_:  # noqa: BLE001  (offset / logarithmic guards refuse: C05's subject)
            chk.count("compound-arith-refused:" + core.exc_name(e_))
        try:
            c, fac = gen.expr_wire(u.expr)
            lines.append(f"unit\t0\t{c}\t{fac}")
            expect.append(("unit", s, u))
        except ValueError:
            chk.count("compound-not-wireable")

    # ------------------------------------------------------------------ .to() is the ratio of scales
    bydim = {}
    for k, v in LUT.items():
        if v[2] == 0:
            bydim.setdefault(gen.dim_vec(v[1]), []).append(k)
    npairs = 0
    for dimkey, group in bydim.items():
        pairs = [(a, b) for a in group for b in group if a != b]
        if tier == "quick" and len(pairs) > 20:
            pairs = rng.sample(pairs, 20)
        for a, b in pairs:
            pa = rng.choice(pre_keys) if LUT[a][4] and rng.random() < 0.3 else ""
            pb = rng.choice(pre_keys) if LUT[b][4] and rng.random() < 0.3 else ""
            sa = (PRE[pa][0] if pa else 1.0) * LUT[a][0]
            sb = (PRE[pb][0] if pb else 1.0) * LUT[b][0]
            x = rng.uniform(0.5, 20.0)
            chk.case(("to", pa + a, pb + b))
            chk.count("to-pair")
            npairs += 1
            try:
                got = float(unyt_quantity(x, pa + a).to(pb + b).d)
            except Exception as e:
                chk.fail("to-raise", f"({pa + a}).to({pb + b}) raised {core.exc_name(e)}", {"python": snippet(f"unyt_quantity({x!r}, {pa + a!r}).to({pb + b!r})\n")})
                continue
            if not math.isclose(got, x * sa / sb, rel_tol=1e-12):
                chk.fail("to-ratio", f"x.to(u2) != x*scale(u1)/scale(u2) for {pa + a}->{pb + b}",
                         {"python": snippet(f"got = float(unyt_quantity({x!r}, {pa + a!r}).to({pb + b!r}).d)\nassert math.isclose(got, {x * sa / sb!r}, rel_tol=1e-12), got\n")})

    # ------------------------------------------------------------------ look-up histories in fresh registries
    # prefix*base must not depend on which other names were resolved before (the derived entries
    # written back into the registry's table must not change any later reading); the model's
    # lookupUnitSymbol (with its write-back) is run on the same sequences.
    from unyt.unit_registry import UnitRegistry

    def independent(name):
        # table symbol, else the (prefix, prefixable base) splits against the PRISTINE table
        if name in LUT:
            return LUT[name][0]
        vals = {PRE[p][0] * LUT[name[len(p):]][0] for p in PRE if name.startswith(p) and name[len(p):] in LUT and LUT[name[len(p):]][4]}
        return vals.pop() if len(vals) == 1 else None

    prefixable = [k for k in LUT if LUT[k][4]]
    nhist = 12 if tier == "quick" else 200
    hist_lines, hist_expect = [], []
    for h in range(nhist):
        reg = UnitRegistry()
        hist_lines.append("reg.fresh")
        hist_expect.append(None)
        bases = rng.sample(prefixable, 3)
        seq = [p + b for b in bases for p in pre_keys]
        rng.shuffle(seq)
        # double prefixes and prefixes on non-prefixable rows must stay unknown whatever was looked up before
        extra = [rng.choice(pre_keys) + rng.choice(pre_keys) + rng.choice(bases) for _ in range(6)]
        extra += [rng.choice(pre_keys) + rng.choice([k for k in LUT if not LUT[k][4]]) for _ in range(4)]
        seq += extra
        done = []
        for name in seq:
            want = independent(name)
            chk.case(("hist", name, tuple(done[-2:])))
            chk.count("history-lookup")
            try:
                u = Unit(name, registry=reg)
                got = u.base_value
            except Exception as e:  # noqa: BLE001
                got = None
                u = None
            # names the alias table rewrites (e.g. 'dam' is not an alias, but 'min' is) are C14's subject: only judge
            # strings the parser hands to the registry unchanged
            if INV.get(name, name) != name:
                chk.count("history-alias-skipped")
                done.append(name)
                continue
            pre_snip = "from unyt.unit_registry import UnitRegistry\nreg = UnitRegistry()\n" + "".join(
                f"try:\n    Unit({d!r}, registry=reg)\nexcept Exception:\n    pass\n" for d in done)
            if want is None and got is not None:
                chk.fail("history-accepts", f"after looking up {done[-3:]} a fresh registry accepts {name!r}, which is neither a table symbol nor prefix+prefixable unit",
                         {"python": snippet(pre_snip + f"try:\n    u = Unit({name!r}, registry=reg)\nexcept Exception:\n    u = None\nassert u is None, (u, u.base_value)\n")})
            elif want is not None and (got is None or not math.isclose(got, want, rel_tol=1e-14)):
                chk.fail("history-scale", f"after looking up {done[-3:]} Unit({name!r}) in a fresh registry has scale {got!r}, expected prefix*base {want!r}",
                         {"python": snippet(pre_snip + f"u = Unit({name!r}, registry=reg)\nassert math.isclose(u.base_value, {want!r}, rel_tol=1e-14), u.base_value\n")})
            hist_lines.append(f"lookup\t{h + 1}\t{name}")
            ent = reg.lut.get(name)
            hist_expect.append((name, ent))
            done.append(name)
    try:
        hrep = model.ask(hist_lines)
    except Exception as e:  # noqa: BLE001
        hrep = []
        chk.disagree("driver", repr(e))
    for rep_, exp in zip(hrep, hist_expect):
        if exp is None:
            continue
        name, ent = exp
        chk.count("model:lookup")
        if ent is None:
            if rep_[0] != "err":
                chk.disagree("lookup", f"{name}: model {rep_} implementation: unknown")
        elif rep_ != ["ok", str(core.f2b(ent[0])), str(core.f2b(ent[2])), gen.dim_vec(ent[1]), "1" if ent[4] else "0"]:
            chk.disagree("lookup", f"{name}: model {rep_} implementation table entry ({ent[0]}, {ent[2]}, prefixable={ent[4]})")

    # ------------------------------------------------------------------ numeric literals (coefficients, exponents)
    try:
        numeric_literals(chk, tier, core.Model("drv_c02"))
        nested_trees(chk, tier, core.Model("drv_c02"))
    except RuntimeError as e:  # driver not built
        chk.disagree("driver", repr(e))

    # ------------------------------------------------------------------ model correspondence
    try:
        replies = model.ask(lines)
    except Exception as e:  # noqa: BLE001
        replies = []
        chk.disagree("driver", repr(e))
    for rep_, (op, s, u) in zip(replies, expect):
        chk.count("model:" + op)
        if rep_[0] != "ok":
            chk.disagree(op, f"{s}: model {rep_} implementation scale {u.base_value}")
            continue
        if op == "resolve":
            ok = core.close(core.b2f(rep_[2]), u.base_value, 1e-14) and core.close(core.b2f(rep_[3]), u.base_offset) and rep_[4] == gen.dim_vec(u.dimensions) and rep_[1] == str(u.expr)
        else:
            ok = core.close(core.b2f(rep_[1]), u.base_value, 1e-11) and core.close(core.b2f(rep_[2]), u.base_offset) and rep_[3] == gen.dim_vec(u.dimensions)
        if not ok:
            chk.disagree(op, f"{s}: model {rep_[1:5]} implementation ({u.base_value}, {u.base_offset}, {gen.dim_vec(u.dimensions)})")
    rule = ("all table rows and prefixes against the hand-written reference; names from inv_name_alternatives (sampled in quick, all in thorough) against "
            "prefix*base computed from the live table; generated compounds (1-5 factors, exponent set incl. rationals, coefficients, sqrt(), parentheses, "
            "prefixes) against the product of their constituents; commensurable .to() pairs against the scale ratio; numeric literals generated from a "
            "structure (point position, exponent part, marker case, sign, separators, radix) alone, as coefficient / divisor / exponent / conversion target, "
            "against the spelled value; nested trees (products, quotients, rational powers, sqrt, coefficients at any depth) rendered to strings against "
            "the constituents; distinct = distinct string / pair")
    return chk.finish(rule)
