"""C20: which unit strings lie outside the documented vocabulary — decided with Python's own
tokenizer, never with the Lean model.  No side effects on import (used by the parent and the worker)."""
import io
import tokenize

GLOBAL_CLASSES = {"Symbol", "Integer", "Float", "Rational"}
# attribute access and keyword arguments come first: no accepted string of the unchanged tree
# contains them, so they must never be masked by a construct that is a listed finding
PRIORITY = ["attr", "keyword-arg", "string", "global-class", "call", "bracket", "comma", "compare", "comment",
            "continuation", "other-op", "arith", "untokenizable"]


def vocab_category(s):
    """None when every token of `s` belongs to the documented vocabulary of unit strings
    (numbers, names, * / **, parentheses, sqrt(...), unary sign, white space, the % and ° signs);
    otherwise the class of the first offending construct in PRIORITY order.  Uses Python's own
    tokenizer, never the Lean model."""
    t = s.replace("%", "percent").replace("°", "deg")
    # a lone carriage return is a line break to the compiler (white space inside parentheses);
    # the tokenize module glues it to the next operator, so normalise it for classification
    t = t.replace("\r\n", "\n").replace("\r", "\n")
    cats = set()
    if "\\" in t:
        cats.add("continuation")
    try:
        toks = [(tk.type, tk.string) for tk in tokenize.generate_tokens(io.StringIO(t.strip()).readline)]
    except Exception:  # noqa: BLE001
        cats.add("untokenizable")
        toks = []
    prev = None  # previous significant token
    for i, (ty, val) in enumerate(toks):
        # sympy's untokenize glues neighbouring operator tokens: `/ /` is evaluated as floor division
        if ty == tokenize.OP and val == "/" and i > 0 and toks[i - 1] == (tokenize.OP, "/"):
            cats.add("other-op")
        if ty in (tokenize.NL, tokenize.NEWLINE, tokenize.INDENT, tokenize.DEDENT, tokenize.ENDMARKER):
            continue
        if ty == tokenize.COMMENT:
            cats.add("comment")
            continue
        if ty == tokenize.NUMBER:
            pass
        elif ty == tokenize.NAME:
            if val in GLOBAL_CLASSES:
                cats.add("global-class")
            else:
                nxt = next(((t2, v2) for t2, v2 in toks[i + 1:] if t2 not in (tokenize.NL, tokenize.NEWLINE)), None)
                if nxt and nxt[1] == "(" and val != "sqrt":
                    cats.add("call")
                if nxt and nxt == (tokenize.OP, "="):
                    cats.add("keyword-arg")
        elif ty == tokenize.OP:
            if val in ("*", "**", "/", "(", ")"):
                pass
            elif val in ("+", "-"):
                if prev is not None and (prev[0] in (tokenize.NUMBER, tokenize.NAME) or prev[1] == ")"):
                    cats.add("arith")
            elif val == ",":
                cats.add("comma")
            elif val in ("[", "]", "{", "}"):
                cats.add("bracket")
            elif val in ("==", "!=", "<", ">", "<=", ">=", "=", ":=", "!"):
                cats.add("compare")
            elif val == ".":
                cats.add("attr")
            else:
                cats.add("other-op")
        elif ty == tokenize.STRING or tokenize.tok_name.get(ty, "").startswith("FSTRING"):
            cats.add("string")
        else:
            cats.add("untokenizable")
        prev = (ty, val)
    for c in PRIORITY:
        if c in cats:
            return c
    return None


