"""C05 — input class "same spelling, different stored data".

A `Unit` snapshots `base_value`/`dimensions` when it is built; the registry it points to can be edited
afterwards (`modify`, `remove`+`add`), a unit can be built with explicit data, and two registries may
define one symbol differently.  So two unit objects with the SAME expression (and even the same registry
object) may carry different (scale, dimension).  Every law of the property is a law about the stored data;
this module builds such families by replayable histories ("worlds"), evaluates the laws on the library
(direct oracle) and hands the operand pairs to the model correspondence.
"""
import itertools
import math
from fractions import Fraction

import core
import gen

HEADER = ("import unyt, math, sympy\nfrom unyt import Unit\nfrom unyt.unit_registry import UnitRegistry\n"
          "import unyt.dimensions as D\n")

SCALES = [3.0, 0.5, 7.25, 1000.0, 0.001, 12.0, 2.5, 1.0 / 3.0, 86400.0, 6.02e23, 1.6e-19]


def world(rng):
    """-> (python source of the history, [groups of (variable, history-kind)] of equally spelled units)"""
    s = rng.sample(SCALES, 8)
    src = (
        "reg = UnitRegistry()\n"
        f"reg.add('code_length', {s[0]!r}, D.length)\n"
        f"reg.add('code_time', {s[1]!r}, D.time, prefixable=True)\n"
        "a0 = Unit('code_length', registry=reg); t0 = Unit('code_time', registry=reg); kt0 = Unit('kcode_time', registry=reg)\n"
        "v0 = a0/t0; q0 = a0**2; c0 = Unit('code_length*s**-1', registry=reg); r0 = Unit('code_length**(1/2)*g', registry=reg)\n"
        "x0 = a0**2/Unit('cm', registry=reg); y0 = Unit('km*code_length**-1*code_time', registry=reg)\n"
        # the registry is edited after units were handed out (yt: set_code_units)
        f"reg.modify('code_length', {s[2]!r}); reg.modify('code_time', {s[3]!r})\n"
        "a1 = Unit('code_length', registry=reg); t1 = Unit('code_time', registry=reg); kt1 = Unit('kcode_time', registry=reg)\n"
        "v1 = a1/t1; q1 = a1**2; c1 = Unit('code_length*s**-1', registry=reg); r1 = Unit('code_length**(1/2)*g', registry=reg)\n"
        "x1 = a1**2/Unit('cm', registry=reg); y1 = Unit('km*code_length**-1*code_time', registry=reg)\n"
        # the symbol is removed and added again with another dimension
        f"reg.remove('code_length'); reg.add('code_length', {s[4]!r}, D.mass)\n"
        "a2 = Unit('code_length', registry=reg); v2 = a2/t1; q2 = a2**2; c2 = Unit('code_length*s**-1', registry=reg)\n"
        # explicit data under the same spelling
        f"a3 = Unit(sympy.Symbol('code_length', positive=True), base_value={s[5]!r}, dimensions=D.length, registry=reg)\n"
        "v3 = a3/t0; q3 = a3**2\n"
        # another registry spelling the same symbols
        f"reg2 = UnitRegistry(); reg2.add('code_length', {s[6]!r}, D.length); reg2.add('code_time', {s[7]!r}, D.time, prefixable=True)\n"
        "a4 = Unit('code_length', registry=reg2); t4 = Unit('code_time', registry=reg2); v4 = a4/t4; q4 = a4**2; c4 = Unit('code_length*s**-1', registry=reg2)\n"
        # default registry: explicit data under a built-in spelling
        f"m0 = Unit('m'); m1 = Unit(sympy.Symbol('m', positive=True), base_value={s[5]!r}, dimensions=D.length)\n"
        f"g0 = Unit('g*cm**-3'); g1 = Unit(g0.expr, base_value={s[2]!r}, dimensions=D.mass/D.length**3)\n"
    )
    groups = [
        [("a0", "pre-modify"), ("a1", "post-modify"), ("a2", "re-added"), ("a3", "explicit"), ("a4", "other-registry")],
        [("t0", "pre-modify"), ("t1", "post-modify"), ("t4", "other-registry")],
        [("kt0", "pre-modify"), ("kt1", "post-modify")],
        [("v0", "pre-modify"), ("v1", "post-modify"), ("v2", "re-added"), ("v3", "explicit"), ("v4", "other-registry")],
        [("q0", "pre-modify"), ("q1", "post-modify"), ("q2", "re-added"), ("q3", "explicit"), ("q4", "other-registry")],
        [("c0", "pre-modify"), ("c1", "post-modify"), ("c2", "re-added"), ("c4", "other-registry")],
        [("r0", "pre-modify"), ("r1", "post-modify")],
        [("x0", "pre-modify"), ("x1", "post-modify")],
        [("y0", "pre-modify"), ("y1", "post-modify")],
        [("m0", "registry"), ("m1", "explicit")],
        [("g0", "registry"), ("g1", "explicit")],
    ]
    return src, groups


def _try(f):
    try:
        return ("ok", f())
    except Exception as e:  # noqa: BLE001
        return ("err", core.exc_name(e))


def run_worlds(chk, nworlds, model_lines, model_expect):
    """direct oracle on same-spelling/different-data pairs + model lines for the correspondence"""
    import sympy

    rng = chk.rng
    for wi in range(nworlds):
        src, groups = world(rng)
        ns = {}
        exec(HEADER + src, ns)  # noqa: S102 - our own generated history
        # simplify() / as_coeff_unit() keep what the unit denotes — its STORED scale and dimension, which for a unit older
        # than a registry edit is not what the registry would resolve the expression to today
        for g in groups:
            for xn, xk in g:
                u = ns[xn]
                chk.case(("world-simplify", wi, xn))
                chk.count("world-simplify:" + xk)
                hdr = src + f"u = {xn}\n"
                body = ("w = Unit(u.expr, base_value=u.base_value, base_offset=u.base_offset, dimensions=u.dimensions, registry=u.registry)\n"
                        "s = w.simplify(); c, cu = s.as_coeff_unit()\n"
                        "assert math.isclose(s.base_value, u.base_value, rel_tol=1e-12) and s.dimensions == u.dimensions and s == u, (s.base_value, u.base_value)\n"
                        "assert math.isclose(c*cu.base_value, u.base_value, rel_tol=1e-9) and cu.dimensions == u.dimensions, (c, cu.base_value, u.base_value)\n"
                        "assert s.expr.as_coeff_Mul()[1] == cu.expr and math.isclose(float(s.expr.as_coeff_Mul()[0]), c)\n")
                ns2 = {"u": u, "Unit": ns["Unit"], "math": math}
                try:
                    exec(body, ns2)  # noqa: S102
                except Exception as e:  # noqa: BLE001
                    chk.fail(f"simplify-stored|{xk}", f"simplify()/as_coeff_unit() changed what a unit denotes (stored scale/dimension) [{core.exc_name(e)}]",
                             {"python": HEADER + hdr + body})
                    continue
                try:
                    fs = gen.unit_wire_fields(ns2["s"])
                except ValueError:
                    continue
                model_lines.append("\t".join(["c05.ascoeff"] + fs))
                model_expect.append(("c05.ascoeff", f"{xn}({xk}).simplify()", "", ("ok", (ns2["c"], ns2["cu"]))))
        pairs = []
        for g in groups:
            pairs += [(x, y, True) for x, y in itertools.product(g, repeat=2)]
        flat = [x for g in groups for x in g]
        for _ in range(30):
            x, y = rng.choice(flat), rng.choice(flat)
            pairs.append((x, y, ns[x[0]].expr == ns[y[0]].expr))
        for (xn, xk), (yn, yk), same in pairs:
            u, v = ns[xn], ns[yn]
            sp = "same-spelling" if same else "mixed-spelling"
            rg = "same-registry" if u.registry is v.registry else "cross-registry"
            data = "same-data" if (u.base_value == v.base_value and u.dimensions == v.dimensions) else "different-data"
            cls = f"{sp}|{rg}|{data}"
            chk.case(("world", wi, xn, yn), {"op": "mul/div/pow/== on equally spelled units", "u": f"{xn} ({xk})", "v": f"{yn} ({yk})", "history": src} if wi == 0 and xn == "a1" and yn == "a0" else None)
            chk.count("world:" + cls)
            hdr = src + f"u = {xn}; v = {yn}\n"

            def fail(key, what, body):
                chk.fail(f"{key}|{cls}", what + f" [{xk} vs {yk}]", {"python": HEADER + hdr + body})

            d = _try(lambda: u / v)
            p = _try(lambda: u * v)
            pr = _try(lambda: v * u)
            iv = _try(lambda: u * v ** -1)
            if d[0] != "ok" or p[0] != "ok" or pr[0] != "ok" or iv[0] != "ok":
                fail("world-raises", "an operation on zero-offset, non-logarithmic units raised", "u/v; u*v; v*u; u*v**-1\n")
                continue
            d, p, pr, iv = d[1], p[1], pr[1], iv[1]
            # homomorphism onto (scale, dimension): quotient
            if not (core.close(d.base_value, u.base_value / v.base_value, 1e-12) and d.dimensions == u.dimensions / v.dimensions):
                fail("hom-div", "scale/dimension of u/v is not the quotient of the operands' scales/dimensions",
                     "d = u/v\nassert math.isclose(d.base_value, u.base_value/v.base_value, rel_tol=1e-12) and d.dimensions == u.dimensions/v.dimensions, (d.base_value, u.base_value/v.base_value, d.dimensions)\n")
            # ... product
            if not (core.close(p.base_value, u.base_value * v.base_value, 1e-12) and p.dimensions == u.dimensions * v.dimensions):
                fail("hom", "scale/dimension of u*v is not the product of the operands' scales/dimensions",
                     "p = u*v\nassert math.isclose(p.base_value, u.base_value*v.base_value, rel_tol=1e-12) and p.dimensions == u.dimensions*v.dimensions, (p.base_value, p.dimensions)\n")
            # commutativity
            if not (p == pr and p.expr == pr.expr and core.close(p.base_value, pr.base_value, 1e-12) and p.dimensions == pr.dimensions):
                fail("comm", "u*v != v*u", "p = u*v; q = v*u\nassert p == q and p.expr == q.expr and p.dimensions == q.dimensions\n")
            # u**-1 is the inverse: u/v == u*v**-1, (u/v)*v == u
            if not (d == iv and d.expr == iv.expr and d.dimensions == iv.dimensions and core.close(d.base_value, iv.base_value, 1e-12)):
                fail("div-inv", "u/v != u*v**-1",
                     "p = u/v; q = u*v**-1\nassert p == q and p.expr == q.expr and p.dimensions == q.dimensions and math.isclose(p.base_value, q.base_value, rel_tol=1e-12), (p.base_value, q.base_value)\n")
            back = _try(lambda: d * v)
            if back[0] != "ok" or not (back[1] == u and back[1].expr == u.expr and back[1].dimensions == u.dimensions and core.close(back[1].base_value, u.base_value, 1e-12)):
                fail("div-mul-cancel", "(u/v)*v != u",
                     "b = (u/v)*v\nassert b == u and b.expr == u.expr and b.dimensions == u.dimensions and math.isclose(b.base_value, u.base_value, rel_tol=1e-12), (b.base_value, u.base_value)\n")
            # equality is decided by (scale, offset, dimension), never by the spelling
            want = (math.isclose(u.base_value, v.base_value) and math.isclose(u.base_offset, v.base_offset) and (u.dimensions / v.dimensions) == 1)
            if (u == v) != want or (v == u) != want:
                fail("eq", "== is not decided by (scale, offset, dimension)",
                     "w = math.isclose(u.base_value, v.base_value) and math.isclose(u.base_offset, v.base_offset) and (u.dimensions/v.dimensions) == 1\nassert (u == v) == w and (v == u) == w\n")
            # powers act on the stored data
            q = rng.choice([(-1, 1), (2, 1), (1, 2), (-3, 2), (3, 1), (1, 3)])
            qa = sympy.Rational(*q)
            up = _try(lambda: u ** qa)
            if up[0] != "ok" or not (core.close(up[1].base_value, u.base_value ** (q[0] / q[1]), 1e-9) and up[1].dimensions == u.dimensions ** qa):
                fail("hom-pow", "scale/dimension of u**p is not scale**p / dimension**p",
                     f"p = sympy.Rational({q[0]},{q[1]}); up = u**p\nassert math.isclose(up.base_value, u.base_value**float(p), rel_tol=1e-9) and up.dimensions == u.dimensions**p\n")
            # (u**p)/(v**p) == (u/v)**p on the stored data
            l, r = _try(lambda: (u ** qa) / (v ** qa)), _try(lambda: (u / v) ** qa)
            if l[0] != "ok" or r[0] != "ok" or not (l[1] == r[1] and l[1].expr == r[1].expr and core.close(l[1].base_value, r[1].base_value, 1e-9)):
                fail("div-pow", "u**p / v**p != (u/v)**p",
                     f"p = sympy.Rational({q[0]},{q[1]}); l = u**p/v**p; r = (u/v)**p\nassert l == r and l.expr == r.expr and math.isclose(l.base_value, r.base_value, rel_tol=1e-9), (l.base_value, r.base_value)\n")
            # model correspondence on the stored data
            try:
                fa, fb = gen.unit_wire_fields(u), gen.unit_wire_fields(v)
            except ValueError:
                continue
            tag = f"{xn}({xk})"
            tagv = f"{yn}({yk}) [{cls}]"
            model_lines.append("\t".join(["umul"] + fa + fb))
            model_expect.append(("umul", tag, tagv, ("ok", p)))
            model_lines.append("\t".join(["udiv"] + fa + fb))
            model_expect.append(("udiv", tag, tagv, ("ok", d)))
            model_lines.append("\t".join(["ueq"] + fa + fb))
            model_expect.append(("ueq", tag, tagv, ("ok", u == v)))
            if up[0] == "ok":
                model_lines.append("\t".join(["upow"] + fa + [gen.rat_str(Fraction(q[0], q[1]))]))
                model_expect.append(("upow", tag, f"{q[0]}/{q[1]}", up))
