"""C07 — NumPy functions propagate units covariantly and never drop them silently.

Pieces (see design.d/C07.md):
  * proof: UnytProofs.C07 / C07Lists / Real.C07Real over the regenerated Generated/UnitRules.lean
    (translator plugin tools/extract.d/c07_unitrules.py: the unit label every handler attaches, read off
    symbolic units, as exponent expressions in the shapes) and Generated/Handlers.lean (C06's plugin);
  * correspondence: for FRESH instantiations (other data seeds, hence other shapes) of every handled
    template the compiled model (drv_c07: `UR.Leaf.exponents/scale` on the regenerated row) predicts class,
    exponent vector and base_value of the unit of every result leaf and of the out= buffer; compared with
    what the real handler returns; tables read back; Lean exclusion lists == `excl` fields of the findings;
  * direct oracle (harness/c07_cov.py, never consults the model): the WHOLE catalogue (261 functions, 53
    methods, attributes, dunders) under coherent re-expression of the operands of one dimension group (and
    of all groups): power-of-four rescalings in a custom registry (bit for bit) and ordinary units
    (tolerance); class and dimension of the result of dimension-preserving / unitless-result functions.
"""
import json
import multiprocessing
import os

import core

PROOF_MODULES = ["UnytProofs.C07", "UnytProofs.C07Lists", "UnytProofs.C07Memo", "UnytProofs.Real.C07Real"]
HARNESS = os.path.dirname(os.path.abspath(__file__))
REGROUPS = (0, 1, 2, "all")


def _setup():
    import warnings

    warnings.simplefilter("ignore")
    import numpy as np

    np.seterr(all="ignore")


def dtypes_of(t):
    return [d for d in t.dtypes if d != "i"] or list(t.dtypes)


# ---------------------------------------------------------------------------------------
# direct oracle: one worker = one (data seed, unit mode, out mode[, restriction to functions])


def cov_pass(job):
    dseed, mode, out_mode, lists, only = job
    _setup()
    import npcatalog as C
    import c07_cov as V

    dimp, unitless, dimop = set(lists[0]), set(lists[1]), lists[2]
    stats = {}
    fails = {}
    compared = set()
    samples = []
    for t in C.templates():
        fid = t.func if t.is_method else C.canonical_func(t)
        if only is not None and fid not in only:
            continue
        oms = (out_mode,) if t.out_form else ("unyt",)
        for sc in t.shapes:
            for dk in dtypes_of(t):
                for om in oms:
                    found = {}
                    for rg in REGROUPS:
                        st, d = V.compare(t, dk, sc, dseed, mode, rg, om)
                        stats[st] = stats.get(st, 0) + 1
                        if st in ("same", "differ"):
                            compared.add((t.tid, sc, dk, om, mode, str(rg)))
                            if st == "same" and len(samples) < 3 and t.variant != "pos" and rg == 0:
                                samples.append({"call": f"{t.func}({t.instantiate(dk, sc, dseed).describe()})", "mode": mode,
                                                "group_reexpressed": rg, "status": st})
                        if st == "differ":
                            for w, x in d:
                                found.setdefault(w, (rg, x))
                        elif st in ("raises-after-reexpression", "raises-before-reexpression"):
                            found.setdefault(st, (rg, d))
                    base = V.base_check(t, dk, sc, dseed, mode, om, dimp, unitless, dimop)
                    bw = {w for w, _x in base}
                    # a sharper classification replaces the generic one for the same defect
                    if "spurious-units" in bw:
                        found.pop("not-covariant", None)
                    if "units-dropped" in bw:
                        found.pop("unitless-changed", None)
                        found.pop("not-covariant", None)
                        found.pop("dimension-changed", None)
                    for w, x in base:
                        key = f"{fid}|{t.variant}|{w}"
                        if key not in fails:
                            fails[key] = dict(kind="base", tid=t.tid, dk=dk, sc=sc, seed=dseed, mode=mode, om=om, what=w, detail=x,
                                              call=f"{t.func}({t.instantiate(dk, sc, dseed).describe()})")
                    for w, (rg, x) in found.items():
                        key = f"{fid}|{t.variant}|{w}"
                        if key not in fails:
                            fails[key] = dict(kind="cov", tid=t.tid, dk=dk, sc=sc, seed=dseed, mode=mode, rg=rg, om=om, what=w, detail=str(x)[:500],
                                              call=f"{t.func}({t.instantiate(dk, sc, dseed).describe()})")
    return dict(stats=stats, fails=fails, compared=sorted(compared), samples=samples)


def hist_pass(job):
    """direct oracle under a history: every template x shape class (first dtype) x one kind of registry edit between a
    warming call and the compared call (c07_hist.history_compare)"""
    dseed, edits, only = job
    _setup()
    import npcatalog as C
    import c07_hist as H

    stats, fails, compared = {}, {}, set()
    n = 0
    for t in C.templates():
        fid = t.func if t.is_method else C.canonical_func(t)
        if only is not None and fid not in only:
            continue
        dk = dtypes_of(t)[0]
        for sc in t.shapes:
            edit = edits[n % len(edits)]
            n += 1
            for ed in (edits if only is not None else (edit,)):
                try:
                    st, d = H.history_compare(t, dk, sc, dseed, ed, "unyt")
                except Exception as e:  # noqa: BLE001
                    st, d = "skip:error-" + type(e).__name__, None
                stats[st] = stats.get(st, 0) + 1
                if st in ("same", "differ"):
                    compared.add((t.tid, sc, dk, "hist", ed))
                if st == "differ":
                    for w, x in d:
                        key = f"{fid}|{t.variant}|stale-after-registry-edit:{w}"
                        if key not in fails:
                            fails[key] = dict(kind="hist", tid=t.tid, dk=dk, sc=sc, seed=dseed, edit=ed, what=w, detail=str(x)[:500],
                                              call=f"{t.func}({t.instantiate(dk, sc, dseed).describe()})")
    return dict(stats={"hist:" + k: v for k, v in stats.items()}, fails=fails, compared=sorted(compared), samples=[])


def run_job(job):
    return hist_pass(job[1:]) if job[0] == "hist" else cov_pass(job)


def history_correspondence(chk, model, recs, reps, memo_rows, tier):
    """`LabelMemo.run` of the compiled model (memo configuration of the regenerated row, exponents of the regenerated
    rule row as `c07.predict` evaluated them) against the real handler under the same random history of registry
    edits and calls: log2(base_value) of the first unit-carrying leaf of every call"""
    import npcatalog as C
    import c07_hist as H

    by_form = {(r["func"], r["variant"]): r for r in memo_rows}
    # the table read back
    try:
        back = model.ask([f"c07.memo\t{r['func']}\t{r['variant']}" for r in memo_rows])
    except Exception as e:  # noqa: BLE001
        back = []
        chk.disagree("driver", repr(e))
    b = lambda v: "1" if v else "0"  # noqa: E731
    for r, rp in zip(memo_rows, back):
        want = ",".join((b(r["memo"]), b(r["byReg"]), b(r["byExpr"]), b(r["byScale"])))
        if rp[0] != "ok" or rp[1] != want or rp[2] != str(len(memo_rows)):
            chk.disagree("c07.memo", f"{r['func']}|{r['variant']}: model {rp} translator {want} of {len(memo_rows)} rows")
    todo, seen = [], set()
    for r, rp in zip(recs, reps):
        k = (r["func"], r["variant"])
        if k in seen or k not in by_form or r["outcome"] != "ok" or r["out_mode"] != "unyt" or rp[0] != "ok" or len(rp) < 3:
            continue
        preds = rp[2].split(" ") if rp[2] else []
        if len(preds) != len(r["leaves"]):
            continue
        carr = [i for i, lf in enumerate(r["leaves"]) if lf["carries"]]
        if not carr:
            continue
        pm = parse_label(preds[carr[0]].partition("|")[2])
        if pm is None or not pm[0] or any(g not in ("0", "1", "2") for g in pm[0]):
            continue
        seen.add(k)
        todo.append((r, pm[0]))
    if tier == "quick":
        memoised = [x for x in todo if by_form[(x[0]["func"], x[0]["variant"])]["memo"]]
        rest = [x for x in todo if not by_form[(x[0]["func"], x[0]["variant"])]["memo"]]
        chk.rng.shuffle(rest)
        todo = memoised[:40] + rest[:60]
    lines, cases = [], []
    for r, ex in todo:
        groups = sorted(int(g) for g in ex)
        ev = H.random_history(chk.rng)
        init, evs = history_wire(H, ev)
        lines.append("\t".join(["c07.history", r["func"], r["variant"], ",".join(map(str, groups)),
                                ",".join(str(ex[str(g)]) for g in groups), init, evs]))
        cases.append((r, ev))
    try:
        ans = model.ask(lines)
    except Exception as e:  # noqa: BLE001
        ans = []
        chk.disagree("driver", repr(e))
    from fractions import Fraction

    for (r, ev), rp in zip(cases, ans):
        tid, dk, sc, seed, _om = r["case"]
        t = [t for t in C.templates() if t.tid == tid][0]
        try:
            real = H.real_history(t, dk, sc, seed, ev)
        except Exception as e:  # noqa: BLE001
            chk.count("history:real-raises-" + type(e).__name__)
            continue
        if rp[0] != "ok":
            chk.disagree("c07.history", f"{tid}: {rp}")
            continue
        model_ans = [Fraction(x) for x in rp[1].split(" ")] if len(rp) > 1 and rp[1] else []
        obs = [lab[0] if lab else None for lab in real]
        chk.count("model:c07.history")
        chk.case(("history", r["func"], r["variant"], tuple(e[0] for e in ev)))
        if len(model_ans) != len(obs) or any(o is None or abs(float(o) - float(m)) > 1e-9 for o, m in zip(obs, model_ans)):
            chk.disagree("c07.history", f"{tid} {r['case'][1:]} history {ev}: model label scales (log2) {[str(x) for x in model_ans]}, "
                                        f"real handler {obs}")


def history_wire(H, ev):
    init = ";".join(f"{rg}.{3 * s + g}={H.LOGBASE[g] + ks[g]}" for (rg, s), ks in H.INITIAL.items() for g in range(3))
    evs = "|".join(f"c:{e[1]}:{e[2]}" if e[0] == "call" else
                   f"m:{e[1]}:{e[2]}:" + ",".join(str(H.LOGBASE[g] + e[3][g]) for g in range(3)) for e in ev)
    return init, evs


def rule_history_correspondence(chk, model, tier):
    """the memoised unit rules of unyt/array.py (`_unit_rule_cache`): `LabelMemo.run` / `missesOf` with the key the
    translator read off cache hits and misses, against the ufunc each rule serves under the same random history"""
    from fractions import Fraction

    import c07_hist as H

    try:
        RR = json.load(open(os.path.join(core.BUILD, "extract_c07_rulememo.json"), encoding="utf-8"))["rows"]
    except Exception as e:  # noqa: BLE001
        chk.disagree("translator", f"build/extract_c07_rulememo.json unreadable: {e!r}")
        return
    chk.extra["rule_memo_rows"] = len(RR)
    table = H._rule_table()
    b = lambda v: "1" if v else "0"  # noqa: E731
    lines, cases = [], []
    for r in RR:
        name = r["func"].rsplit(".", 1)[1]
        if not (r["memo"] and r["byExpr"] and r["byScale"]):
            chk.disagree("c07.rulememo", f"{r['func']}: the key of the memoised unit rule lacks a component the label depends on "
                                         f"(registry object {r['byReg']}, expression {r['byExpr']}, scale {r['byScale']}): live_rule_memos_adequate fails")
        lines.append(f"c07.memo\t{r['func']}\trule")
        cases.append(("memo", r, None))
        if name not in table:
            chk.disagree("c07.rulememo", f"{r['func']}: a memoised unit rule without a ufunc in c07_hist._rule_table — a new memo must be modelled")
            continue
        _f, groups, expos = table[name]
        for _ in range(4 if tier == "quick" else 16):
            ev = H.random_history(chk.rng, 8)
            init, evs = history_wire(H, ev)
            lines.append("\t".join(["c07.history", r["func"], "rule", ",".join(map(str, groups)), ",".join(str(x) for x in expos), init, evs]))
            cases.append(("hist", r, ev))
    try:
        ans = model.ask(lines)
    except Exception as e:  # noqa: BLE001
        chk.disagree("driver", repr(e))
        return
    for (kind, r, ev), rp in zip(cases, ans):
        if kind == "memo":
            want = ",".join((b(r["memo"]), b(r["byReg"]), b(r["byExpr"]), b(r["byScale"])))
            if rp[0] != "ok" or rp[1] != want or rp[3] != str(len(RR)):
                chk.disagree("c07.memo", f"{r['func']}: model {rp} translator {want} of {len(RR)} rules")
            continue
        name = r["func"].rsplit(".", 1)[1]
        try:
            real, misses = H.real_rule_history(name, ev)
        except Exception as e:  # noqa: BLE001
            chk.disagree("c07.history", f"{r['func']} history {ev}: the real ufunc raises {e!r}")
            continue
        chk.count("model:c07.history.rule")
        chk.case(("rule-history", name, tuple(e[:3] for e in ev)))
        if rp[0] != "ok" or len(rp) < 3:
            chk.disagree("c07.history", f"{r['func']}: {rp}")
            continue
        model_ans = [Fraction(x) for x in rp[1].split(" ")] if rp[1] else []
        obs = [lab[0] if lab else None for lab in real]
        if len(model_ans) != len(obs) or any(o is None or abs(float(o) - float(m)) > 1e-9 for o, m in zip(obs, model_ans)):
            chk.disagree("c07.history", f"{r['func']} history {ev}: model label scales (log2) {[str(x) for x in model_ans]}, real ufunc {obs}")
        if int(rp[2]) > misses:
            chk.disagree("c07.history", f"{r['func']} history {ev}: the model misses {rp[2]} times, the real lru_cache only {misses}: "
                                        "the real key is coarser than the regenerated configuration says")


# ---------------------------------------------------------------------------------------
# correspondence: the compiled model's prediction of the unit label against fresh probes


def shape_wire(s):
    return "x".join(str(int(n)) for n in s)


REDUCING = {"numpy.prod": "a"}  # functions whose reference degree is "number of elements combined per result element"


def measured_reduced(r):
    """the number of elements of the operand combined into each result element, MEASURED on the real kernel: the same
    call on bare arrays of twos (scalar operands 1) returns 2**k.  '' when not applicable / not uniform."""
    import math

    import numpy as np

    import npcatalog as C

    p = REDUCING.get(r["func"])
    if p is None or r["outcome"] != "ok":
        return ""
    tid, dk, sc, seed, _om = r["case"]
    t = [t for t in C.templates() if t.tid == tid][0]
    call = t.instantiate(dk, sc, seed)

    def wrap(op):
        d = op.data
        if op.role == "out":
            return np.zeros(np.shape(d), dtype=np.float64)
        if isinstance(d, np.ndarray):
            return np.full(d.shape, 2.0)
        return 1.0

    args, kwargs, _ = call.materialize(wrap)
    kwargs.pop("dtype", None)
    try:
        res = np.asarray(t.invoke(args, kwargs), dtype=np.float64)
    except Exception:  # noqa: BLE001
        return ""
    ks = {round(math.log2(v)) if v > 0 else None for v in res.ravel().tolist()} if res.size else set()
    if len(ks) != 1 or None in ks:
        return ""
    return f"{p}={next(iter(ks))}"


def predict_lines(recs):
    import c07_probe as P

    lines = []
    for r in recs:
        ops = ",".join(f"{n}:{g}" for n, g in r["operands"])
        flags = ",".join(f"{n}={v}" for n, v in r["flags"])
        sizes = ",".join(str(lf["size"]) for lf in r["leaves"])
        shapes = ";".join(f"{n}={shape_wire(s)}" for n, s in r["shapes"].items())
        scales = ";".join(f"{g}={core.f2b(v)}" for g, v in (("0", P.PRIMES[0]), ("1", P.PRIMES[1]), ("2", P.PRIMES[2]), ("out", 11.0)))
        lines.append("\t".join(["c07.predict", r["func"], r["variant"], r["out_mode"], ops, flags,
                                "ok" if r["outcome"] == "ok" else "raise", str(len(r["leaves"])), sizes, shapes, scales,
                                measured_reduced(r)]))
    return lines


def parse_label(s):
    """'g:q;g:q|bits' -> ({g: Fraction}, float) ; '?' -> None"""
    from fractions import Fraction

    if s == "?" or "|" not in s:
        return None
    ex, bits = s.rsplit("|", 1)
    d = {}
    if ex:
        for item in ex.split(";"):
            g, q = item.rsplit(":", 1)
            d[g] = Fraction(q)
    return d, core.b2f(bits)


def observed_label(expo):
    from fractions import Fraction

    if expo is None:
        return None
    return {k[1:]: Fraction(v) for k, v in expo.items() if Fraction(v) != 0}


def probe_pass(seeds):
    _setup()
    import npcatalog as C
    import c07_probe as P
    import unyt._array_functions as AF

    handled = {C.name_of(f) for f in AF._HANDLED_FUNCTIONS}
    recs = []
    for t in C.templates("function"):
        if C.canonical_func(t) not in handled:
            continue
        for sc in t.shapes:
            for dk in dtypes_of(t):
                for seed in seeds:
                    for om in (("unyt", "bare") if t.out_form else ("unyt",)):
                        r = P.probe_case(t, dk, sc, seed, om)
                        if r is not None:
                            recs.append(r)
    return recs


# ---------------------------------------------------------------------------------------


def run(tier, seed):
    _setup()
    import npcatalog as C
    import c07_cov as V
    import unyt._array_functions as AF

    chk = core.Check("C07", tier, seed)
    chk.proof = core.prove("C07", PROOF_MODULES, extra_targets=("drv_c07",), plugins=("c06", "c07"), tier=tier)
    try:
        X = json.load(open(os.path.join(core.BUILD, "extract_c07_unitrules.json"), encoding="utf-8"))
    except Exception as e:  # noqa: BLE001
        X = None
        chk.disagree("translator", f"build/extract_c07_unitrules.json unreadable: {e!r}")
    live_handled = sorted(C.name_of(f) or "?" + getattr(f, "__name__", "") for f in AF._HANDLED_FUNCTIONS)
    missing_f, missing_m = C.coverage()
    if missing_f or missing_m:
        chk.disagree("catalogue", f"no template for functions {missing_f} methods {missing_m}")

    known = [k for k in core.load_known() if k["property"] == "C07" and k.get("status") == "known"]
    known_excl = {e for k in known for e in k.get("excl", [])}
    known_excl_dim = {e for k in known for e in k.get("excl_dim", [])}

    # ------------------------------------------------------------ model: tables read back, reference lists, exclusions
    model = None
    lists = ([], [], {})
    try:
        model = core.Model("drv_c07")
        rep = model.ask(["c07.dump.counts", "c07.exclusions", "c07.ref.lists"])
    except Exception as e:  # noqa: BLE001
        rep = None
        chk.disagree("driver", repr(e))
    if rep is not None:
        rows_with_func = len({r["func"] for r in X["rows"]}) if X else -1
        want = ["ok", str(len(X["rows"]) if X else -1), str(len(X["statics"]) if X else -1), str(rows_with_func)]
        if rep[0] != want:
            chk.disagree("c07.dump.counts", f"model tables {rep[0]} translator {want}")
        if X and sorted({r["func"] for r in X["rows"]}) != live_handled:
            chk.disagree("c07.rows", "the probed functions are not exactly _HANDLED_FUNCTIONS: "
                         f"only probed {sorted({r['func'] for r in X['rows']} - set(live_handled))}, never reached {sorted(set(live_handled) - {r['func'] for r in X['rows']})}")
        excl = set(rep[1][1].split(";")) if len(rep[1]) > 1 and rep[1][1] else set()
        excl_dim = set(rep[1][2].split(";")) if len(rep[1]) > 2 and rep[1][2] else set()
        if excl != known_excl:
            chk.disagree("exclusions", f"Ref.exclC07 and the `excl` fields of known_findings.d/C07.json differ: only in Lean "
                                       f"{sorted(excl - known_excl)}, only in findings {sorted(known_excl - excl)}")
        if excl_dim != known_excl_dim:
            chk.disagree("exclusions", f"Ref.exclC07DimPreserving and the `excl_dim` fields differ: only in Lean "
                                       f"{sorted(excl_dim - known_excl_dim)}, only in findings {sorted(known_excl_dim - excl_dim)}")
        dimp = rep[2][1].split(";") if len(rep[2]) > 1 and rep[2][1] else []
        unitless = rep[2][2].split(";") if len(rep[2]) > 2 and rep[2][2] else []
        dimop = dict(x.split("=", 1) for x in rep[2][3].split(";")) if len(rep[2]) > 3 and rep[2][3] else {}
        lists = (dimp, unitless, dimop)
        cat = {(t.func if t.is_method else C.canonical_func(t)) for t in C.templates()}
        stray = sorted(f for f in dimp + unitless if f not in cat)
        if stray:
            chk.disagree("c07.ref.lists", f"reference lists name functions the catalogue does not have: {stray}")
        chk.extra["dimension_preserving_functions"] = len(dimp)
        chk.extra["unitless_result_functions"] = len(unitless)

    # ------------------------------------------------------------ correspondence: unit labels of fresh probes
    nps = 2 if tier == "quick" else 6
    pseeds = [100 + seed * 13 + i for i in range(nps)]
    suspects = set()
    excl_funcs = {e.split("|")[0] for e in known_excl}  # functions with a recorded rule ≠ reference defect
    if model is not None:
        recs = probe_pass(pseeds)
        try:
            reps = model.ask(predict_lines(recs))
        except Exception as e:  # noqa: BLE001
            reps = []
            chk.disagree("driver", repr(e))
        for r, rp in zip(recs, reps):
            chk.count("model:c07.predict")
            tid = r["case"][0]
            where = f"{tid} {r['case'][1:]} operands {r['operands']} flags {r['flags']}"
            if rp[0] == "other-outcome":
                chk.count("predict:outcome-not-in-table")  # whether NumPy raises depends on the sampled shapes
                continue
            if rp[0] != "ok":
                chk.disagree("c07.predict", f"{where}: no regenerated row for this call form / outcome {r['outcome']} ({rp})")
                suspects.add(r["func"])
                continue
            if r["outcome"] != "ok":
                continue
            chk.case(("predict", r["func"], r["variant"], r["out_mode"], tuple(map(tuple, r["operands"])), tuple(map(tuple, r["flags"]))))
            preds = rp[2].split(" ") if len(rp) > 2 and rp[2] else []
            if len(preds) != len(r["leaves"]):
                chk.disagree("c07.predict", f"{where}: model {len(preds)} leaves, observed {len(r['leaves'])}")
                suspects.add(r["func"])
                continue
            for i, (pl, lf) in enumerate(zip(preds, r["leaves"])):
                car, _, lab = pl.partition("|")
                pm = parse_label(lab)
                ob = observed_label(lf["expo"])
                ok = (car == "1") == lf["carries"] and pm is not None and ob is not None and pm[0] == ob
                if ok and lf["carries"]:
                    ok = core.close(pm[1], lf["base_value"])
                if not ok:
                    chk.disagree("c07.predict", f"{where} leaf {i}: model carries={car} label {lab and pm}; observed carries={lf['carries']} "
                                                f"units {lf.get('units')} base_value {lf.get('base_value')}")
                    suspects.add(r["func"])
            # the hand-written reference, evaluated by the model in the same environment, against the library;
            # and the hypothesis of C07_partial_all_shapes (EnvValidFor) in the environment the driver built
            if len(rp) > 4 and rp[4] != "-" and r["func"] not in excl_funcs:
                for i, (item, lf) in enumerate(zip(rp[4].split(" "), r["leaves"])):
                    body, _, valid = item.rpartition("|")
                    chk.count("model:c07.reference")
                    if valid != "1":
                        chk.disagree("c07.reference", f"{where} leaf {i}: the measured number of combined elements is not size // result.size (EnvValidFor fails)")
                        suspects.add(r["func"])
                    ob = observed_label(lf["expo"]) or {}
                    if body == "u":
                        want = {}
                    else:
                        from fractions import Fraction
                        want = {x.rsplit(":", 1)[0]: x.rsplit(":", 1)[1] for x in body.split(";") if x}
                        try:
                            want = {g: Fraction(q) for g, q in want.items()}
                        except ValueError:
                            want = None
                    if want is None or want != {g: q for g, q in ob.items() if g in ("0", "1", "2")} or any(g not in ("0", "1", "2") for g in ob):
                        chk.disagree("c07.reference", f"{where} leaf {i}: reference degrees {body!r} but the library attached {lf.get('units')}")
                        suspects.add(r["func"])
            if r["out_label"] is not None or (len(rp) > 3 and rp[3] != "-"):
                pm = parse_label(rp[3]) if len(rp) > 3 else None
                ob = observed_label(r["out_label"])
                if pm is None or ob is None or pm[0] != ob:
                    chk.disagree("c07.predict", f"{where}: out= buffer label: model {rp[3] if len(rp) > 3 else None} observed {r['out_label']}")
                    suspects.add(r["func"])

        # C06's interpreter with C07's rule as its `unitRule`: (kernel invoked, label attached) for one probe per call form
        seen_forms = set()
        alines, arecs = [], []
        for r in recs:
            k = (r["func"], r["variant"], r["out_mode"])
            if r["outcome"] != "ok" or not r["leaves"] or k in seen_forms or r["leaves"][0]["expo"] is None:
                continue
            seen_forms.add(k)
            shapes = ";".join(f"{n}={shape_wire(s)}" for n, s in r["shapes"].items())
            alines.append("\t".join(["c07.attach", r["func"], r["variant"], r["out_mode"], shapes, str(r["leaves"][0]["size"])]))
            arecs.append(r)
        try:
            areps = model.ask(alines)
        except Exception as e:  # noqa: BLE001
            areps = []
            chk.disagree("driver", repr(e))
        for r, rp in zip(arecs, areps):
            if rp[0] != "ok" or len(rp) < 3:
                chk.count("attach:" + rp[0])
                continue
            chk.count("model:c07.attach")
            ob = observed_label(r["leaves"][0]["expo"])
            want = "*".join(f"u{g}^{ob[g].numerator if ob[g].denominator == 1 else str(ob[g].numerator) + '/' + str(ob[g].denominator)}"
                            for g in sorted(ob)) if r["leaves"][0]["carries"] else ""
            if rp[1] != want:  # (which kernel runs is C06's matter: rp[2] is what its regenerated row says)
                chk.disagree("c07.attach", f"{r['case'][0]}: Np.run with the unit rule gives label {rp[1]!r}; observed label {want!r}")
                suspects.add(r["func"])

        # the memo of the label under a history of registry edits (LabelMemo.run) against the real handler
        try:
            MR = json.load(open(os.path.join(core.BUILD, "extract_c07_memo.json"), encoding="utf-8"))["rows"]
        except Exception as e:  # noqa: BLE001
            MR = []
            chk.disagree("translator", f"build/extract_c07_memo.json unreadable: {e!r}")
        history_correspondence(chk, model, recs, reps, MR, tier)
        rule_history_correspondence(chk, model, tier)
        for r in MR:
            if r["memo"] and not (r["byExpr"] and r["byScale"]):
                suspects.add(r["func"])
                chk.disagree("c07.memo", f"{r['func']}|{r['variant']}: the label of the result depends on the history of the process "
                                         f"(memo key: registry object {r['byReg']}, expression {r['byExpr']}, scale {r['byScale']}): "
                                         "live_label_memos_adequate fails")
        chk.extra["memo_rows"] = len(MR)

    # rows whose defects are not on the exclusion list (a broken table obligation names them)
    if model is not None and X:
        try:
            dr = model.ask([f"c07.defects\t{f}" for f in live_handled])
        except Exception as e:  # noqa: BLE001
            dr = []
            chk.disagree("driver", repr(e))
        for f, rp in zip(live_handled, dr):
            ds = rp[1].split(";") if len(rp) > 1 and rp[1] else []
            for d in ds:
                dd = d.split("|", 2)[2]
                if f"{f}|{dd}" not in known_excl:
                    suspects.add(f)
                    chk.disagree("c07.defects", f"{f} [{d}]: the regenerated unit rule is not the reference degree and is not excluded")

    # ------------------------------------------------------------ direct oracle: covariance over the whole catalogue
    if tier == "quick":
        jobs = [(2000 + seed * 31, "p4", "unyt", lists, None), (2001 + seed * 31, "ord", "unyt", lists, None),
                (2002 + seed * 31, "p4", "bare", lists, None), (2003 + seed * 31, "mix", "unyt", lists, None)]
    else:
        modes = ["p4", "ord", "mix", "ord2"]
        jobs = [(3000 + seed * 101 + i, modes[i % 4], "bare" if i % 6 == 5 else "unyt", lists, None) for i in range(24)]
    hist_edits = ("modify", "readd", "otherreg", "othersym")
    jobs.append(("hist", 7000 + seed * 17, hist_edits, None))
    if tier != "quick":
        jobs += [("hist", 7100 + seed * 17 + i, hist_edits[i % 4:] + hist_edits[:i % 4], None) for i in range(1, 4)]
    if suspects:
        jobs.append(("hist", 7500 + seed * 17, hist_edits, sorted(suspects)))
    if suspects:
        # widened search on the functions a broken obligation / disagreement points at
        jobs += [(5000 + seed * 7 + i, m, om, lists, sorted(suspects)) for i in range(3) for m, om in (("p4", "unyt"), ("mix", "unyt"), ("p4", "bare"))]
    with multiprocessing.get_context("fork").Pool(4) as pool:
        results = pool.map(run_job, jobs)
    for res in results:
        for st, n in res["stats"].items():
            chk.count("cov:" + st, n)
        for key in res["compared"]:
            chk.case(tuple(key))
        for s in res["samples"]:
            if len(chk.samples) < 8:
                chk.samples.append(s)
        for key, f in res["fails"].items():
            t = [t for t in C.templates() if t.tid == f["tid"]][0]
            if f["kind"] == "hist":
                import c07_hist as H
                py = H.replay_snippet(t, f["dk"], f["sc"], f["seed"], f["edit"], "unyt", HARNESS)
                what = (f"{f['call']}: after a first call on operands in code units of a custom registry and the registry edit "
                        f"{f['edit']!r} (symbols re-scaled by powers of four), the same call on the same physical operands: {f['what']}: {f['detail']}")
            elif f["kind"] == "base":
                py = V.base_replay_snippet(t, f["dk"], f["sc"], f["seed"], f["mode"], f["om"], HARNESS, f["what"], lists)
                what = f"{f['call']} in base units ({f['mode']}): {f['detail']}"
            else:
                py = V.replay_snippet(t, f["dk"], f["sc"], f["seed"], f["mode"], f["rg"], f["om"], HARNESS, f["what"])
                what = f"{f['call']} ({f['mode']} units, group {f['rg']} re-expressed, out={f['om']}): {f['detail']}"
            chk.fail(key, what, {"python": py, "call": f["call"], "observed": f["detail"]})
    chk.extra["templates"] = len(C.templates())
    chk.extra["handled_functions"] = len(live_handled)
    chk.extra["rule_rows"] = len(X["rows"]) if X else 0
    chk.assumptions = [
        "the homogeneity degree of each NumPy function in each operand is the hand-written reference Ref/C07Degrees.lean (mathematics of the function), not derived from NumPy",
        "the memo configuration of a handler (Generated/C07Memo.lean) is inferred from three two-call history probes per call form (scale edited in place, other registry object, other expression); a memo that needs a longer history to leak is seen by the history oracle only",
        "default-path functions (no handler: func._implementation on the subclass, __array_finalize__/__array_ufunc__ wrap-up) and ndarray methods are covered by the correspondence (covariance oracle) only",
        "the regenerated rows describe the catalogue's call forms (shapes sampled, shape-dependent exponents fitted and cross-checked with the ast pass); other call forms are covered by the ast pass only",
        "theorems are over exact fields with lawful rational powers; floating-point rounding is bounded only by the oracle (bit-for-bit for power-of-four rescalings, 1e-9 relative otherwise)",
    ]
    rule = ("every dispatcher function and every ndarray method/attribute/dunder in npcatalog × call templates × shapes {0-d,1-d,2-d,square,empty} × "
            "{float64,complex128 (int64 where nothing else applies)} × unit modes {power-of-four custom registry (bit for bit), ordinary units (1e-9)} × "
            "re-expressed group {0,1,2,all} × seeded data; distinct = (template, shape, dtype, out mode, unit mode, group) on which both runs returned "
            "(so the results were compared), plus distinct handled call forms whose predicted unit label was compared with the real handler's")
    rc = chk.finish(rule)
    if os.path.abspath(core.REPO) != "/repo":
        restore_generated()
    return rc


def restore_generated():
    """a run against a scratch copy (UNYT_REPO) has rewritten lean/UnytModel/Generated from that copy: regenerate the
    tables from /repo and rebuild this check's targets, so that the tree is never left in a mutant's state"""
    import subprocess

    env = dict(os.environ, UNYT_REPO="/repo")
    subprocess.run([core.PY, os.path.join(core.VERIF, "tools", "extract_tables.py"), "--only", "c06,c07"], env=env,
                   capture_output=True, text=True)
    core.lake_build(PROOF_MODULES + ["drv_c07"])
