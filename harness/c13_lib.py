"""C13 — standalone interpreter of world histories on the REAL library (imports only unyt and the
standard library; no harness imports: its source is pasted into replay snippets).

A history is a list of JSON-able steps over registries numbered in creation order (0 = the default
registry) and user dicts numbered in creation order:

  ["fresh", add_defaults, usys]                    UnitRegistry(add_default_symbols=…, unit_system=…)
  ["dict", [[sym, value, dimkey, offset, pf], …]]   d = {…}
  ["fromdict", d, add_defaults]                    UnitRegistry(lut=d, add_default_symbols=…)
  ["route", name, src]                             registry-level route (copy / deepcopy / json / pickle)
  ["routeobj", name, src, q]                       route through a unit / array / quantity built from q in src
  ["sibling", name, src, q]                        two objects restored together (ONE pickle / deepcopy / text)
  ["unitcopy", src, qa, qb]                        (Unit(qa)*Unit(qb)).copy().registry
  ["op", r, kind, …]                               add / addbad / modf / rm / unit / has / get / sysid
  ["defunit", r, sym, v, q, pf]                    define_unit(sym, (v, q), prefixable=pf, registry=r)
  ["newsys", r, name, [length, mass, time]]        UnitSystem(name, …, registry=r)
  ["mixed", a, b, form, qa, qb]                    arithmetic between objects of registries a and b
  ["namespace", r, "symbols"|"constants"]          add_symbols / add_constants(namespace, registry=r)
  ["convert", a, b, ep, how, qa, qb]               data of registry a (unit qa) converted through entry point ep
                                                   to qb given as a unit OBJECT of registry b (how="obj") or as a
                                                   string (how="str")

`World.step` executes one step and returns its canonical outcome; `World.observe(i)` is a NON-mutating
observation of what registry i resolves (table rows that were not written back, the resolution of a
fixed probe set against a throw-away copy, whose registry each cached unit belongs to); `World.sharing()`
is the partition of the registries by identity of their three containers.
"""
import copy
import pickle

DIMS = {"length": "D.length", "time": "D.time", "mass": "D.mass", "length/time": "D.length/D.time"}
PROBES = ["foo", "kfoo", "Mfoo", "foo*s", "zot", "kzot", "foo/zot", "m", "km", "pc", "kpc", "mile", "g", "s", "K",
          "degC", "J", "km/s", "bar", "qux", "kqux"]
BUILTIN_CONVERSIONS = [("km", "mile"), ("pc", "ly"), ("J", "erg"), ("hr", "s"), ("degC", "K"), ("lb", "kg"),
                       ("Msun", "g"), ("eV", "J"), ("inch", "cm"), ("G", "T")]


CONVERT_EPS = ["to", "in_units", "convert_to_units", "ctor_array", "ctor_quantity", "to_value", "ufunc_add"]
METHOD_EPS = ("to", "in_units", "convert_to_units")


def entry_point(name, x, target):
    """conversion entry point `name` on data `x` with a target unit (object or string) -> the unit object the
    result carries (None: the result carries no unit)"""
    import numpy as np
    from unyt import Unit, unyt_array, unyt_quantity

    if name == "to":
        return x.to(target).units
    if name == "in_units":
        return x.in_units(target).units
    if name == "convert_to_units":
        x.convert_to_units(target)
        return x.units
    if name == "ctor_array":
        return unyt_array(x, target).units
    if name == "ctor_quantity":
        return unyt_quantity(x[0], target).units
    if name == "to_value":
        x.to_value(target)
        return None
    if name == "ufunc_add":
        t = target if not isinstance(target, str) else Unit(target, registry=x.units.registry)
        return np.add(x, unyt_array([4.0, 5.0], t)).units
    raise ValueError(name)


def dims(key):
    import unyt.dimensions as D

    return eval(DIMS.get(key, key), {"D": D})


def row(value, dimkey, offset, pf):
    return (float(value), dims(dimkey), float(offset), r"\rm{x}", bool(pf))


def exc(e):
    return ("err", type(e).__name__)


def describe(u):
    return ("unit", float(u.base_value), str(u.dimensions), float(u.base_offset))


def _pure_lookup(sym, lut):
    """`_lookup_unit_symbol` on a COPY of the table (no write-back reaches the registry)"""
    from unyt.unit_registry import _lookup_unit_symbol

    try:
        d = _lookup_unit_symbol(sym, dict(lut))
        return (float(d[0]), str(d[1]), float(d[2]))
    except Exception as e:  # noqa: BLE001
        return type(e).__name__


class World:
    def __init__(self):
        from unyt.unit_registry import default_unit_registry

        self.regs = [default_unit_registry]
        self.group = [0]  # registries that may legitimately share containers carry the same group
        self.route = ["default"]
        self.dicts = []
        self.dict_group = []
        self.ngroups = 1
        self.nsys = 0

    # ------------------------------------------------------------------ bookkeeping
    def _new(self, reg, group, route):
        for i, r in enumerate(self.regs):
            if r is reg:
                return i
        self.regs.append(reg)
        self.group.append(group)
        self.route.append(route)
        return len(self.regs) - 1

    def _newgroup(self):
        self.ngroups += 1
        return self.ngroups - 1

    # ------------------------------------------------------------------ one step
    def step(self, st):
        """-> (outcome tuple, [indices of registries this step created], index acted through or None)"""
        kind = st[0]
        try:
            return getattr(self, "_" + kind)(*st[1:])
        except Exception as e:  # noqa: BLE001
            return exc(e), [], None

    def _nop(self):
        return ("nop",), [], None

    def _fresh(self, ad, usys):
        from unyt.unit_registry import UnitRegistry

        r = UnitRegistry(add_default_symbols=bool(ad), unit_system=usys)
        i = self._new(r, self._newgroup(), "fresh")
        return ("reg", i), [i], None

    def _dict(self, rows):
        d = {s: row(v, dk, off, pf) for s, v, dk, off, pf in rows}
        self.dicts.append(d)
        self.dict_group.append(self._newgroup())
        return ("cell", len(self.dicts) - 1), [], None

    def _fromdict(self, di, ad):
        from unyt.unit_registry import UnitRegistry

        d = self.dicts[di]
        was_empty = len(d) == 0
        r = UnitRegistry(lut=d, add_default_symbols=bool(ad))
        # an empty dict is replaced by the constructor: that registry is on its own
        g = self._newgroup() if was_empty else self.dict_group[di]
        i = self._new(r, g, "fromdict")
        return ("reg", i), [i], None

    SHALLOW = ("copy_registry", "unit_copy")

    def _route(self, name, src):
        from unyt.unit_registry import UnitRegistry

        s = self.regs[src]
        new = {
            "copy_registry": lambda: copy.copy(s),
            "deepcopy_registry": lambda: copy.deepcopy(s),
            "json": lambda: UnitRegistry.from_json(s.to_json()),
            "pickle_registry": lambda: pickle.loads(pickle.dumps(s)),
        }[name]()
        g = self.group[src] if name in self.SHALLOW else self._newgroup()
        i = self._new(new, g, name)
        return ("reg", i), [i], src

    def _routeobj(self, name, src, q):
        from unyt import Unit, unyt_array, unyt_quantity

        s = self.regs[src]
        try:
            u = Unit(q, registry=s)
        except Exception as e:  # noqa: BLE001
            return exc(e), [], src
        arr = lambda: unyt_array([1.0, 2.0], u)  # noqa: E731
        qty = lambda: unyt_quantity(3.0, u)  # noqa: E731
        new = {
            "pickle_unit": lambda: pickle.loads(pickle.dumps(u)).registry,
            "pickle_array": lambda: pickle.loads(pickle.dumps(arr())).units.registry,
            "pickle_quantity": lambda: pickle.loads(pickle.dumps(qty())).units.registry,
            "unit_copy_deep": lambda: u.copy(deep=True).registry,
            "deepcopy_unit": lambda: copy.deepcopy(u).registry,
            "deepcopy_array": lambda: copy.deepcopy(arr()).units.registry,
            "deepcopy_quantity": lambda: copy.deepcopy(qty()).units.registry,
        }[name]()
        i = self._new(new, self._newgroup(), name)
        return ("reg", i), [i], src

    def _sibling(self, name, src, q):
        from unyt import Unit, unyt_array, unyt_quantity
        from unyt.unit_registry import UnitRegistry

        s = self.regs[src]
        try:
            u = Unit(q, registry=s)
        except Exception as e:  # noqa: BLE001
            return exc(e), [], src
        if name == "sibling_pickle_arrays":
            a, b = pickle.loads(pickle.dumps((unyt_array([1.0, 2.0], u), unyt_quantity(3.0, u))))
            a, b = a.units.registry, b.units.registry
        elif name == "sibling_pickle_dict":
            d = pickle.loads(pickle.dumps({"x": unyt_array([1.0], u), "y": unyt_array([2.0, 3.0], u)}))
            a, b = d["x"].units.registry, d["y"].units.registry
        elif name == "sibling_deepcopy_arrays":
            a, b = copy.deepcopy([unyt_array([1.0, 2.0], u), unyt_quantity(3.0, u)])
            a, b = a.units.registry, b.units.registry
        elif name == "sibling_deepcopy_registries":
            a, b = copy.deepcopy([s, s])
            if a is b:
                # deepcopy's memo: ONE copy referenced twice (no second registry was made)
                i = self._new(a, self._newgroup(), name)
                return ("reg2", i, i), [i], src
        elif name == "sibling_json":
            t = s.to_json()
            a, b = UnitRegistry.from_json(t), UnitRegistry.from_json(t)
        else:
            raise ValueError(name)
        i = self._new(a, self._newgroup(), name)
        j = self._new(b, self._newgroup(), name)
        return ("reg2", i, j), [i, j], src

    def _unitcopy(self, src, qa, qb):
        from unyt import Unit

        s = self.regs[src]
        try:
            u = Unit(qa, registry=s) * Unit(qb, registry=s)
        except Exception as e:  # noqa: BLE001
            return exc(e), [], src
        new = u.copy().registry
        for k, r in enumerate(self.regs):
            if r is new:
                return ("same", k), [], src
        i = self._new(new, self.group[src], "unit_copy")
        return ("reg", i), [i], src

    def _op(self, r, kind, *a):
        from unyt import Unit

        reg = self.regs[r]
        try:
            if kind == "add":
                sym, v, dk, off, pf = a
                reg.add(sym, float(v), dims(dk), offset=(float(off) if off else None), prefixable=bool(pf))
                return ("done",), [], r
            if kind == "addbad":
                reg.add(a[0], 2, dims("length"))
                return ("done",), [], r
            if kind == "modf":
                reg.modify(a[0], float(a[1]))
                return ("done",), [], r
            if kind == "rm":
                reg.remove(a[0])
                return ("done",), [], r
            if kind == "unit":
                return describe(Unit(a[0], registry=reg)), [], r
            if kind == "has":
                return ("bool", a[0] in reg), [], r
            if kind == "get":
                e = reg[a[0]]
                return ("entry", float(e[0]), str(e[1]), float(e[2]), bool(e[4])), [], r
            if kind == "sysid":
                return ("sysid", reg.unit_system_id), [], r
        except Exception as e:  # noqa: BLE001
            return exc(e), [], r
        raise ValueError(kind)

    def _defunit(self, r, sym, v, q, pf):
        from unyt import define_unit

        try:
            define_unit(sym, (float(v), q), prefixable=bool(pf), registry=self.regs[r])
            return ("done",), [], r
        except Exception as e:  # noqa: BLE001
            return exc(e), [], r

    def _newsys(self, r, name, base):
        from unyt.unit_systems import UnitSystem

        try:
            UnitSystem(name, base[0], base[1], base[2], registry=self.regs[r])
            return ("done",), [], r
        except Exception as e:  # noqa: BLE001
            return exc(e), [], r

    def _namespace(self, r, kind):
        """add_symbols / add_constants: a namespace of units / constants bound to registry r"""
        from unyt.unit_systems import add_constants, add_symbols

        ns = {}
        try:
            (add_symbols if kind == "symbols" else add_constants)(ns, registry=self.regs[r])
        except Exception as e:  # noqa: BLE001
            return exc(e), [], r
        # every object of the namespace belongs to r (or to a registry sharing r's containers)
        reg = self.regs[r]
        stray = 0
        for v in ns.values():
            u = v if hasattr(v, "is_Unit") else getattr(v, "units", None)
            if u is not None and not (u.registry is reg or u.registry.lut is reg.lut):
                stray += 1
        return ("namespace", len(ns) > 0, stray), [], r

    def _mixed(self, a, b, form, qa, qb):
        """-> ('mixed', index of the registry the result belongs to or -1, …)"""
        from unyt import Unit, unyt_array, unyt_quantity

        ra, rb = self.regs[a], self.regs[b]
        errs = []
        ua = ub = None
        try:
            ua = Unit(qa, registry=ra)
        except Exception as e:  # noqa: BLE001
            errs.append(e)
        try:
            ub = Unit(qb, registry=rb)
        except Exception as e:  # noqa: BLE001
            errs.append(e)
        if errs:
            return exc(errs[0]), [], a
        def result_registry():
            if form == "unit*":
                return (ua * ub).registry
            if form == "unit/":
                return (ua / ub).registry
            if form == "arr*":
                return (unyt_array([1.0, 2.0], ua) * unyt_quantity(3.0, ub)).units.registry
            if form == "arr/":
                return (unyt_array([1.0, 2.0], ua) / unyt_array([4.0, 5.0], ub)).units.registry
            if form == "arr+":
                return (unyt_array([1.0, 2.0], ua) + unyt_array([4.0, 5.0], ub)).units.registry
            if form == "qty*":
                return (unyt_quantity(2.0, ua) * unyt_quantity(3.0, ub)).units.registry
            raise ValueError(form)

        def index_of(res):
            for i, r in enumerate(self.regs):
                if r is res:
                    return i
            return -1

        def whose(res):
            if res is ua.registry:
                return "left"
            if res is ub.registry:
                return "right"
            return "another registry" if index_of(res) >= 0 else "an unknown registry"

        try:
            warm = whose(result_registry())
            # the same operation with the library's process-wide lru caches emptied (functools' public
            # `cache_clear`): separates "the rule picks the wrong registry" from "a cached result made for
            # equal-looking units of ANOTHER registry was handed out"
            import unyt.array as _ua

            for f in vars(_ua).values():
                if callable(getattr(f, "cache_clear", None)):
                    f.cache_clear()
            cold = whose(result_registry())
        except Exception as e:  # noqa: BLE001
            return exc(e), [], a
        # (`Unit(q, registry=r)` may hand back a cached unit made through a shallow copy of r: "the left
        # operand's registry" is the registry object the left UNIT carries)
        # can the left registry resolve the right operand's symbols at all?  (the rule functions fall back to
        # the right operand's registry when it cannot: `_multiply_units` / `_divide_units`, SymbolNotFoundError)
        left_knows = all(not isinstance(_pure_lookup(str(sym), ua.registry.lut), str) for sym in ub.expr.free_symbols)
        return ("mixed", cold, warm, ua.registry is ub.registry, left_knows), [], a

    def _convert(self, a, b, ep, how, qa, qb):
        """-> ('convert', whose registry the result's unit belongs to, left unit object still of its registry,
        target unit object still of its registry, one registry only)"""
        from unyt import Unit, unyt_array

        ra, rb = self.regs[a], self.regs[b]
        errs = []
        ua = ub = None
        try:
            ua = Unit(qa, registry=ra)
        except Exception as e:  # noqa: BLE001
            errs.append(e)
        if how == "obj":
            try:
                ub = Unit(qb, registry=rb)
            except Exception as e:  # noqa: BLE001
                errs.append(e)
        if errs:
            return exc(errs[0]) + ("operand",), [], a
        home_a, home_b = ua.registry, (ub.registry if ub is not None else None)
        try:
            ru = entry_point(ep, unyt_array([1.0, 2.0], ua), ub if how == "obj" else qb)
        except Exception as e:  # noqa: BLE001
            return exc(e), [], a
        if ru is None:
            whose = "none"
        elif ru.registry is home_a:
            whose = "left"
        elif ru.registry is home_b:
            whose = "right"
        else:
            whose = "another registry"
        return ("convert", whose, ua.registry is home_a, ub is None or ub.registry is home_b,
                home_b is None or home_a is home_b), [], a

    # ------------------------------------------------------------------ observations (non-mutating)
    def observe(self, i):
        """what registry i resolves, without touching it"""
        from unyt import Unit
        from unyt.unit_registry import UnitRegistry

        reg = self.regs[i]
        derived = set(getattr(reg, "_derived_symbols", None) or ())
        rows = {k: (float(v[0]), str(v[1]), float(v[2]), bool(v[4])) for k, v in reg.lut.items() if k not in derived}
        T = UnitRegistry(lut=dict(reg.lut), add_default_symbols=False)
        T._unit_object_cache = dict(reg._unit_object_cache)
        res = {}
        for q in PROBES:
            try:
                res[q] = describe(Unit(q, registry=T))[1:]
            except Exception as e:  # noqa: BLE001
                res[q] = type(e).__name__
        # a cached unit is foreign when resolving through ITS registry is not resolving through this one
        foreign = sorted(k for k, u in reg._unit_object_cache.items()
                         if not (u.registry is reg or (u.registry.lut is reg.lut
                                                       and u.registry._unit_object_cache is reg._unit_object_cache)))
        return {"rows": rows, "resolves": res, "foreign_cached": foreign,
                "usys": getattr(reg.unit_system, "name", str(reg.unit_system))}

    def sharing(self):
        """identity classes of the three containers, the module table and the user dicts"""
        from unyt._unit_lookup_table import default_unit_symbol_lut

        def classes(objs):
            ids = {}
            out = []
            for o in objs:
                out.append(ids.setdefault(id(o), len(ids)))
            return out

        luts = classes([default_unit_symbol_lut] + [r.lut for r in self.regs] + list(self.dicts))
        caches = classes([r._unit_object_cache for r in self.regs])
        ders = classes([getattr(r, "_derived_symbols", None) for r in self.regs])
        return {"luts": luts, "caches": caches, "derived": ders}

    def dump(self, i):
        """what registry i holds, for the comparison with the model"""
        from unyt.unit_registry import _NonModifiableUnitRegistry

        reg = self.regs[i]
        return {"rows": {k: (float(v[0]), str(v[1]), float(v[2]), bool(v[4])) for k, v in reg.lut.items()},
                "cache": sorted(reg._unit_object_cache), "derived": sorted(getattr(reg, "_derived_symbols", None) or ()),
                "frozen": isinstance(reg, _NonModifiableUnitRegistry),
                "usys": getattr(reg.unit_system, "name", str(reg.unit_system))}


def default_observation():
    """the library-wide things the property names: the exported units and constants, and conversions
    between built-in units"""
    import unyt
    from unyt import unyt_quantity

    exported = {}
    for k, v in vars(unyt).items():
        if isinstance(v, type):
            continue
        if hasattr(v, "is_Unit"):
            exported[k] = ("unit", str(v), float(v.base_value), float(v.base_offset))
        elif hasattr(v, "units") and hasattr(v, "value") and getattr(v, "shape", None) == ():
            exported[k] = ("quantity", float(v.value), str(v.units), float(v.units.base_value))
    conv = {}
    for a, b in BUILTIN_CONVERSIONS:
        try:
            conv[f"{a}->{b}"] = float(unyt_quantity(1.5, a).to(b).value)
        except Exception as e:  # noqa: BLE001
            conv[f"{a}->{b}"] = type(e).__name__
    return {"exported": exported, "conversions": conv}


def close(x, y):
    if isinstance(x, float) and isinstance(y, float):
        return x == y or abs(x - y) <= 1e-12 * max(abs(x), abs(y))
    if isinstance(x, (tuple, list)) and isinstance(y, (tuple, list)):
        return len(x) == len(y) and all(close(a, b) for a, b in zip(x, y))
    if isinstance(x, dict) and isinstance(y, dict):
        return x.keys() == y.keys() and all(close(x[k], y[k]) for k in x)
    return x == y


def diff(x, y, limit=4):
    out = []
    for k in sorted(set(x) | set(y)):
        if not close(x.get(k), y.get(k)):
            out.append(f"{k}: {x.get(k)} -> {y.get(k)}")
    return out[:limit]


def edits_default(st, W=None):
    """steps that legitimately change what the default registry contains: `add` / `define_unit` through it
    (or through a shallow copy of it, which shares its table by design)"""
    def is_default(r):
        return r == 0 or (W is not None and r < len(W.group) and W.group[r] == 0)

    return (st[0] == "op" and st[2] == "add" and is_default(st[1])) or (st[0] == "defunit" and is_default(st[1]))


def oracle(hist):
    """Executes `hist` and checks the property's clauses directly on the real library (never consults the
    model).  -> list of failures {key, what, step}."""
    W = World()
    fails = []
    base = default_observation()
    obs = {0: W.observe(0)}
    start_rows = dict(obs[0]["rows"])

    def bad(key, what, k):
        fails.append({"key": key, "what": what, "step": k})

    for k, st in enumerate(hist):
        n_before = len(W.regs)
        out, created, through = W.step(st)
        # ---- isolation: a step through registry `through` may change what the registries of ITS group
        # resolve; nobody else's.  A creation changes nobody's (a `lut=` dict receiving the defaults is its
        # own group).
        g = None if through is None else W.group[through]
        if st[0] == "fromdict" and created:
            g = W.group[created[0]]
        # building the TARGET unit of a conversion is a look-up through the target's registry (it may write derived
        # prefixed rows into that registry's table, which registries made from the same `lut=` dict share by design)
        g2 = W.group[st[2]] if st[0] == "convert" and st[4] == "obj" and st[2] < len(W.group) else g
        for i in range(n_before):
            now = W.observe(i)
            if W.group[i] not in (g, g2) and not (i == 0 and edits_default(st, W)):
                d = diff(obs[i]["rows"], now["rows"]) + diff(obs[i]["resolves"], now["resolves"])
                if d or now["usys"] != obs[i]["usys"]:
                    victim = "default" if i == 0 else W.route[i]
                    actor = st[0] if through is None else W.route[through]
                    bad(f"isolation|{st[0]}:{st[1] if st[0] in ('route', 'routeobj', 'sibling') else (st[2] if st[0] == 'op' else '')}|victim={victim}|actor={actor}",
                        f"step {k} {st} changed what registry {i} ({victim}) resolves: {d}", k)
            if now["foreign_cached"]:
                bad(f"foreign-cached-unit|{W.route[i]}",
                    f"after step {k} {st} the string cache of registry {i} holds units of another registry: {now['foreign_cached'][:3]}", k)
            obs[i] = now
        for i in created:
            obs[i] = W.observe(i)
            if obs[i]["foreign_cached"]:
                bad(f"foreign-cached-unit|{W.route[i]}",
                    f"registry {i} made by step {k} {st} holds cached units of another registry: {obs[i]['foreign_cached'][:3]}", k)
        # ---- sharing: registries of different groups share no container; nobody holds the module table
        sh = W.sharing()
        if sh["luts"].count(sh["luts"][0]) > 1:
            bad("module-table-shared", f"after step {k} {st} a registry or dict IS default_unit_symbol_lut", k)
        n = len(W.regs)
        for i in range(n):
            for j in range(i + 1, n):
                if W.group[i] != W.group[j]:
                    for what, cl in (("lut", sh["luts"][1:1 + n]), ("cache", sh["caches"]), ("derived", sh["derived"])):
                        if cl[i] == cl[j]:
                            bad(f"shared-{what}|{W.route[i]}|{W.route[j]}",
                                f"after step {k} {st} registries {i} ({W.route[i]}) and {j} ({W.route[j]}) share their {what}", k)
        # ---- the default registry refuses
        if st[0] == "op" and st[2] in ("modf", "rm") and W.regs[st[1]] is W.regs[0]:
            if out != ("err", "TypeError"):
                bad(f"default-accepts|{st[2]}", f"step {k} {st} on the default registry answered {out}", k)
        # ---- the library-wide observations
        cur = default_observation()
        if not edits_default(st, W):
            d = diff(base["exported"], cur["exported"])
            if d:
                bad(f"exported-changed|{st[0]}", f"step {k} {st} changed the unyt namespace: {d}", k)
        else:
            gone = [x for x in base["exported"] if not close(base["exported"][x], cur["exported"].get(x))]
            if gone:
                bad("exported-changed|existing-name", f"step {k} {st} changed existing unyt names {gone[:3]}", k)
        d = diff(base["conversions"], cur["conversions"])
        if d and not edits_default(st, W):
            bad(f"builtin-conversion-changed|{st[0]}", f"step {k} {st} changed conversions between built-in units: {d}", k)
        base = cur
        # ---- the default registry's own rows only grow by add/define_unit
        if not edits_default(st, W):
            d = diff(start_rows, obs[0]["rows"])
            if d:
                bad(f"default-table-changed|{st[0]}", f"after step {k} {st} the default registry's table differs: {d}", k)
        else:
            start_rows = dict(obs[0]["rows"])
        if st[0] == "namespace" and out[0] == "namespace" and out[2]:
            bad(f"namespace-object-of-another-registry|{st[2]}",
                f"step {k} {st}: {out[2]} objects of the namespace belong to a registry other than the one it was made from", k)
        # ---- mixing: the left operand's registry
        if st[0] == "mixed" and out[0] == "mixed":
            same = "same-registry" if out[3] else "two-registries"
            if out[1] != "left":
                lacks = "" if out[4] else "|left-registry-lacks-the-symbol"
                bad(f"mixed-result-registry|{st[3]}|{same}|{out[1]}{lacks}",
                    f"step {k} {st}: the result belongs to {out[1]} registry, not to the left operand's", k)
            elif out[2] != "left":
                bad(f"mixed-result-registry|cached-result-of-another-registry|{st[3]}",
                    f"step {k} {st}: the result belongs to {out[2]} registry, not to the left operand's — with the "
                    "library's lru caches emptied first it belongs to the left operand's: a cached result computed for "
                    "equal-looking units of another registry was handed out", k)
        # ---- a conversion between registries writes to neither: the unit OBJECTS handed in still belong to
        # their registries (they are shared: `Unit(s, registry=r)` and the unyt namespace hand out the same object)
        if st[0] == "convert" and out[0] == "convert":
            same = "same-registry" if out[4] else "two-registries"
            for ok, which in ((out[2], "data-unit"), (out[3], "target-unit")):
                if not ok:
                    bad(f"mixed-writes-operand|convert:{st[3]}|{st[4]}|{which}-moved-to-another-registry",
                        f"step {k} {st}: after the conversion the {which} object passed in belongs to another registry "
                        "than before (its `registry` attribute was assigned): everybody holding that object — the "
                        "string cache of its registry, the unyt namespace — now resolves through the other registry", k)
            if st[3] in METHOD_EPS and out[1] not in ("left", "none"):
                bad(f"mixed-result-registry|convert:{st[3]}|{st[4]}|{same}|{out[1]}",
                    f"step {k} {st}: the converted data belong to {out[1]} registry, not to the registry of the data", k)
    return fails


# --------------------------------------------------------------------------------------
# `Unit` objects as shared mutable objects (model: UnytModel/UnitHome.lean)

HOME_EXPORTED = ["m", "km", "s", "g"]
HOME_LENGTHS = ["m", "km", "cm", "pc", "mile", "ft"]
# (`ufunc_add` labels its result with the DATA's unit: it is arithmetic, covered by the world histories)
HOME_EPS = [e for e in CONVERT_EPS if e != "ufunc_add"]


class HomeWorld:
    """registries 0 (default) … n (fresh `UnitRegistry()`), and every `Unit` object a step handed out, numbered in
    the order of first appearance (the exported objects first)

      ["lookup", r, s]                 Unit(s, registry=r)
      ["clear", r]                     an edit through r (add of a new symbol): the string cache is emptied
      ["arith", x, y, "*"|"/"]         objs[x] * objs[y]
      ["construct", u, reg|None, bp]   unyt_array(v, objs[u], registry=reg, bypass_validation=bp).units
      ["convert", ep, x, how, arg]     data labelled objs[x] converted through ep to objs[arg] / to the string arg
    object references are taken modulo the number of objects known when the step runs"""

    def __init__(self, nregs):
        import unyt
        from unyt.unit_registry import UnitRegistry, default_unit_registry

        self.regs = [default_unit_registry] + [UnitRegistry() for _ in range(nregs)]
        self.objs = [getattr(unyt, n) for n in HOME_EXPORTED]
        self.seed = [(n, default_unit_registry._unit_object_cache.get(n) is getattr(unyt, n)) for n in HOME_EXPORTED]
        self.nclear = 0
        self.tainted = False
        # what importing the library left in the default registry's string cache beside the exported objects is
        # dropped (as any edit of a registry does), so that every cached object is one this history handed out
        keep = {id(u) for u in self.objs}
        for k_ in [k_ for k_, u in default_unit_registry._unit_object_cache.items() if id(u) not in keep]:
            del default_unit_registry._unit_object_cache[k_]
        self.residue = set()

    def idx(self, u):
        for i, o in enumerate(self.objs):
            if o is u:
                return i
        self.objs.append(u)
        self.residue.discard(id(u))
        return len(self.objs) - 1

    def sweep(self):
        """number the unit objects a step put into a string cache without handing them out"""
        for reg in self.regs:
            for u in list(reg._unit_object_cache.values()):
                if id(u) not in self.residue:
                    self.idx(u)

    def home(self, u):
        for i, r in enumerate(self.regs):
            if u.registry is r:
                return i
        return -1

    def homes(self):
        return [self.home(u) for u in self.objs]

    def cache(self, r):
        out = []
        for s_, u in self.regs[r]._unit_object_cache.items():
            k = [i for i, o in enumerate(self.objs) if o is u]
            out.append(f"{s_}={k[0] if k else '?'}")
        return sorted(out)

    def resolve(self, st):
        """the step with its object references resolved, or None when it cannot run (dimension mismatch …)"""
        n = len(self.objs)
        k = st[0]
        if k in ("lookup", "clear"):
            return list(st) if st[1] < len(self.regs) and not (k == "clear" and st[1] == 0) else None
        if k == "arith":
            return ["arith", st[1] % n, st[2] % n, st[3]]
        if k == "construct":
            if st[2] is not None and st[2] >= len(self.regs):
                return None
            return ["construct", st[1] % n, st[2], bool(st[3])]
        if k == "convert":
            import unyt.dimensions as D

            x = st[2] % n
            if self.objs[x].dimensions != D.length or self.objs[x].base_offset:
                return None
            if st[3] == "obj":
                a = st[4] % n
                if self.objs[a].dimensions != D.length:
                    return None
                return ["convert", st[1], x, "obj", a]
            return ["convert", st[1], x, "str", st[4]]
        raise ValueError(st)

    def step(self, st):
        """`st` resolved -> ('obj', index, home) | ('ok',) | ('err', name)"""
        import numpy as np
        from unyt import Unit, unyt_array
        import unyt.dimensions as D

        k = st[0]
        try:
            if k == "lookup":
                u = Unit(st[2], registry=self.regs[st[1]])
            elif k == "clear":
                self.nclear += 1
                self.regs[st[1]].add(f"c13h{self.nclear}", 2.0, D.length)
                return ("ok",)
            elif k == "arith":
                a, b = self.objs[st[1]], self.objs[st[2]]
                u = a * b if st[3] == "*" else a / b
            elif k == "construct":
                reg = None if st[2] is None else self.regs[st[2]]
                if st[3] and reg is not None and self.objs[st[1]].registry is not reg:
                    self.tainted = True  # the user asked for the re-labelling (documented to skip every check)
                u = unyt_array(np.array([1.0, 2.0]), self.objs[st[1]], registry=reg, bypass_validation=bool(st[3])).units
            elif k == "convert":
                x = unyt_array([1.0, 2.0], self.objs[st[2]])
                u = entry_point(st[1], x, self.objs[st[4]] if st[3] == "obj" else st[4])
                if u is None:
                    return ("ok",)
            else:
                raise ValueError(st)
        except Exception as e:  # noqa: BLE001
            return exc(e)
        i = self.idx(u)
        return ("obj", i, self.home(u), str(u))


def home_oracle(hist, nregs=2):
    """runs a history of unit-object steps on the real library and checks directly: no step (other than the
    user-level constructor with registry= AND bypass_validation=True) changes the registry of a unit object that
    existed; every registry's string cache holds units of that registry only; `Unit(s, registry=r)` belongs to r.
    -> (failures, trace)"""
    W = HomeWorld(nregs)
    fails, trace = [], []
    seed = list(W.seed)
    for k, st0 in enumerate(hist):
        st = W.resolve(st0)
        if st is None:
            trace.append(None)
            continue
        before = [u.registry for u in W.objs]
        out = W.step(st)
        W.sweep()
        tag = st[0] + (":" + st[1] + "|" + st[3] if st[0] == "convert" else "")
        if not W.tainted:
            moved = [i for i, (u, r) in enumerate(zip(W.objs, before)) if u.registry is not r]
            if moved:
                fails.append({"key": f"unit-object-moved-to-another-registry|{tag}", "step": k,
                              "what": f"step {k} {st}: unit object(s) {moved[:3]} ({[str(W.objs[i]) for i in moved[:3]]}) that existed "
                                      "before the step belong to another registry after it"})
            for r, reg in enumerate(W.regs):
                foreign = sorted(s_ for s_, u in reg._unit_object_cache.items() if u.registry is not reg)
                if foreign:
                    fails.append({"key": f"cache-hands-out-foreign-unit|{tag}", "step": k,
                                  "what": f"after step {k} {st} the string cache of registry {r} holds units of another registry: {foreign[:3]}"})
            if st[0] == "lookup" and out[0] == "obj" and out[2] != st[1]:
                fails.append({"key": "lookup-answers-with-foreign-unit", "step": k,
                              "what": f"step {k} {st}: Unit(s, registry=r) belongs to registry {out[2]}"})
        if fails:
            W.tainted = True  # everything after the first failing step is its consequence
        trace.append({"st": st, "out": list(out), "homes": W.homes(), "caches": [W.cache(r) for r in range(1, len(W.regs))],
                      "tainted": W.tainted})
    return fails, {"seed": seed, "steps": trace, "nregs": nregs}


def replay(hist, key):
    fails = [f for f in oracle(hist) if f["key"] == key]
    assert not fails, fails[0]["what"]


def replay_home(hist, key, nregs=2):
    fails = [f for f in home_oracle(hist, nregs)[0] if f["key"] == key]
    assert not fails, fails[0]["what"]
