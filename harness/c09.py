"""C09 — equivalence conversions are mutually inverse, pure, and match their formulas.

Three layers (DESIGN.md §5 C09, design.d/C09.md):
* proof: tools/extract.d/c09_equiv_formulas.py re-traces every `_convert` branch of the live
  unyt/equivalencies.py into lean/UnytModel/Generated/EquivFormulas.lean; UnytProofs/C09.lean is
  rebuilt (kernel-decided obligations over the whole table + the general theorems);
* correspondence: the compiled model (`drv_c09`) against the real library — the regenerated
  tables read back, the wrapper decision (route / exception) and the numbers of every entry
  point, for all equivalences x ordered pairs x unit spellings x keyword parameters x values;
* direct oracle (never consults the model): inverse, path, closed-form formula, purity,
  in-place = copy, entry points agree, uncovered requests raise InvalidUnitEquivalence.
"""
import itertools
import json
import math
import os

import numpy as np

import core
import gen

PROOF_MODULES = ["UnytProofs.C09", "UnytProofs.C09Units"]
EPS = 2.0 ** -52
LAW_RTOL = 2.0 ** -36  # inverse / path / formula laws on the real code (several roundings + pow)
SAME_RTOL = 2.0 ** -44  # entry points and in-place vs copy: the same arithmetic up to re-association

# unit spellings per dimension: SI, CGS, prefixed, compound, astronomical, imperial
UNIT_POOL = {
    "temperature": ["K", "mK", "kK", "MK", "R", "uK"],
    "energy": ["J", "erg", "eV", "keV", "MeV", "kJ", "cal", "BTU", "Ry", "kg*m**2/s**2", "g*cm**2/s**2", "N*m", "dyn*cm", "W*hr", "Msun*km**2/s**2"],
    "mass": ["kg", "g", "mg", "Msun", "amu", "lb", "me", "Mearth", "ug"],
    "length": ["m", "cm", "km", "angstrom", "nm", "um", "pc", "Mpc", "AU", "ft", "mile", "fm"],
    "rate": ["Hz", "kHz", "GHz", "THz", "1/s", "1/hr", "1/ms", "1/yr", "min**-1"],
    "spatial_frequency": ["1/m", "1/cm", "m**-1", "1/angstrom", "1/km", "1/nm", "1/ft", "1/pc"],
    "velocity": ["m/s", "cm/s", "km/s", "km/hr", "mile/hr", "c", "pc/Myr", "AU/yr", "ft/s"],
    "dimensionless": ["dimensionless", "", "percent", "mol", "Zsun", "cm/m", "mmol"],
    "density": ["kg/m**3", "g/cm**3", "Msun/pc**3", "g/L", "lb/ft**3", "mg/mL", "amu/cm**3", "Msun/kpc**3"],
    "number_density": ["1/m**3", "cm**-3", "1/pc**3", "1/L", "1/mm**3", "1/ft**3", "km**-3"],
    "flux": ["W/m**2", "erg/(s*cm**2)", "kW/m**2", "kg/s**3", "g/s**3", "Lsun/pc**2", "mW/cm**2", "J/(hr*ft**2)"],
}
# other dimensions, for requests no equivalence covers
OTHER_POOL = {"time": ["s", "hr"], "current": ["A"], "angle": ["rad"], "power": ["W"], "force": ["N"], "area": ["m**2"]}
OFFSET_TARGETS = ["degC", "degF"]


BASE_REPS = {
    "mass": ["kg", "g", "Msun", "lb", "mg", "Mearth"],
    "length": ["m", "cm", "km", "pc", "ft", "angstrom", "AU"],
    "time": ["s", "ms", "hr", "yr", "Myr", "us"],
    "temperature": ["K", "mK", "R", "kK"],
}


def compound_unit(rng, d):
    """a compound spelling of the dimension `d` (sympy) over seeded representatives of the base
    dimensions, e.g. energy -> 'g*km**2/hr**2'; None when `d` involves other base dimensions"""
    import unyt.dimensions as ud
    import sympy

    base = {"mass": ud.mass, "length": ud.length, "time": ud.time, "temperature": ud.temperature}
    pd = sympy.sympify(d).as_powers_dict()
    parts = []
    for sym, p in pd.items():
        if sym == 1:
            continue
        hit = [n for n, b in base.items() if b == sym]
        if not hit:
            return None
        p = sympy.Rational(p)
        parts.append(f"{rng.choice(BASE_REPS[hit[0]])}**({int(p.p)}/{int(p.q)})")
    if not parts:
        return None  # dimensionless: ratio spellings such as cm/angstrom are probed by reducible_inputs()
    rng.shuffle(parts)
    return "*".join(parts)


def dim_names():
    import unyt.dimensions as ud

    names = ["temperature", "energy", "mass", "length", "rate", "spatial_frequency", "velocity", "dimensionless",
             "density", "number_density", "flux"]
    return [(n, getattr(ud, n)) for n in names]


def name_of_dim(d, table):
    for n, v in table:
        if d == v:
            return n
    return str(d)


def constants():
    import unyt.physical_constants as pc

    out = {}
    for n in ("kboltz", "clight", "h_mks", "G", "mh", "stefan_boltzmann_constant_mks"):
        out[n] = float(getattr(pc, n + ("" if n.endswith("_mks") else "_mks")).v)
    return out


def reference(eq, a, b):
    """the defining physical formula in SI, written independently of unyt's branches:
    f(x, C, mu, gamma) -> value;  None when this harness has no formula (a new equivalence)"""
    T = {
        ("thermal", "temperature", "energy"): lambda x, C, mu, ga: C["kboltz"] * x,
        ("thermal", "energy", "temperature"): lambda x, C, mu, ga: x / C["kboltz"],
        ("mass_energy", "mass", "energy"): lambda x, C, mu, ga: x * C["clight"] ** 2,
        ("mass_energy", "energy", "mass"): lambda x, C, mu, ga: x / C["clight"] ** 2,
        ("spectral", "length", "rate"): lambda x, C, mu, ga: C["clight"] / x,
        ("spectral", "length", "energy"): lambda x, C, mu, ga: C["h_mks"] * C["clight"] / x,
        ("spectral", "length", "spatial_frequency"): lambda x, C, mu, ga: 1.0 / x,
        ("spectral", "rate", "length"): lambda x, C, mu, ga: C["clight"] / x,
        ("spectral", "rate", "energy"): lambda x, C, mu, ga: C["h_mks"] * x,
        ("spectral", "rate", "spatial_frequency"): lambda x, C, mu, ga: x / C["clight"],
        ("spectral", "energy", "length"): lambda x, C, mu, ga: C["h_mks"] * C["clight"] / x,
        ("spectral", "energy", "rate"): lambda x, C, mu, ga: x / C["h_mks"],
        ("spectral", "energy", "spatial_frequency"): lambda x, C, mu, ga: x / (C["h_mks"] * C["clight"]),
        ("spectral", "spatial_frequency", "length"): lambda x, C, mu, ga: 1.0 / x,
        ("spectral", "spatial_frequency", "rate"): lambda x, C, mu, ga: C["clight"] * x,
        ("spectral", "spatial_frequency", "energy"): lambda x, C, mu, ga: C["h_mks"] * C["clight"] * x,
        ("number_density", "density", "number_density"): lambda x, C, mu, ga: x / (mu * C["mh"]),
        ("number_density", "number_density", "density"): lambda x, C, mu, ga: x * mu * C["mh"],
        ("sound_speed", "temperature", "velocity"): lambda x, C, mu, ga: np.sqrt(ga * C["kboltz"] * x / (mu * C["mh"])),
        ("sound_speed", "energy", "velocity"): lambda x, C, mu, ga: np.sqrt(ga * x / (mu * C["mh"])),
        ("sound_speed", "velocity", "temperature"): lambda x, C, mu, ga: mu * C["mh"] * x ** 2 / (ga * C["kboltz"]),
        ("sound_speed", "velocity", "energy"): lambda x, C, mu, ga: mu * C["mh"] * x ** 2 / ga,
        ("sound_speed", "temperature", "energy"): lambda x, C, mu, ga: C["kboltz"] * x,
        ("sound_speed", "energy", "temperature"): lambda x, C, mu, ga: x / C["kboltz"],
        ("lorentz", "velocity", "dimensionless"): lambda x, C, mu, ga: 1.0 / np.sqrt(1.0 - (x / C["clight"]) ** 2),
        ("lorentz", "dimensionless", "velocity"): lambda x, C, mu, ga: C["clight"] * np.sqrt(1.0 - 1.0 / x ** 2),
        ("schwarzschild", "mass", "length"): lambda x, C, mu, ga: 2.0 * C["G"] * x / C["clight"] ** 2,
        ("schwarzschild", "length", "mass"): lambda x, C, mu, ga: x * C["clight"] ** 2 / (2.0 * C["G"]),
        ("compton", "mass", "length"): lambda x, C, mu, ga: C["h_mks"] / (x * C["clight"]),
        ("compton", "length", "mass"): lambda x, C, mu, ga: C["h_mks"] / (x * C["clight"]),
        ("effective_temperature", "temperature", "flux"): lambda x, C, mu, ga: C["stefan_boltzmann_constant_mks"] * x ** 4,
        ("effective_temperature", "flux", "temperature"): lambda x, C, mu, ga: (x / C["stefan_boltzmann_constant_mks"]) ** 0.25,
    }
    return T.get((eq, a, b))


def relerr(a, b):
    a = np.atleast_1d(np.asarray(a, dtype="float64"))
    b = np.atleast_1d(np.asarray(b, dtype="float64"))
    if a.shape != b.shape:
        return float("inf")
    if not (np.all(np.isfinite(a)) and np.all(np.isfinite(b))):
        return float("inf")
    den = np.maximum(np.abs(a), np.abs(b))
    with np.errstate(all="ignore"):
        r = np.where(den == 0, 0.0, np.abs(a - b) / np.where(den == 0, 1.0, den))
    return float(np.max(r)) if r.size else 0.0


def lorentz_cond(eq, a, x_si, C):
    """condition numbers of the two Lorentz maps at the SI input (1 for the monomial maps)"""
    if eq != "lorentz":
        return 1.0
    x = np.atleast_1d(np.asarray(x_si, dtype="float64"))
    with np.errstate(all="ignore"):
        if a == "velocity":
            b2 = (x / C["clight"]) ** 2
            cf = b2 / (1.0 - b2)  # of v -> gamma
            g2 = 1.0 / (1.0 - b2)
            cg = 1.0 / (g2 - 1.0)  # of gamma -> v at the image
        else:
            cg0 = 1.0 / (x ** 2 - 1.0)  # of gamma -> v
            b2 = 1.0 - 1.0 / x ** 2
            cf0 = b2 / (1.0 - b2)
            cf, cg = cg0, cf0
    v = float(np.max((1.0 + cf) * (1.0 + cg)))
    return v if math.isfinite(v) else float("inf")


def values_for(rng, eq, a, ua_scale, C, tier, n=3):
    """readings in the input unit whose SI magnitudes spread over many decades (inside the domain)"""
    out = []
    for _ in range(n):
        if eq == "lorentz" and a == "velocity":
            beta = rng.choice([10 ** rng.uniform(-3, -0.3), 1 - 10 ** rng.uniform(-4, -0.5)])
            si = beta * C["clight"]
        elif eq == "lorentz":
            si = 1.0 + 10 ** rng.uniform(-4, 3)
        else:
            lo, hi = (-9, 9) if tier == "quick" else (-15, 15)
            si = rng.uniform(1.0, 10.0) * 10 ** rng.randint(lo, hi)
        out.append(si / ua_scale)
    return out


def covered_guard(eq, ua, ub):
    """replay prefix: the request is only required to succeed where the equivalence covers it"""
    return (f"from unyt.equivalencies import equivalence_registry as _R\n"
            f"if not (Unit({ua!r}).dimensions in _R[{eq!r}]._dims and Unit({ub!r}).dimensions in _R[{eq!r}]._dims):\n"
            f"    raise SystemExit(0)  # not a covered request on this tree\n")


def kw_src(kw):
    return "".join(f", {k}={v!r}" for k, v in kw.items())


def snippet(body):
    return ("import numpy as np, unyt\nfrom unyt import unyt_array, unyt_quantity, Unit\n"
            "from unyt.exceptions import InvalidUnitEquivalence\n"
            "def relerr(a, b):\n"
            "    a = np.atleast_1d(np.asarray(a, dtype='float64')); b = np.atleast_1d(np.asarray(b, dtype='float64'))\n"
            "    assert a.shape == b.shape and np.all(np.isfinite(a)) and np.all(np.isfinite(b)), (a, b)\n"
            "    den = np.maximum(np.abs(a), np.abs(b)); den[den == 0] = 1.0\n"
            "    return float(np.max(np.abs(a - b) / den))\n" + body)


class Sweep:
    """one pass of the direct oracle (and, when `model` is set, collection of model lines)"""

    def __init__(self, chk, tier, rng, X, collect_model=True):
        import unyt
        from unyt.equivalencies import equivalence_registry

        self.chk = chk
        self.tier = tier
        self.rng = rng
        self.X = X
        self.C = constants()
        self.dimtab = dim_names()
        self.reg = equivalence_registry
        self.collect = collect_model
        self.mlines = []
        self.mexpect = []
        self.units = {}
        for pool in (UNIT_POOL, OTHER_POOL):
            for dn, names in pool.items():
                ok = []
                for u in names:
                    try:
                        U = unyt.Unit(u)
                    except Exception as e:
                        chk.count("pool-unparsable:" + core.exc_name(e))
                        continue
                    if dn in UNIT_POOL:
                        want = dict(self.dimtab)[dn]
                        if U.dimensions != want:
                            chk.count("pool-wrong-dimension")
                            continue
                    ok.append(u)
                self.units[dn] = ok

    # ---- helpers ----------------------------------------------------------------------
    def dn(self, d):
        return name_of_dim(d, self.dimtab)

    def pool(self, dname, d):
        if dname in self.units and self.units[dname]:
            return self.units[dname]
        return []

    def wire(self, u):
        from unyt import Unit

        return gen.unit_wire_fields(Unit(u))

    def add_model(self, mode, eq, ua, ub, xv, kw, expect, tol, tag):
        if not self.collect:
            return
        try:
            fa, fb_ = self.wire(ua), self.wire(ub)
        except ValueError:
            self.chk.count("model-skip:unit-outside-wire-vocabulary")
            return
        kws = ";".join(f"{k}={core.f2b(v)}" for k, v in kw.items())
        self.mlines.append("\t".join(["c09.convert", mode, eq if eq is not None else "-"] + fa + fb_ + [str(core.f2b(xv)), kws]))
        self.mexpect.append((tag, expect, tol))

    # ---- the unit-carrying run of every chain (correspondence with `Trace.runU`) -------------
    def chains(self):
        """`cls(in_place=…)._convert` called directly on an input in some unit of the source
        dimension: data, `base_value` and dimensions of what it returns (copy) / leaves in the
        array (in place), against the model's call-by-call unit-carrying run of the regenerated chain"""
        from unyt import Unit, unyt_array

        chk, rng = self.chk, self.rng
        self.clines, self.cexpect = [], []
        extra = 2 if self.tier == "quick" else 10
        for eq, cls in self.reg.items():
            accepted = self.param_names(cls)
            for da, db in itertools.permutations(list(cls._dims), 2):
                a = self.dn(da)
                pa = self.pool(a, da)
                if not pa:
                    continue
                units = [pa[0]] + [rng.choice(pa) for _ in range(extra)]
                cu = compound_unit(rng, da)
                if cu is not None:
                    units.append(cu)
                if a == "dimensionless":
                    units = list(dict.fromkeys(units + pa))  # every scaled spelling of a pure number
                for ua in units:
                    kw = {}
                    if accepted and rng.random() < 0.5:
                        kw = {p: round(rng.uniform(0.5, 2.4), 3) for p in accepted if rng.random() < 0.7}
                    kws = ";".join(f"{k}={core.f2b(v)}" for k, v in kw.items())
                    try:
                        scale = float(Unit(ua).base_value)
                    except Exception:
                        continue
                    val = values_for(rng, eq, a, scale, self.C, self.tier, n=1)[0]
                    for mode in ("copy", "inplace"):
                        x = unyt_array(np.array([val], dtype="float64"), ua)
                        try:
                            r = cls(in_place=(mode == "inplace"))._convert(x, db, **kw)
                            res = r if mode == "copy" else x
                            live = (float(np.asarray(res.d).ravel()[0]), float(res.units.base_value), gen.dim_vec(res.units.dimensions))
                        except Exception as e:
                            live = "err:" + core.exc_name(e)
                        chk.case(f"chain|{eq}|{gen.dim_vec(da)}->{gen.dim_vec(db)}|{ua}|{mode}|{sorted(kw)}", None)
                        chk.count("chain:" + ("returned" if not isinstance(live, str) else live))
                        self.clines.append("\t".join(["c09.chain", eq, mode, gen.dim_vec(da), gen.dim_vec(db), str(core.f2b(val)),
                                                      str(core.f2b(scale)), kws]))
                        tol = LAW_RTOL * lorentz_cond(eq, a, val * scale, self.C)
                        self.cexpect.append((f"{eq} {a}->{self.dn(db)} [{ua}] {mode} {kw}", live, tol))

    def check_chains(self, model):
        chk = self.chk
        if not self.clines:
            return
        try:
            replies = model.ask(self.clines)
        except Exception as e:
            chk.disagree("driver", repr(e))
            return
        for rep, (tag, live, tol) in zip(replies, self.cexpect):
            if isinstance(live, str):
                if rep[0] == "ok":
                    chk.disagree("c09.chain", f"{tag}: model {rep}, _convert raised {live}")
                continue
            if rep[0] != "ok":
                chk.disagree("c09.chain", f"{tag}: model {rep}, _convert gave data {live[0]!r} scale {live[1]!r}")
                continue
            md, ms, mdim = core.b2f(rep[1]), core.b2f(rep[2]), rep[3]
            if mdim != live[2]:
                chk.disagree("c09.chain", f"{tag}: model dimension {mdim}, _convert's result has {live[2]}")
                continue
            msi, lsi = md * ms, live[0] * live[1]
            if not (math.isfinite(lsi) and math.isfinite(msi) and relerr(msi, lsi) <= tol):
                chk.disagree("c09.chain", f"{tag}: SI magnitude model {msi!r} (data {md!r} x scale {ms!r}), _convert {lsi!r} "
                                          f"(data {live[0]!r} x scale {live[1]!r}), tolerance {tol:.3g}")
                continue
            same = relerr(ms, live[1]) <= 1e-12
            chk.count("chain-split:" + ("same" if same else "differs"))

    # ---- histories: the same unit pair asked repeatedly with other values / keywords -----------
    def history(self):
        """a conversion is a function of (value, units, keywords) alone: on one (equivalence, input
        unit, target unit) a sequence of requests with different values, different keyword
        arguments, arrays then 0-d quantities, copying then in-place forms; every answer must be
        the defining formula.  The replay is the whole sequence (a remembered factor, branch,
        keyword or instance only shows after an earlier call)."""
        from unyt import Unit, unyt_array, unyt_quantity

        chk, rng, C = self.chk, self.rng, self.C
        for eq, cls in self.reg.items():
            accepted = self.param_names(cls)
            pairs = list(itertools.permutations(list(cls._dims), 2))
            if self.tier == "quick" and len(pairs) > 4:
                pairs = rng.sample(pairs, 4)
            for da, db in pairs:
                a, b = self.dn(da), self.dn(db)
                ref = reference(eq, a, b)
                pa, pb = self.pool(a, da), self.pool(b, db)
                if ref is None or not pa or not pb:
                    continue
                for ua, ub in [(pa[0], pb[0]), (rng.choice(pa), rng.choice(pb))]:
                    sa, sb = float(Unit(ua).base_value), float(Unit(ub).base_value)
                    kw1 = {}
                    kw2 = {p: {"mu": round(rng.uniform(0.5, 2.4), 3), "gamma": rng.choice([1.4, 1.1, 2.0])}.get(p, 1.5) for p in accepted}
                    v1 = values_for(rng, eq, a, sa, C, self.tier)
                    v2 = values_for(rng, eq, a, sa, C, self.tier)
                    # proportional first (what a remembered factor would be learnt from), then not
                    steps = [("to_equivalent", [v1[0], 2.0 * v1[0], 4.0 * v1[0]] if eq != "lorentz" else v1, kw1),
                             ("to_equivalent", v2, kw1), ("to", v1, kw2), ("to_equivalent", v2[:1], kw2),
                             ("quantity", v2[1:2], kw1), ("convert_to_equivalent", v1, kw1), ("to_value", v2, kw1)]
                    src = ""
                    bad = None
                    for i, (entry, vals, kw) in enumerate(steps):
                        mu, ga = kw.get("mu", 0.6), kw.get("gamma", 5.0 / 3.0)
                        kws = kw_src(kw)
                        x_si = np.array(vals, dtype="float64") * sa
                        with np.errstate(all="ignore"):
                            want_si = np.asarray(ref(x_si, C, mu, ga), dtype="float64")
                        tol = LAW_RTOL * lorentz_cond(eq, a, x_si, C)
                        if not (np.all(np.isfinite(want_si)) and math.isfinite(tol)):
                            continue
                        if entry == "quantity":
                            call = f"x = unyt_quantity({vals[0]!r}, {ua!r}); r = x.to_equivalent({ub!r}, {eq!r}{kws}); got = np.atleast_1d(r.d)\n"
                        elif entry == "convert_to_equivalent":
                            call = f"x = unyt_array(np.array({list(vals)!r}), {ua!r}); x.convert_to_equivalent({ub!r}, {eq!r}{kws}); got = x.d\n"
                        elif entry == "to_value":
                            call = f"x = unyt_array(np.array({list(vals)!r}), {ua!r}); got = x.to_value({ub!r}, {eq!r}{kws})\n"
                        else:
                            call = f"x = unyt_array(np.array({list(vals)!r}), {ua!r}); r = x.{entry}({ub!r}, {eq!r}{kws}); got = r.d\n"
                        src += f"_step = 'step {i}: {entry}'\n" + call + f"assert relerr(np.asarray(got) * {sb!r}, np.array({want_si.tolist()!r})) <= {tol!r}, ('step {i}: {entry}', got)\n"
                        chk.case(f"history|{eq}|{a}->{b}|{ua}|{ub}|{i}", None)
                    env = {}
                    try:
                        exec(compile(snippet(covered_guard(eq, ua, ub) + src), "<history>", "exec"), env)
                        chk.count("history:consistent")
                    except SystemExit:
                        chk.count("history:not-covered")
                    except AssertionError:
                        step = str(env.get("_step", "?"))
                        entry = step.split(": ")[-1]
                        chk.fail(f"history|{eq}|{a}->{b}|{entry}", f"after earlier requests on the same units, {step} differs from the defining formula",
                                 {"python": snippet(covered_guard(eq, ua, ub) + src), "equivalence": eq, "units": [ua, ub]})
                    except Exception as e:
                        chk.fail(f"history|{eq}|{a}->{b}|raise|{core.exc_name(e)}", f"a request in a sequence on the same units raised {e!r}",
                                 {"python": snippet(covered_guard(eq, ua, ub) + src), "equivalence": eq, "units": [ua, ub]})

    # ---- integer and single-precision inputs -------------------------------------------------
    def dtypes(self):
        """the formula clause for inputs that are not float64: small whole numbers held as int64
        (copying and in-place forms), int32 and float32 (copying forms).  A ufunc that is exact on
        floats but truncates on integers (`reciprocal`, `floor_divide`, `power` with a negative
        exponent, an `out=` into the integer buffer) only shows here."""
        from unyt import Unit, unyt_array

        chk, C = self.chk, self.C
        for eq, cls in self.reg.items():
            for da, db in itertools.permutations(list(cls._dims), 2):
                a, b = self.dn(da), self.dn(db)
                ref = reference(eq, a, b)
                pa, pb = self.pool(a, da), self.pool(b, db)
                if ref is None or not pa or not pb:
                    continue
                ua, ub = pa[0], pb[0]
                sa, sb = float(Unit(ua).base_value), float(Unit(ub).base_value)
                vals = [100000000, 200000000, 290000000] if (eq == "lorentz" and a == "velocity") else [2, 3, 50]
                with np.errstate(all="ignore"):
                    want_si = np.asarray(ref(np.array(vals, dtype="float64") * sa, C, 0.6, 5.0 / 3.0), dtype="float64")
                for dt, mode in (("int64", "copy"), ("int64", "inplace"), ("int32", "copy"), ("float32", "copy")):
                    tol = (LAW_RTOL if dt == "int64" else 2.0 ** -18) * lorentz_cond(eq, a, np.array(vals, dtype="float64") * sa, C)
                    call = (f"r = x.to_equivalent({ub!r}, {eq!r})" if mode == "copy" else f"x.convert_to_equivalent({ub!r}, {eq!r}); r = x")
                    src = (f"x = unyt_array(np.array({vals!r}, dtype={dt!r}), {ua!r})\n{call}\n"
                           f"assert r.units == Unit({ub!r}), r.units\n"
                           f"assert relerr(np.asarray(r.d, dtype='float64') * {sb!r}, np.array({want_si.tolist()!r})) <= {tol!r}, r\n")
                    chk.case(f"dtype|{eq}|{a}->{b}|{dt}|{mode}", None)
                    try:
                        exec(compile(snippet(covered_guard(eq, ua, ub) + src), "<dtypes>", "exec"), {})
                        chk.count("dtype:" + dt + ":ok")
                    except SystemExit:
                        chk.count("dtype:not-covered")
                    except AssertionError:
                        chk.fail(f"dtype|{eq}|{a}->{b}|{dt}|{mode}", f"{dt} input ({mode}): value or unit differs from the defining formula",
                                 {"python": snippet(covered_guard(eq, ua, ub) + src), "equivalence": eq, "units": [ua, ub]})
                    except Exception as e:
                        chk.fail(f"dtype|{eq}|{a}->{b}|{dt}|{mode}|raise|{core.exc_name(e)}", f"{dt} input ({mode}) raised {e!r}",
                                 {"python": snippet(covered_guard(eq, ua, ub) + src), "equivalence": eq, "units": [ua, ub]})

    # ---- covered requests ---------------------------------------------------------------
    def covered(self, n_units, with_quantity=True):
        import unyt
        from unyt import Unit, unyt_array, unyt_quantity

        chk, rng, C = self.chk, self.rng, self.C
        for eq, cls in self.reg.items():
            dims = list(cls._dims)
            accepted = [p for p in self.param_names(cls)]
            for da, db in itertools.permutations(dims, 2):
                a, b = self.dn(da), self.dn(db)
                pa, pb = self.pool(a, da), self.pool(b, db)
                if not pa or not pb:
                    chk.count("no-unit-pool:" + eq)
                    continue
                pairs = []
                # systematic first pair (SI spellings) + seeded others
                pairs.append((pa[0], pb[0]))
                for i in range(n_units - 1):
                    ua, ub = rng.choice(pa), rng.choice(pb)
                    if i % 2 == 1:  # compound spellings on either side
                        ca, cb = compound_unit(rng, da), compound_unit(rng, db)
                        if ca is not None and rng.random() < 0.7:
                            ua = ca
                        if cb is not None and rng.random() < 0.7:
                            ub = cb
                    pairs.append((ua, ub))
                for (ua, ub) in pairs:
                    kw = {}
                    if accepted and rng.random() < 0.7:
                        for p in accepted:
                            if rng.random() < 0.7:
                                kw[p] = {"mu": round(rng.uniform(0.5, 2.4), 3), "gamma": rng.choice([1.4, 4.0 / 3.0, 1.1, 5.0 / 3.0, 2.0])}.get(p, round(rng.uniform(0.5, 2.0), 3))
                    self.one_case(eq, cls, dims, da, db, a, b, ua, ub, kw, with_quantity)

    def param_names(self, cls):
        import inspect

        return list(inspect.signature(cls._convert).parameters)[3:]

    def defaults(self, cls):
        import inspect

        sig = inspect.signature(cls._convert)
        return {p: sig.parameters[p].default for p in list(sig.parameters)[3:]}

    def one_case(self, eq, cls, dims, da, db, a, b, ua, ub, kw, with_quantity):
        import unyt
        from unyt import Unit, unyt_array, unyt_quantity

        chk, rng, C = self.chk, self.rng, self.C
        Ua, Ub = Unit(ua), Unit(ub)
        vals = values_for(rng, eq, a, float(Ua.base_value), C, self.tier)
        x = unyt_array(np.array(vals, dtype="float64"), ua)
        kws = kw_src(kw)
        head = f"x = unyt_array(np.array({vals!r}), {ua!r})\n"
        keyp = f"{eq}|{a}->{b}"
        before = (x.d.tobytes(), str(x.units), x.dtype.str)
        # documented defaults (class docstrings): mu = 0.6, gamma = 5/3 — not read off the signature
        mu, ga = kw.get("mu", 0.6), kw.get("gamma", 5.0 / 3.0)

        def pure(after_what):
            if (x.d.tobytes(), str(x.units), x.dtype.str) != before:
                chk.fail(f"purity|{keyp}|{after_what}", f"{after_what} changed its input",
                         {"python": snippet(head + f"b0 = (x.d.tobytes(), str(x.units))\nx.{after_what}({ub!r}, {'equivalence=' if after_what in ('in_units', 'to_value', 'to') else ''}{eq!r}{kws})\nassert (x.d.tobytes(), str(x.units)) == b0, x\n"),
                          "equivalence": eq, "units": [ua, ub]})
                return False
            return True

        res = {}
        entry_src = {"to_equivalent": f"x.to_equivalent({ub!r}, {eq!r}{kws})", "to": f"x.to({ub!r}, {eq!r}{kws})",
                     "in_units": f"x.in_units({ub!r}, equivalence={eq!r}{kws})", "to_value": f"x.to_value({ub!r}, {eq!r}{kws})",
                     "convert_to_equivalent": f"y = x.copy(); y.convert_to_equivalent({ub!r}, {eq!r}{kws})",
                     "convert_to_units": f"y = x.copy(); y.convert_to_units({ub!r}, equivalence={eq!r}{kws})"}

        def inplace_call(method):
            y = x.copy()
            if method == "convert_to_equivalent":
                y.convert_to_equivalent(ub, eq, **kw)
            else:
                y.convert_to_units(ub, equivalence=eq, **kw)
            return y

        entries = [("to_equivalent", lambda: x.to_equivalent(ub, eq, **kw)), ("to", lambda: x.to(ub, eq, **kw)),
                   ("in_units", lambda: x.in_units(ub, equivalence=eq, **kw)),
                   ("to_value", lambda: unyt_array(x.to_value(ub, eq, **kw), ub)),
                   ("convert_to_equivalent", lambda: inplace_call("convert_to_equivalent")),
                   ("convert_to_units", lambda: inplace_call("convert_to_units"))]
        for en, fn in entries:
            try:
                res[en] = fn()
            except Exception as e:
                chk.fail(f"raise|{keyp}|{en}|{core.exc_name(e)}", f"a covered request raised {core.exc_name(e)} ({en})",
                         {"python": snippet(covered_guard(eq, ua, ub) + head + entry_src[en] + "\n"), "equivalence": eq, "units": [ua, ub], "error": repr(e)[:300]})
                continue
            if not en.startswith("convert_"):
                pure(en)
        if "to_equivalent" not in res:
            return
        r = res["to_equivalent"]
        if r is None or not hasattr(r, "units"):
            chk.fail(f"none|{keyp}", "a covered request returned no quantity",
                     {"python": snippet(head + f"r = x.to_equivalent({ub!r}, {eq!r}{kws})\nassert r is not None\n"), "equivalence": eq})
            return
        if not np.all(np.isfinite(r.d)):
            chk.count("nonfinite-skipped")
            # a non-finite result inside the domain is a failure of the formula law below
        chk.case((eq, a, b, ua, ub, tuple(sorted(kw))), {"equivalence": eq, "from": ua, "to": ub, "kw": kw, "x": vals, "result": r.d.tolist()} if len(chk.samples) < 8 else None)
        chk.count("covered:" + eq)
        chk.count("kw:" + ("default" if not kw else "+".join(sorted(kw))))
        cond = lorentz_cond(eq, a, np.array(vals) * float(Ua.base_value), C)
        # --- result unit -------------------------------------------------------------------
        call_src = {"to_equivalent": f"r2 = x.to_equivalent({ub!r}, {eq!r}{kws})",
                    "to": f"r2 = x.to({ub!r}, {eq!r}{kws})", "in_units": f"r2 = x.in_units({ub!r}, equivalence={eq!r}{kws})",
                    "to_value": f"r2 = unyt_array(x.to_value({ub!r}, {eq!r}{kws}), {ub!r})",
                    "convert_to_equivalent": f"r2 = x.copy(); r2.convert_to_equivalent({ub!r}, {eq!r}{kws})",
                    "convert_to_units": f"r2 = x.copy(); r2.convert_to_units({ub!r}, equivalence={eq!r}{kws})"}
        for rn, rv in res.items():
            if rv.units != Ub or rv.units.dimensions != db:
                chk.fail(f"unit|{keyp}|{rn}", f"{rn}: result is not in the requested unit",
                         {"python": snippet(head + f"{call_src[rn]}\nassert r2.units == Unit({ub!r}), r2.units\n"), "units": [ua, ub]})
        # --- entry points agree; in-place == copy --------------------------------------------
        for rn, rv in res.items():
            if rn == "to_equivalent":
                continue
            e = relerr(rv.d, r.d)
            tol = SAME_RTOL * max(1.0, min(cond, 1e12))
            if not e <= tol:
                kind = "inplace" if rn.startswith("convert_") else "entry"
                call = call_src[rn]
                chk.fail(f"{kind}|{keyp}|{rn}", f"{rn} disagrees with to_equivalent (rel. error {e:.3g})",
                         {"python": snippet(head + f"r = x.to_equivalent({ub!r}, {eq!r}{kws})\n{call}\nassert relerr(r2.d, r.d) <= {tol!r}, (r2, r)\n"),
                          "equivalence": eq, "units": [ua, ub]})
        # --- the defining formula, in SI -------------------------------------------------------
        ref = reference(eq, a, b)
        x_si = np.array(vals) * float(Ua.base_value)
        if ref is None:
            chk.count("no-reference-formula:" + eq)
        else:
            with np.errstate(all="ignore"):
                want_si = ref(x_si, C, mu, ga)
            got_si = r.d * float(Ub.base_value)
            e = relerr(got_si, want_si)
            tol = LAW_RTOL * max(1.0, min(cond, 1e12))
            if not e <= tol:
                chk.fail(f"formula|{keyp}", f"value differs from the defining formula (rel. error {e:.3g})",
                         {"python": snippet(head + f"r = x.to_equivalent({ub!r}, {eq!r}{kws})\nwant_si = np.array({np.asarray(want_si).tolist()!r})\n"
                                                   f"assert relerr(r.d * float(Unit({ub!r}).base_value), want_si) <= {tol!r}, (r, want_si)\n"),
                          "equivalence": eq, "units": [ua, ub], "kw": kw, "x_si": x_si.tolist()})
        # --- there and back ------------------------------------------------------------------
        try:
            back = r.copy().to_equivalent(ua, eq, **kw)  # a copy: the way back must not disturb `r` for the checks below
            e = relerr(back.d, x.d)
            tol = LAW_RTOL * max(1.0, min(cond, 1e12))
            if not e <= tol or back.units != Ua:
                chk.fail(f"inverse|{keyp}", f"A->B->A does not return the original (rel. error {e:.3g})",
                         {"python": snippet(head + f"back = x.to_equivalent({ub!r}, {eq!r}{kws}).to_equivalent({ua!r}, {eq!r}{kws})\nassert relerr(back.d, x.d) <= {tol!r} and back.units == x.units, (back, x)\n"),
                          "equivalence": eq, "units": [ua, ub], "kw": kw})
        except Exception as e:
            chk.fail(f"raise|{keyp}|back|{core.exc_name(e)}", f"the way back raised {core.exc_name(e)}",
                     {"python": snippet(covered_guard(eq, ua, ub) + head + f"x.to_equivalent({ub!r}, {eq!r}{kws}).to_equivalent({ua!r}, {eq!r}{kws})\n"), "error": repr(e)})
        # --- via an intermediate member --------------------------------------------------------
        for dc in dims:
            if dc == da or dc == db:
                continue
            c = self.dn(dc)
            pc_ = self.pool(c, dc)
            if not pc_:
                continue
            uc = rng.choice(pc_)
            try:
                via = r.copy().to_equivalent(uc, eq, **kw)
                direct = x.to_equivalent(uc, eq, **kw)
                e = relerr(via.d, direct.d)
                if not e <= LAW_RTOL or via.units != direct.units:
                    chk.fail(f"path|{eq}|{a}->{b}->{c}", f"A->B->C differs from A->C (rel. error {e:.3g})",
                             {"python": snippet(head + f"via = x.to_equivalent({ub!r}, {eq!r}{kws}).to_equivalent({uc!r}, {eq!r}{kws})\ndirect = x.to_equivalent({uc!r}, {eq!r}{kws})\n"
                                                       f"assert relerr(via.d, direct.d) <= {LAW_RTOL!r} and via.units == direct.units, (via, direct)\n"),
                              "equivalence": eq, "units": [ua, ub, uc], "kw": kw})
                chk.count("path:" + eq)
            except Exception as e:
                chk.fail(f"raise|{eq}|{a}->{b}->{c}|{core.exc_name(e)}", f"a path raised {core.exc_name(e)}",
                         {"python": snippet(covered_guard(eq, ua, ub) + covered_guard(eq, ua, uc) + head + f"x.to_equivalent({ub!r}, {eq!r}{kws}).to_equivalent({uc!r}, {eq!r}{kws}); x.to_equivalent({uc!r}, {eq!r}{kws})\n"), "error": repr(e)})
        # --- 0-d quantities (a returned object is rebuilt, not a view) ---------------------------
        if with_quantity:
            try:
                q = unyt_quantity(vals[0], ua)
                qr = q.to_equivalent(ub, eq, **kw)
                q2 = unyt_quantity(vals[0], ua)
                q2.convert_to_equivalent(ub, eq, **kw)
                tol = SAME_RTOL * max(1.0, min(cond, 1e12))
                if not (relerr(qr.d, r.d[:1].reshape(())) <= tol and relerr(q2.d, qr.d) <= tol and q2.units == qr.units and float(q.d) == vals[0]):
                    chk.fail(f"quantity|{keyp}", "0-d quantity: copy / in-place / array results differ, or the input changed",
                             {"python": snippet(f"q = unyt_quantity({vals[0]!r}, {ua!r}); qr = q.to_equivalent({ub!r}, {eq!r}{kws})\nq2 = unyt_quantity({vals[0]!r}, {ua!r}); q2.convert_to_equivalent({ub!r}, {eq!r}{kws})\n"
                                                 f"a = unyt_array(np.array([{vals[0]!r}]), {ua!r}).to_equivalent({ub!r}, {eq!r}{kws})\n"
                                                 f"assert relerr(qr.d, a.d[0]) <= {tol!r} and relerr(q2.d, qr.d) <= {tol!r} and q2.units == qr.units and float(q.d) == {vals[0]!r}, (q, qr, q2, a)\n"),
                              "equivalence": eq, "units": [ua, ub]})
                chk.count("quantity")
                self.add_model("inplace", eq, ua, ub, vals[0], kw, float(q2.d), RT(cond), f"{keyp} quantity in-place {ua}->{ub}")
            except Exception as e:
                chk.fail(f"raise|{keyp}|quantity|{core.exc_name(e)}", f"0-d quantity request raised {core.exc_name(e)}",
                         {"python": snippet(covered_guard(eq, ua, ub) + f"q = unyt_quantity({vals[0]!r}, {ua!r}); q.to_equivalent({ub!r}, {eq!r}{kws}); q.convert_to_equivalent({ub!r}, {eq!r}{kws})\n"), "error": repr(e)})
        # --- model lines ---------------------------------------------------------------------------
        for i, v in enumerate(vals):
            self.add_model("copy", eq, ua, ub, v, kw, float(r.d[i]), RT(cond), f"{keyp} copy {ua}->{ub}")
        if "convert_to_equivalent" in res:
            self.add_model("inplace", eq, ua, ub, vals[0], kw, float(res["convert_to_equivalent"].d[0]), RT(cond), f"{keyp} in-place {ua}->{ub}")

    # ---- requests that must raise, and the other wrapper routes --------------------------------
    def uncovered(self, per_equiv):
        import unyt
        from unyt import Unit, unyt_array, unyt_quantity
        from unyt.exceptions import InvalidUnitEquivalence

        chk, rng = self.chk, self.rng
        alld = [(n, self.units[n][0]) for n in list(UNIT_POOL) + list(OTHER_POOL) if self.units.get(n)]
        for eq, cls in self.reg.items():
            members = {self.dn(d) for d in cls._dims}
            cands = [(p, q) for p in alld for q in alld if p[0] != q[0] and (p[0] not in members or q[0] not in members)]
            if per_equiv is not None and len(cands) > per_equiv:
                cands = rng.sample(cands, per_equiv)
            for (a, ua), (b, ub) in cands:
                if rng.random() < 0.5 and len(self.units[a]) > 1:
                    ua = rng.choice(self.units[a])
                if rng.random() < 0.5 and len(self.units[b]) > 1:
                    ub = rng.choice(self.units[b])
                vals = [rng.uniform(1.0, 10.0) * 10 ** rng.randint(-6, 6) for _ in range(2)]
                x = unyt_array(np.array(vals), ua)
                before = (x.d.tobytes(), str(x.units))
                calls = {
                    "to_equivalent": lambda o: o.to_equivalent(ub, eq),
                    "to": lambda o: o.to(ub, eq),
                    "in_units": lambda o: o.in_units(ub, equivalence=eq),
                    "to_value": lambda o: o.to_value(ub, eq),
                    "convert_to_equivalent": lambda o: o.convert_to_equivalent(ub, eq),
                    "convert_to_units": lambda o: o.convert_to_units(ub, equivalence=eq),
                }
                src = {"to_equivalent": f"x.to_equivalent({ub!r}, {eq!r})", "to": f"x.to({ub!r}, {eq!r})", "in_units": f"x.in_units({ub!r}, equivalence={eq!r})",
                       "to_value": f"x.to_value({ub!r}, {eq!r})", "convert_to_equivalent": f"x.convert_to_equivalent({ub!r}, {eq!r})",
                       "convert_to_units": f"x.convert_to_units({ub!r}, equivalence={eq!r})"}
                side = "input" if a not in members else "target"
                for cn, fn in calls.items():
                    outcome = None
                    try:
                        fn(x)
                        outcome = "returned"
                    except InvalidUnitEquivalence:
                        outcome = "InvalidUnitEquivalence"
                    except Exception as e:
                        outcome = core.exc_name(e)
                    intact = (x.d.tobytes(), str(x.units)) == before
                    chk.count("uncovered:" + outcome)
                    if outcome != "InvalidUnitEquivalence" or not intact:
                        chk.fail(f"uncovered|{eq}|{side}-not-member|{cn}|{outcome}{'' if intact else '|operand-changed'}",
                                 f"uncovered request {a}->{b} through {eq}: {cn} {outcome}" + ("" if intact else " and the operand changed"),
                                 {"python": snippet(f"x = unyt_array(np.array({vals!r}), {ua!r})\nb0 = (x.d.tobytes(), str(x.units))\ntry:\n    {src[cn]}\n    raise AssertionError('returned')\nexcept InvalidUnitEquivalence:\n    pass\nassert (x.d.tobytes(), str(x.units)) == b0, x\n"),
                                  "equivalence": eq, "units": [ua, ub]})
                chk.case(("uncovered", eq, a, b))
                if self.collect:
                    try:
                        fa, fb_ = self.wire(ua), self.wire(ub)
                        for mode in ("copy", "inplace"):
                            self.mlines.append("\t".join(["c09.convert", mode, eq] + fa + fb_ + [str(core.f2b(vals[0])), ""]))
                            self.mexpect.append((f"uncovered {eq} {ua}->{ub} {mode}", "err:InvalidUnitEquivalence", 0.0))
                    except ValueError:
                        pass

    def after_refusal(self):
        """histories: an in-place request that is REFUSED (uncovered target dimension, then an unsupported
        keyword), followed by the copying forms of the same equivalence on a covered pair — the copying
        forms must still leave their input untouched (state kept between calls — a shared instance, a flag,
        a cache — must not leak from a failed call into later ones; seeded change C09-c)"""
        chk, rng = self.chk, self.rng
        alld = [(n, self.units[n][0]) for n in list(UNIT_POOL) + list(OTHER_POOL) if self.units.get(n)]
        for eq, cls in self.reg.items():
            members = [self.dn(d) for d in cls._dims]
            pairs = [(a, b) for a in members for b in members if a != b and self.units.get(a) and self.units.get(b)]
            outside = [u for n, u in alld if n not in members]
            if not pairs or not outside:
                continue
            for a, b in pairs[:4]:
                ua, ub, bad = self.units[a][0], self.units[b][0], outside[0]
                vals = [round(rng.uniform(1.0, 9.0), 3), round(rng.uniform(1.0, 9.0), 3)]
                body = (f"x = unyt_array(np.array({vals!r}), {ua!r})\n"
                        "for _kw in ({}, {'no_such_keyword': 1}):\n"
                        f"    try:\n        x.convert_to_equivalent({bad!r}, {eq!r}, **_kw)\n    except Exception:\n        pass\n"
                        f"y = unyt_array(np.array({vals!r}), {ua!r})\nb0 = (y.d.tobytes(), str(y.units))\n")
                env = {}
                try:
                    exec(snippet(body), env)
                except Exception as e:  # noqa: BLE001
                    chk.count("after-refusal:setup-raised:" + core.exc_name(e))
                    continue
                y, b0 = env["y"], env["b0"]
                calls = {"to_equivalent": f"y.to_equivalent({ub!r}, {eq!r})", "to": f"y.to({ub!r}, {eq!r})",
                         "in_units": f"y.in_units({ub!r}, equivalence={eq!r})", "to_value": f"y.to_value({ub!r}, {eq!r})"}
                for cn, src in calls.items():
                    try:
                        eval(src, env)
                        outcome = "returned"
                    except Exception as e:  # noqa: BLE001
                        outcome = core.exc_name(e)
                    intact = (y.d.tobytes(), str(y.units)) == b0
                    chk.count("after-refusal:" + outcome)
                    chk.case(("after-refusal", eq, a, b, cn))
                    if not intact:
                        chk.fail(f"purity|after-refused-inplace|{eq}|{cn}",
                                 f"{eq} {a}->{b}: after a refused in-place request, the copying form {cn} changed its input",
                                 {"python": snippet(body + f"try:\n    {src}\nexcept Exception:\n    pass\nassert (y.d.tobytes(), str(y.units)) == b0, y\n"),
                                  "equivalence": eq, "units": [ua, ub]})
                        break

    def reducible_inputs(self):
        """input units whose own expression simplifies to a coefficient (two atoms of one
        dimension, e.g. K*cm/angstrom = 1e8 K): the in-place form must still equal the copying form"""
        from unyt import unyt_array

        chk, rng = self.chk, self.rng
        for eq, cls in self.reg.items():
            for da, db in itertools.permutations(list(cls._dims), 2):
                a, b = self.dn(da), self.dn(db)
                pa, pb = self.pool(a, da), self.pool(b, db)
                if not pa or not pb:
                    continue
                base = pa[0]
                ua = (f"({base})*cm/angstrom" if base not in ("", "dimensionless") else "cm/angstrom")
                ub = pb[0]
                if eq == "lorentz":
                    si = 1.5 if a == "dimensionless" else 0.5 * self.C["clight"]
                else:
                    si = rng.uniform(1.0, 10.0) * 10 ** rng.randint(-3, 3)
                # 3 K*cm/angstrom -> J through thermal is the witness of C09_inplace_counterexample
                v = 3.0 if (eq, a, b) == ("thermal", "temperature", "energy") else si / 1e8
                x = unyt_array(np.array([v]), ua)
                try:
                    r = x.to_equivalent(ub, eq)
                except Exception as e:
                    chk.fail(f"raise|{eq}|{a}->{b}|to_equivalent|{core.exc_name(e)}|reducible-input-unit", f"copying request with a reducible input unit raised {core.exc_name(e)}",
                             {"python": snippet(covered_guard(eq, ua, ub) + f"x = unyt_array(np.array([{v!r}]), {ua!r})\nx.to_equivalent({ub!r}, {eq!r})\n"), "units": [ua, ub]})
                    continue
                y = x.copy()
                try:
                    y.convert_to_equivalent(ub, eq)
                    outcome = "value" if relerr(y.d, r.d) <= SAME_RTOL * 1e4 and y.units == r.units else "wrong-value"
                    got = float(y.d[0])
                except Exception as e:
                    outcome = core.exc_name(e)
                    got = "err:" + ("RuntimeError" if isinstance(e, RecursionError) else core.exc_name(e))
                chk.count("reducible-input:" + outcome)
                chk.case(("reducible", eq, a, b))
                if outcome != "value":
                    chk.fail(f"inplace|reducible-input-unit|{outcome}",
                             f"{eq} {ua}->{ub}: copying form returns {float(r.d[0])!r}, in-place form: {outcome}",
                             {"python": snippet(f"x = unyt_array(np.array([{v!r}]), {ua!r})\nr = x.to_equivalent({ub!r}, {eq!r})\ny = x.copy(); y.convert_to_equivalent({ub!r}, {eq!r})\n"
                                                 f"assert relerr(y.d, r.d) <= {SAME_RTOL * 1e4!r} and y.units == r.units, (y, r)\n"),
                              "equivalence": eq, "units": [ua, ub]})
                self.add_model("copy", eq, ua, ub, v, {}, float(r.d[0]), RT(1.0) * 64, f"reducible {eq} copy {ua}->{ub}")
                self.add_model("inplace", eq, ua, ub, v, {}, got, RT(1.0) * 64, f"reducible {eq} in-place {ua}->{ub}")

    def lorentz_endpoints(self):
        """v = 0 <-> gamma = 1 (the end points of lorentz_inverse_endpoints), exactly"""
        from unyt import unyt_array

        chk = self.chk
        if "lorentz" not in self.reg:
            return
        for (ua, v, ub, want, back) in [("km/s", 0.0, "dimensionless", 1.0, 0.0), ("dimensionless", 1.0, "m/s", 0.0, 1.0)]:
            for mode in ("copy", "inplace"):
                x = unyt_array(np.array([v]), ua)
                try:
                    if mode == "copy":
                        r = x.to_equivalent(ub, "lorentz")
                    else:
                        x.convert_to_equivalent(ub, "lorentz")
                        r = x
                    b = r.copy().to_equivalent(ua, "lorentz")
                    ok = float(r.d[0]) == want and float(b.d[0]) == back
                    what = f"got {float(r.d[0])!r} and back {float(b.d[0])!r}"
                except Exception as e:
                    ok = False
                    what = "raised " + core.exc_name(e)
                chk.count("lorentz-endpoint")
                chk.case(("lorentz-endpoint", ua, mode))
                call = f"r = x.to_equivalent({ub!r}, 'lorentz')" if mode == "copy" else f"x.convert_to_equivalent({ub!r}, 'lorentz'); r = x"
                if not ok:
                    chk.fail(f"endpoint|lorentz|{'v=0' if v == 0.0 else 'gamma=1'}|{mode}", f"{v} {ua} -> {ub}: expected {want} and back {back}; {what}",
                             {"python": snippet(f"x = unyt_array(np.array([{v!r}]), {ua!r})\n{call}\nb = r.copy().to_equivalent({ua!r}, 'lorentz')\nassert float(r.d[0]) == {want!r} and float(b.d[0]) == {back!r}, (r, b)\n"), "units": [ua, ub]})
                self.add_model(mode, "lorentz", ua, ub, v, {}, want, 0.0, f"lorentz end point {v} {ua} {mode}")

    def has_equivalent(self):
        """Unit.has_equivalent / unyt_array.has_equivalent / list_equivalencies: the model's answer
        (c09.has_equivalent) and, as direct oracle, the membership the reference formulas imply"""
        import contextlib
        import io

        from unyt import Unit, unyt_quantity

        chk = self.chk
        ref_members = {}
        for eq in self.reg:
            for a in UNIT_POOL:
                for b in UNIT_POOL:
                    if reference(eq, a, b) is not None:
                        ref_members.setdefault(eq, set()).update((a, b))
        names = list(self.reg) + ["no_such_equivalence"]
        for dn_ in list(UNIT_POOL) + list(OTHER_POOL):
            if not self.units.get(dn_):
                continue
            u = self.units[dn_][-1]
            U = Unit(u)
            buf = io.StringIO()
            with contextlib.redirect_stdout(buf):
                U.list_equivalencies()
            listed = buf.getvalue().splitlines()
            want_listed = []
            for eq in names:
                try:
                    got = bool(U.has_equivalent(eq))
                    got2 = bool(unyt_quantity(1.0, u).has_equivalent(eq))
                    exp = "1" if got else "0"
                    if got != got2:
                        chk.fail(f"has_equivalent|{eq}|array-vs-unit", f"{u}: Unit says {got}, unyt_quantity says {got2}",
                                 {"python": snippet(f"assert Unit({u!r}).has_equivalent({eq!r}) == unyt_quantity(1.0, {u!r}).has_equivalent({eq!r})\n")})
                    if got:
                        want_listed.append(str(self.reg[eq]()))
                    if eq in ref_members and dn_ in UNIT_POOL and got != (dn_ in ref_members[eq]):
                        chk.fail(f"has_equivalent|{eq}|{dn_}", f"Unit({u!r}).has_equivalent({eq!r}) is {got}; the defining formulas relate {sorted(ref_members[eq])}",
                                 {"python": snippet(f"assert Unit({u!r}).has_equivalent({eq!r}) == {dn_ in ref_members[eq]!r}\n"), "equivalence": eq, "units": [u]})
                except KeyError:
                    exp = "err:KeyError"
                except Exception as e:
                    exp = "err:" + core.exc_name(e)
                chk.count("has_equivalent:" + exp)
                chk.case(("has_equivalent", eq, dn_))
                if self.collect:
                    self.mlines.append("\t".join(["c09.has_equivalent", eq, gen.dim_vec(U.dimensions)]))
                    self.mexpect.append((f"has_equivalent {u} {eq}", ("flag", exp), 0.0))
            if listed != want_listed:
                chk.fail("list_equivalencies", f"{u}: list_equivalencies printed {listed}, has_equivalent selects {want_listed}",
                         {"python": snippet(f"import io, contextlib\nfrom unyt.equivalencies import equivalence_registry as R\nb = io.StringIO()\nwith contextlib.redirect_stdout(b):\n    Unit({u!r}).list_equivalencies()\n"
                                             f"assert b.getvalue().splitlines() == [str(c()) for k, c in R.items() if Unit({u!r}).has_equivalent(k)]\n")})

    def offset_inputs(self):
        """a reading on an offset scale (degC, degF) is either refused or converted as the absolute
        temperature it denotes — never silently treated as if it were absolute"""
        import unyt
        from unyt import unyt_array

        chk, rng = self.chk, self.rng
        for eq, cls in self.reg.items():
            dims = list(cls._dims)
            tdim = [d for d in dims if self.dn(d) == "temperature"]
            if not tdim:
                continue
            for db in dims:
                b = self.dn(db)
                if b == "temperature" or not self.pool(b, db):
                    continue
                ub = self.pool(b, db)[0]
                for t in OFFSET_TARGETS:
                    # 25 degC is the witness of the theorem C09_offset_counterexample
                    for v, mode in [(25.0, "copy"), (25.0, "inplace"), (round(rng.uniform(5.0, 90.0), 2), "copy")]:
                        x = unyt_array(np.array([v]), t)
                        try:
                            if mode == "copy":
                                r = x.to_equivalent(ub, eq)
                            else:
                                x.convert_to_equivalent(ub, eq)
                                r = x
                            outcome = "value"
                        except Exception as e:
                            outcome = core.exc_name(e)
                        chk.count("offset-input:" + outcome)
                        chk.case(("offset-input", eq, b, t, mode))
                        if outcome != "value":
                            continue
                        want = unyt_array(np.array([v]), t).to("K").to_equivalent(ub, eq)
                        if not relerr(r.d, want.d) <= LAW_RTOL:
                            call = f"r = x.to_equivalent({ub!r}, {eq!r})" if mode == "copy" else f"x.convert_to_equivalent({ub!r}, {eq!r}); r = x"
                            chk.fail(f"offset-input|{eq}|temperature->{b}|reading-taken-as-absolute",
                                     f"{v} {t} through {eq}: got {float(r.d[0])!r} {ub}, the temperature it denotes gives {float(want.d[0])!r}",
                                     {"python": snippet(f"x = unyt_array(np.array([{v!r}]), {t!r})\nwant = unyt_array(np.array([{v!r}]), {t!r}).to('K').to_equivalent({ub!r}, {eq!r})\n"
                                                         f"try:\n    {call}\nexcept Exception:\n    r = None  # a refusal is fine\n"
                                                         f"assert r is None or relerr(r.d, want.d) <= {LAW_RTOL!r}, (r, want)\n"),
                                      "equivalence": eq, "units": [t, ub], "mode": mode})

    def wrapper_routes(self):
        """same-dimension shortcut, unknown names, unaccepted keywords, offset units, equivalence=None:
        model vs implementation (outcome class and numbers)"""
        import unyt
        from unyt import unyt_array

        chk, rng = self.chk, self.rng
        cases = []
        for eq, cls in self.reg.items():
            for d in cls._dims:
                a = self.dn(d)
                p = self.pool(a, d)
                if len(p) >= 2:
                    ua, ub = rng.sample(p, 2)
                    cases.append((eq, ua, ub, {}))  # same dimension: plain conversion
            da, db = cls._dims[0], cls._dims[1]
            pa, pb = self.pool(self.dn(da), da), self.pool(self.dn(db), db)
            if pa and pb:
                if not self.param_names(cls):
                    cases.append((eq, pa[0], pb[0], {"mu": 1.3}))  # keyword the equivalence does not take
                cases.append((None, pa[0], pb[0], {}))  # no equivalence: ordinary refusal
                cases.append(("no_such_equivalence", pa[0], pb[0], {}))
                cases.append(("no_such_equivalence", pa[0], pa[-1], {}))  # shortcut comes first
        for eq in self.reg:
            dn_ = [self.dn(d) for d in self.reg[eq]._dims]
            if "temperature" in dn_:
                other = [d for d in self.reg[eq]._dims if self.dn(d) != "temperature"][0]
                po = self.pool(self.dn(other), other)
                if po:
                    for t in OFFSET_TARGETS:
                        cases.append((eq, t, po[0], {}))  # offset unit as input
                        cases.append((eq, po[0], t, {}))  # offset unit as target
        # convert_to_base / convert_to_mks / convert_to_cgs thread `equivalence=` to a request for the
        # same dimension: the equivalence must not matter (direct oracle)
        for eq, cls in self.reg.items():
            d = cls._dims[0]
            p = self.pool(self.dn(d), d)
            if not p:
                continue
            ua = rng.choice(p)
            v = 1.5 if eq == "lorentz" else rng.uniform(1.0, 10.0) * 10 ** rng.randint(-3, 3)
            for meth in ("convert_to_mks", "convert_to_cgs", "convert_to_base"):
                try:
                    y1 = unyt_array(np.array([v]), ua)
                    getattr(y1, meth)(equivalence=eq)
                    y2 = unyt_array(np.array([v]), ua)
                    getattr(y2, meth)()
                    ok = relerr(y1.d, y2.d) <= SAME_RTOL and y1.units == y2.units
                    what = "differs from the call without equivalence"
                except Exception as e:
                    ok = False
                    what = "raised " + core.exc_name(e)
                chk.count("base-route:" + meth)
                chk.case(("base-route", eq, meth))
                if not ok:
                    chk.fail(f"same-dimension|{eq}|{meth}", f"{meth}(equivalence={eq!r}) on {ua} {what}",
                             {"python": snippet(f"y1 = unyt_array(np.array([{v!r}]), {ua!r}); y1.{meth}(equivalence={eq!r})\ny2 = unyt_array(np.array([{v!r}]), {ua!r}); y2.{meth}()\n"
                                                 f"assert relerr(y1.d, y2.d) <= {SAME_RTOL!r} and y1.units == y2.units, (y1, y2)\n"), "equivalence": eq, "units": [ua]})
        for (eq, ua, ub, kw) in cases:
            v = rng.uniform(1.0, 10.0) * 10 ** rng.randint(-3, 3)
            if eq == "lorentz":
                v = 1.5
            for mode in ("copy", "inplace"):
                x = unyt_array(np.array([v]), ua)
                try:
                    if mode == "copy":
                        r = x.to(ub, eq, **kw) if eq is not None else x.to(ub)
                    else:
                        x.convert_to_units(ub, equivalence=eq, **kw)
                        r = x
                    exp = float(r.d[0])
                except Exception as e:
                    exp = "err:" + core.exc_name(e)
                chk.count("wrapper-route:" + (exp if isinstance(exp, str) else "value"))
                chk.case(("wrapper", eq, ua, ub, mode, tuple(kw)))
                # direct oracle for the same-dimension request: the equivalence must not matter
                from unyt import Unit as _U
                if eq in self.reg and not kw and _U(ua).dimensions == _U(ub).dimensions and not isinstance(exp, str):
                    plain = float(unyt_array(np.array([v]), ua).to(ub).d[0])
                    if not relerr(exp, plain) <= SAME_RTOL:
                        call = f"r = x.to({ub!r}, {eq!r})" if mode == "copy" else f"x.convert_to_units({ub!r}, equivalence={eq!r}); r = x"
                        chk.fail(f"same-dimension|{eq}|{mode}", f"{ua}->{ub} with equivalence={eq!r} differs from the plain conversion",
                                 {"python": snippet(f"x = unyt_array(np.array([{v!r}]), {ua!r})\nplain = unyt_array(np.array([{v!r}]), {ua!r}).to({ub!r})\n{call}\nassert relerr(r.d, plain.d) <= {SAME_RTOL!r} and r.units == plain.units, (r, plain)\n"),
                                  "equivalence": eq, "units": [ua, ub]})
                elif eq in self.reg and not kw and _U(ua).dimensions == _U(ub).dimensions:
                    call = f"x.to({ub!r}, {eq!r})" if mode == "copy" else f"x.convert_to_units({ub!r}, equivalence={eq!r})"
                    chk.fail(f"same-dimension|{eq}|{mode}|{exp[4:]}", f"{ua}->{ub} with equivalence={eq!r} raised {exp[4:]}",
                             {"python": snippet(f"x = unyt_array(np.array([{v!r}]), {ua!r})\n{call}\n"), "equivalence": eq, "units": [ua, ub]})
                try:
                    fa, fb_ = self.wire(ua), self.wire(ub)
                except ValueError:
                    continue
                kws = ";".join(f"{k}={core.f2b(val)}" for k, val in kw.items())
                self.mlines.append("\t".join(["c09.convert", mode, eq if eq is not None else "-"] + fa + fb_ + [str(core.f2b(v)), kws]))
                self.mexpect.append((f"wrapper {eq} {ua}->{ub} {mode} {kw}", exp, 2.0 ** -40 * 64))


def RT(cond):
    return core.RTOL * 16 * max(1.0, min(cond, 1e12))


def check_tables(chk, X, model):
    """the regenerated Lean tables, read back through the driver, against the live objects"""
    import inspect

    import unyt.physical_constants as pc
    from unyt.equivalencies import equivalence_registry

    dimtab = dim_names()
    lines = ["c09.names", "c09.pow_refuses"]
    meta = [("names", None), ("pow", None)]
    for n in X["constants"]:
        lines.append("c09.dump.const\t" + n)
        meta.append(("const", n))
    for eq, cls in equivalence_registry.items():
        lines.append("c09.dump.equiv\t" + eq)
        meta.append(("equiv", eq))
        for da, db in itertools.permutations(list(cls._dims), 2):
            for mode in ("copy", "inplace", "inplace-ssa", "copy-buffer"):
                lines.append("\t".join(["c09.formula", eq, mode, gen.dim_vec(da), gen.dim_vec(db)]))
                meta.append(("formula", (eq, mode, gen.dim_vec(da), gen.dim_vec(db))))
    try:
        rep = model.ask(lines)
    except Exception as e:
        chk.disagree("driver", repr(e))
        return
    jb = {}
    for e in X["equivalences"]:
        for b in e["branches"]:
            jb[(e["name"], ",".join(b["from"]), ",".join(b["to"]))] = b
    for (kind, arg), r in zip(meta, rep):
        chk.count("table-readback:" + kind)
        if kind == "names":
            if r[0] != "ok" or r[1].split(";") != list(equivalence_registry):
                chk.disagree("c09.names", f"model {r} vs registry {list(equivalence_registry)}")
        elif kind == "pow":
            from unyt import unyt_array

            from unyt import unyt_quantity

            try:
                np.multiply(unyt_quantity(1.0, "W/m**2/K**4"), np.power(unyt_array(np.array([1.0]), "degC"), 4))
                live = "none"
            except Exception as e:
                live = core.exc_name(e)
            known = {"UnitOperationError", "UnitConversionError", "UnitParseError", "InvalidUnitOperation", "UnitInconsistencyError",
                     "InvalidUnitEquivalence", "TypeError", "ValueError", "RuntimeError", "KeyError"}
            if live != "none" and live not in known:
                live = "Other"
            chk.count("pow-refuses-offset:" + live)
            if r[0] != "ok" or r[1] != live:
                chk.disagree("c09.pow_refuses", f"model {r} vs np.multiply(k, np.power(1 degC, 4)): {live}")
        elif kind == "const":
            live = float(getattr(pc, arg).in_mks().v)
            if r[0] != "ok" or int(r[1]) != core.f2b(live) or r[2] != gen.dim_vec(getattr(pc, arg).units.dimensions):
                chk.disagree("c09.dump.const", f"{arg}: model {r} vs live {live!r}")
        elif kind == "equiv":
            cls = equivalence_registry[arg]
            sig = inspect.signature(cls._convert)
            ps = ";".join(f"{p}={core.f2b(sig.parameters[p].default)}" for p in list(sig.parameters)[3:])
            ds = ";".join(gen.dim_vec(d) for d in cls._dims)
            nb = len(cls._dims) * (len(cls._dims) - 1)
            if r[0] != "ok" or r[1:] != [cls.__name__, ds, ps, str(nb)]:
                chk.disagree("c09.dump.equiv", f"{arg}: model {r} vs live {[cls.__name__, ds, ps, nb]}")
        else:
            eq, mode, a, b = arg
            row = jb.get((eq, a, b))
            if row is None:
                chk.disagree("c09.formula", f"{arg}: branch missing from the translator's summary")
                continue
            want = {"copy": row["copy"], "inplace": row["inplace"], "inplace-ssa": row["inplace"], "copy-buffer": "x"}[mode]
            got = r[1] if r[0] == "ok" else None
            if got != want:
                chk.disagree("c09.formula", f"{arg}: the model reads the chain as {got!r}, the tracer as {want!r}")


def run(tier, seed):
    import unyt

    chk = core.Check("C09", tier, seed)
    chk.proof = core.prove("C09", PROOF_MODULES, extra_targets=("drv_c09",), tier=tier)
    rng = chk.rng
    try:
        X = json.load(open(os.path.join(core.BUILD, "extract_c09_equiv_formulas.json"), encoding="utf-8"))
    except Exception as e:
        X = {"equivalences": [], "constants": {}, "errors": [repr(e)]}
    for err in X.get("errors", []):
        chk.disagree("translator", "branch could not be traced: " + err)
    model = None
    try:
        model = core.Model("drv_c09")
    except Exception as e:
        chk.disagree("driver", repr(e))
    if model is not None:
        check_tables(chk, X, model)

    sw = Sweep(chk, tier, rng, X, collect_model=model is not None)
    sw.covered(n_units=3 if tier == "quick" else 150)
    sw.uncovered(per_equiv=24 if tier == "quick" else None)
    sw.after_refusal()
    sw.wrapper_routes()
    sw.offset_inputs()
    sw.reducible_inputs()
    sw.lorentz_endpoints()
    sw.has_equivalent()
    sw.chains()
    sw.history()
    sw.dtypes()
    if model is not None:
        sw.check_chains(model)

    # ---- correspondence: the model's numbers and outcomes ------------------------------------
    if model is not None and sw.mlines:
        try:
            replies = model.ask(sw.mlines)
        except Exception as e:
            replies = []
            chk.disagree("driver", repr(e))
        for rep, (tag, exp, tol) in zip(replies, sw.mexpect):
            if isinstance(exp, tuple):  # has_equivalent: ("flag", "0" | "1" | "err:…")
                chk.count("model:has_equivalent")
                got = rep[1] if rep[0] == "ok" else "err:" + rep[1]
                if got != exp[1]:
                    chk.disagree("c09.has_equivalent", f"{tag}: model {rep}, implementation {exp[1]}")
                continue
            chk.count("model:" + ("value" if not isinstance(exp, str) else exp))
            if isinstance(exp, str):
                got = "err:" + rep[1] if rep[0] == "err" else "value"
                want = exp
                # the model has one name for exceptions outside unyt's own vocabulary
                if want not in ("err:InvalidUnitEquivalence", "err:KeyError", "err:TypeError", "err:UnitConversionError", "err:InvalidUnitOperation", "err:RuntimeError"):
                    want = "err:Other"
                if got != want:
                    chk.disagree("c09.convert", f"{tag}: model {rep}, implementation {exp}")
            else:
                if rep[0] != "ok":
                    chk.disagree("c09.convert", f"{tag}: model {rep}, implementation {exp!r}")
                    continue
                mv = core.b2f(rep[1])
                if not (math.isfinite(exp) and relerr(mv, exp) <= tol):
                    if not math.isfinite(exp) and not math.isfinite(mv):
                        continue
                    chk.disagree("c09.convert", f"{tag}: model {mv!r}, implementation {exp!r} (tolerance {tol:.3g})")

    # ---- something no longer checks and the sweep above saw no failing input: widen ----------------
    if (chk.proof["broken"] or chk.disagreements) and not chk.failures and tier == "quick":
        wide = Sweep(chk, "thorough", rng, X, collect_model=False)
        wide.covered(n_units=10)
        wide.uncovered(per_equiv=None)

    rule = ("every registered equivalence x every ordered pair of its _dims x unit spellings (SI, CGS, prefixed, compound, astronomical, "
            "imperial) x keyword parameters (default / mu / gamma) x readings whose SI magnitudes span 18 (quick) or 30 (thorough) decades "
            "x entry points (to, in_units, to_equivalent, to_value, convert_to_units(equivalence=), convert_to_equivalent; arrays and 0-d "
            "quantities) + ordered triples for the path law + uncovered (input, target) dimension pairs x 6 entry points + wrapper routes; "
            "distinct = distinct (equivalence, from, to, input unit, target unit, keywords) or (uncovered, equivalence, from, to); every "
            "case converts between different dimensions or must raise")
    chk.assumptions = [
        "theorems are over the reals with positive constants, parameters and inputs; IEEE rounding is outside them",
        "unit scale factors (Unit.base_value) are taken from the library when comparing with the closed-form formula in SI (C02's subject)",
    ]
    return chk.finish(rule)
