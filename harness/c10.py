"""C10 — unit-system base conversion stays inside the system and preserves the quantity.

Direct oracle (never consults the model): for a unit system S and a unit u,
`unyt_quantity(x, u).in_base(S)` either raises UnitsNotReducible (and so does
`u.get_base_equivalent(S)`) or returns a quantity whose unit atoms are base units of S or units S
declares, with the same dimension or the documented CGS/SI electromagnetic counterpart, that
converts back to x, agrees with get_base_equivalent / convert_to_base / in_cgs / in_mks, and is a
fixed point of in_base(S).  Evaluated exhaustively over the built-in systems x atomic units
(x SI prefixes), and on generated compounds, user-defined systems and code-unit registries.
Registry clauses (`c10_reg_oracle`): when the quantity lives in a registry that values the system's
base/declared symbols differently from the system's own registry (modified symbols, code units
defined per registry), the result of every route (in_base first and second call, convert_to_base,
in_cgs/in_mks, get_base_equivalent, in_base of the result) carries a unit whose data is what its
printed expression resolves to in the QUANTITY's registry, denotes the same physical quantity there,
converts back to the original numbers and is unchanged by `.to(str(units))`.
Registry histories (`c10_registry_history`): over seeded histories of accepted and REJECTED constructions
(fresh names, names registered earlier, built-in names), memoising look-ups, overrides and look-ups by
name / by object: a construction that raised leaves `unit_system_registry` and every registered object
untouched; every registered system is registered under its own name with base units of their slots'
dimensions; an accepted construction is registered at once, touches no other entry and is usable by name
immediately; conversions by name into every (re)registered system obey the oracle above.

Correspondence: the compiled Lean model (`drv_c10`) is run on the same inputs (the live
`units_map` travels with every request) and must give the same unit, value, exception class and
grown `units_map`; the row classifier that the kernel decides in `UnytProofs/C10*.lean` is executed
and compared with the oracle's classification of the real library for every row.
"""
import json
import os
from fractions import Fraction

import core
import gen

# The chunked kernel obligations (UnytProofs/C10Tab/*) are imported by these two modules, whose
# combined theorems depend on every chunk theorem (so `#print axioms` covers them transitively).
QUICK_MODULES = ["UnytProofs.C10", "UnytProofs.Real.C10Real", "UnytProofs.C10Registry", "UnytProofs.C10RegistryTab", "UnytProofs.C10RegistryWF"]
THOROUGH_MODULES = ["UnytProofs.C10", "UnytProofs.Real.C10Real", "UnytProofs.C10Registry", "UnytProofs.C10RegistryTab", "UnytProofs.C10RegistryWF", "UnytProofs.C10Pre", "UnytProofs.Real.C10RealInit",
                    "UnytProofs.Real.C10RealRegistry"]

ORACLE = r'''
import math, sys, warnings
warnings.simplefilter("ignore")
import numpy as np
import sympy
import unyt
from unyt import Unit, unyt_quantity, unyt_array
from unyt.unit_systems import UnitSystem, unit_system_registry
from unyt.unit_registry import UnitRegistry
from unyt.unit_object import em_conversions
from unyt.exceptions import UnitsNotReducible
import unyt.dimensions as D

def c10_atoms(expr):
    return {str(a) for a in expr.atoms() if not a.is_Number}

def c10_owned(S):
    """atoms of the base units and of the units the system declares (dimension names in _dims)"""
    out = set()
    for name in S._dims:
        v = S.units_map.get(getattr(D, name))
        if v is not None:
            out |= c10_atoms(v)
    for v in S.base_units.values():
        if v is not None:
            out |= c10_atoms(v)
    return out

def c10_em_pair(d1, d2):
    return any(k[1] == d1 and v[0] == d2 for k, v in em_conversions.items())

def c10_same_unit(a, b):
    """the same unit expression: same symbols to the same powers, same numeric coefficient
    (sympy distinguishes 10.0*ly from 10*ly; Unit.copy() re-parses and turns one into the other)"""
    ca, pa = c10_split(a.expr); cb, pb = c10_split(b.expr)
    return pa == pb and math.isclose(ca, cb, rel_tol=1e-12) and a == b

C10_BASE = [D.mass, D.length, D.time, D.temperature, D.angle, D.current_mks, D.luminous_intensity, D.logarithmic]

def c10_declared(S):
    """dimension -> expression for the base dimensions and the dimensions the system declares"""
    out = {}
    for name in S._dims:
        k = getattr(D, name)
        if k in S.units_map:
            out[k] = S.units_map[k]
    return out

def c10_system_unit(S, dims, registry=None):
    """THE unit of the system for `dims`: the declared one, else the product of the system's
    base units (coefficients included) to the exponents of `dims`; None when a needed base unit is missing"""
    dims = sympy.sympify(dims).expand()
    dec = c10_declared(S)
    if dims in dec:
        return None if dec[dims] is None else Unit(dec[dims], registry=registry)
    out = sympy.Integer(1)
    for b, p in dims.as_powers_dict().items():
        if b == 1:
            continue
        if b not in C10_BASE or S.units_map.get(b) is None:
            return None
        out = out * S.units_map[b] ** p
    return Unit(out, registry=registry)

def c10_split(expr):
    """(numeric coefficient, {symbol: exponent}) — numeric factors such as 10**(1/3) folded into the coefficient"""
    c, rest = sympy.sympify(expr).as_coeff_Mul()
    c = float(c); pw = {}
    for b, p in rest.as_powers_dict().items():
        if b == 1:
            continue
        if b.is_number:
            c *= float(b ** p)
        else:
            pw[b] = pw.get(b, 0) + p
    return c, pw

def c10_same_system_unit(a, b):
    """same symbols to the same powers and the same coefficient up to rounding of the powers"""
    ca, pa = c10_split(a.expr); cb, pb = c10_split(b.expr)
    if pa != pb or not math.isclose(ca, cb, rel_tol=1e-9):
        return False
    va, vb = abs(a.base_value), abs(b.base_value)
    if not all(math.isfinite(v) and 1e-250 < v < 1e250 for v in (va, vb)):
        return True  # the scale left the double range (extreme Planck powers): the expressions decide
    return math.isclose(a.base_value, b.base_value, rel_tol=1e-9)

def c10_close(a, b, scale):
    a = np.asarray(a, dtype=float); b = np.asarray(b, dtype=float)
    return bool(np.all(np.abs(a - b) <= 1e-9 * (np.maximum(np.abs(a), np.abs(b)) + scale)))

def c10_oracle(sysname, unit, x=2.5, registry=None):
    """-> (verdict, [failure kinds], detail).  verdict in notReducible/closed/outside/wrongDim/notFixed"""
    S = unit_system_registry[sysname]
    owned = c10_owned(S)
    u = Unit(unit, registry=registry) if isinstance(unit, str) else unit
    q = unyt_quantity(x, u)
    try:
        r = q.in_base(sysname)
    except UnitsNotReducible:
        try:
            u.get_base_equivalent(sysname)
        except UnitsNotReducible:
            return "notReducible", [], ""
        return "notReducible", ["agree"], "in_base raised UnitsNotReducible but get_base_equivalent returned"
    fails, detail = [], []
    verdict = "closed"
    ra = c10_atoms(r.units.expr)
    if not ra <= owned:
        fails.append("outside"); detail.append(f"result unit {r.units} has atoms {sorted(ra - owned)} outside the system")
        verdict = "outside"
    # "expressed in S's base units or in units S declares": the result unit IS the system's unit for
    # its dimension — coefficient included — so that the number is the count of that unit
    try:
        want = c10_system_unit(S, r.units.dimensions, u.registry)
    except Exception:
        want = None
    if want is not None and "outside" not in fails and not c10_same_system_unit(r.units, want):
        fails.append("offsystem"); detail.append(f"result unit {r.units} (scale {r.units.base_value!r}) is not the system's unit {want} (scale {want.base_value!r}) for {r.units.dimensions}")
    samedim = r.units.dimensions == u.dimensions
    if not (samedim or c10_em_pair(u.dimensions, r.units.dimensions)):
        fails.append("wrongdim"); detail.append(f"dimension {u.dimensions} became {r.units.dimensions}")
        if verdict == "closed": verdict = "wrongDim"
    off = abs(u.base_offset) + abs(r.units.base_offset)
    # converts back to the original numbers
    try:
        back = r.to(u)
        if not c10_close(back.v, x, off * max(1.0, abs(r.units.base_value / u.base_value) if samedim else 1.0)) or not c10_same_unit(back.units, u):
            fails.append("roundtrip"); detail.append(f"{x} {u} -> {r} -> {back}")
    except Exception as e:
        fails.append("roundtrip"); detail.append(f"converting {r} back to {u} raised {type(e).__name__}")
    # agrees with get_base_equivalent and the in-place / named variants
    try:
        ge = u.get_base_equivalent(sysname)
        if not c10_same_unit(ge, r.units):
            fails.append("agree"); detail.append(f"get_base_equivalent gives {ge}, in_base gives {r.units}")
    except Exception as e:
        fails.append("agree"); detail.append(f"get_base_equivalent raised {type(e).__name__}")
    try:
        y = unyt_array(np.array([x, 2 * x, -x]), u)
        yb = y.in_base(sysname)
        y.convert_to_base(sysname)
        if not c10_same_unit(y.units, r.units) or not c10_close(y.v, yb.v, off) or not c10_close(yb.v[0], r.v, off):
            fails.append("inplace"); detail.append(f"convert_to_base gives {y}, in_base gives {yb} / {r}")
        if sysname in ("cgs", "mks"):
            rn = q.in_cgs() if sysname == "cgs" else q.in_mks()
            z = unyt_array(np.array([x]), u)
            (z.convert_to_cgs if sysname == "cgs" else z.convert_to_mks)()
            ue = u.get_cgs_equivalent() if sysname == "cgs" else u.get_mks_equivalent()
            if not c10_same_unit(rn.units, r.units) or not c10_close(rn.v, r.v, off) or not c10_same_unit(z.units, r.units) or not c10_close(z.v[0], r.v, off) or not c10_same_unit(ue, r.units):
                fails.append("named"); detail.append(f"in_{sysname}/convert_to_{sysname}/get_{sysname}_equivalent disagree with in_base: {rn}, {z}, {ue} vs {r}")
    except Exception as e:
        fails.append("inplace"); detail.append(f"in-place variant raised {type(e).__name__}: {e}")
    # applying it twice is the same as applying it once — also after the unit the result is labelled with
    # has been created from its string in the quantity's registry (which files it in the registry's
    # string cache, as any user code may do at any time; makes the outcome independent of earlier calls)
    try:
        Unit(str(r.units), registry=u.registry)
    except Exception:
        pass
    try:
        r2 = r.in_base(sysname)
        if not c10_same_unit(r2.units, r.units):
            fails.append("notfixed"); detail.append(f"second application turns {r.units} into {r2.units}")
            if verdict == "closed": verdict = "notFixed"
        elif not c10_close(r2.v, r.v, abs(r.units.base_offset)):
            fails.append("notfixed-value"); detail.append(f"second application changes the value {r} -> {r2}")
    except Exception as e:
        fails.append("notfixed"); detail.append(f"second application raised {type(e).__name__}")
        if verdict == "closed": verdict = "notFixed"
    return verdict, fails, "; ".join(detail)

# ---- the result unit lives in the QUANTITY's registry ------------------------------------------
def c10_resolve_label(units, reg):
    """what the printed expression of `units` resolves to in `reg`"""
    try:
        return Unit(str(units), registry=reg)
    except Exception:
        return Unit(units.expr, registry=reg)

def c10_reg_clauses(route, u, x, r, reg, fails):
    """the registry clauses for one result `r` of converting `x u` (u lives in `reg`):
    label    — base_value/dimensions/offset of r.units are what its printed expression resolves to in `reg`
    si       — the number, read in the unit the label names in `reg`, is the same physical quantity
    roundtrip — r.to(u) gives the original numbers
    reread   — r.to(str(r.units)) does not change the number"""
    x = np.asarray(x, dtype=float)
    here = c10_resolve_label(r.units, reg)
    have = r.units
    off = abs(u.base_offset) + abs(have.base_offset) + abs(here.base_offset)
    if (have.dimensions != here.dimensions or not math.isclose(have.base_value, here.base_value, rel_tol=1e-9)
            or not math.isclose(have.base_offset, here.base_offset, rel_tol=1e-9, abs_tol=1e-9)):
        fails.append((route, "label", f"{route}: the result is labelled {str(have)!r} (base_value {have.base_value!r}, {have.dimensions}) "
                      f"but {str(have)!r} in the quantity's registry has base_value {here.base_value!r}, {here.dimensions}"))
    samedim = here.dimensions == u.dimensions
    rel = max(1.0, abs(here.base_value / u.base_value)) if samedim and u.base_value else 1.0
    try:
        if samedim and off == 0:
            ok = bool(np.all(np.isclose(x * u.base_value, np.asarray(r.v, dtype=float) * here.base_value, rtol=1e-9, atol=0.0)))
            got = f"{r.v!r} x {here.base_value!r} (SI)"
        else:
            back = unyt_array(np.asarray(r.v, dtype=float), here).to(u)
            ok = c10_close(back.v, x, off * rel)
            got = f"{back}"
        if not ok:
            fails.append((route, "si", f"{route}: {x!r} {u} (base_value {u.base_value!r}) became {r}, which read in the quantity's registry is {got}"))
    except Exception as e:
        fails.append((route, "si", f"{route}: reading {r} back in the quantity's registry raised {type(e).__name__}: {e}"))
    try:
        back = r.to(u)
        if not c10_close(back.v, x, off * rel):
            fails.append((route, "roundtrip", f"{route}: {x!r} {u} -> {r} -> {back}"))
    except Exception as e:
        fails.append((route, "roundtrip", f"{route}: converting {r} back to {u} raised {type(e).__name__}: {e}"))
    try:
        again = r.to(str(r.units))
        if not c10_close(again.v, r.v, abs(have.base_offset) + abs(here.base_offset)):
            fails.append((route, "reread", f"{route}: {r}.to({str(r.units)!r}) changes the number to {again.v!r}"))
    except Exception as e:
        fails.append((route, "reread", f"{route}: {r}.to({str(r.units)!r}) raised {type(e).__name__}: {e}"))

def c10_reg_oracle(sysname, unit, x, reg):
    """every route into the base units of `sysname` for a quantity whose unit lives in `reg`
    (first and second call: the second one finds the dimension memoised in units_map)
    -> [(route, clause, detail)]; [] when the conversion is refused on every route"""
    u = Unit(unit, registry=reg) if isinstance(unit, str) else unit
    fails = []
    q = unyt_quantity(x, u)
    try:
        first = q.in_base(sysname)
    except UnitsNotReducible:
        for route, f in (("get_base_equivalent", lambda: u.get_base_equivalent(sysname)), ("in_base-again", lambda: q.in_base(sysname))):
            try:
                f()
                fails.append((route, "refusal", f"in_base({sysname!r}) of {u} raised UnitsNotReducible but {route} returned"))
            except UnitsNotReducible:
                pass
        return fails
    routes = [("in_base", lambda: first), ("in_base-again", lambda: unyt_quantity(x, u).in_base(sysname))]
    def inplace(method, *a):
        y = unyt_array(np.array([x, 2 * x, -x]), u)
        getattr(y, method)(*a)
        return y
    routes.append(("convert_to_base", lambda: inplace("convert_to_base", sysname)))
    routes.append(("get_base_equivalent", lambda: unyt_array(np.array([x, -x]), u).to(u.get_base_equivalent(sysname))))
    if sysname in ("cgs", "mks"):
        routes.append(("in_" + sysname, lambda: getattr(unyt_quantity(x, u), "in_" + sysname)()))
        routes.append(("convert_to_" + sysname, lambda: inplace("convert_to_" + sysname)))
        routes.append(("get_" + sysname + "_equivalent", lambda: unyt_quantity(x, u).to(getattr(u, "get_" + sysname + "_equivalent")())))
    routes.append(("in_base-of-result", lambda: first.in_base(sysname)))
    for route, f in routes:
        try:
            r = f()
        except Exception as e:
            fails.append((route, "raise", f"{route} of {x} {u} into {sysname!r} raised {type(e).__name__}: {e}"))
            continue
        if route == "in_base-of-result":  # the second application converts the quantity `first`
            c10_reg_clauses(route, first.units, first.v, r, reg, fails)
            continue
        xs = np.array([x, 2 * x, -x]) if r.shape == (3,) else np.array([x, -x]) if r.shape == (2,) else x
        c10_reg_clauses(route, u, xs, r, reg, fails)
        if route != "in_base" and (str(r.units) != str(first.units) or not c10_close(np.asarray(r.v).flat[0], first.v, abs(u.base_offset) + abs(first.units.base_offset))):
            fails.append((route, "differs", f"{route} gives {r}, the first in_base gave {first}"))
    return fails
'''

# ---- unit_system_registry as a state machine: histories of constructions (accepted and rejected),
# ---- re-registration, memoising look-ups, overrides, look-ups by name and by object
REGORACLE = r"""
from unyt.unit_registry import _sanitize_unit_system

C10_KW = ["length_unit", "mass_unit", "time_unit", "temperature_unit", "angle_unit", "current_mks_unit",
          "luminous_intensity_unit", "logarithmic_unit"]

def c10_registry_snapshot():
    return [(k, id(v), list(v.units_map.items()), list(v.base_units.items()), getattr(v, "name", None))
            for k, v in unit_system_registry.items()]

def c10_registry_consistent(fails, when):
    # "for every registered unit system": it is registered under its own name and every base unit
    # has the dimension of the slot it fills (= it passed the check of the constructor)
    for name, S in list(unit_system_registry.items()):
        if getattr(S, "name", None) != name:
            fails.append(("registered-under-other-name", f"{when}: unit_system_registry[{name!r}].name is {getattr(S, 'name', None)!r}"))
        for dim, unit in S.base_units.items():
            if unit is None and dim is D.current_mks:
                continue
            try:
                ok = Unit(unit, registry=S.registry).dimensions == dim
            except Exception:
                ok = False
            if not ok:
                fails.append(("inconsistent-system-registered", f"{when}: registered system {name!r} has base unit {unit} for {dim}"))
                break

def c10_registry_usable(name, units, fails, tag, when):
    # conversions BY NAME into a registered system obey the property (plain-route units only)
    for us in units:
        try:
            v, f, detail = c10_oracle(name, us, 2.5)
        except Exception as e:
            fails.append((f"{tag}|raises|{type(e).__name__}", f"{when}: 2.5 {us} .in_base({name!r}) raised {e!r}"[:400]))
            continue
        for k in f:
            fails.append((f"{tag}|{k}", f"{when}: {us} into {name!r}: {detail}"[:400]))

def c10_registry_history(hist, observe=None, units=("kg", "km/s", "J")):
    # run a history on the live unit_system_registry -> (fails [(kind, detail)], trace); the registry
    # dict is restored afterwards.  ops: ("C", name, [eight argument sources], use_registry),
    # ("G", obj, dimension name), ("S", obj, dimension name, unit string), ("N", name), ("O", obj);
    # obj = index into the list of live objects (registered ones first, then every accepted construction)
    saved = list(unit_system_registry.items())
    objs = [S for _, S in saved]
    fails, trace = [], []
    def index(S):
        for i, o in enumerate(objs):
            if o is S:
                return i
        return -1
    try:
        for step, op in enumerate(hist):
            when = f"step {step} {op[0]}"
            if op[0] == "C":
                _, name, args, use_reg = op
                was = "registered" if name in unit_system_registry else "fresh"
                kwargs = {k: eval(a) for k, a in zip(C10_KW, args)}
                if use_reg:
                    kwargs["registry"] = UnitRegistry()
                before = c10_registry_snapshot()
                try:
                    S = UnitSystem(name, **kwargs)
                except Exception as e:
                    trace.append(("raised", type(e).__name__))
                    # "rejected at construction": nothing is registered, nothing registered is replaced or altered
                    after = c10_registry_snapshot()
                    if after != before:
                        changed = sorted({a[0] for a in after if a not in before} | {b[0] for b in before if b not in after})
                        fails.append((f"rejected-construction|{was}|registry-changed",
                                      f"{when}: UnitSystem({name!r}, {', '.join(args)}) raised {type(e).__name__} but the registry entries {changed} changed"))
                else:
                    objs.append(S)
                    trace.append(("built", len(objs) - 1))
                    after = c10_registry_snapshot()
                    # "usable immediately": registered under its name at once; no other entry touched
                    if unit_system_registry.get(name) is not S or getattr(S, "name", None) != name:
                        fails.append(("accepted-not-registered", f"{when}: UnitSystem({name!r}, ...) returned but unit_system_registry[{name!r}] is not it"))
                    if [a for a in after if a[0] != name] != [b for b in before if b[0] != name]:
                        fails.append(("accepted-construction|other-entries-changed", f"{when}: constructing {name!r} changed other registry entries"))
                    c10_registry_usable(name, units[:2], fails, "usable-immediately", when)
                c10_registry_consistent(fails, when)
            elif op[0] == "G":
                try:
                    objs[op[1]][op[2]]
                    trace.append(("unit", None))
                except Exception as e:
                    trace.append(("raised", type(e).__name__))
            elif op[0] == "S":
                try:
                    objs[op[1]][op[2]] = op[3]
                    trace.append(("done", None))
                except Exception as e:
                    trace.append(("raised", type(e).__name__))
            elif op[0] == "N":
                try:
                    S = _sanitize_unit_system(op[1], None)
                    trace.append(("system", index(S)))
                    if S is not unit_system_registry.get(op[1]):
                        fails.append(("lookup|by-name", f"{when}: the name {op[1]!r} does not resolve to unit_system_registry[{op[1]!r}]"))
                except Exception as e:
                    trace.append(("raised", type(e).__name__))
                    if op[1] in unit_system_registry:
                        fails.append(("lookup|by-name", f"{when}: the registered name {op[1]!r} raised {type(e).__name__}"))
            elif op[0] == "O":
                o = objs[op[1]]
                try:
                    S = _sanitize_unit_system(o, None)
                    trace.append(("system", index(S)))
                    ok = S is unit_system_registry.get(o.name)
                    if ok and S is o:
                        a = unyt_quantity(2.5, "kg").in_base(o)
                        b = unyt_quantity(2.5, "kg").in_base(o.name)
                        ok = c10_same_unit(a.units, b.units) and float(a.v) == float(b.v)
                    if not ok:
                        fails.append(("lookup|by-object", f"{when}: the object named {o.name!r} does not resolve like its name"))
                except Exception as e:
                    trace.append(("raised", type(e).__name__))
                    if o.name in unit_system_registry:
                        fails.append(("lookup|by-object", f"{when}: an object whose name {o.name!r} is registered raised {type(e).__name__}"))
        # at the end: every system registered by this history obeys the property when used BY NAME
        c10_registry_consistent(fails, "end")
        old = dict(saved)
        for name in list(unit_system_registry):
            if unit_system_registry[name] is not old.get(name):
                c10_registry_usable(name, units[1:], fails, "registered-usable", "end")
        if observe is not None:
            observe(objs, list(unit_system_registry.items()))
    finally:
        unit_system_registry.clear()
        unit_system_registry.update(saved)
    seen, out = set(), []
    for k, d in fails:
        if k not in seen:
            seen.add(k); out.append((k, d))
    return out, trace
"""


def registry_replay(hist, kind):
    """self-contained snippet: runs the history and fails iff the clause `kind` fails"""
    return (ORACLE + REGORACLE + f"\nHIST = {hist!r}\nfails, trace = c10_registry_history(HIST)\n"
            f"bad = [f for f in fails if f[0] == {kind!r}]\nassert not bad, bad\n")


CLOSURE_KINDS = {"outside", "notfixed"}


def replay_code(setup, sysname, unit_code, x, registry_code="None", kinds=None):
    """a self-contained snippet: evaluates the oracle and fails iff one of `kinds` (default: any)
    of its checks fails — so the replay of one defect is not tripped by another, listed one"""
    sel = "fails" if kinds is None else f"[f for f in fails if f in {sorted(kinds)!r}]"
    if setup:  # a system the tree refuses to build leaves nothing to check
        setup = "try:\n" + "".join("    " + l + "\n" for l in setup.strip().split("\n")) + "except Exception:\n    sys.exit(0)\n"
    return (ORACLE + "\n" + setup + f"\nv, fails, detail = c10_oracle({sysname!r}, {unit_code}, {x!r}, registry={registry_code})\n"
            f"bad = {sel}\nassert not bad, (v, bad, detail)\n")


# ---------------------------------------------------------------------------------------------
# wire helpers


def expr_to_wire(e):
    c, f = gen.expr_wire(e)
    return f"{c}@{f}"


def um_wire(um):
    items = []
    for k, v in um.items():
        d = gen.dim_vec(k)
        items.append(f"{d}=none" if v is None else f"{d}={expr_to_wire(v)}")
    return "|".join(items)


def clean_um(S):
    """units_map without the memoised entries: base dimensions and declared dimensions only, so
    that the model has to synthesise what the library may have memoised"""
    import unyt.dimensions as D
    keys = {getattr(D, n) for n in S._dims} | set(S.base_units)
    return {k: v for k, v in S.units_map.items() if k in keys}


def um_subset(a, b):
    """every entry of a is an entry of b"""
    return all(k in b and same_expr(a[k], b[k]) for k in a)


def parse_expr_wire(s):
    c, f = s.split("@", 1)
    return core.b2f(c), gen.parse_factors(f)


def parse_um(s):
    out = {}
    if s:
        for item in s.split("|"):
            d, e = item.split("=", 1)
            out[d] = None if e == "none" else parse_expr_wire(e)
    return out


def um_dict(um):
    return parse_um(um_wire(um))


def same_expr(a, b):
    if a is None or b is None:
        return a is None and b is None
    return a[1] == b[1] and core.close(a[0], b[0])


def same_um(a, b):
    return set(a) == set(b) and all(same_expr(a[k], b[k]) for k in a)


def extra_wire(rows):
    """rows: [(name, base_value, offset, dimension expr, prefixable)]"""
    return "|".join(f"{n}&{core.f2b(s)}&{core.f2b(o)}&{gen.dim_vec(d)}&{1 if p else 0}" for n, s, o, d, p in rows)


# ---------------------------------------------------------------------------------------------


def run(tier, seed):
    import numpy as np
    import sympy
    import unyt
    import unyt.dimensions as D
    from unyt import Unit, unyt_quantity
    from unyt._parsing import parse_unyt_expr
    from unyt.unit_object import em_conversions
    from unyt.unit_registry import UnitRegistry
    from unyt.unit_systems import UnitSystem, unit_system_registry

    import time as _time0
    core_t0 = _time0.time()
    chk = core.Check("C10", tier, seed)
    modules = QUICK_MODULES if tier == "quick" else THOROUGH_MODULES
    chk.proof = core.prove("C10", modules, extra_targets=("drv_c10",), tier=tier)
    rng = chk.rng
    ex = gen.extract()
    lut = ex["lut"]
    try:
        X = json.load(open(os.path.join(core.BUILD, "extract_c10_systems.json"), encoding="utf-8"))
    except Exception as e:  # translator broken: reported by prove(); go on with the live objects
        X = {"systems": [], "em": []}
        chk.disagree("translator", f"extract_c10_systems.json unreadable: {e!r}")
    ns = {}
    exec(ORACLE, ns)
    oracle = ns["c10_oracle"]
    builtin = [n for n, S in unit_system_registry.items() if S.registry is None]
    try:
        model = core.Model("drv_c10")
    except Exception as e:
        model = None
        chk.disagree("driver", repr(e))

    def ask(lines):
        if model is None or not lines:
            return [["nomodel"]] * len(lines)
        try:
            return model.ask(lines)
        except Exception as e:
            chk.disagree("driver", repr(e)[:300])
            return [["nomodel"]] * len(lines)

    # ------------------------------------------------------------------ 1. translator cross-check
    lines = ["c10.sysnames", "c10.em"] + [f"c10.sys\t{n}" for n in builtin] + [f"c10.syskinds\t{n}" for n in builtin]
    rep = ask(lines)
    if rep[0][0] == "ok":
        if rep[0][1].split(",") != builtin:
            chk.disagree("c10.sysnames", f"model {rep[0][1]} vs live {builtin}")
        live_em = {(k[0], gen.dim_vec(k[1])): (gen.dim_vec(v[0]), v[1], float(v[2])) for k, v in em_conversions.items()}
        got = {}
        for row in rep[1][1].split("|") if len(rep[1]) > 1 and rep[1][1] else []:
            n, d, td, p, b = row.split("&")
            got[(n, d)] = (td, p, core.b2f(b))
        if got != live_em:
            chk.disagree("c10.em", f"regenerated EM table differs from em_conversions: {sorted(set(got.items()) ^ set(live_em.items()))[:4]}")
        for i, n in enumerate(builtin):
            S = unit_system_registry[n]
            r = rep[2 + i]
            chk.count("dump:system")
            if r[0] != "ok" or not same_um(parse_um(r[1]), um_dict(S.units_map)) or not same_um(parse_um(r[2]), um_dict(S.base_units)):
                chk.disagree("c10.sys", f"regenerated system {n} differs from the live unit_system_registry entry")
            rk = rep[2 + len(builtin) + i]
            declared = {gen.dim_vec(getattr(D, k)) for k in S._dims[8:]}
            basek = {gen.dim_vec(k) for k in S.base_units}
            if rk[0] == "ok":
                kinds = dict(item.split("=") for item in rk[1].split("|"))
                want = {gen.dim_vec(k): ("0" if gen.dim_vec(k) in basek else "1" if gen.dim_vec(k) in declared else "2") for k in S.units_map}
                if kinds != want:
                    chk.disagree("c10.syskinds", f"{n}: declared/memoised classification differs")

    # ------------------------------------------------------------------ 1b. unit_system_registry as a state machine
    # histories of constructions (accepted and REJECTED, under fresh names and under names that are already
    # registered), memoising look-ups, overrides, look-ups by name and by object: direct oracle after every step
    # (`c10_registry_history`) + the model's `SysWorld.trace` on the same history (`c10.hist`)
    import time as _time1b
    _t1b = _time1b.time()
    ns_reg = {}
    exec(ORACLE + REGORACLE, ns_reg)
    reg_history = ns_reg["c10_registry_history"]
    good_pool = [["m", "cm", "km", "mm", "ft", "pc", "kpc", "AU"], ["kg", "g", "mg", "Msun", "lb"], ["s", "ms", "yr", "Myr", "hr"],
                 ["K", "R"], ["rad", "deg"], ["A", "mA"], ["cd"], ["Np", "B"]]
    reg_dims = ["energy", "velocity", "force", "pressure", "density", "frequency", "charge_mks", "area", "power", "specific_energy", "magnetic_field_cgs"]
    reg_over = {"energy": ["erg", "J", "keV"], "force": ["dyne", "N"], "pressure": ["Pa"], "velocity": ["km/s"], "power": ["W", "hp"],
                "charge_mks": ["C"], "frequency": ["Hz"]}

    def good_args():
        out = []
        for j, pool in enumerate(good_pool):
            r_ = rng.random()
            s_ = rng.choice(pool)
            if j == 5 and r_ < 0.15:
                out.append("None")
            elif j < 3 and r_ < 0.2:
                out.append(f"unyt_quantity({rng.choice([3.0, 0.5, 10.0])!r}, {s_!r})")
            else:
                out.append(repr(s_))
        return out

    def bad_args():
        a = good_args()
        k = rng.randrange(5)
        if k == 0:      # two slots swapped (the classic slip)
            i_, j_ = rng.sample(range(3), 2)
            a[i_], a[j_] = a[j_], a[i_]
            if a[i_] == a[j_]:
                a[i_] = repr("K")
        elif k == 1:    # a unit of another dimension in one slot
            i_ = rng.randrange(8)
            j_ = rng.choice([x_ for x_ in range(8) if x_ != i_])
            a[i_] = repr(rng.choice(good_pool[j_]))
        elif k == 2:    # a compound where a base unit is expected
            a[rng.randrange(3)] = repr(rng.choice(["km/s", "g*cm", "cm**2"]))
        elif k == 3:    # an empty slot other than current
            a[rng.choice([0, 1, 2, 3, 4, 6, 7])] = "None"
        else:           # a symbol no table knows
            a[rng.randrange(8)] = repr("nosuchunit")
        return a

    def arg_wire(src):
        v = eval(src, {"unyt_quantity": unyt_quantity})
        if v is None:
            return "none"
        if hasattr(v, "value") and hasattr(v, "units"):
            return expr_to_wire(v.value * v.units.expr)
        return expr_to_wire(parse_unyt_expr(str(v)))

    nhist = 24 if tier == "quick" else 300
    hist_lines, hist_expect = [], []
    start_items = list(unit_system_registry.items())
    n0 = len(start_items)
    for h in range(nhist):
        names = [f"c10r_{seed}_{h}_{c}" for c in "abc"]
        hist, wire = [], []
        nobj = n0
        nreg = {}
        # shape of the history: always at least one accepted construction followed (not necessarily at once)
        # by a rejected construction under the SAME name and by uses of that name
        plan = ["Cg", rng.choice(["G", "N", "S", "Cg"]), "Cb-same", "N-same", rng.choice(["O", "G", "Cb-fresh", "Cb-builtin"])]
        plan += [rng.choice(["Cg", "Cb-same", "Cb-fresh", "Cb-builtin", "Cg-same", "G", "S", "N", "N-same", "N-unknown", "O"]) for _ in range(rng.randint(2, 7))]
        last_name = None
        for what in plan:
            if what.startswith("C"):
                if what.endswith("-same") and last_name is not None:
                    name = last_name
                elif what == "Cb-builtin":
                    name = rng.choice(builtin)
                else:
                    name = rng.choice(names)
                args = good_args() if what.startswith("Cg") else bad_args()
                use_reg = rng.random() < 0.15
                hist.append(("C", name, args, use_reg))
                try:
                    wire.append("!".join(["C", name, "1" if use_reg else "0"] + [arg_wire(a) for a in args]))
                except Exception:
                    wire.append(None)
                if what.startswith("Cg"):
                    last_name = name
                    nreg[name] = nobj
                    nobj += 1
                chk.count("registry-op:construct-" + ("consistent" if what.startswith("Cg") else "inconsistent")
                          + ("|registered-name" if name in nreg and nreg[name] != nobj - 1 or name in builtin or what.endswith("-same") else "|fresh-name"))
            elif what == "G":
                i_ = rng.randrange(nobj)
                dn = rng.choice(reg_dims)
                hist.append(("G", i_, dn))
                wire.append(f"G!{i_}!{gen.dim_vec(getattr(D, dn))}")
                chk.count("registry-op:getitem")
            elif what == "S":
                if nobj == n0:
                    continue
                i_ = rng.randrange(n0, nobj)  # overrides only on systems of this history (the built-in ones are shared with the rest of the run)
                dn = rng.choice(sorted(reg_over))
                us = rng.choice(reg_over[dn])
                hist.append(("S", i_, dn, us))
                wire.append(f"S!{i_}!{gen.dim_vec(getattr(D, dn))}!{expr_to_wire(parse_unyt_expr(us))}")
                chk.count("registry-op:setitem")
            elif what.startswith("N"):
                name = last_name if what == "N-same" and last_name else "c10r_nobody" if what == "N-unknown" else rng.choice(names + builtin)
                hist.append(("N", name))
                wire.append(f"N!{name}")
                chk.count("registry-op:by-name")
            else:
                i_ = rng.randrange(nobj)
                hist.append(("O", i_))
                wire.append(f"O!{i_}")
                chk.count("registry-op:by-object")
        seen_state = {}

        def observe(objs, items, seen_state=seen_state):
            seen_state["objs"] = [(getattr(o, "name", None), um_dict(o.units_map), um_dict(o.base_units)) for o in objs]
            seen_state["names"] = [(k, next((i for i, o in enumerate(objs) if o is v), -1)) for k, v in items]

        init_items = ["!".join(["I", k, um_wire(v.units_map), um_wire(v.base_units)]) for k, v in unit_system_registry.items()]
        try:
            fails, trace = reg_history(hist, observe=observe)
        except Exception as e:
            chk.disagree("c10.hist", f"the history runner raised {e!r} on {hist!r}"[:600])
            continue
        chk.case(("registry-history", h), {"history": [list(map(str, o)) for o in hist[:6]], "answers": [list(map(str, t)) for t in trace[:6]]} if h < 2 else None)
        for t in trace:
            chk.count("registry-answer:" + t[0] + ("|" + t[1] if t[0] == "raised" else ""))
        for kind, detail in fails:
            chk.fail("registry|" + kind, f"history {hist!r}: {detail}"[:900], {"python": registry_replay(hist, kind)})
        if all(w is not None for w in wire) and "objs" in seen_state:
            hist_lines.append("\t".join(["c10.hist"] + init_items + wire))
            hist_expect.append((hist, trace, seen_state))
    rep = ask(hist_lines)
    for r, (hist, trace, seen_state) in zip(rep, hist_expect):
        chk.count("model:registry-history")
        if r[0] == "nomodel":
            break
        if r[0] != "ok" or len(r) < 4 + len(trace):
            chk.disagree("c10.hist", f"{hist!r}: model reply {r[:3]}")
            continue
        nops = int(r[1])
        answers, names_m, inv_m, objs_m = r[2:2 + nops], r[2 + nops], r[3 + nops], r[4 + nops:]
        if inv_m != "1":
            chk.disagree("c10.hist", f"{hist!r}: the model's final state violates the registry invariant")
        for stepno, (a, t) in enumerate(zip(answers, trace)):
            kind, _, val = a.partition(":")
            okk = (kind == t[0]) and (
                (kind in ("built", "system") and int(val) == t[1]) or kind in ("unit", "done")
                or (kind == "raised" and val == {"AttributeError": "Other"}.get(t[1], t[1])))
            if not okk:
                chk.disagree("c10.hist", f"{hist!r}: step {stepno} {hist[stepno]!r}: library {t}, model {a}")
                break
        live_names = seen_state["names"]
        model_names = [tuple(x.split("=")) for x in names_m.split(",")] if names_m else []
        if [(k, str(i)) for k, i in live_names] != model_names:
            chk.disagree("c10.hist", f"{hist!r}: unit_system_registry afterwards is {live_names}, the model has {model_names}")
        if len(objs_m) != len(seen_state["objs"]):
            chk.disagree("c10.hist", f"{hist!r}: {len(seen_state['objs'])} live objects, the model has {len(objs_m)}")
        else:
            for i_, (om, (lname, lum, lbase)) in enumerate(zip(objs_m, seen_state["objs"])):
                mname, mum, mbase = om.split("#")
                # the oracle's own conversions memoise further dimensions in the live objects: the model's map must be contained
                if mname != lname or not um_subset(parse_um(mum), lum) or not same_um(parse_um(mbase), lbase):
                    chk.disagree("c10.hist", f"{hist!r}: object {i_} ({lname}) differs from the model's afterwards")
                    break

    if os.environ.get("C10_DEBUG"):
        print(f"section 1b took {_time1b.time() - _t1b:.1f} s (start at {_t1b - core_t0:.1f} s)")

    # ------------------------------------------------------------------ 2. built-in systems x atomic units (x prefixes)
    all_pre = list(ex["prefixes"].keys())
    pre_sample = ["m", "k", "da", "μ"] if tier == "quick" else all_pre
    rows = []  # (sysname, unitname, findingkey)
    for sname in builtin:
        for k in lut:
            rows.append((sname, k, f"{sname}|{k}", "atomic"))
        for k in gen.prefixable_symbols():
            for p in pre_sample:
                rows.append((sname, p + k, f"{sname}|{k}|prefixed", "prefixed"))
    xs = [2.5, 0.75, 320.0]
    verdict_lines, verdict_expect = [], []
    inbase_lines, inbase_expect = [], []
    variant_lines, variant_expect = [], []

    def in_float_range(sysname, u):
        """conversions whose factor leaves the double range are outside 'up to rounding'"""
        try:
            ge = u.get_base_equivalent(sysname)
        except Exception:
            return True
        a, b = abs(u.base_value), abs(ge.base_value)
        if not (np.isfinite(a) and np.isfinite(b)) or a == 0 or b == 0:
            return False
        return 1e-200 < a < 1e200 and 1e-200 < b < 1e200 and 1e-200 < a / b < 1e200

    def em_key(prefix, sysname, u):
        """finding key of a closure failure of an atomic unit: <where>|<unprefixed symbol>[|prefixed]"""
        from unyt.unit_systems import _split_prefix
        p, wo = _split_prefix(str(u.expr), u.registry.lut)
        return f"{prefix}|{wo}|prefixed" if p else f"{prefix}|{wo}"

    def lib_inbase(sysname, u, x):
        """run in_base on the library, recording what the model needs to be compared"""
        S = unit_system_registry[sysname]
        before = um_wire(clean_um(S))
        try:
            r = unyt_quantity(x, u).in_base(sysname)
        except Exception as e:
            return before, ("err", core.exc_name(e)), None
        return before, ("ok", r), um_dict(S.units_map)

    def add_inbase_case(tag, sysname, u, x, extra=""):
        try:
            uw = expr_to_wire(u.expr)
        except ValueError:
            chk.count("outside-model-vocabulary")
            return
        before, res, after = lib_inbase(sysname, u, x)
        inbase_lines.append("\t".join(["c10.inbase", extra, before, uw, str(core.f2b(x))]))
        inbase_expect.append((tag, sysname, str(u), x, res, after, u))
        # the in-place and Unit-level variants of the model, against the same library result
        variant_lines.append("\t".join(["c10.tobase", extra, before, uw, str(core.f2b(x))]))
        variant_lines.append("\t".join(["c10.baseequiv", extra, before, uw]))
        variant_expect.append((tag, sysname, str(u), x, res, u))

    def run_case(tag, sysname, us, u, x, setup="", regcode="None", extra="", sample=None, variant=None):
        """direct oracle on the library for one (system, unit, value) + the model request"""
        if not in_float_range(sysname, u):
            chk.count("float-range-skipped")
            return None
        atomic = "atomic" if u.is_atomic else "compound"

        def rp(sel=None, **kw):
            d = {"python": replay_code(setup, sysname, repr(us), x, regcode, sel), "system": sysname, "unit": us}
            if setup:
                d["setup"] = setup
            d.update(kw)
            return d

        try:
            verdict, fails, detail = oracle(sysname, u, x)
        except Exception as e:
            chk.fail(f"raise|{tag}|{atomic}|{core.exc_name(e)}", f"in_base({sysname!r}) of {us} raised {core.exc_name(e)} {('[' + setup.strip() + ']') if setup else ''}",
                     rp(error=repr(e)[:300]))
            return None
        chk.case((tag, sysname, us) if variant is None else (tag, sysname, us, variant), sample(verdict) if sample else None)
        chk.count(f"{tag}:{verdict}")
        if fails:
            is_em = any(k[1] == u.dimensions for k in em_conversions)
            what = f"{us}.in_base({sysname!r}): {detail}" + (f" [{setup.strip()}]" if setup else "")
            # an EM-table unit that lands off the system's unit is the EM-route defect (same key as "outside")
            ckinds = CLOSURE_KINDS | ({"offsystem"} if (u.is_atomic and is_em) else set())
            closure = [f for f in fails if f in ckinds]
            if closure:
                if u.is_atomic:
                    key = em_key(sysname if tag in ("builtin", "compound") else tag, sysname, u)
                else:
                    key = f"{tag}|closure|compound|{'em' if is_em else 'plain'}"
                chk.fail(key, what, rp(ckinds, kinds=fails))
            for f in fails:
                if f not in ckinds:
                    chk.fail(f"{tag}|{f}|{atomic}|{'em' if is_em else 'plain'}", what, rp({f}, kinds=fails))
        add_inbase_case(tag, sysname, u, x, extra)
        return verdict

    for (sname, uname, key, kind) in rows:
        x = xs[(len(uname) + len(sname)) % 3]
        try:
            u = Unit(uname)
        except Exception as e:
            chk.fail(f"unit-unparsable|{kind}", f"Unit({uname!r}) raised {core.exc_name(e)}", {"python": f"from unyt import Unit\nUnit({uname!r})\n"})
            continue
        verdict = run_case("builtin", sname, uname, u, x,
                           sample=lambda v: {"system": sname, "unit": uname, "x": x, "verdict": v} if (len(chk.samples) < 5 and v != "closed") or len(chk.samples) < 2 else None)
        if verdict is not None:
            verdict_lines.append(f"c10.verdict\t{sname}\t{u.expr}")
            verdict_expect.append((sname, uname, verdict))

    # ------------------------------------------------------------------ 3. compounds on built-in systems
    ncomp = 150 if tier == "quick" else 1500
    em_atoms = ["C", "statC", "T", "G", "A", "statA", "V", "statV", "ohm", "statohm", "Mx", "q_pl", "F", "H", "Wb"]
    for i in range(ncomp):
        if rng.random() < 0.3:
            parts = [rng.choice(em_atoms)]
            if rng.random() < 0.7:
                parts.append(rng.choice(["s", "cm", "m", "g", "kg", "km"]) + rng.choice(["", "**-1", "**2", "**(-1/2)"]))
            if rng.random() < 0.3:
                parts.append(rng.choice(em_atoms) + rng.choice(["**-1", "**2", ""]))
            cs = "*".join(parts)
        else:
            cs = gen.random_compound(rng, 4)
        sname = rng.choice(builtin)
        try:
            u = Unit(cs)
        except Exception:
            chk.count("compound-unparsable")
            continue
        x = rng.choice(xs)
        run_case("compound", sname, cs, u, x, sample=lambda v: {"system": sname, "unit": cs, "verdict": v} if len(chk.samples) < 8 else None)

    # ------------------------------------------------------------------ 4. __getitem__ / synthesis on systems; audit of memoised entries
    getitem_lines, getitem_expect = [], []
    dimnames = [n for n in ex["dims"] if n not in ("dimensionless",)]
    base_syms = [D.mass, D.length, D.time, D.temperature, D.angle, D.current_mks, D.luminous_intensity, D.logarithmic]
    dnames8 = ["mass", "length", "time", "temperature", "angle", "current_mks", "luminous_intensity", "logarithmic"]

    def dim_code(dv):
        return "*".join(f"D.{n}**sympy.Rational({Fraction(q).numerator}, {Fraction(q).denominator})"
                        for n, q in zip(dnames8, dv.split(",")) if Fraction(q) != 0) or "sympy.Integer(1)"

    def setup_block(setup):
        if not setup:
            return ""
        return "try:\n" + "".join("    " + l + "\n" for l in setup.strip().split("\n")) + "except Exception:\n    sys.exit(0)\n"

    def getitem_cases(tag, sname, n, setup="", regcode="None"):
        """unit_system[dim] for seeded dimensions: direct oracle (dimension, owned atoms, and the unit IS the
        product of the base units to the exponents — coefficient included) + the model on the un-memoised map"""
        S = unit_system_registry[sname]
        reg = S.registry
        for j in range(n):
            if rng.random() < 0.5:
                dim = getattr(D, rng.choice(dimnames))
            else:
                dim = sympy.Integer(1)
                for b_ in rng.sample(base_syms, rng.randint(1, 4)):
                    dim = dim * b_ ** sympy.Rational(*(lambda f: (f.numerator, f.denominator))(rng.choice(gen.EXPONENTS)))
            try:
                dv = gen.dim_vec(dim)
            except ValueError:
                continue
            before = um_wire(clean_um(S))
            try:
                r = S[dim]
                res = ("ok", r)
            except Exception as e:
                res = ("err", core.exc_name(e))
            after = um_dict(S.units_map)
            getitem_lines.append(f"c10.getitem\t{before}\t{dv}")
            getitem_expect.append((sname, dv, res, after, dim))
            chk.count("getitem:" + res[0])
            chk.case(("getitem", sname, dv))
            if res[0] == "ok":
                owned = ns["c10_owned"](S)
                want = ns["c10_system_unit"](S, dim, reg)
                if r.dimensions != dim or not ns["c10_atoms"](r.expr) <= owned or (want is not None and not ns["c10_same_system_unit"](r, want)):
                    chk.fail(f"getitem|{sname if tag == 'builtin' else tag}", f"unit_system[{dim}] returned {r} (dimension {r.dimensions}); the system's unit is {want} {('[' + setup.strip() + ']') if setup else ''}",
                             {"python": ORACLE + f"\n" + setup_block(setup) + f"S = unit_system_registry[{sname!r}]\ndim = {dim_code(dv)}\n"
                              + f"r = S[dim]\nwant = c10_system_unit(S, dim, {regcode})\n"
                              + "assert r.dimensions == dim and c10_atoms(r.expr) <= c10_owned(S) and (want is None or c10_same_system_unit(r, want)), (r, want)\n"})

    memo_lines, memo_expect = [], []

    def memo_audit(tag, sname, setup="", regcode="None"):
        """every entry `__getitem__` memoised so far is the system's unit for its key (direct oracle)
        and what the model synthesises from the un-memoised map"""
        S = unit_system_registry[sname]
        keep = clean_um(S)
        before = um_wire(keep)
        for k, v in list(S.units_map.items()):
            if k in keep or v is None:
                continue
            try:
                dv = gen.dim_vec(k)
                vw = parse_expr_wire(expr_to_wire(v))
            except ValueError:
                continue
            chk.count("memo-audit")
            try:
                want = ns["c10_system_unit"](S, k, S.registry)
                have = Unit(v, registry=S.registry)
            except Exception:
                continue
            if want is not None and not ns["c10_same_system_unit"](have, want):
                chk.fail(f"memo|{sname if tag == 'builtin' else tag}", f"units_map[{k}] holds {v}, the system's unit is {want} {('[' + setup.strip() + ']') if setup else ''}",
                         {"python": ORACLE + "\n" + setup_block(setup) + f"S = unit_system_registry[{sname!r}]\ndim = {dim_code(dv)}\nS[dim]\n"
                          + f"have = Unit(S.units_map[dim], registry=S.registry); want = c10_system_unit(S, dim, S.registry)\n"
                          + "assert want is None or c10_same_system_unit(have, want), (have, want)\n"})
            memo_lines.append(f"c10.getitem\t{before}\t{dv}")
            memo_expect.append((sname, k, vw))

    for sname in builtin:
        getitem_cases("builtin", sname, 12 if tier == "quick" else 80)

    # ------------------------------------------------------------------ 5. user-defined systems
    bydim = {}
    for k, v in lut.items():
        bydim.setdefault(",".join(v[2]), []).append(k)
    slots = [("length", D.length), ("mass", D.mass), ("time", D.time), ("temperature", D.temperature), ("angle", D.angle),
             ("current_mks", D.current_mks), ("luminous_intensity", D.luminous_intensity), ("logarithmic", D.logarithmic)]
    defaults = ["m", "kg", "s", "K", "rad", "A", "cd", "Np"]
    kw = ["length_unit", "mass_unit", "time_unit", "temperature_unit", "angle_unit", "current_mks_unit", "luminous_intensity_unit", "logarithmic_unit"]
    nuser = 14 if tier == "quick" else 90
    nunits = 30 if tier == "quick" else 90
    init_lines, init_expect = [], []
    setitem_lines, setitem_expect = [], []
    all_names = list(lut.keys())
    prefixable = gen.prefixable_symbols()
    created = []
    for i in range(nuser + 8):
        name = f"c10u_{seed}_{i}"
        args_code, args_val = [], []
        wrong_slot = i - nuser if i >= nuser else None  # the last eight: exactly one slot of the wrong dimension
        for j, (dn, dsym) in enumerate(slots):
            if wrong_slot is not None:
                s = defaults[(j + 1 + i) % 8 if (j + 1 + i) % 8 != j else (j + 2) % 8] if j == wrong_slot else defaults[j]
                if j == wrong_slot and rng.random() < 0.5 and s in prefixable:
                    s = rng.choice(["k", "m"]) + s
                args_code.append(repr(s)); args_val.append(s)
                continue
            dv = gen.dim_vec(dsym)
            cands = [s for s in bydim.get(dv, []) if s not in ("lat", "lon")]
            r_ = rng.random()
            if i < 2 and j < 3:
                r_ = 0.85  # the first two systems always carry coefficients on length, mass and time
            if j >= 3 and r_ < 0.45:
                s = defaults[j]
                args_code.append(repr(s)); args_val.append(s)
            elif r_ < 0.80 or (j == 3 and r_ < 0.93):
                s = rng.choice(cands)
                if s in prefixable and rng.random() < 0.35:
                    s = rng.choice(["k", "M", "m", "da", "μ", "n"]) + s
                args_code.append(repr(s)); args_val.append(s)
            elif r_ < 0.90:
                s = rng.choice([c for c in cands if lut[c][1] == core.f2b(0.0)] or cands)
                val = rng.choice([3.0, 0.5, 10.0, 2.5e3])
                args_code.append(f"unyt_quantity({val!r}, {s!r})"); args_val.append(unyt_quantity(val, s))
            elif r_ < 0.95 and j == 5:
                args_code.append("None"); args_val.append(None)
            elif r_ < 0.97:
                s = rng.choice(["km/s", "cm**2", "1", "g*cm"])
                args_code.append(repr(s)); args_val.append(s)
            else:
                s = rng.choice(all_names)  # most likely the wrong dimension
                args_code.append(repr(s)); args_val.append(s)
        setup = f"S = UnitSystem({name!r}, " + ", ".join(f"{k}={c}" for k, c in zip(kw, args_code)) + ")\n"
        # model line: the parsed expressions
        try:
            parsed = []
            for v in args_val:
                if v is None:
                    parsed.append("none")
                elif hasattr(v, "value") and hasattr(v, "units"):
                    parsed.append(expr_to_wire(v.value * v.units.expr))
                else:
                    parsed.append(expr_to_wire(parse_unyt_expr(str(v))))
            init_line = "\t".join(["c10.init", "", "0"] + parsed)
        except Exception:
            init_line = None
        try:
            S = UnitSystem(name, **dict(zip(kw, args_val)))
            res = ("ok", S)
            created.append(name)
        except Exception as e:
            res = ("err", core.exc_name(e))
            if name in unit_system_registry:  # "rejected at construction": nothing may be registered
                chk.fail("registry|rejected-construction|fresh|registry-changed",
                         f"{setup.strip()} raised {res[1]} but unit_system_registry[{name!r}] exists afterwards",
                         {"python": ORACLE + "\ntry:\n    " + setup + "except Exception:\n    pass\nelse:\n    sys.exit(0)\n"
                          + f"assert {name!r} not in unit_system_registry\n"})
            unit_system_registry.pop(name, None)
        chk.count("user-init:" + (res[0] if res[0] == "ok" else res[1]))
        chk.case(("user-init", i), {"setup": setup.strip(), "outcome": res[0] if res[0] == "ok" else res[1]} if i < 3 else None)
        if init_line:
            init_lines.append(init_line)
            init_expect.append((setup, res))
        # direct oracle of "inconsistent base units are rejected": every accepted base unit has its slot's dimension
        if res[0] == "ok":
            for (dn, dsym), v in zip(slots, S.base_units.values()):
                if v is None:
                    continue
                try:
                    bu = Unit(v)
                    okdim = bu.dimensions == dsym
                except Exception:
                    okdim = False
                if not okdim:
                    chk.fail(f"init-accepts|{dn}", f"{setup.strip()} accepted a {dn} unit {v} that is not of dimension {dn}",
                             {"python": ORACLE + "\ntry:\n    " + setup + "except Exception:\n    sys.exit(0)\n"
                              + f"bu = Unit(list(S.base_units.values())[{[s[0] for s in slots].index(dn)}])\nassert bu.dimensions == D.{dn}, bu.dimensions\n"})
        if res[0] != "ok":
            continue
        # overrides
        for _ in range(rng.randint(0, 3)):
            dn = rng.choice(dimnames)
            dsym = getattr(D, dn)
            try:
                dv = gen.dim_vec(dsym)
            except ValueError:
                continue
            cands = [s for s in bydim.get(dv, []) if lut[s][1] == core.f2b(0.0)]
            if not cands:
                continue
            us = rng.choice(cands)
            if us in prefixable and rng.random() < 0.3:
                us = rng.choice(["k", "m", "M"]) + us
            before = um_wire(S.units_map)
            try:
                S[dn] = us
                sres = ("ok", None)
                setup += f"S[{dn!r}] = {us!r}\n"
            except Exception as e:
                sres = ("err", core.exc_name(e))
            setitem_lines.append(f"c10.setitem\t{before}\t{dv}\t{expr_to_wire(parse_unyt_expr(us))}")
            setitem_expect.append((setup, sres, um_dict(S.units_map)))
            chk.count("setitem:" + sres[0])
        # conversions
        pool = rng.sample(all_names, min(len(all_names), nunits // 2))
        pool += [rng.choice(["k", "m", "M", "μ"]) + rng.choice(prefixable) for _ in range(nunits // 4)]
        pool += [gen.random_compound(rng, 3) for _ in range(nunits // 4)]
        pool += ["C", "statC", "V", "mV", "G", "T", "ohm", "statohm", "A", "statA"]
        for us in pool:
            try:
                u = Unit(us)
            except Exception:
                continue
            x = rng.choice(xs)
            run_case("user", name, us, u, x, setup=setup,
                     sample=lambda v: {"setup": setup.strip(), "unit": us, "verdict": v} if len(chk.samples) < 11 and us == pool[0] else None)
        getitem_cases("user", name, 6 if tier == "quick" else 20, setup=setup)
        memo_audit("user", name, setup=setup)

    # ------------------------------------------------------------------ 6. code-unit registries (system bound to a registry)
    ncode = 3 if tier == "quick" else 12
    for i in range(ncode):
        name = f"c10code_{seed}_{i}"
        cl, cm, ct = rng.choice([3.0857e21, 1.0e5, 0.3048 * 7]), rng.choice([1.989e33 * 1e-3, 5.0, 1.0e10]), rng.choice([3.15e13, 60.0, 2.5])
        setup = ("reg = UnitRegistry()\n"
                 f"reg.add('code_length', {cl!r}, D.length)\nreg.add('code_mass', {cm!r}, D.mass)\nreg.add('code_time', {ct!r}, D.time, prefixable=True)\n"
                 f"S = UnitSystem({name!r}, 'code_length', 'code_mass', 'code_time', registry=reg)\n")
        if rng.random() < 0.6:
            setup += "S['velocity'] = 'code_length/code_time'\n"
        cns = dict(ns)
        try:
            exec(setup, cns)
        except Exception as e:
            chk.fail(f"code-setup|{core.exc_name(e)}", f"a code-unit system could not be built: {core.exc_name(e)}", {"python": ORACLE + "\n" + setup})
            unit_system_registry.pop(name, None)
            continue
        created.append(name)
        reg = cns["reg"]
        extra = extra_wire([("code_length", cl, 0.0, D.length, False), ("code_mass", cm, 0.0, D.mass, False), ("code_time", ct, 0.0, D.time, True)])
        parsed = [expr_to_wire(parse_unyt_expr(s)) for s in ("code_length", "code_mass", "code_time", "K", "rad", "A", "cd", "Np")]
        init_lines.append("\t".join(["c10.init", extra, "1"] + parsed))
        init_expect.append((setup, ("ok", cns["S"])))
        pool = ["code_length", "code_mass", "code_time", "kcode_time", "code_length/code_time", "code_mass/code_length**3", "km", "g/cm**3",
                "erg", "J", "K", "degC", "km/s", "code_length*km", "C", "statC", "V", "G", "T", "Msun/kpc**3", "code_mass*code_length**2/code_time**2"]
        pool += [gen.random_compound(rng, 3) for _ in range(6 if tier == "quick" else 30)]
        for us in pool:
            try:
                u = Unit(us, registry=reg)
            except Exception:
                continue
            x = rng.choice(xs)
            run_case("code", name, us, u, x, setup=setup, regcode="reg", extra=extra,
                     sample=lambda v: {"setup": setup.strip(), "unit": us, "verdict": v} if us == "km" and i == 0 else None)
        memo_audit("code", name, setup=setup, regcode="reg")

    import time as _time
    _t6b = _time.time()
    # ------------------------------------------------------------------ 6b. the quantity lives in ANOTHER registry than the system
    # The system resolves its symbols in its own registry (the default one for the built-in systems and
    # for user systems built without `registry=`); the RESULT must be the system's unit as the quantity's
    # registry values it.  Registries are generated in which symbols the target system uses as base or
    # declared units are re-valued (`modify`) or newly defined (`add`, code units).
    from unyt.unit_systems import _split_prefix
    reg_oracle = ns["c10_reg_oracle"]
    deflut = UnitRegistry().lut
    REG_FACTORS = [1.25, 0.5, 3.0, 8.0, 1.0058]

    def lut_symbol(atom):
        if atom in deflut:
            return atom
        p, wo = _split_prefix(atom, deflut)
        return wo if p and wo in deflut else None

    def system_symbols(S):
        """(lut symbols of the base units, lut symbols of the declared units that are not base symbols)"""
        base, decl = [], []
        for v in S.base_units.values():
            if v is not None:
                for a in sorted(ns["c10_atoms"](v)):
                    s_ = lut_symbol(a)
                    if s_ and s_ not in base:
                        base.append(s_)
        for n_ in S._dims[8:]:
            v = S.units_map.get(getattr(D, n_))
            if v is not None:
                for a in sorted(ns["c10_atoms"](v)):
                    s_ = lut_symbol(a)
                    if s_ and s_ not in base and s_ not in decl:
                        decl.append(s_)
        return base, decl

    def modify_lines(var, syms):
        """`var = UnitRegistry(); var.modify(sym, default value x factor)` for each symbol"""
        lines = [f"{var} = UnitRegistry()"]
        for s_ in syms:
            lines.append(f"{var}.modify({s_!r}, {float(deflut[s_][0]) * rng.choice(REG_FACTORS)!r})")
        return "\n".join(lines) + "\n"

    def reg_extra(reg):
        """the rows in which `reg` differs from the default table, for the model"""
        rows = []
        for k, v in reg.lut.items():
            if k in getattr(reg, "_derived_symbols", ()) or (k in deflut and deflut[k][:3] == v[:3]):
                continue
            rows.append((k, float(v[0]), float(v[2]), v[1], bool(v[4]) if len(v) > 4 else False))
        return extra_wire(rows)

    def reg_pool(reg, syms, n_fixed, n_rand):
        """units whose conversion involves the re-valued symbols: the symbols themselves, other units of
        the same dimension (alone and in a compound), a fixed everyday list, seeded compounds"""
        pool = []
        for s_ in syms:
            pool.append(s_)
            dv = gen.dim_vec(reg.lut[s_][1])
            others = [o for o in bydim.get(dv, []) if o != s_ and o not in ("lat", "lon")]
            if others:
                o = rng.choice(others)
                pool.append(o)
                pool.append(f"{rng.choice(others)}*km/s**2")
            if s_ in prefixable:
                pool.append(rng.choice(["k", "m", "M"]) + s_)
        fixed = ["kg", "g", "m", "km", "s", "yr", "K", "degC", "degF", "g/cm**3", "erg", "J", "km/s", "N", "W", "Msun/kpc**3", "G", "T", "statC", "C",
                 "erg/s/cm**2", "J/K", "lb*ft", "pc/Myr", "mile/hr", "dyn/cm**2"]
        pool += rng.sample(fixed, n_fixed)
        pool += [gen.random_compound(rng, 3) for _ in range(n_rand)]
        seen, out = set(), []
        for p_ in pool:
            if p_ not in seen:
                seen.add(p_); out.append(p_)
        return out

    def reg_cases(tag, syskind, modkind, sname, setup, regcode, reg, pool):
        """existing oracle + model (the table of the QUANTITY's registry travels as `extra`) + the registry clauses"""
        extra = reg_extra(reg) if reg is not None else ""
        regarg = regcode if reg is not None else "None"
        for us in pool:
            try:
                u = Unit(us, registry=reg)
            except Exception:
                chk.count("reg:unit-unparsable")
                continue
            x = rng.choice(xs)
            if not in_float_range(sname, u):
                chk.count("float-range-skipped")
                continue
            run_case(tag, sname, us, u, x, setup=setup, regcode=regarg, extra=extra, variant=f"{syskind}/{modkind}",
                     sample=lambda v: {"setup": setup.strip(), "unit": us, "verdict": v} if us == pool[0] and len(chk.samples) < 16 else None)
            chk.count(f"reg:{syskind}:{modkind}")
            is_em = "em" if any(k[1] == u.dimensions for k in em_conversions) else "plain"
            try:
                fails = reg_oracle(sname, u, x, u.registry)
            except Exception as e:
                fails = [("oracle", "raise", f"{core.exc_name(e)}: {e}")]
            seen = set()
            for route, clause, detail in fails:
                if (route, clause) in seen:
                    continue
                seen.add((route, clause))
                code = (ORACLE + "\n" + setup_block(setup) + f"fails = c10_reg_oracle({sname!r}, {us!r}, {x!r}, {regcode if reg is not None else 'unyt.unit_registry.default_unit_registry'})\n"
                        + f"bad = [f for f in fails if f[:2] == ({route!r}, {clause!r})]\nassert not bad, bad\n")
                chk.fail(f"reg|{syskind}|{modkind}|{route}|{clause}|{is_em}",
                         f"{x} {us} of a registry [{setup.strip()}] into {sname!r}: {detail}",
                         {"python": code, "system": sname, "unit": us, "setup": setup, "all_failed": sorted({f'{r_}|{c_}' for r_, c_, _ in fails})})

    nmods = 1 if tier == "quick" else 3
    for sname in builtin:
        S = unit_system_registry[sname]
        bsyms, dsyms = system_symbols(S)
        plans = []
        for _ in range(nmods):
            plans.append(("base-modified", rng.sample(bsyms[:4], rng.randint(1, 2))))   # mass / length / time / temperature
            plans.append(("base-modified", [rng.choice(bsyms)]))
            if dsyms:
                plans.append(("declared-modified", [rng.choice(dsyms)]))
                plans.append(("base+declared-modified", [rng.choice(bsyms[:4]), rng.choice(dsyms)]))
        plans.append(("all-base-modified", bsyms[:4]))
        plans.append(("foreign-modified", [rng.choice([k for k in ("mile", "oz", "day", "eV", "bar") if k not in bsyms + dsyms])]))
        for modkind, syms in plans:
            setup = modify_lines("reg", syms)
            cns = dict(ns)
            try:
                exec(setup, cns)
            except Exception as e:
                chk.fail(f"reg-setup|{core.exc_name(e)}", f"a registry could not be modified: {setup.strip()}: {core.exc_name(e)}", {"python": ORACLE + "\n" + setup})
                continue
            reg = cns["reg"]
            reg_cases("builtin", "builtin", modkind, sname, setup, "reg", reg, reg_pool(reg, syms, 4 if tier == "quick" else 10, 1 if tier == "quick" else 6))

    # user-defined systems: built without a registry (symbols resolved in the default one) or with a
    # registry of their own; the quantity lives in a registry that values the system's symbols differently
    user_bases = [("kpc", "Msun", "Myr"), ("km", "g", "yr"), ("ft", "lb", "hr"), ("AU", "Mearth", "day"), ("cm", "kg", "s"), ("pc", "Mjup", "kyr")]
    user_decl = [("energy", "erg"), ("force", "lbf"), ("pressure", "bar"), ("power", "hp"), ("velocity", "mile/hr"), ("energy", "keV"), ("frequency", "kHz")]
    nreg_user = 6 if tier == "quick" else 24
    for i in range(nreg_user):
        name = f"c10reg_{seed}_{i}"
        L, M, T_ = user_bases[i % len(user_bases)] if i < len(user_bases) else (rng.choice(user_bases)[0], rng.choice(user_bases)[1], rng.choice(user_bases)[2])
        tunit = rng.choice(["K", "R", "K", "mK"])
        dn, du = rng.choice(user_decl)
        own_registry = i % 2 == 1
        bs = [s_ for s_ in (lut_symbol(L), lut_symbol(M), lut_symbol(T_), lut_symbol(tunit)) if s_]
        ds = [lut_symbol(a) for a in sorted(ns["c10_atoms"](parse_unyt_expr(du)))]
        ds = [s_ for s_ in ds if s_ and s_ not in bs]
        if own_registry:
            sys_syms = rng.sample(bs, 2) + (ds[:1] if rng.random() < 0.5 else [])
            setup = modify_lines("sreg", sys_syms)
            setup += f"S = UnitSystem({name!r}, {L!r}, {M!r}, {T_!r}, temperature_unit={tunit!r}, registry=sreg)\nS[{dn!r}] = {du!r}\n"
        else:
            setup = f"S = UnitSystem({name!r}, {L!r}, {M!r}, {T_!r}, temperature_unit={tunit!r})\nS[{dn!r}] = {du!r}\n"
        cns = dict(ns)
        try:
            exec(setup, cns)
        except Exception as e:
            chk.fail(f"reg-user-setup|{core.exc_name(e)}", f"a user system could not be built: {setup.strip()}: {core.exc_name(e)}", {"python": ORACLE + "\n" + setup})
            unit_system_registry.pop(name, None)
            continue
        created.append(name)
        syskind = "user-own-registry" if own_registry else "user-default-registry"
        qplans = [("base-modified", rng.sample(bs, rng.randint(1, 2))), ("all-base-modified", bs[:3])]
        if ds:
            qplans.append(("declared-modified", ds[:1]))
        if own_registry:
            qplans.append(("system-modified", None))       # the quantity lives in the default registry
            qplans.append(("same-registry", "sreg"))       # control: the usual pattern
        for modkind, syms in qplans:
            if syms is None:
                reg_cases("user", syskind, modkind, name, setup, "None", None, reg_pool(UnitRegistry(), sys_syms, 3, 1))
                continue
            if syms == "sreg":
                reg_cases("user", syskind, modkind, name, setup, "sreg", cns["sreg"], reg_pool(cns["sreg"], sys_syms, 3, 1))
                continue
            qlines = modify_lines("reg", syms)
            qsetup = setup + qlines
            qns = dict(ns)
            try:
                exec(qlines, qns)
            except Exception as e:
                chk.fail(f"reg-setup|{core.exc_name(e)}", f"a registry could not be modified: {qsetup.strip()}: {core.exc_name(e)}", {"python": ORACLE + "\n" + qsetup})
                continue
            reg_cases("user", syskind, modkind, name, qsetup, "reg", qns["reg"], reg_pool(qns["reg"], syms, 3, 1))
        memo_audit("user", name, setup=setup, regcode="sreg" if own_registry else "None")

    # code-unit systems bound to registry A, quantity from registry B (a second "dataset") that defines
    # the same code symbols with other values
    ncode2 = 3 if tier == "quick" else 10
    for i in range(ncode2):
        name = f"c10code2_{seed}_{i}"
        vals = [(rng.choice([3.0857e21, 1.0e5, 2.0]), rng.choice([1.989e30, 5.0, 1.0e10]), rng.choice([3.15e13, 60.0, 2.5])) for _ in range(2)]
        if vals[0] == vals[1]:
            vals[1] = (vals[1][0] * 2.5, vals[1][1], vals[1][2] * 0.5)
        def code_reg(var, v):
            return (f"{var} = UnitRegistry()\n{var}.add('code_length', {v[0]!r}, D.length)\n{var}.add('code_mass', {v[1]!r}, D.mass)\n"
                    f"{var}.add('code_time', {v[2]!r}, D.time, prefixable=True)\n")
        tunit = rng.choice(["K", "code_temperature"])
        setup = code_reg("sreg", vals[0]) + code_reg("reg", vals[1])
        if tunit != "K":
            setup += "sreg.add('code_temperature', 10.0, D.temperature)\nreg.add('code_temperature', 4.0, D.temperature)\n"
        if rng.random() < 0.5:
            setup += "reg.modify('K', 1.5)\n"
        setup += f"S = UnitSystem({name!r}, 'code_length', 'code_mass', 'code_time', temperature_unit={tunit!r}, registry=sreg)\n"
        if rng.random() < 0.6:
            setup += "S['velocity'] = 'code_length/code_time'\n"
        cns = dict(ns)
        try:
            exec(setup, cns)
        except Exception as e:
            chk.fail(f"code-setup|{core.exc_name(e)}", f"a code-unit system could not be built: {core.exc_name(e)}", {"python": ORACLE + "\n" + setup})
            unit_system_registry.pop(name, None)
            continue
        created.append(name)
        pool = ["code_length", "code_mass", "code_time", "kcode_time", "code_length/code_time", "code_mass/code_length**3", "m", "km", "g/cm**3",
                "erg", "J", "K", "degC", "km/s", "code_length*km", "Msun/kpc**3", "code_mass*code_length**2/code_time**2", "statC", "T"]
        pool += [gen.random_compound(rng, 3) for _ in range(3 if tier == "quick" else 12)]
        reg_cases("code", "code", "code-added", name, setup, "reg", cns["reg"], pool)
        reg_cases("code", "code", "same-registry", name, setup, "sreg", cns["sreg"], pool[:8])
        memo_audit("code", name, setup=setup, regcode="sreg")

    if os.environ.get("C10_DEBUG"):
        print(f"section 6b took {_time.time() - _t6b:.1f} s")
    # default system of a registry: in_base() == in_base('mks')
    for us in ("km", "erg/s", "statC", "degF"):
        q = unyt_quantity(2.0, us)
        a, b = q.in_base(), q.in_base("mks")
        chk.count("default-system")
        if a.units.expr != b.units.expr or not core.close(float(a.v), float(b.v)):
            chk.fail("default-system", f"in_base() of {us} differs from in_base('mks')",
                     {"python": f"from unyt import unyt_quantity\nq = unyt_quantity(2.0, {us!r})\na, b = q.in_base(), q.in_base('mks')\nassert a.units.expr == b.units.expr and abs(float(a.v)-float(b.v)) <= 1e-12*abs(float(b.v))\n"})

    for sname in builtin:
        memo_audit("builtin", sname)

    # ------------------------------------------------------------------ 7. the model on the same inputs
    rep = ask(verdict_lines)
    for r, (sname, uname, verdict) in zip(rep, verdict_expect):
        chk.count("model:verdict")
        if r[0] == "nomodel":
            break
        if r[0] != "ok" or r[1] != verdict:
            chk.disagree("c10.verdict", f"{uname}.in_base({sname!r}): the kernel-decided classifier says {r[1:]}, the library behaves as {verdict}")
    # the literal exclusion lists and the known findings are in one-to-one correspondence
    rep = ask(["c10.exclusions"])
    if rep and rep[0][0] == "ok":
        ex_a = {tuple(p.split("|")) for p in rep[0][1].split(",") if p}
        ex_p = {tuple(p.split("|")) for p in rep[0][2].split(",") if p}
        known = {k["key"] for k in core.load_known() if k["property"] == "C10" and k.get("status") == "known" and k["key"].split("|")[0] in builtin}
        want = {f"{a}|{b}" for a, b in ex_a} | {f"{a}|{b}|prefixed" for a, b in ex_p}
        if known != want:
            chk.disagree("c10.exclusions", f"exclusion list and known findings differ: {sorted(known ^ want)[:6]}")
    rep = ask(inbase_lines)
    for r, (tag, sname, ustr, x, res, after, u) in zip(rep, inbase_expect):
        chk.count("model:inbase:" + tag)
        if r[0] == "nomodel":
            break
        where = f"[{tag}] {ustr}.in_base({sname!r}) x={x}"
        if res[0] == "err":
            if r[0] != "err" or r[1] != res[1]:
                chk.disagree("c10.inbase", f"{where}: library raised {res[1]}, model {r[:2]}")
            continue
        lr = res[1]
        if r[0] != "ok":
            chk.disagree("c10.inbase", f"{where}: library returned {lr}, model {r[:2]}")
            continue
        try:
            lc, lf = gen.expr_wire(lr.units.expr)
        except ValueError:
            continue
        ok = (gen.parse_factors(r[5]) == gen.parse_factors(lf) and core.close(core.b2f(r[4]), core.b2f(lc))
              and r[3] == gen.dim_vec(lr.units.dimensions) and core.close(core.b2f(r[1]), lr.units.base_value, 1e-11)
              and core.close(core.b2f(r[2]), lr.units.base_offset, 1e-11))
        if not ok:
            chk.disagree("c10.inbase", f"{where}: result unit differs: library {lr.units} (scale {lr.units.base_value}), model {r[1:6]}")
            continue
        my = core.b2f(r[6])
        ly = float(lr.v)
        if not (core.close(my, ly, 1e-11) or abs(my - ly) <= 1e-10 * (abs(lr.units.base_offset) + abs(u.base_offset) * abs(u.base_value / lr.units.base_value if lr.units.base_value else 1))):
            chk.disagree("c10.inbase", f"{where}: value differs: library {ly!r}, model {my!r}")
            continue
        ma = parse_um(r[7])
        if not um_subset(ma, after):
            bad = [k for k in ma if k not in after or not same_expr(ma[k], after[k])]
            chk.disagree("c10.inbase", f"{where}: units_map after the call: the model's entries {bad[:3]} are missing from or differ in the library's map (library {[after.get(k) for k in bad[:2]]}, model {[ma[k] for k in bad[:2]]})")
    rep = ask(variant_lines)
    for i, (tag, sname, ustr, x, res, u) in enumerate(variant_expect):
        if 2 * i + 1 >= len(rep) or rep[2 * i][0] == "nomodel":
            break
        for opname, r in (("c10.tobase", rep[2 * i]), ("c10.baseequiv", rep[2 * i + 1])):
            chk.count("model:" + opname[4:])
            where = f"[{tag}] {ustr} -> {sname!r} ({opname})"
            if res[0] == "err":
                if r[0] != "err" or r[1] != res[1]:
                    chk.disagree(opname, f"{where}: library raised {res[1]}, model {r[:2]}")
                continue
            lr = res[1]
            if r[0] != "ok":
                chk.disagree(opname, f"{where}: library returned {lr.units}, model {r[:2]}")
                continue
            try:
                lc, lf = gen.expr_wire(lr.units.expr)
            except ValueError:
                continue
            if not (gen.parse_factors(r[5]) == gen.parse_factors(lf) and core.close(core.b2f(r[4]), core.b2f(lc)) and r[3] == gen.dim_vec(lr.units.dimensions)):
                chk.disagree(opname, f"{where}: unit differs: library {lr.units}, model {r[4:6]}")
            elif opname == "c10.tobase":
                my, ly = core.b2f(r[6]), float(lr.v)
                if not (core.close(my, ly, 1e-11) or abs(my - ly) <= 1e-10 * (abs(lr.units.base_offset) + abs(u.base_offset) * abs(u.base_value / lr.units.base_value if lr.units.base_value else 1))):
                    chk.disagree(opname, f"{where}: value differs: library {ly!r}, model {my!r}")
    rep = ask(getitem_lines)
    for r, (sname, dv, res, after, dim) in zip(rep, getitem_expect):
        chk.count("model:getitem")
        if r[0] == "nomodel":
            break
        if res[0] == "err":
            if r[0] != "err" or r[1] != res[1]:
                chk.disagree("c10.getitem", f"{sname}[{dim}]: library raised {res[1]}, model {r[:2]}")
            continue
        if r[0] != "ok":
            chk.disagree("c10.getitem", f"{sname}[{dim}]: library returned {res[1]}, model {r[:2]}")
            continue
        lc, lf = gen.expr_wire(res[1].expr)
        if not same_expr(parse_expr_wire(r[1]), (core.b2f(lc), gen.parse_factors(lf))) or not um_subset(parse_um(r[2]), after):
            chk.disagree("c10.getitem", f"{sname}[{dim}]: library {res[1]}, model {r[1]}")
    rep = ask(memo_lines)
    for r, (sname, k, vw) in zip(rep, memo_expect):
        chk.count("model:memo-audit")
        if r[0] == "nomodel":
            break
        if r[0] != "ok" or not same_expr(parse_expr_wire(r[1]), vw):
            chk.disagree("c10.getitem", f"{sname}: memoised units_map[{k}] = {vw}, the model synthesises {r[1:2]}")
    rep = ask(init_lines)
    for r, (setup, res) in zip(rep, init_expect):
        chk.count("model:init")
        if r[0] == "nomodel":
            break
        if res[0] == "err":
            if r[0] != "err" or r[1] != {"AttributeError": "Other"}.get(res[1], res[1]):
                chk.disagree("c10.init", f"{setup.strip()}: library raised {res[1]}, model {r[:2]}")
            continue
        S = res[1]
        if r[0] != "ok":
            chk.disagree("c10.init", f"{setup.strip()}: library accepted, model {r[:2]}")
        elif not same_um(parse_um(r[2]), um_dict(S.base_units)):
            chk.disagree("c10.init", f"{setup.strip()}: base_units differ")
    rep = ask(setitem_lines)
    for r, (setup, sres, after) in zip(rep, setitem_expect):
        chk.count("model:setitem")
        if r[0] == "nomodel":
            break
        if sres[0] == "err":
            if r[0] != "err" or r[1] != sres[1]:
                chk.disagree("c10.setitem", f"{setup.strip()}: library raised {sres[1]}, model {r[:2]}")
        elif r[0] != "ok" or not same_um(parse_um(r[1]), after):
            chk.disagree("c10.setitem", f"{setup.strip()}: units_map after __setitem__ differs")

    for name in created:
        unit_system_registry.pop(name, None)
    if os.environ.get("C10_DEBUG"):
        for o, d, _c in chk.disagreements[:40]:
            print("DISAGREE", o, d[:400])
        for n, d in (chk.proof or {}).get("broken", [])[:10]:
            print("BROKEN", n, d[:600])

    rule = ("built-in systems x every atomic unit of the unit table x SI prefixes on prefixable units (4 prefixes quick, all thorough), "
            "seeded compounds (incl. EM units), seeded user-defined systems (random base units incl. prefixed, offset and quantity-valued ones, "
            "invalid ones, overrides) x units, code-unit registries, quantities of registries that re-value or re-define the base/declared symbols of "
            "the target system (built-in, user systems with and without a registry of their own, code systems of another registry) x every route; distinct = distinct (kind, system, unit) or (getitem, system, dimension); "
            "every case is a conversion into a system's base units or a look-up/synthesis/validation step of one; "
            "registry histories (accepted/rejected constructions under fresh, re-used and built-in names, getitem, setitem, look-up by name and by object): one case per history")
    chk.assumptions = [
        "the parser (parse_unyt_expr) is outside the model: expressions travel parsed",
        "the process-wide lru_cache on _check_em_conversion is not modelled (generated histories apply overrides before conversions)",
        "theorems are over exact fields; rounding is bounded by the harness tolerances only",
    ]
    return chk.finish(rule)
